/*
 * imbh - harness helper library, see imbh.h and K1_FORMAT.md.
 */
#define _GNU_SOURCE
#include <stdarg.h>
#include <stdlib.h>
#include <string.h>
#include <errno.h>

#include "imbh.h"

/* ========================================================================= */
/* bytes / hex / prng */

static int
hexval(const int c)
{
        if (c >= '0' && c <= '9')
                return c - '0';
        if (c >= 'a' && c <= 'f')
                return c - 'a' + 10;
        if (c >= 'A' && c <= 'F')
                return c - 'A' + 10;
        return -1;
}

int
imbh_hex_parse(const char *s, const size_t slen, imbh_bytes *out)
{
        out->p = NULL;
        out->n = 0;
        if (slen == 0 || (slen == 1 && s[0] == '-'))
                return 0;
        if (slen & 1)
                return -1;
        out->p = malloc(slen / 2);
        if (out->p == NULL)
                return -1;
        for (size_t i = 0; i < slen / 2; i++) {
                const int h = hexval(s[2 * i]), l = hexval(s[2 * i + 1]);

                if (h < 0 || l < 0) {
                        free(out->p);
                        out->p = NULL;
                        return -1;
                }
                out->p[i] = (uint8_t) ((h << 4) | l);
        }
        out->n = slen / 2;
        return 0;
}

void
imbh_hex_print(FILE *f, const uint8_t *p, const size_t n)
{
        static const char d[] = "0123456789abcdef";

        if (n == 0) {
                fputc('-', f);
                return;
        }
        for (size_t i = 0; i < n; i++) {
                fputc(d[p[i] >> 4], f);
                fputc(d[p[i] & 15], f);
        }
}

static void
str_reserve(imbh_str *b, const size_t extra)
{
        if (b->len + extra + 1 <= b->cap)
                return;
        size_t cap = b->cap ? b->cap : 256;

        while (cap < b->len + extra + 1)
                cap *= 2;
        b->s = realloc(b->s, cap);
        if (b->s == NULL) {
                fprintf(stderr, "imbh: out of memory\n");
                exit(2);
        }
        b->cap = cap;
}

void
imbh_str_add(imbh_str *b, const char *fmt, ...)
{
        va_list ap;
        char tmp[256];

        va_start(ap, fmt);
        const int n = vsnprintf(tmp, sizeof(tmp), fmt, ap);

        va_end(ap);
        if (n < 0)
                return;
        const size_t len = (size_t) n < sizeof(tmp) ? (size_t) n : sizeof(tmp) - 1;

        str_reserve(b, len);
        memcpy(b->s + b->len, tmp, len);
        b->len += len;
        b->s[b->len] = 0;
}

void
imbh_str_hex(imbh_str *b, const uint8_t *p, const size_t n)
{
        static const char d[] = "0123456789abcdef";

        if (n == 0) {
                imbh_str_add(b, "-");
                return;
        }
        str_reserve(b, 2 * n);
        for (size_t i = 0; i < n; i++) {
                b->s[b->len++] = d[p[i] >> 4];
                b->s[b->len++] = d[p[i] & 15];
        }
        b->s[b->len] = 0;
}

uint64_t
imbh_splitmix64(uint64_t *state)
{
        uint64_t z = (*state += UINT64_C(0x9E3779B97F4A7C15));

        z = (z ^ (z >> 30)) * UINT64_C(0xBF58476D1CE4E5B9);
        z = (z ^ (z >> 27)) * UINT64_C(0x94D049BB133111EB);
        return z ^ (z >> 31);
}

void
imbh_fill_random(uint64_t *state, uint8_t *p, size_t n)
{
        while (n) {
                uint64_t v = imbh_splitmix64(state);
                const size_t k = n < 8 ? n : 8;

                for (size_t i = 0; i < k; i++, v >>= 8)
                        p[i] = (uint8_t) v;
                p += k;
                n -= k;
        }
}

/* ========================================================================= */
/* variants */

static const char *const init_names[3] = { "sse", "avx2", "avx512" };

static unsigned
type_from_features(const int init, const uint64_t f)
{
        /* same decision ladders as lib/{sse,avx2,avx512}_t1/mb_mgr_*.c */
        switch (init) {
        case 0:
                if ((f & IMB_CPUFLAGS_SSE_T3) == IMB_CPUFLAGS_SSE_T3)
                        return 3;
                if ((f & IMB_CPUFLAGS_SSE_T2) == IMB_CPUFLAGS_SSE_T2)
                        return 2;
                return 1;
        case 1:
                if ((f & IMB_CPUFLAGS_AVX2_T4) == IMB_CPUFLAGS_AVX2_T4)
                        return 4;
                if ((f & IMB_CPUFLAGS_AVX2_T3) == IMB_CPUFLAGS_AVX2_T3)
                        return 3;
                if ((f & IMB_CPUFLAGS_AVX2_T2) == IMB_CPUFLAGS_AVX2_T2)
                        return 2;
                return 1;
        default:
                if ((f & IMB_CPUFLAGS_AVX512_T2) == IMB_CPUFLAGS_AVX512_T2)
                        return 2;
                return 1;
        }
}

/* byte range of IMB_MGR holding the installed handlers */
#define FN_BEGIN offsetof(IMB_MGR, get_next_job)
#define FN_END   offsetof(IMB_MGR, earliest_job)

int
imbh_enum_variants(imbh_variant v[IMBH_MAX_VARIANTS])
{
        int n = 0;

        for (int init = 0; init < 3; init++) {
                for (uint64_t flags = 0; flags < IMBH_NUM_FLAGS; flags++) {
                        IMB_MGR *mgr = alloc_mb_mgr(flags);

                        if (mgr == NULL)
                                continue;
                        /* init would run the self test (and crash) without the CPU flags */
                        const uint64_t need = init == 0   ? IMB_CPUFLAGS_SSE
                                              : init == 1 ? IMB_CPUFLAGS_AVX2
                                                          : IMB_CPUFLAGS_AVX512;
                        if ((mgr->features & need) != need) {
                                free_mb_mgr(mgr);
                                continue;
                        }
                        if (init == 0)
                                init_mb_mgr_sse(mgr);
                        else if (init == 1)
                                init_mb_mgr_avx2(mgr);
                        else
                                init_mb_mgr_avx512(mgr);
                        if (imb_get_errno(mgr) != 0) {
                                fprintf(stderr, "imbh: init %s flags %llu: %s\n", init_names[init],
                                        (unsigned long long) flags,
                                        imb_get_strerror(imb_get_errno(mgr)));
                                free_mb_mgr(mgr);
                                continue;
                        }

                        int dup = -1;

                        for (int i = 0; i < n && dup < 0; i++)
                                if (v[i].used_arch == mgr->used_arch &&
                                    v[i].arch_type == mgr->used_arch_type &&
                                    memcmp((const uint8_t *) v[i].mgr + FN_BEGIN,
                                           (const uint8_t *) mgr + FN_BEGIN,
                                           FN_END - FN_BEGIN) == 0)
                                        dup = i;
                        if (dup >= 0) {
                                const size_t l = strlen(v[dup].aliases);

                                snprintf(v[dup].aliases + l, sizeof(v[dup].aliases) - l, "%s%s:f%llu",
                                         l ? "," : "", init_names[init],
                                         (unsigned long long) flags);
                                free_mb_mgr(mgr);
                                continue;
                        }

                        imbh_variant *e = &v[n++];
                        uint64_t h = UINT64_C(0xcbf29ce484222325);

                        memset(e, 0, sizeof(*e));
                        for (size_t i = FN_BEGIN; i < FN_END; i++)
                                h = (h ^ ((const uint8_t *) mgr)[i]) * UINT64_C(0x100000001b3);
                        snprintf(e->name, sizeof(e->name), "%s:f%llu", init_names[init],
                                 (unsigned long long) flags);
                        e->init = init;
                        e->flags = flags;
                        e->used_arch = mgr->used_arch;
                        e->arch_type = mgr->used_arch_type;
                        e->want_type = type_from_features(init, mgr->features);
                        e->features = mgr->features;
                        e->fn_hash = h;
                        e->mgr = mgr;
                }
        }
        return n;
}

void
imbh_print_variants(FILE *f, const imbh_variant *v, const int n)
{
        static const char *const arch[] = { "none", "sse", "avx2", "avx512" };

        fprintf(f, "# variant used_arch features type(mgr) type(features) handler-hash aliases\n");
        for (int i = 0; i < n; i++)
                fprintf(f,
                        "variant=%s used_arch=%u(%s) features=0x%llx type=t%u ftype=t%u "
                        "fnhash=%016llx aliases=%s\n",
                        v[i].name, v[i].used_arch,
                        v[i].used_arch < IMB_ARCH_NUM ? arch[v[i].used_arch] : "?",
                        (unsigned long long) v[i].features, v[i].arch_type, v[i].want_type,
                        (unsigned long long) v[i].fn_hash, v[i].aliases[0] ? v[i].aliases : "-");
}

/* ========================================================================= */
/* work-item parsing */

static int
parse_u64(const char *s, const size_t n, uint64_t *out)
{
        char tmp[40], *end = NULL;

        if (n == 0 || n >= sizeof(tmp))
                return -1;
        memcpy(tmp, s, n);
        tmp[n] = 0;
        errno = 0;
        *out = strtoull(tmp, &end, 0);
        return (errno != 0 || *end != 0 || tmp[0] == '-') ? -1 : 0;
}

static int
parse_nullmask(const char *s, const size_t n, unsigned *mask)
{
        static const struct {
                const char *name;
                unsigned bit;
        } tab[] = { { "src", IMBH_NULL_SRC },   { "dst", IMBH_NULL_DST }, { "iv", IMBH_NULL_IV },
                    { "key", IMBH_NULL_KEY },   { "akey", IMBH_NULL_AKEY }, { "aad", IMBH_NULL_AAD },
                    { "tag", IMBH_NULL_TAG },   { "aiv", IMBH_NULL_AIV }, { "niv", IMBH_NULL_NIV } };
        size_t pos = 0;

        *mask = 0;
        while (pos < n) {
                size_t e = pos;

                while (e < n && s[e] != ',')
                        e++;
                unsigned bit = 0;

                for (size_t i = 0; i < IMB_DIM(tab); i++)
                        if (strlen(tab[i].name) == e - pos && !memcmp(tab[i].name, s + pos, e - pos))
                                bit = tab[i].bit;
                if (bit == 0 && !(e - pos == 1 && s[pos] == '-'))
                        return -1;
                *mask |= bit;
                pos = e + 1;
        }
        return 0;
}

void
imbh_item_free(imbh_item *it)
{
        imbh_bytes *b[] = { &it->key, &it->akey, &it->iv,   &it->aiv,
                            &it->aad, &it->msg,  &it->xout, &it->xtag };

        for (size_t i = 0; i < IMB_DIM(b); i++) {
                free(b[i]->p);
                b[i]->p = NULL;
                b[i]->n = 0;
        }
}

#define ITEM_FAIL(...)                                                                             \
        do {                                                                                       \
                snprintf(it->err, sizeof(it->err), __VA_ARGS__);                                   \
                it->bad = 1;                                                                       \
                return -1;                                                                         \
        } while (0)

int
imbh_item_parse(const char *line, imbh_item *it)
{
        unsigned seen = 0;
        enum { S_ID = 1, S_CIPHER = 2, S_DIR = 4, S_HASH = 8, S_MSG = 16 };

        memset(it, 0, sizeof(*it));
        it->id = -1;
        it->order = IMB_ORDER_CIPHER_HASH;
        it->dir = IMB_DIR_ENCRYPT;
        it->doff = -1;
        it->xoff = -1;
        it->xbits = -1;
        it->xstatus = IMB_STATUS_COMPLETED;

        const char *p = line;

        while (*p) {
                while (*p == ' ' || *p == '\t' || *p == '\r' || *p == '\n')
                        p++;
                if (*p == 0 || *p == '#')
                        break;
                const char *k = p;

                while (*p && *p != '=' && *p != ' ' && *p != '\t' && *p != '\n')
                        p++;
                if (*p != '=')
                        ITEM_FAIL("token without '='");
                const size_t klen = (size_t) (p - k);
                const char *val = ++p;

                while (*p && *p != ' ' && *p != '\t' && *p != '\r' && *p != '\n')
                        p++;
                const size_t vlen = (size_t) (p - val);
                uint64_t u = 0;
                imbh_bytes *hex = NULL;

#define KEY(s) (klen == sizeof(s) - 1 && !memcmp(k, s, klen))
                if (KEY("key"))
                        hex = &it->key;
                else if (KEY("akey"))
                        hex = &it->akey;
                else if (KEY("iv"))
                        hex = &it->iv;
                else if (KEY("aiv"))
                        hex = &it->aiv;
                else if (KEY("aad"))
                        hex = &it->aad;
                else if (KEY("msg")) {
                        hex = &it->msg;
                        seen |= S_MSG;
                } else if (KEY("xout"))
                        hex = &it->xout;
                else if (KEY("xtag"))
                        hex = &it->xtag;
                if (hex != NULL) {
                        free(hex->p);
                        if (imbh_hex_parse(val, vlen, hex) != 0)
                                ITEM_FAIL("bad hex in %.*s", (int) klen, k);
                        continue;
                }
                if (KEY("name")) {
                        snprintf(it->name, sizeof(it->name), "%.*s", (int) vlen, val);
                        continue;
                }
                if (KEY("null")) {
                        if (parse_nullmask(val, vlen, &it->nullmask) != 0)
                                ITEM_FAIL("bad null= list");
                        continue;
                }
                if (parse_u64(val, vlen, &u) != 0)
                        ITEM_FAIL("bad integer in %.*s", (int) klen, k);
                if (KEY("id")) {
                        it->id = (long) u;
                        seen |= S_ID;
                } else if (KEY("cipher")) {
                        it->cipher = (int) u;
                        seen |= S_CIPHER;
                } else if (KEY("dir")) {
                        it->dir = (int) u;
                        seen |= S_DIR;
                } else if (KEY("hash")) {
                        it->hash = (int) u;
                        seen |= S_HASH;
                } else if (KEY("order"))
                        it->order = (int) u;
                else if (KEY("coff"))
                        it->coff = u;
                else if (KEY("clen"))
                        it->clen = u;
                else if (KEY("hoff"))
                        it->hoff = u;
                else if (KEY("hlen"))
                        it->hlen = u;
                else if (KEY("tag"))
                        it->tag = u;
                else if (KEY("inplace"))
                        it->inplace = u != 0;
                else if (KEY("salign"))
                        it->salign = (int) (u & 63);
                else if (KEY("dalign"))
                        it->dalign = (int) (u & 63);
                else if (KEY("doff"))
                        it->doff = (int64_t) u;
                else if (KEY("unsafe"))
                        it->unsafe = u != 0;
                else if (KEY("hdst"))
                        it->hdst = u != 0;
                else if (KEY("xoff"))
                        it->xoff = (int64_t) u;
                else if (KEY("xbitoff"))
                        it->xbitoff = (int) (u & 7);
                else if (KEY("xbits"))
                        it->xbits = (int64_t) u;
                else if (KEY("xstatus"))
                        it->xstatus = (int) u;
                else if (KEY("xloose"))
                        it->xloose = u != 0;
                else
                        ITEM_FAIL("unknown token %.*s", (int) klen, k);
#undef KEY
        }
        if ((seen & (S_ID | S_CIPHER | S_HASH)) != (S_ID | S_CIPHER | S_HASH))
                ITEM_FAIL("id=, cipher= and hash= are mandatory");
        if (it->cipher == IMB_CIPHER_CUSTOM || it->hash == IMB_AUTH_CUSTOM)
                ITEM_FAIL("CUSTOM cipher/hash not supported");
        if (it->cipher == IMB_CIPHER_GCM_SGL || it->cipher == IMB_CIPHER_CHACHA20_POLY1305_SGL ||
            it->hash == IMB_AUTH_GCM_SGL || it->hash == IMB_AUTH_CHACHA20_POLY1305_SGL)
                ITEM_FAIL("SGL modes are handled by a different harness");
        return 0;
}

/* ========================================================================= */
/* algorithm classification */

static int
cipher_len_in_bits(const int c)
{
        return c == IMB_CIPHER_CNTR_BITLEN || c == IMB_CIPHER_SNOW3G_UEA2_BITLEN ||
               c == IMB_CIPHER_KASUMI_UEA1_BITLEN;
}

static int
cipher_off_in_bits(const int c)
{
        return c == IMB_CIPHER_SNOW3G_UEA2_BITLEN || c == IMB_CIPHER_KASUMI_UEA1_BITLEN;
}

static int
hash_len_in_bits(const int h)
{
        return h == IMB_AUTH_AES_CMAC_BITLEN || h == IMB_AUTH_ZUC_EIA3_BITLEN ||
               h == IMB_AUTH_ZUC256_EIA3_BITLEN || h == IMB_AUTH_SNOW3G_UIA2_BITLEN;
}

static int
is_crc_hash(const int h)
{
        return h >= IMB_AUTH_CRC32_ETHERNET_FCS && h <= IMB_AUTH_CRC6_IUUP_HEADER;
}

/* Offset (bytes) added to the dst area base to form job->dst, see K1_FORMAT.md */
static uint64_t
dst_ptr_offset(const imbh_item *it)
{
        uint64_t off;

        if (it->doff >= 0)
                off = (uint64_t) it->doff;
        else if (it->cipher == IMB_CIPHER_NULL)
                off = 0;
        else if (cipher_off_in_bits(it->cipher))
                /* bit path: library applies the bit offset to src and dst itself */
                off = ((it->coff | it->clen) & 7) ? 0 : it->coff / 8;
        else
                off = it->coff;
        return off > it->msg.n ? 0 : off; /* only reachable for unsafe/invalid items */
}

/* Do the cipher/hash ranges stay inside the message buffer? */
static int
ranges_ok(const imbh_item *it)
{
        const uint64_t n = it->msg.n;
        uint64_t cend = 0, hend = 0;

        if (it->cipher != IMB_CIPHER_NULL) {
                if (it->coff > (UINT64_C(1) << 40) || it->clen > (UINT64_C(1) << 40))
                        return 0;
                if (cipher_off_in_bits(it->cipher))
                        cend = (it->coff + it->clen + 7) / 8;
                else if (cipher_len_in_bits(it->cipher))
                        cend = it->coff + (it->clen + 7) / 8;
                else
                        cend = it->coff + it->clen;
        }
        if (it->hash != IMB_AUTH_NULL) {
                if (it->hoff > (UINT64_C(1) << 40) || it->hlen > (UINT64_C(1) << 40))
                        return 0;
                hend = it->hoff + (hash_len_in_bits(it->hash) ? (it->hlen + 7) / 8 : it->hlen);
                /* DOCSIS: the CRC is stored right behind the hashed range */
                if (it->hash == IMB_AUTH_DOCSIS_CRC32 && it->hlen >= 14)
                        hend += IMB_DOCSIS_CRC32_TAG_SIZE;
        }
        if (it->doff >= 0 && (uint64_t) it->doff > n)
                return 0;
        return cend <= n && hend <= n;
}

/* ========================================================================= */
/* key preparation */

#define AL(x) __attribute__((aligned(x)))

struct imbh_keys {
        struct gcm_key_data gcm;  /* GCM / SM4-GCM cipher key */
        struct gcm_key_data gmac; /* GMAC / GHASH auth key */
        uint32_t enc[15 * 4] AL(16);
        uint32_t dec[15 * 4] AL(16);
        uint64_t des_ks[3][IMB_DES_KEY_SCHED_SIZE / 8] AL(16);
        const void *ks_ptr[3];
        uint32_t k1_exp[15 * 4] AL(16); /* XCBC k1 / CMAC expanded key */
        uint32_t dust[15 * 4] AL(16);   /* unused decrypt schedule of the CMAC key */
        uint8_t k2[16] AL(16);          /* XCBC k2 / CMAC subkey 1 */
        uint8_t k3[16] AL(16);          /* XCBC k3 / CMAC subkey 2 */
        uint8_t ipad[IMB_SHA_512_BLOCK_SIZE] AL(16);
        uint8_t opad[IMB_SHA_512_BLOCK_SIZE] AL(16);
        uint8_t raw_c[64] AL(16); /* raw cipher key (ZUC, ChaCha20, SNOW-V) */
        uint8_t raw_a[64] AL(16); /* raw auth key (ZUC-EIA3, Poly1305) */
        kasumi_key_sched_t kas_c, kas_a;
        snow3g_key_schedule_t *snow3g_c, *snow3g_a;
        uint8_t next_iv[16] AL(16);
        const void *enc_ptr, *dec_ptr; /* what goes into job->enc_keys / dec_keys */
        int akey_set;                  /* auth key material is valid */
};

static void
prep_cipher_keys(IMB_MGR *mgr, const imbh_item *it, struct imbh_keys *k)
{
        const uint8_t *key = it->key.p;
        const size_t n = it->key.n;

        k->enc_ptr = k->dec_ptr = NULL;
        if (n == 0 || (it->nullmask & IMBH_NULL_KEY))
                return;

        switch (it->cipher) {
        case IMB_CIPHER_NULL:
                break;
        case IMB_CIPHER_CBC:
        case IMB_CIPHER_CBCS_1_9:
        case IMB_CIPHER_ECB:
        case IMB_CIPHER_DOCSIS_SEC_BPI:
        case IMB_CIPHER_CNTR:
        case IMB_CIPHER_CNTR_BITLEN:
        case IMB_CIPHER_CCM:
        case IMB_CIPHER_PON_AES_CNTR:
        case IMB_CIPHER_CFB:
                if (n == 16)
                        IMB_AES_KEYEXP_128(mgr, key, k->enc, k->dec);
                else if (n == 24)
                        IMB_AES_KEYEXP_192(mgr, key, k->enc, k->dec);
                else if (n == 32)
                        IMB_AES_KEYEXP_256(mgr, key, k->enc, k->dec);
                k->enc_ptr = k->enc;
                /* decrypt schedule only for the modes running the inverse cipher */
                k->dec_ptr = (it->cipher == IMB_CIPHER_CBC || it->cipher == IMB_CIPHER_CBCS_1_9 ||
                              it->cipher == IMB_CIPHER_ECB ||
                              it->cipher == IMB_CIPHER_DOCSIS_SEC_BPI)
                                     ? k->dec
                                     : k->enc;
                break;
        case IMB_CIPHER_GCM:
                if (n == 16)
                        IMB_AES128_GCM_PRE(mgr, key, &k->gcm);
                else if (n == 24)
                        IMB_AES192_GCM_PRE(mgr, key, &k->gcm);
                else if (n == 32)
                        IMB_AES256_GCM_PRE(mgr, key, &k->gcm);
                k->enc_ptr = k->dec_ptr = &k->gcm;
                break;
        case IMB_CIPHER_SM4_GCM:
                if (n == 16)
                        imb_sm4_gcm_pre(mgr, key, &k->gcm);
                k->enc_ptr = k->dec_ptr = &k->gcm;
                break;
        case IMB_CIPHER_DES:
        case IMB_CIPHER_DOCSIS_DES:
                if (n == 8)
                        IMB_DES_KEYSCHED(mgr, k->des_ks[0], key);
                k->enc_ptr = k->dec_ptr = k->des_ks[0];
                break;
        case IMB_CIPHER_DES3:
                if (n == 24)
                        for (int i = 0; i < 3; i++)
                                IMB_DES_KEYSCHED(mgr, k->des_ks[i], key + 8 * i);
                for (int i = 0; i < 3; i++)
                        k->ks_ptr[i] = k->des_ks[i];
                k->enc_ptr = k->dec_ptr = k->ks_ptr;
                break;
        case IMB_CIPHER_SM4_ECB:
        case IMB_CIPHER_SM4_CBC:
        case IMB_CIPHER_SM4_CNTR:
                if (n == 16)
                        IMB_SM4_KEYEXP(mgr, key, k->enc, k->dec);
                k->enc_ptr = k->enc;
                k->dec_ptr = it->cipher == IMB_CIPHER_SM4_CNTR ? k->enc : k->dec;
                break;
        case IMB_CIPHER_SNOW3G_UEA2_BITLEN:
                if (n == 16)
                        IMB_SNOW3G_INIT_KEY_SCHED(mgr, key, k->snow3g_c);
                k->enc_ptr = k->dec_ptr = k->snow3g_c;
                break;
        case IMB_CIPHER_KASUMI_UEA1_BITLEN:
                if (n == 16)
                        IMB_KASUMI_INIT_F8_KEY_SCHED(mgr, key, &k->kas_c);
                k->enc_ptr = k->dec_ptr = &k->kas_c;
                break;
        case IMB_CIPHER_ZUC_EEA3:
        case IMB_CIPHER_CHACHA20:
        case IMB_CIPHER_CHACHA20_POLY1305:
        case IMB_CIPHER_SNOW_V:
        case IMB_CIPHER_SNOW_V_AEAD:
        default: /* raw key pointer */
                memcpy(k->raw_c, key, n < sizeof(k->raw_c) ? n : sizeof(k->raw_c));
                k->enc_ptr = k->dec_ptr = k->raw_c;
                break;
        }
}

/* returns 0 or IMBH_EPREP_AKEY */
static int
prep_auth_keys(IMB_MGR *mgr, const imbh_item *it, struct imbh_keys *k)
{
        const uint8_t *key = it->akey.p;
        const size_t n = it->akey.n;
        size_t want = 0;

        k->akey_set = 0;
        switch (it->hash) {
        case IMB_AUTH_HMAC_SHA_1:
        case IMB_AUTH_HMAC_SHA_224:
        case IMB_AUTH_HMAC_SHA_256:
        case IMB_AUTH_HMAC_SHA_384:
        case IMB_AUTH_HMAC_SHA_512:
        case IMB_AUTH_MD5:
        case IMB_AUTH_HMAC_SM3:
                want = n; /* any non-zero length */
                break;
        case IMB_AUTH_AES_XCBC:
        case IMB_AUTH_AES_CMAC:
        case IMB_AUTH_AES_CMAC_BITLEN:
        case IMB_AUTH_AES_GMAC_128:
        case IMB_AUTH_GHASH:
        case IMB_AUTH_ZUC_EIA3_BITLEN:
        case IMB_AUTH_SNOW3G_UIA2_BITLEN:
        case IMB_AUTH_KASUMI_UIA1:
                want = 16;
                break;
        case IMB_AUTH_AES_GMAC_192:
                want = 24;
                break;
        case IMB_AUTH_AES_CMAC_256:
        case IMB_AUTH_AES_GMAC_256:
        case IMB_AUTH_ZUC256_EIA3_BITLEN:
        case IMB_AUTH_POLY1305:
                want = 32;
                break;
        default:
                return 0; /* no separate auth key */
        }
        if (n == 0 || (it->nullmask & IMBH_NULL_AKEY))
                return 0; /* job gets NULL pointers, the library has to reject it */
        if (n != want)
                return IMBH_EPREP_AKEY;

        switch (it->hash) {
        case IMB_AUTH_HMAC_SHA_1:
        case IMB_AUTH_HMAC_SHA_224:
        case IMB_AUTH_HMAC_SHA_256:
        case IMB_AUTH_HMAC_SHA_384:
        case IMB_AUTH_HMAC_SHA_512:
        case IMB_AUTH_MD5:
        case IMB_AUTH_HMAC_SM3:
                imb_hmac_ipad_opad(mgr, it->hash, key, n, k->ipad, k->opad);
                if (imb_get_errno(mgr) != 0) /* e.g. HMAC-MD5 key longer than a block */
                        return IMBH_EPREP_AKEY;
                break;
        case IMB_AUTH_AES_XCBC:
                IMB_AES_XCBC_KEYEXP(mgr, key, k->k1_exp, k->k2, k->k3);
                break;
        case IMB_AUTH_AES_CMAC:
        case IMB_AUTH_AES_CMAC_BITLEN:
                IMB_AES_KEYEXP_128(mgr, key, k->k1_exp, k->dust);
                IMB_AES_CMAC_SUBKEY_GEN_128(mgr, k->k1_exp, k->k2, k->k3);
                break;
        case IMB_AUTH_AES_CMAC_256:
                IMB_AES_KEYEXP_256(mgr, key, k->k1_exp, k->dust);
                IMB_AES_CMAC_SUBKEY_GEN_256(mgr, k->k1_exp, k->k2, k->k3);
                break;
        case IMB_AUTH_AES_GMAC_128:
                IMB_AES128_GCM_PRE(mgr, key, &k->gmac);
                break;
        case IMB_AUTH_AES_GMAC_192:
                IMB_AES192_GCM_PRE(mgr, key, &k->gmac);
                break;
        case IMB_AUTH_AES_GMAC_256:
                IMB_AES256_GCM_PRE(mgr, key, &k->gmac);
                break;
        case IMB_AUTH_GHASH:
                IMB_GHASH_PRE(mgr, key, &k->gmac);
                break;
        case IMB_AUTH_SNOW3G_UIA2_BITLEN:
                IMB_SNOW3G_INIT_KEY_SCHED(mgr, key, k->snow3g_a);
                break;
        case IMB_AUTH_KASUMI_UIA1:
                IMB_KASUMI_INIT_F9_KEY_SCHED(mgr, key, &k->kas_a);
                break;
        default: /* ZUC-EIA3, ZUC256-EIA3, Poly1305: raw key */
                memcpy(k->raw_a, key, n);
                break;
        }
        k->akey_set = 1;
        return 0;
}

/* ========================================================================= */
/* buffers */

static uint8_t
canary_byte(const long id, const size_t i)
{
        return (uint8_t) (0xA5 ^ (uint8_t) ((size_t) id * 13 + i));
}

#define GUARD_EXTRA (4 * IMBH_CANARY)

/* allocation of len + GUARD_EXTRA bytes, region at 64 + misalign, rest is canary */
static uint8_t *
guard_alloc(const size_t len, const int misalign, const long id, uint8_t **region)
{
        void *a = NULL;

        if (posix_memalign(&a, 64, len + GUARD_EXTRA) != 0) {
                fprintf(stderr, "imbh: out of memory\n");
                exit(2);
        }
        for (size_t i = 0; i < len + GUARD_EXTRA; i++)
                ((uint8_t *) a)[i] = canary_byte(id, i);
        *region = (uint8_t *) a + IMBH_CANARY + misalign;
        return a;
}

static int
guard_intact(const uint8_t *a, const uint8_t *region, const size_t len, const long id)
{
        const size_t start = (size_t) (region - a);

        for (size_t i = 0; i < len + GUARD_EXTRA; i++)
                if ((i < start || i >= start + len) && a[i] != canary_byte(id, i))
                        return 0;
        return 1;
}

static uint8_t *
padded_copy(const imbh_bytes *b)
{
        void *a = NULL;

        if (b->n == 0)
                return NULL;
        const size_t sz = ((b->n + 63) & ~(size_t) 63) + 64;

        if (posix_memalign(&a, 64, sz) != 0) {
                fprintf(stderr, "imbh: out of memory\n");
                exit(2);
        }
        memset(a, 0, sz);
        memcpy(a, b->p, b->n);
        return a;
}

imbh_run *
imbh_run_new(IMB_MGR *mgr, const imbh_item *it)
{
        imbh_run *r = calloc(1, sizeof(*r));
        void *kp = NULL;

        if (r == NULL || posix_memalign(&kp, 64, sizeof(struct imbh_keys)) != 0) {
                fprintf(stderr, "imbh: out of memory\n");
                exit(2);
        }
        r->it = it;
        r->mgr = mgr;
        r->keys = kp;
        memset(r->keys, 0, sizeof(*r->keys));
        if (it->bad) {
                r->prep_err = IMBH_EPREP_PARSE;
                return r;
        }
        if (!it->unsafe && !ranges_ok(it)) {
                r->prep_err = IMBH_EPREP_RANGE;
                return r;
        }

        r->src_alloc = guard_alloc(it->msg.n, it->salign, it->id, &r->src);
        if (it->msg.n)
                memcpy(r->src, it->msg.p, it->msg.n);
        if (!it->inplace) {
                r->dst_alloc = guard_alloc(it->msg.n, it->dalign, it->id, &r->dst);
                for (size_t i = 0; i < it->msg.n; i++)
                        r->dst[i] = (uint8_t) (0xC3 ^ i);
        }
        r->tag_room = it->tag > 4096 ? 4096 : (size_t) it->tag;
        r->tag_alloc = guard_alloc(r->tag_room, 0, it->id, &r->tag);
        for (size_t i = 0; i < r->tag_room; i++)
                r->tag[i] = (uint8_t) (0x3C ^ i);
        r->iv = padded_copy(&it->iv);
        r->aiv = padded_copy(&it->aiv);
        r->aad = padded_copy(&it->aad);

        struct imbh_keys *k = r->keys;
        const size_t ks = IMB_SNOW3G_KEY_SCHED_SIZE(mgr);

        k->snow3g_c = calloc(1, ks ? ks : sizeof(snow3g_key_schedule_t));
        k->snow3g_a = calloc(1, ks ? ks : sizeof(snow3g_key_schedule_t));
        prep_cipher_keys(mgr, it, k);
        r->prep_err = prep_auth_keys(mgr, it, k);
        return r;
}

void
imbh_run_free(imbh_run *r)
{
        if (r == NULL)
                return;
        free(r->src_alloc);
        free(r->dst_alloc);
        free(r->tag_alloc);
        free(r->iv);
        free(r->aiv);
        free(r->aad);
        if (r->keys != NULL) {
                free(r->keys->snow3g_c);
                free(r->keys->snow3g_a);
                free(r->keys);
        }
        free(r);
}

const uint8_t *
imbh_out_area(const imbh_run *r, size_t *len)
{
        *len = r->it->msg.n;
        return r->it->inplace ? r->src : r->dst;
}

/* ========================================================================= */
/* job filling */

void
imbh_fill_job(IMB_JOB *job, imbh_run *r)
{
        const imbh_item *it = r->it;
        const struct imbh_keys *k = r->keys;
        const unsigned nm = it->nullmask;
        uint8_t *dbase = it->inplace ? r->src : r->dst;
        const void *akey = k->akey_set ? (const void *) k->raw_a : NULL;
        const void *aiv = (nm & IMBH_NULL_AIV) ? NULL : r->aiv;
        const void *aad = (nm & IMBH_NULL_AAD) ? NULL : r->aad;

        memset(job, 0, sizeof(*job));
        job->cipher_mode = (IMB_CIPHER_MODE) it->cipher;
        job->cipher_direction = (IMB_CIPHER_DIRECTION) it->dir;
        job->hash_alg = (IMB_HASH_ALG) it->hash;
        job->chain_order = (IMB_CHAIN_ORDER) it->order;
        job->user_data = r;

        job->src = (nm & IMBH_NULL_SRC) ? NULL : r->src;
        job->dst = (nm & IMBH_NULL_DST) ? NULL : dbase + dst_ptr_offset(it);
        /* unions: bytes or bits depending on the algorithm */
        job->cipher_start_src_offset_in_bytes = it->coff;
        job->msg_len_to_cipher_in_bytes = it->clen;
        /* hash offsets count from src; reaching the dst area takes a pointer difference */
        job->hash_start_src_offset_in_bytes =
                it->hoff + (it->hdst ? (uint64_t) ((uintptr_t) dbase - (uintptr_t) r->src) : 0);
        job->msg_len_to_hash_in_bytes = it->hlen;

        job->iv = (nm & IMBH_NULL_IV) ? NULL : r->iv;
        job->iv_len_in_bytes = it->iv.n;
        job->enc_keys = k->enc_ptr;
        job->dec_keys = k->dec_ptr;
        job->key_len_in_bytes = it->key.n;
        job->auth_tag_output = (nm & IMBH_NULL_TAG) ? NULL : r->tag;
        job->auth_tag_output_len_in_bytes = it->tag;
        if (it->cipher == IMB_CIPHER_CBCS_1_9)
                job->cipher_fields.CBCS.next_iv =
                        (nm & IMBH_NULL_NIV) ? NULL : (void *) r->keys->next_iv;

        switch (it->hash) {
        case IMB_AUTH_HMAC_SHA_1:
        case IMB_AUTH_HMAC_SHA_224:
        case IMB_AUTH_HMAC_SHA_256:
        case IMB_AUTH_HMAC_SHA_384:
        case IMB_AUTH_HMAC_SHA_512:
        case IMB_AUTH_MD5:
        case IMB_AUTH_HMAC_SM3:
                job->u.HMAC._hashed_auth_key_xor_ipad = k->akey_set ? k->ipad : NULL;
                job->u.HMAC._hashed_auth_key_xor_opad = k->akey_set ? k->opad : NULL;
                break;
        case IMB_AUTH_AES_XCBC:
                job->u.XCBC._k1_expanded = k->akey_set ? k->k1_exp : NULL;
                job->u.XCBC._k2 = k->akey_set ? k->k2 : NULL;
                job->u.XCBC._k3 = k->akey_set ? k->k3 : NULL;
                break;
        case IMB_AUTH_AES_CMAC:
        case IMB_AUTH_AES_CMAC_BITLEN:
        case IMB_AUTH_AES_CMAC_256:
                job->u.CMAC._key_expanded = k->akey_set ? k->k1_exp : NULL;
                job->u.CMAC._skey1 = k->akey_set ? k->k2 : NULL;
                job->u.CMAC._skey2 = k->akey_set ? k->k3 : NULL;
                break;
        case IMB_AUTH_AES_GMAC: /* with IMB_CIPHER_GCM */
        case IMB_AUTH_SM4_GCM:
                job->u.GCM.aad = aad;
                job->u.GCM.aad_len_in_bytes = it->aad.n;
                break;
        case IMB_AUTH_AES_CCM:
                job->u.CCM.aad = aad;
                job->u.CCM.aad_len_in_bytes = it->aad.n;
                break;
        case IMB_AUTH_CHACHA20_POLY1305:
                job->u.CHACHA20_POLY1305.aad = aad;
                job->u.CHACHA20_POLY1305.aad_len_in_bytes = it->aad.n;
                break;
        case IMB_AUTH_SNOW_V_AEAD:
                job->u.SNOW_V_AEAD.aad = aad;
                job->u.SNOW_V_AEAD.aad_len_in_bytes = it->aad.n;
                break;
        case IMB_AUTH_ZUC_EIA3_BITLEN:
                job->u.ZUC_EIA3._key = akey;
                job->u.ZUC_EIA3._iv = aiv;
                break;
        case IMB_AUTH_ZUC256_EIA3_BITLEN:
                job->u.ZUC_EIA3._key = akey;
                if (it->aiv.n == 23)
                        job->u.ZUC_EIA3._iv23 = aiv;
                else
                        job->u.ZUC_EIA3._iv = aiv;
                break;
        case IMB_AUTH_SNOW3G_UIA2_BITLEN:
                job->u.SNOW3G_UIA2._key = k->akey_set ? k->snow3g_a : NULL;
                job->u.SNOW3G_UIA2._iv = aiv;
                break;
        case IMB_AUTH_KASUMI_UIA1:
                job->u.KASUMI_UIA1._key = k->akey_set ? &k->kas_a : NULL;
                break;
        case IMB_AUTH_AES_GMAC_128:
        case IMB_AUTH_AES_GMAC_192:
        case IMB_AUTH_AES_GMAC_256:
                job->u.GMAC._key = k->akey_set ? &k->gmac : NULL;
                job->u.GMAC._iv = aiv;
                job->u.GMAC.iv_len_in_bytes = it->aiv.n;
                break;
        case IMB_AUTH_GHASH:
                job->u.GHASH._key = k->akey_set ? &k->gmac : NULL;
                job->u.GHASH._init_tag = aiv;
                break;
        case IMB_AUTH_POLY1305:
                job->u.POLY1305._key = akey;
                break;
        default: /* NULL, plain SHA/SM3, CRC, PON_CRC_BIP, DOCSIS_CRC32: nothing */
                break;
        }
}

/* ========================================================================= */
/* entry point applicability */

/* 0 none, 1 cipher burst, 2 hash burst, 3 AEAD burst (lib/include/mb_mgr_burst.h) */
static int
sync_class(const imbh_item *it)
{
        if (it->hash == IMB_AUTH_NULL &&
            (it->cipher == IMB_CIPHER_CBC || it->cipher == IMB_CIPHER_CNTR ||
             it->cipher == IMB_CIPHER_ECB || it->cipher == IMB_CIPHER_CFB))
                return 1;
        if (it->cipher == IMB_CIPHER_NULL)
                switch (it->hash) {
                case IMB_AUTH_HMAC_SHA_1:
                case IMB_AUTH_HMAC_SHA_224:
                case IMB_AUTH_HMAC_SHA_256:
                case IMB_AUTH_HMAC_SHA_384:
                case IMB_AUTH_HMAC_SHA_512:
                case IMB_AUTH_SHA_1:
                case IMB_AUTH_SHA_224:
                case IMB_AUTH_SHA_256:
                case IMB_AUTH_SHA_384:
                case IMB_AUTH_SHA_512:
                case IMB_AUTH_AES_CMAC:
                case IMB_AUTH_AES_CMAC_BITLEN:
                case IMB_AUTH_AES_CMAC_256:
                        return 2;
                default:
                        return 0;
                }
        if (it->cipher == IMB_CIPHER_CCM && it->hash == IMB_AUTH_AES_CCM)
                return 3;
        return 0;
}

static size_t
sha_digest_size(const int h)
{
        switch (h) {
        case IMB_AUTH_SHA_1:
                return IMB_SHA1_DIGEST_SIZE_IN_BYTES;
        case IMB_AUTH_SHA_224:
                return IMB_SHA224_DIGEST_SIZE_IN_BYTES;
        case IMB_AUTH_SHA_256:
                return IMB_SHA256_DIGEST_SIZE_IN_BYTES;
        case IMB_AUTH_SHA_384:
                return IMB_SHA384_DIGEST_SIZE_IN_BYTES;
        case IMB_AUTH_SHA_512:
                return IMB_SHA512_DIGEST_SIZE_IN_BYTES;
        default:
                return 0;
        }
}

static int
direct_supports(const imbh_item *it)
{
        const int c = it->cipher, h = it->hash;
        const size_t kn = it->key.n;

        if (it->nullmask)
                return 0; /* direct calls are only made with complete arguments */
        if (c == IMB_CIPHER_GCM && h == IMB_AUTH_AES_GMAC)
                return kn == 16 || kn == 24 || kn == 32;
        if (c == IMB_CIPHER_CHACHA20_POLY1305 && h == IMB_AUTH_CHACHA20_POLY1305)
                return kn == 32 && it->iv.n == 12;
        if (h == IMB_AUTH_NULL)
                switch (c) {
                case IMB_CIPHER_ZUC_EEA3:
                        return kn == 16 && it->iv.n == 16;
                case IMB_CIPHER_SNOW3G_UEA2_BITLEN:
                        return kn == 16 && it->iv.n == 16;
                case IMB_CIPHER_KASUMI_UEA1_BITLEN:
                        return kn == 16 && it->iv.n == 8;
                case IMB_CIPHER_CFB: /* single block only */
                        return (kn == 16 || kn == 32) && it->iv.n == 16 && it->clen >= 1 &&
                               it->clen <= 16;
                default:
                        return 0;
                }
        if (c != IMB_CIPHER_NULL)
                return 0;
        if (sha_digest_size(h) != 0)
                return it->tag == sha_digest_size(h);
        if (is_crc_hash(h))
                return it->tag == 4;
        switch (h) {
        case IMB_AUTH_ZUC_EIA3_BITLEN:
        case IMB_AUTH_SNOW3G_UIA2_BITLEN:
                return it->tag == 4 && it->akey.n == 16 && it->aiv.n == 16;
        case IMB_AUTH_KASUMI_UIA1:
                return it->tag == 4 && it->akey.n == 16;
        case IMB_AUTH_AES_GMAC_128:
        case IMB_AUTH_AES_GMAC_192:
        case IMB_AUTH_AES_GMAC_256:
                return it->akey.n != 0 && it->aiv.n != 0;
        case IMB_AUTH_GHASH:
                return it->akey.n == 16 && it->aiv.n >= it->tag;
        default:
                return 0;
        }
}

int
imbh_ep_supports(const int ep, const imbh_item *it)
{
        switch (ep) {
        case IMBH_EP_JOB:
        case IMBH_EP_JOB_NOCHECK:
        case IMBH_EP_BURST:
        case IMBH_EP_BURST_NOCHECK:
                return 1;
        case IMBH_EP_SYNC:
        case IMBH_EP_SYNC_NOCHECK:
                return sync_class(it) != 0;
        case IMBH_EP_DIRECT:
                return direct_supports(it);
        default:
                return 0;
        }
}

/* ========================================================================= */
/* running */

static void
collect(const IMB_JOB *job)
{
        imbh_run *r = job->user_data;

        r->status = (int) job->status;
        r->done = 1;
}

static void
run_job_api(IMB_MGR *mgr, const int nocheck, imbh_run **runs, const int n)
{
        IMB_JOB *job;

        for (int i = 0; i < n; i++) {
                job = IMB_GET_NEXT_JOB(mgr);
                imbh_fill_job(job, runs[i]);
                job = nocheck ? IMB_SUBMIT_JOB_NOCHECK(mgr) : IMB_SUBMIT_JOB(mgr);
                runs[i]->err = imb_get_errno(mgr); /* verdict on the job just submitted */
                while (job != NULL) {
                        collect(job);
                        job = IMB_GET_COMPLETED_JOB(mgr);
                }
        }
        while ((job = IMB_FLUSH_JOB(mgr)) != NULL)
                collect(job);
}

/*
 * A burst with an invalid job is rejected as a whole (nothing is processed,
 * jobs[0] points at the offender).  The offender gets its verdict and the
 * rest of the batch is submitted again.
 */
static void
run_burst_api(IMB_MGR *mgr, const int nocheck, imbh_run **runs, int n)
{
        IMB_JOB *jobs[IMB_MAX_BURST_SIZE];
        imbh_run *act[IMB_MAX_BURST_SIZE];

        memcpy(act, runs, (size_t) n * sizeof(act[0]));
        while (n > 0) {
                const uint32_t got = IMB_GET_NEXT_BURST(mgr, (uint32_t) n, jobs);

                if (got != (uint32_t) n) { /* cannot happen on an empty queue */
                        for (int i = 0; i < n; i++) {
                                act[i]->done = 1;
                                act[i]->status = -2;
                                act[i]->err = imb_get_errno(mgr);
                        }
                        return;
                }
                for (int i = 0; i < n; i++) {
                        imbh_fill_job(jobs[i], act[i]);
                        imb_set_session(mgr, jobs[i]);
                }
                uint32_t done = nocheck ? IMB_SUBMIT_BURST_NOCHECK(mgr, (uint32_t) n, jobs)
                                        : IMB_SUBMIT_BURST(mgr, (uint32_t) n, jobs);
                const int err = imb_get_errno(mgr);

                if (done == 0 && err != 0) {
                        imbh_run *bad = jobs[0]->user_data;
                        int k = 0;

                        bad->done = 1;
                        bad->status = (int) jobs[0]->status;
                        bad->err = err;
                        for (int i = 0; i < n; i++)
                                if (act[i] != bad)
                                        act[k++] = act[i];
                        if (k == n) /* offender not found: give up on the batch */
                                k = 0;
                        n = k;
                        continue;
                }
                do {
                        for (uint32_t i = 0; i < done; i++)
                                collect(jobs[i]);
                } while ((done = IMB_FLUSH_BURST(mgr, IMB_MAX_BURST_SIZE, jobs)) != 0);
                return;
        }
}

static int
same_sync_group(const imbh_item *a, const imbh_item *b)
{
        const int ca = sync_class(a);

        if (ca != sync_class(b))
                return 0;
        if (ca == 2)
                return a->hash == b->hash;
        return a->cipher == b->cipher && a->dir == b->dir && a->key.n == b->key.n;
}

static void
run_sync_group(IMB_MGR *mgr, const int nocheck, imbh_run **runs, int n)
{
        const imbh_item *it0 = runs[0]->it;
        const int cls = sync_class(it0);
        const IMB_CIPHER_MODE c = (IMB_CIPHER_MODE) it0->cipher;
        const IMB_CIPHER_DIRECTION d = (IMB_CIPHER_DIRECTION) it0->dir;
        const IMB_KEY_SIZE_BYTES ks = (IMB_KEY_SIZE_BYTES) it0->key.n;
        const IMB_HASH_ALG h = (IMB_HASH_ALG) it0->hash;
        IMB_JOB *jobs = calloc((size_t) n, sizeof(IMB_JOB));
        imbh_run *act[IMB_MAX_BURST_SIZE];

        memcpy(act, runs, (size_t) n * sizeof(act[0]));
        while (n > 0 && jobs != NULL) {
                uint32_t done;

                for (int i = 0; i < n; i++)
                        imbh_fill_job(&jobs[i], act[i]);
                if (cls == 1)
                        done = nocheck ? IMB_SUBMIT_CIPHER_BURST_NOCHECK(mgr, jobs, n, c, d, ks)
                                       : IMB_SUBMIT_CIPHER_BURST(mgr, jobs, n, c, d, ks);
                else if (cls == 2)
                        done = nocheck ? IMB_SUBMIT_HASH_BURST_NOCHECK(mgr, jobs, n, h)
                                       : IMB_SUBMIT_HASH_BURST(mgr, jobs, n, h);
                else
                        done = nocheck ? IMB_SUBMIT_AEAD_BURST_NOCHECK(mgr, jobs, n, c, d, ks)
                                       : IMB_SUBMIT_AEAD_BURST(mgr, jobs, n, c, d, ks);
                const int err = imb_get_errno(mgr);
                int bad = -1;

                if (done != (uint32_t) n)
                        for (int i = 0; i < n && bad < 0; i++)
                                if (jobs[i].status == IMB_STATUS_INVALID_ARGS)
                                        bad = i;
                if (bad < 0) { /* all processed (or an unexplained refusal) */
                        for (int i = 0; i < n; i++) {
                                act[i]->done = 1;
                                act[i]->status = (int) jobs[i].status;
                                act[i]->err = err;
                        }
                        break;
                }
                act[bad]->done = 1;
                act[bad]->status = (int) jobs[bad].status;
                act[bad]->err = err;
                memmove(&act[bad], &act[bad + 1], (size_t) (n - bad - 1) * sizeof(act[0]));
                n--;
        }
        free(jobs);
}

static void
run_sync_api(IMB_MGR *mgr, const int nocheck, imbh_run **runs, const int n)
{
        for (int i = 0; i < n;) {
                int j = i + 1;

                while (j < n && same_sync_group(runs[i]->it, runs[j]->it))
                        j++;
                run_sync_group(mgr, nocheck, runs + i, j - i);
                i = j;
        }
}

typedef uint32_t (*crc_fn)(const void *, const uint64_t);

static crc_fn
crc_direct_fn(IMB_MGR *mgr, const int h)
{
        switch (h) {
        case IMB_AUTH_CRC32_ETHERNET_FCS:
                return mgr->crc32_ethernet_fcs;
        case IMB_AUTH_CRC32_SCTP:
                return mgr->crc32_sctp;
        case IMB_AUTH_CRC32_WIMAX_OFDMA_DATA:
                return mgr->crc32_wimax_ofdma_data;
        case IMB_AUTH_CRC24_LTE_A:
                return mgr->crc24_lte_a;
        case IMB_AUTH_CRC24_LTE_B:
                return mgr->crc24_lte_b;
        case IMB_AUTH_CRC16_X25:
                return mgr->crc16_x25;
        case IMB_AUTH_CRC16_FP_DATA:
                return mgr->crc16_fp_data;
        case IMB_AUTH_CRC11_FP_HEADER:
                return mgr->crc11_fp_header;
        case IMB_AUTH_CRC10_IUUP_DATA:
                return mgr->crc10_iuup_data;
        case IMB_AUTH_CRC8_WIMAX_OFDMA_HCS:
                return mgr->crc8_wimax_ofdma_hcs;
        case IMB_AUTH_CRC7_FP_HEADER:
                return mgr->crc7_fp_header;
        default:
                return mgr->crc6_iuup_header;
        }
}

/* direct API: one call sequence per work item, the way an application uses it */
static void
run_direct(IMB_MGR *mgr, imbh_run *r)
{
        const imbh_item *it = r->it;
        struct imbh_keys *k = r->keys;
        const int c = it->cipher, h = it->hash, enc = it->dir == IMB_DIR_ENCRYPT;
        uint8_t *dbase = it->inplace ? r->src : r->dst;
        uint8_t *dst = dbase + dst_ptr_offset(it);
        const uint8_t *csrc = r->src + (cipher_off_in_bits(c) ? 0 : it->coff);
        const uint8_t *hsrc = (it->hdst ? dbase : r->src) + it->hoff;
        struct gcm_context_data gctx;
        struct chacha20_poly1305_context_data cctx;

        /* leave no stale error status behind (direct API only writes it on error) */
        while (IMB_FLUSH_JOB(mgr) != NULL)
                ;

        if (c == IMB_CIPHER_GCM) {
                const struct gcm_key_data *gk = &k->gcm;
                const size_t kn = it->key.n;

                if (it->iv.n == 12) { /* one-shot call takes a 12-byte IV */
                        aes_gcm_enc_dec_t f =
                                kn == 16 ? (enc ? mgr->gcm128_enc : mgr->gcm128_dec)
                                : kn == 24 ? (enc ? mgr->gcm192_enc : mgr->gcm192_dec)
                                           : (enc ? mgr->gcm256_enc : mgr->gcm256_dec);
                        f(gk, &gctx, dst, csrc, it->clen, r->iv, r->aad, it->aad.n, r->tag,
                          it->tag);
                } else {
                        aes_gcm_init_var_iv_t fi = kn == 16   ? mgr->gcm128_init_var_iv
                                                   : kn == 24 ? mgr->gcm192_init_var_iv
                                                              : mgr->gcm256_init_var_iv;
                        aes_gcm_enc_dec_update_t fu =
                                kn == 16 ? (enc ? mgr->gcm128_enc_update : mgr->gcm128_dec_update)
                                : kn == 24
                                        ? (enc ? mgr->gcm192_enc_update : mgr->gcm192_dec_update)
                                        : (enc ? mgr->gcm256_enc_update : mgr->gcm256_dec_update);
                        aes_gcm_enc_dec_finalize_t ff =
                                kn == 16 ? (enc ? mgr->gcm128_enc_finalize
                                                : mgr->gcm128_dec_finalize)
                                : kn == 24 ? (enc ? mgr->gcm192_enc_finalize
                                                  : mgr->gcm192_dec_finalize)
                                           : (enc ? mgr->gcm256_enc_finalize
                                                  : mgr->gcm256_dec_finalize);
                        fi(gk, &gctx, r->iv, it->iv.n, r->aad, it->aad.n);
                        fu(gk, &gctx, dst, csrc, it->clen);
                        ff(gk, &gctx, r->tag, it->tag);
                }
        } else if (c == IMB_CIPHER_CHACHA20_POLY1305) {
                IMB_CHACHA20_POLY1305_INIT(mgr, k->raw_c, &cctx, r->iv, r->aad, it->aad.n);
                if (enc) {
                        IMB_CHACHA20_POLY1305_ENC_UPDATE(mgr, k->raw_c, &cctx, dst, csrc, it->clen);
                        IMB_CHACHA20_POLY1305_ENC_FINALIZE(mgr, &cctx, r->tag, it->tag);
                } else {
                        IMB_CHACHA20_POLY1305_DEC_UPDATE(mgr, k->raw_c, &cctx, dst, csrc, it->clen);
                        IMB_CHACHA20_POLY1305_DEC_FINALIZE(mgr, &cctx, r->tag, it->tag);
                }
        } else if (c == IMB_CIPHER_ZUC_EEA3) {
                IMB_ZUC_EEA3_1_BUFFER(mgr, k->raw_c, r->iv, csrc, dst, (uint32_t) it->clen);
        } else if (c == IMB_CIPHER_SNOW3G_UEA2_BITLEN) {
                if ((it->coff | it->clen) & 7)
                        IMB_SNOW3G_F8_1_BUFFER_BIT(mgr, k->snow3g_c, r->iv, r->src, dst,
                                                   (uint32_t) it->clen, (uint32_t) it->coff);
                else
                        IMB_SNOW3G_F8_1_BUFFER(mgr, k->snow3g_c, r->iv, r->src + it->coff / 8, dst,
                                               (uint32_t) (it->clen / 8));
        } else if (c == IMB_CIPHER_KASUMI_UEA1_BITLEN) {
                uint64_t iv64;

                memcpy(&iv64, r->iv, sizeof(iv64));
                if ((it->coff | it->clen) & 7)
                        IMB_KASUMI_F8_1_BUFFER_BIT(mgr, &k->kas_c, iv64, r->src, dst,
                                                   (uint32_t) it->clen, (uint32_t) it->coff);
                else
                        IMB_KASUMI_F8_1_BUFFER(mgr, &k->kas_c, iv64, r->src + it->coff / 8, dst,
                                               (uint32_t) (it->clen / 8));
        } else if (c == IMB_CIPHER_CFB) {
                if (it->key.n == 16)
                        IMB_AES128_CFB_ONE(mgr, dst, csrc, r->iv, k->enc, it->clen);
                else
                        IMB_AES256_CFB_ONE(mgr, dst, csrc, r->iv, k->enc, it->clen);
        } else if (sha_digest_size(h) != 0) {
                hash_fn_t f = h == IMB_AUTH_SHA_1     ? mgr->sha1
                              : h == IMB_AUTH_SHA_224 ? mgr->sha224
                              : h == IMB_AUTH_SHA_256 ? mgr->sha256
                              : h == IMB_AUTH_SHA_384 ? mgr->sha384
                                                      : mgr->sha512;
                f(hsrc, it->hlen, r->tag);
        } else if (is_crc_hash(h)) {
                const uint32_t crc = crc_direct_fn(mgr, h)(hsrc, it->hlen);

                memcpy(r->tag, &crc, sizeof(crc));
        } else if (h == IMB_AUTH_ZUC_EIA3_BITLEN) {
                IMB_ZUC_EIA3_1_BUFFER(mgr, k->raw_a, r->aiv, hsrc, (uint32_t) it->hlen,
                                      (uint32_t *) (void *) r->tag);
        } else if (h == IMB_AUTH_SNOW3G_UIA2_BITLEN) {
                IMB_SNOW3G_F9_1_BUFFER(mgr, k->snow3g_a, r->aiv, hsrc, it->hlen, r->tag);
        } else if (h == IMB_AUTH_KASUMI_UIA1) {
                IMB_KASUMI_F9_1_BUFFER(mgr, &k->kas_a, hsrc, (uint32_t) it->hlen, r->tag);
        } else if (h == IMB_AUTH_GHASH) {
                memcpy(r->tag, r->aiv, it->tag); /* tag is in/out: initial value */
                IMB_GHASH(mgr, &k->gmac, hsrc, it->hlen, r->tag, it->tag);
        } else { /* GMAC 128/192/256 */
                const struct gcm_key_data *gk = &k->gmac;

                if (h == IMB_AUTH_AES_GMAC_128) {
                        IMB_AES128_GMAC_INIT(mgr, gk, &gctx, r->aiv, it->aiv.n);
                        IMB_AES128_GMAC_UPDATE(mgr, gk, &gctx, hsrc, it->hlen);
                        IMB_AES128_GMAC_FINALIZE(mgr, gk, &gctx, r->tag, it->tag);
                } else if (h == IMB_AUTH_AES_GMAC_192) {
                        IMB_AES192_GMAC_INIT(mgr, gk, &gctx, r->aiv, it->aiv.n);
                        IMB_AES192_GMAC_UPDATE(mgr, gk, &gctx, hsrc, it->hlen);
                        IMB_AES192_GMAC_FINALIZE(mgr, gk, &gctx, r->tag, it->tag);
                } else {
                        IMB_AES256_GMAC_INIT(mgr, gk, &gctx, r->aiv, it->aiv.n);
                        IMB_AES256_GMAC_UPDATE(mgr, gk, &gctx, hsrc, it->hlen);
                        IMB_AES256_GMAC_FINALIZE(mgr, gk, &gctx, r->tag, it->tag);
                }
        }
        r->err = imb_get_errno(mgr);
        r->status = r->err == 0 ? IMB_STATUS_COMPLETED : IMB_STATUS_INVALID_ARGS;
        r->done = 1;
}

void
imbh_run_batch(IMB_MGR *mgr, const int ep, imbh_run **runs, const int n)
{
        imbh_run *act[IMB_MAX_BURST_SIZE];
        int na = 0;

        for (int i = 0; i < n; i++) {
                imbh_run *r = runs[i];

                r->done = 0;
                r->skip = NULL;
                r->status = r->err = 0;
                if (r->prep_err) {
                        r->done = 1;
                        r->status = -1;
                        r->err = r->prep_err;
                } else if (!imbh_ep_supports(ep, r->it)) {
                        r->skip = "unsupported";
                } else if (r->it->unsafe && imbh_ep_unchecked(ep)) {
                        r->skip = "unsafe";
                } else if (na < IMB_MAX_BURST_SIZE) {
                        act[na++] = r;
                } else {
                        r->skip = "batch-too-large";
                }
        }
        if (na == 0)
                return;
        switch (ep) {
        case IMBH_EP_JOB:
        case IMBH_EP_JOB_NOCHECK:
                run_job_api(mgr, ep == IMBH_EP_JOB_NOCHECK, act, na);
                break;
        case IMBH_EP_BURST:
        case IMBH_EP_BURST_NOCHECK:
                run_burst_api(mgr, ep == IMBH_EP_BURST_NOCHECK, act, na);
                break;
        case IMBH_EP_SYNC:
        case IMBH_EP_SYNC_NOCHECK:
                run_sync_api(mgr, ep == IMBH_EP_SYNC_NOCHECK, act, na);
                break;
        default:
                for (int i = 0; i < na; i++)
                        run_direct(mgr, act[i]);
                break;
        }
        for (int i = 0; i < na; i++)
                if (!act[i]->done) { /* job never came back */
                        act[i]->done = 1;
                        act[i]->status = -2;
                }
}

/* ========================================================================= */
/* result line */

void
imbh_format_result(imbh_str *out, const imbh_run *r, const char *var, const int ep)
{
        const imbh_item *it = r->it;

        imbh_str_add(out, "id=%ld var=%s ep=%d ", it->id, var, ep);
        if (r->skip != NULL) {
                imbh_str_add(out, "skip=%s", r->skip);
                return;
        }
        imbh_str_add(out, "status=%d errno=%d dst=", r->status, r->err);
        if (r->src_alloc == NULL) { /* rejected by the harness before allocation */
                imbh_str_add(out, "- tag=- canary=ok src=same");
                return;
        }

        size_t n;
        const uint8_t *area = imbh_out_area(r, &n);

        imbh_str_hex(out, area, n);
        imbh_str_add(out, " tag=");
        imbh_str_hex(out, r->tag, r->tag_room);

        const int s_ok = guard_intact(r->src_alloc, r->src, n, it->id);
        const int d_ok = r->dst_alloc == NULL || guard_intact(r->dst_alloc, r->dst, n, it->id);
        const int t_ok = guard_intact(r->tag_alloc, r->tag, r->tag_room, it->id);

        if (s_ok && d_ok && t_ok)
                imbh_str_add(out, " canary=ok");
        else
                imbh_str_add(out, " canary=bad:%s%s%s", s_ok ? "" : "s", d_ok ? "" : "d",
                             t_ok ? "" : "t");
        if (it->inplace)
                imbh_str_add(out, " src=inplace");
        else
                imbh_str_add(out, " src=%s",
                             (n == 0 || memcmp(r->src, it->msg.p, n) == 0) ? "same" : "changed");
        if (it->cipher == IMB_CIPHER_CBCS_1_9 && !(it->nullmask & IMBH_NULL_NIV)) {
                imbh_str_add(out, " niv=");
                imbh_str_hex(out, r->keys->next_iv, sizeof(r->keys->next_iv));
        }
}
