/*
 * k9_entry - entry point differential for property C09:
 *   "the same work item yields identical output, tag and status through every
 *    entry point that supports its algorithm".
 *
 * Pure library differential (no model).  For the direct API functions it
 * checks that every buffer of an n-buffer / one-shot / helper call gives the
 * same bytes as (a) the 1-buffer direct call and (b) the equivalent job
 * through IMB_GET_NEXT_JOB / IMB_SUBMIT_JOB / IMB_FLUSH_JOB, on every variant
 * of imbh_enum_variants().  Where no second library entry point exists the
 * result is compared across variants (xvariant) and against a small C
 * reference (cref).
 *
 * Output (stdout), one line per case:
 *   k9 var=<v> test=<t> sub=<api> n=<n> cseed=<hex> ok
 *   k9 var=<v> test=<t> sub=<api> n=<n> cseed=<hex> FAIL buf=<i> what=<..>
 *      lens=<..> got=<hex> want=<hex> ref=<1buf|job|xvariant|cref>
 *   k9 var=<v> test=<t> CRASH sig=<n>
 *   k9 note <text>
 *   K9 SUMMARY cases=<n> fails=<n> variants=<n> tests=<n>
 *
 * All random data of a case comes from its cseed; the low 8 bits of cseed
 * are the sub-case (API) index, so "--only <test> --cseed <hex> --n <n>"
 * replays exactly one case.
 *
 * K9_SELFTEST_CORRUPT=1 (or a comma list of test names) corrupts the expected
 * value of the first comparison of every case: every case must then FAIL.
 */
#define _GNU_SOURCE
#include <errno.h>
#include <signal.h>
#include <stdint.h>
#include <stdio.h>
#include <stdlib.h>
#include <string.h>
#include <sys/types.h>
#include <sys/wait.h>
#include <unistd.h>

#include "imbh.h"

#define MAXN    40  /* buffers per multi-buffer call */
#define MAXLENS 128 /* lengths remembered for the FAIL line */
#define CAN     64  /* canary bytes on each side of every output buffer */

/* ========================================================================= */
/* globals */

static int g_thorough;
static uint64_t g_seed = 1;
static imbh_variant g_var[IMBH_MAX_VARIANTS];
static int g_nvar;
static const char *g_corrupt; /* K9_SELFTEST_CORRUPT */
static long g_cases, g_fails;

/* ========================================================================= */
/* prng */

static uint64_t
rnd(uint64_t *st)
{
        return imbh_splitmix64(st);
}

static uint32_t
rnd_in(uint64_t *st, const uint32_t lo, const uint32_t hi)
{
        return lo + (uint32_t) (rnd(st) % ((uint64_t) hi - lo + 1));
}

/* misalignment of a data buffer: half of the time none */
static unsigned
rnd_mis(uint64_t *st)
{
        const uint64_t r = rnd(st);

        return (r & 1) ? 0 : (unsigned) ((r >> 1) & 63);
}

/* one length in [lo, hi]: tiny, around multiples of 64, multiples of 16, top, uniform */
static uint32_t
gen_len1(uint64_t *st, const uint32_t lo, const uint32_t hi)
{
        const uint32_t r = rnd_in(st, 0, 99);
        int64_t l;

        if (r < 10)
                l = (int64_t) lo + rnd_in(st, 0, 3);
        else if (r < 30)
                l = (int64_t) 64 * rnd_in(st, 1, hi / 64 ? hi / 64 : 1) + (int64_t) rnd_in(st, 0, 2) -
                    1;
        else if (r < 40)
                l = (int64_t) 16 * rnd_in(st, 1, hi / 16 ? hi / 16 : 1);
        else if (r < 45)
                l = (int64_t) hi - rnd_in(st, 0, 3);
        else
                l = rnd_in(st, lo, hi);
        if (l < (int64_t) lo)
                l = lo;
        if (l > (int64_t) hi)
                l = hi;
        return (uint32_t) l;
}

static int
cmp_u32(const void *a, const void *b)
{
        const uint32_t x = *(const uint32_t *) a, y = *(const uint32_t *) b;

        return x < y ? -1 : x > y;
}

/*
 * n lengths: random / ascending / descending / all equal / equal pairs /
 * "shortest is a multiple of quant and the others are longer" (the point
 * where a multi-buffer kernel leaves its common loop on a block boundary)
 */
static void
gen_lens(uint64_t *st, const int n, const uint32_t lo, const uint32_t hi, const uint32_t quant,
         uint32_t *out)
{
        const uint32_t mode = rnd_in(st, 0, 7);

        for (int i = 0; i < n; i++)
                out[i] = gen_len1(st, lo, hi);
        switch (mode) {
        case 1:
                qsort(out, (size_t) n, sizeof(out[0]), cmp_u32);
                break;
        case 2:
                qsort(out, (size_t) n, sizeof(out[0]), cmp_u32);
                for (int i = 0; i < n / 2; i++) {
                        const uint32_t t = out[i];

                        out[i] = out[n - 1 - i];
                        out[n - 1 - i] = t;
                }
                break;
        case 3:
                for (int i = 1; i < n; i++)
                        out[i] = out[0];
                break;
        case 4:
                for (int i = 1; i < n; i++)
                        out[i] = out[i & ~1];
                break;
        case 5:
        case 6:
                if (hi >= 2 * quant && quant >= lo) {
                        const uint32_t base = quant * rnd_in(st, 1, hi / quant / 2);

                        for (int i = 0; i < n; i++)
                                out[i] = rnd_in(st, 0, 3) ? rnd_in(st, base + 1, hi) : base;
                }
                break;
        default:
                break;
        }
}

/* ========================================================================= */
/* per-case arena */

static void **g_arena;
static size_t g_narena, g_caparena;

static void *
xalloc(const size_t sz)
{
        void *p = NULL;
        const size_t r = sz ? ((sz + 63) & ~(size_t) 63) : 64;

        if (posix_memalign(&p, 64, r) != 0) {
                fprintf(stderr, "k9: out of memory\n");
                exit(2);
        }
        memset(p, 0, r);
        if (g_narena == g_caparena) {
                g_caparena = g_caparena ? 2 * g_caparena : 1024;
                g_arena = realloc(g_arena, g_caparena * sizeof(void *));
                if (g_arena == NULL) {
                        fprintf(stderr, "k9: out of memory\n");
                        exit(2);
                }
        }
        g_arena[g_narena++] = p;
        return p;
}

static void
arena_reset(void)
{
        for (size_t i = 0; i < g_narena; i++)
                free(g_arena[i]);
        g_narena = 0;
}

static uint8_t *
xrand(uint64_t *st, const size_t n)
{
        uint8_t *p = xalloc(n);

        imbh_fill_random(st, p, n);
        return p;
}

/* ========================================================================= */
/* guarded buffers */

typedef struct {
        uint8_t *base, *p, *orig;
        size_t len, total;
} gbuf;

static uint8_t
can_byte(const size_t i)
{
        return (uint8_t) (0xA5 ^ (i * 29));
}

/* zero-filled region of len bytes with CAN canary bytes before and after */
static gbuf
gb_new(const size_t len, const unsigned mis)
{
        gbuf g;

        g.len = len;
        g.total = CAN + mis + len + CAN;
        g.base = xalloc(g.total);
        for (size_t i = 0; i < g.total; i++)
                g.base[i] = can_byte(i);
        g.p = g.base + CAN + mis;
        memset(g.p, 0, len);
        g.orig = NULL;
        return g;
}

static void
gb_keep(gbuf *g)
{
        g->orig = xalloc(g->len);
        memcpy(g->orig, g->p, g->len);
}

static gbuf
gb_rand(uint64_t *st, const size_t len, const unsigned mis)
{
        gbuf g = gb_new(len, mis);

        imbh_fill_random(st, g.p, len);
        gb_keep(&g);
        return g;
}

/* offset of the first damaged canary byte, -1 if intact */
static long
gb_damage(const gbuf *g)
{
        const size_t start = (size_t) (g->p - g->base);

        for (size_t i = 0; i < g->total; i++)
                if ((i < start || i >= start + g->len) && g->base[i] != can_byte(i))
                        return (long) i;
        return -1;
}

/* ========================================================================= */
/* case bookkeeping */

static struct {
        const char *var, *test, *sub;
        int n;
        uint64_t cseed;
        int failed, corrupt;
        uint32_t lens[MAXLENS];
        int nlens;
        char *line;
} C;

static void
case_lens(const uint32_t *lens, const int n)
{
        C.nlens = n < MAXLENS ? n : MAXLENS;
        memcpy(C.lens, lens, (size_t) C.nlens * sizeof(lens[0]));
}

static void
fail(const int buf, const char *what, const uint8_t *got, const size_t gl, const uint8_t *want,
     const size_t wl, const char *ref)
{
        imbh_str s = { 0 };

        if (C.failed)
                return;
        C.failed = 1;
        imbh_str_add(&s, "k9 var=%s test=%s sub=%s n=%d cseed=%016llx FAIL buf=%d what=%s lens=",
                     C.var, C.test, C.sub, C.n, (unsigned long long) C.cseed, buf, what);
        if (C.nlens == 0)
                imbh_str_add(&s, "-");
        for (int i = 0; i < C.nlens; i++)
                imbh_str_add(&s, "%s%u", i ? "," : "", C.lens[i]);
        imbh_str_add(&s, " got=");
        imbh_str_hex(&s, got, gl < 64 ? gl : 64);
        imbh_str_add(&s, " want=");
        imbh_str_hex(&s, want, wl < 64 ? wl : 64);
        imbh_str_add(&s, " ref=%s", ref);
        C.line = s.s;
}

static void
be32(uint8_t o[4], const uint32_t v)
{
        o[0] = (uint8_t) (v >> 24);
        o[1] = (uint8_t) (v >> 16);
        o[2] = (uint8_t) (v >> 8);
        o[3] = (uint8_t) v;
}

/* bytes equal? (window of the FAIL line starts at the first difference) */
static int
chk_eq(const int buf, const char *what, const uint8_t *got, const uint8_t *want, const size_t len,
       const char *ref)
{
        /* harness self test: spoil the first expected output (dst or tag) of the case */
        if (C.corrupt && len > 0 && (what[0] == 'd' || what[0] == 't')) {
                uint8_t *t = xalloc(len);

                memcpy(t, want, len);
                t[0] ^= 1;
                want = t;
                C.corrupt = 0;
        }
        if (len == 0 || memcmp(got, want, len) == 0)
                return 1;
        size_t off = 0;

        while (got[off] == want[off])
                off++;
        fail(buf, what, got + off, len - off, want + off, len - off, ref);
        return 0;
}

static void
chk_u32(const int buf, const char *what, const uint32_t got, const uint32_t want, const char *ref)
{
        uint8_t g[4], w[4];

        be32(g, got);
        be32(w, want);
        chk_eq(buf, what, g, w, 4, ref);
}

static void
chk_can(const int buf, const gbuf *g)
{
        const long d = gb_damage(g);

        if (d >= 0) {
                uint8_t w[64];
                const size_t k = g->total - (size_t) d < 64 ? g->total - (size_t) d : 64;

                for (size_t i = 0; i < k; i++)
                        w[i] = can_byte((size_t) d + i);
                fail(buf, "canary", g->base + d, k, w, k, "cref");
        }
}

static void
chk_src(const int buf, const gbuf *g)
{
        if (g->orig != NULL)
                chk_eq(buf, "src", g->p, g->orig, g->len, "cref");
        chk_can(buf, g);
}

static void
chk_status(const int buf, const int status)
{
        chk_u32(buf, "status", (uint32_t) status, (uint32_t) IMB_STATUS_COMPLETED, "job");
}

/* direct API calls made with valid arguments must leave the error status clear */
static void
chk_errno(IMB_MGR *m, const int buf)
{
        chk_u32(buf, "ret", (uint32_t) imb_get_errno(m), 0, "cref");
}

/*
 * api: result of the call under test (NULL when that is the 1-buffer call),
 * one: result of the 1-buffer call, job: result of the job
 */
static void
chk3(const int i, const char *what, const gbuf *api, const gbuf *one, const gbuf *job)
{
        if (api != NULL) {
                chk_eq(i, what, api->p, one->p, one->len, "1buf");
                if (job != NULL)
                        chk_eq(i, what, api->p, job->p, job->len, "job");
                chk_can(i, api);
        } else if (job != NULL) {
                chk_eq(i, what, one->p, job->p, one->len, "job");
        }
        chk_can(i, one);
        if (job != NULL)
                chk_can(i, job);
}

/* ========================================================================= */
/* jobs */

static void
job_init(IMB_JOB *j)
{
        memset(j, 0, sizeof(*j));
        j->cipher_mode = IMB_CIPHER_NULL;
        j->hash_alg = IMB_AUTH_NULL;
        j->chain_order = IMB_ORDER_CIPHER_HASH;
        j->cipher_direction = IMB_DIR_ENCRYPT;
}

static void
job_cipher(IMB_JOB *j, const IMB_CIPHER_MODE c, const IMB_CIPHER_DIRECTION d, const void *ek,
           const void *dk, const uint64_t klen, const void *iv, const uint64_t ivlen,
           const void *src, void *dst, const uint64_t off, const uint64_t len)
{
        j->cipher_mode = c;
        j->cipher_direction = d;
        j->chain_order = d == IMB_DIR_ENCRYPT ? IMB_ORDER_CIPHER_HASH : IMB_ORDER_HASH_CIPHER;
        j->enc_keys = ek;
        j->dec_keys = dk;
        j->key_len_in_bytes = klen;
        j->iv = iv;
        j->iv_len_in_bytes = ivlen;
        j->src = src;
        j->dst = dst;
        j->cipher_start_src_offset_in_bytes = off; /* union with _in_bits */
        j->msg_len_to_cipher_in_bytes = len;       /* union with _in_bits */
}

static void
job_hash(IMB_JOB *j, const IMB_HASH_ALG h, const void *src, const uint64_t len, void *tag,
         const uint64_t taglen)
{
        j->hash_alg = h;
        j->src = src;
        j->hash_start_src_offset_in_bytes = 0;
        j->msg_len_to_hash_in_bytes = len; /* union with _in_bits */
        j->auth_tag_output = tag;
        j->auth_tag_output_len_in_bytes = taglen;
}

/* submit all, then flush: the jobs share the scheduler like in an application */
static void
run_jobs(IMB_MGR *m, const IMB_JOB *t, const int n, int *status)
{
        IMB_JOB *job;

        for (int i = 0; i < n; i++)
                status[i] = -2;
        for (int i = 0; i < n; i++) {
                job = IMB_GET_NEXT_JOB(m);
                *job = t[i];
                job->user_data = (void *) (uintptr_t) i;
                job = IMB_SUBMIT_JOB(m);
                while (job != NULL) {
                        status[(uintptr_t) job->user_data] = (int) job->status;
                        job = IMB_GET_COMPLETED_JOB(m);
                }
        }
        while ((job = IMB_FLUSH_JOB(m)) != NULL)
                status[(uintptr_t) job->user_data] = (int) job->status;
}

/* ========================================================================= */
/* test registry */

typedef void (*run_fn)(IMB_MGR *m, IMB_MGR *bm, int sub, int n, uint64_t *st);
typedef void (*plan_fn)(void);

typedef struct {
        const char *name;
        const char *const *subs;
        int nsubs;
        run_fn run;
        plan_fn plan;
} ktest;

static const ktest *T;       /* test being run */
static int T_id;             /* its index */
static const imbh_variant *V; /* variant being run */
static IMB_MGR *BM;          /* another variant's manager for xvariant comparisons */
static uint64_t g_idx;       /* case index within (variant, test) */

static uint64_t
mk_cseed(const uint64_t seed, const int test, const uint64_t idx, const int sub)
{
        uint64_t s = seed;
        uint64_t z = imbh_splitmix64(&s);

        s = z ^ (uint64_t) (test + 1);
        z = imbh_splitmix64(&s);
        s = z ^ idx;
        z = imbh_splitmix64(&s);
        return (z & ~UINT64_C(0xff)) | (uint64_t) (sub & 0xff);
}

static int
corrupt_wanted(const char *test)
{
        if (g_corrupt == NULL || g_corrupt[0] == 0 || !strcmp(g_corrupt, "0"))
                return 0;
        if (!strcmp(g_corrupt, "1"))
                return 1;
        const size_t l = strlen(test);

        for (const char *p = g_corrupt; *p;) {
                const char *e = strchr(p, ',');
                const size_t k = e ? (size_t) (e - p) : strlen(p);

                if (k == l && !memcmp(p, test, l))
                        return 1;
                p += k + (e ? 1 : 0);
        }
        return 0;
}

static void
do_case(const int sub, const int n, const uint64_t cseed)
{
        uint64_t st = cseed;

        memset(&C, 0, sizeof(C));
        C.var = V->name;
        C.test = T->name;
        C.sub = T->subs[sub];
        C.n = n;
        C.cseed = cseed;
        C.corrupt = corrupt_wanted(T->name);
        T->run(V->mgr, BM, sub, n, &st);
        g_cases++;
        if (C.failed) {
                g_fails++;
                puts(C.line);
                free(C.line);
        } else {
                printf("k9 var=%s test=%s sub=%s n=%d cseed=%016llx ok\n", C.var, C.test, C.sub,
                       C.n, (unsigned long long) C.cseed);
        }
        arena_reset();
}

static void
emit(const int sub, const int n)
{
        do_case(sub, n, mk_cseed(g_seed, T_id, g_idx, sub));
        g_idx++;
}

/* buffer counts of a tier */
static int
nset(const int **out)
{
        static const int q[] = { 1, 2, 3, 4, 5, 7, 8, 9, 15, 16, 17, 31, 32, 33, 40 };
        static int all[MAXN];

        if (!g_thorough) {
                *out = q;
                return (int) IMB_DIM(q);
        }
        for (int i = 0; i < MAXN; i++)
                all[i] = i + 1;
        *out = all;
        return MAXN;
}

static int
reps(const int quick, const int thorough)
{
        return g_thorough ? thorough : quick;
}

static int
clampn(const int n, const int lo, const int hi)
{
        const int r = n < lo ? lo : n > hi ? hi : n;

        C.n = r;
        return r;
}

/* ========================================================================= */
/* 1. zuc_eea3 */

#define ZUC_MAX_BYTES 8188 /* ZUC_MAX_BITLEN / 8, lib/include/zuc_internal.h */

static const char *const zuc_eea3_subs[] = { "EEA3_1_BUFFER", "EEA3_4_BUFFER", "EEA3_N_BUFFER" };

static void
run_zuc_eea3(IMB_MGR *m, IMB_MGR *bm, const int sub, int n, uint64_t *st)
{
        uint32_t len[MAXN];
        const void *keyp[MAXN], *ivp[MAXN], *srcp[MAXN];
        void *dstp[MAXN];
        gbuf src[MAXN], one[MAXN], jb[MAXN], api[MAXN];
        IMB_JOB t[MAXN];
        int status[MAXN];

        (void) bm;
        n = sub == 1 ? clampn(n, 4, 4) : clampn(n, 1, MAXN);
        gen_lens(st, n, 1, 2000, 64, len);
        for (int i = 0; i < n; i++) {
                if (rnd_in(st, 0, 99) < 2) /* now and then up to the documented maximum */
                        len[i] = rnd_in(st, 2001, ZUC_MAX_BYTES);
                keyp[i] = xrand(st, 16);
                ivp[i] = xrand(st, 16);
                src[i] = gb_rand(st, len[i], rnd_mis(st));
                one[i] = gb_new(len[i], rnd_mis(st));
                jb[i] = gb_new(len[i], rnd_mis(st));
                api[i] = gb_new(len[i], rnd_mis(st));
                srcp[i] = src[i].p;
                dstp[i] = api[i].p;
        }
        case_lens(len, n);

        for (int i = 0; i < n; i++)
                IMB_ZUC_EEA3_1_BUFFER(m, keyp[i], ivp[i], src[i].p, one[i].p, len[i]);
        chk_errno(m, 0);
        for (int i = 0; i < n; i++) {
                job_init(&t[i]);
                job_cipher(&t[i], IMB_CIPHER_ZUC_EEA3, IMB_DIR_ENCRYPT, keyp[i], keyp[i], 16,
                           ivp[i], 16, src[i].p, jb[i].p, 0, len[i]);
        }
        run_jobs(m, t, n, status);
        if (sub == 1)
                IMB_ZUC_EEA3_4_BUFFER(m, keyp, ivp, srcp, dstp, len);
        else if (sub == 2)
                IMB_ZUC_EEA3_N_BUFFER(m, keyp, ivp, srcp, dstp, len, (uint32_t) n);
        chk_errno(m, 0);
        for (int i = 0; i < n; i++) {
                chk_status(i, status[i]);
                chk3(i, "dst", sub ? &api[i] : NULL, &one[i], &jb[i]);
                chk_src(i, &src[i]);
        }
}

static void
plan_zuc_eea3(void)
{
        static const int few[] = { 1, 5, 16, 40 };
        const int *ns;
        const int nn = nset(&ns);

        for (int r = 0; r < reps(4, 12); r++) {
                for (int i = 0; i < nn; i++)
                        emit(2, ns[i]);
                for (size_t i = 0; i < IMB_DIM(few); i++)
                        emit(0, few[i]);
                for (int i = 0; i < 4; i++)
                        emit(1, 4);
        }
}

/* ========================================================================= */
/* 2. zuc_eia3 */

static const char *const zuc_eia3_subs[] = { "EIA3_1_BUFFER", "EIA3_N_BUFFER" };

static void
run_zuc_eia3(IMB_MGR *m, IMB_MGR *bm, const int sub, int n, uint64_t *st)
{
        uint32_t bits[MAXN];
        const void *keyp[MAXN], *ivp[MAXN], *srcp[MAXN];
        uint32_t *tagp[MAXN];
        gbuf src[MAXN], one[MAXN], jb[MAXN], api[MAXN];
        IMB_JOB t[MAXN];
        int status[MAXN];

        (void) bm;
        n = clampn(n, 1, MAXN);
        gen_lens(st, n, 1, 16000, 512, bits);
        for (int i = 0; i < n; i++) {
                if (rnd_in(st, 0, 99) < 2)
                        bits[i] = rnd_in(st, 16001, 65504);
                keyp[i] = xrand(st, 16);
                ivp[i] = xrand(st, 16);
                src[i] = gb_rand(st, (bits[i] + 7) / 8, rnd_mis(st));
                one[i] = gb_new(4, 0);
                jb[i] = gb_new(4, 0);
                api[i] = gb_new(4, 0);
                srcp[i] = src[i].p;
                tagp[i] = (uint32_t *) (void *) api[i].p;
        }
        case_lens(bits, n);

        for (int i = 0; i < n; i++)
                IMB_ZUC_EIA3_1_BUFFER(m, keyp[i], ivp[i], src[i].p, bits[i],
                                      (uint32_t *) (void *) one[i].p);
        chk_errno(m, 0);
        for (int i = 0; i < n; i++) {
                job_init(&t[i]);
                job_hash(&t[i], IMB_AUTH_ZUC_EIA3_BITLEN, src[i].p, bits[i], jb[i].p, 4);
                t[i].u.ZUC_EIA3._key = keyp[i];
                t[i].u.ZUC_EIA3._iv = ivp[i];
        }
        run_jobs(m, t, n, status);
        if (sub == 1) {
                IMB_ZUC_EIA3_N_BUFFER(m, keyp, ivp, srcp, bits, tagp, (uint32_t) n);
                chk_errno(m, 0);
        }
        for (int i = 0; i < n; i++) {
                chk_status(i, status[i]);
                chk3(i, "tag", sub ? &api[i] : NULL, &one[i], &jb[i]);
                chk_src(i, &src[i]);
        }
}

static void
plan_zuc_eia3(void)
{
        static const int few[] = { 1, 5, 16, 40 };
        const int *ns;
        const int nn = nset(&ns);

        for (int r = 0; r < reps(4, 12); r++) {
                for (int i = 0; i < nn; i++)
                        emit(1, ns[i]);
                for (size_t i = 0; i < IMB_DIM(few); i++)
                        emit(0, few[i]);
        }
}

/* ========================================================================= */
/* SNOW3G / KASUMI f8 bit-length call against the job (shared) */

static void *
snow3g_sched(IMB_MGR *m, const uint8_t *key)
{
        const size_t sz = IMB_SNOW3G_KEY_SCHED_SIZE(m);
        snow3g_key_schedule_t *ks = xalloc(sz > sizeof(*ks) ? sz : sizeof(*ks));

        IMB_SNOW3G_INIT_KEY_SCHED(m, key, ks);
        return ks;
}

static kasumi_key_sched_t *
kasumi_sched(IMB_MGR *m, const uint8_t *key, const int f9)
{
        const size_t sz = IMB_KASUMI_KEY_SCHED_SIZE(m);
        kasumi_key_sched_t *ks = xalloc(sz > sizeof(*ks) ? sz : sizeof(*ks));

        if (f9)
                IMB_KASUMI_INIT_F9_KEY_SCHED(m, key, ks);
        else
                IMB_KASUMI_INIT_F8_KEY_SCHED(m, key, ks);
        return ks;
}

/*
 * The bit-length call applies offset/8 to src and dst itself; so does the job
 * for unaligned offset/length.  For byte aligned values the job takes the byte
 * path which applies the offset to src only: dst is advanced here, as
 * dst_ptr_offset() in imbh.c does.  Out of place into zero-filled buffers.
 */
static void
run_f8_bit(IMB_MGR *m, const int kasumi, const int n, uint64_t *st)
{
        uint32_t bits[MAXN], off[MAXN];
        gbuf src[MAXN], one[MAXN], jb[MAXN];
        const void *ks[MAXN];
        uint8_t *iv[MAXN];
        IMB_JOB t[MAXN];
        int status[MAXN];
        static int noted;

        if (n < 1 || n > MAXN)
                return;
        gen_lens(st, n, 1, 8000, 512, bits);
        for (int i = 0; i < n; i++) {
                const uint32_t r = rnd_in(st, 0, 9);
                const uint8_t *key = xrand(st, 16);

                off[i] = r < 3 ? 0 : r < 5 ? 8 * rnd_in(st, 1, 8) : rnd_in(st, 1, 71);
                if (rnd_in(st, 0, 4) == 0)
                        bits[i] = (bits[i] + 7) & ~7u;
                const size_t total = ((size_t) off[i] + bits[i] + 7) / 8;

                src[i] = gb_rand(st, total, rnd_mis(st));
                one[i] = gb_new(total, rnd_mis(st));
                jb[i] = gb_new(total, rnd_mis(st));
                iv[i] = xrand(st, 16);
                ks[i] = kasumi ? (const void *) kasumi_sched(m, key, 0) : snow3g_sched(m, key);
        }
        case_lens(bits, n);

        for (int i = 0; i < n; i++) {
                if (kasumi) {
                        uint64_t iv64;

                        memcpy(&iv64, iv[i], sizeof(iv64));
                        IMB_KASUMI_F8_1_BUFFER_BIT(m, ks[i], iv64, src[i].p, one[i].p, bits[i],
                                                   off[i]);
                } else {
                        IMB_SNOW3G_F8_1_BUFFER_BIT(m, ks[i], iv[i], src[i].p, one[i].p, bits[i],
                                                   off[i]);
                }
        }
        chk_errno(m, 0);
        for (int i = 0; i < n; i++) {
                const uint32_t adv = ((off[i] | bits[i]) & 7) ? 0 : off[i] / 8;

                job_init(&t[i]);
                job_cipher(&t[i],
                           kasumi ? IMB_CIPHER_KASUMI_UEA1_BITLEN : IMB_CIPHER_SNOW3G_UEA2_BITLEN,
                           IMB_DIR_ENCRYPT, ks[i], ks[i], 16, iv[i], kasumi ? 8 : 16, src[i].p,
                           jb[i].p + adv, off[i], bits[i]);
        }
        run_jobs(m, t, n, status);
        for (int i = 0; i < n; i++) {
                chk_status(i, status[i]);
                chk3(i, "dst", NULL, &one[i], &jb[i]);
                chk_src(i, &src[i]);
                /* bits outside [off, off + bits) of the zeroed dst stay zero */
                uint8_t *z = xalloc(one[i].len);

                memcpy(z, one[i].p, one[i].len);
                for (size_t b = 0; b < 8 * one[i].len; b++)
                        if (b < off[i] || b >= (size_t) off[i] + bits[i])
                                z[b / 8] &= (uint8_t) ~(0x80 >> (b & 7));
                if (kasumi || memcmp(one[i].p, z, off[i] / 8) != 0) {
                        /* KASUMI: "no extra bits are modified" (header); whole bytes: always */
                        chk_eq(i, "dst", one[i].p, z, one[i].len, "cref");
                } else if (memcmp(one[i].p, z, one[i].len) != 0 && !noted) {
                        /*
                         * SNOW3G: with offset % 8 == 0 and length % 8 != 0 the spare bits of
                         * the last byte receive keystream (wireless_common.h
                         * msg_save_start_end() returns early for bit_offset == 0).  Both entry
                         * points do the same, so this is reported, not failed.
                         */
                        noted = 1;
                        printf("k9 note var=%s test=%s sub=%s cseed=%016llx buf=%d off=%u len=%u: "
                               "dst bits outside the message were modified in its last byte "
                               "(got %02x want %02x); job and direct call agree\n",
                               C.var, C.test, C.sub, (unsigned long long) C.cseed, i, off[i],
                               bits[i], one[i].p[one[i].len - 1], z[one[i].len - 1]);
                }
        }
}

/* ========================================================================= */
/* 3. snow3g_f8 */

enum { S3_1, S3_2, S3_4, S3_8, S3_8MK, S3_N, S3_NMK, S3_NR, S3_NMKR, S3_BIT, S3_F9 };

static const char *const snow3g_subs[] = { "F8_1_BUFFER",
                                           "F8_2_BUFFER",
                                           "F8_4_BUFFER",
                                           "F8_8_BUFFER",
                                           "F8_8_BUFFER_MULTIKEY",
                                           "F8_N_BUFFER",
                                           "F8_N_BUFFER_MULTIKEY",
                                           "F8_N_BUFFER_REFUSE",
                                           "F8_N_BUFFER_MULTIKEY_REFUSE",
                                           "F8_1_BUFFER_BIT",
                                           "F9_1_BUFFER" };

#define SNOW3G_N_MAX 16 /* NUM_PACKETS_16 in lib/include/snow3g_common.h */

static void
run_snow3g_f9(IMB_MGR *m, const int n, uint64_t *st)
{
        uint32_t bits[MAXN];
        gbuf src[MAXN], one[MAXN], jb[MAXN];
        IMB_JOB t[MAXN];
        int status[MAXN];

        gen_lens(st, n, 1, 16000, 512, bits);
        case_lens(bits, n);
        for (int i = 0; i < n; i++) {
                const void *ks = snow3g_sched(m, xrand(st, 16));
                const uint8_t *iv = xrand(st, 16);

                src[i] = gb_rand(st, (bits[i] + 7) / 8, rnd_mis(st));
                one[i] = gb_new(4, 0);
                jb[i] = gb_new(4, 0);
                IMB_SNOW3G_F9_1_BUFFER(m, ks, iv, src[i].p, bits[i], one[i].p);
                job_init(&t[i]);
                job_hash(&t[i], IMB_AUTH_SNOW3G_UIA2_BITLEN, src[i].p, bits[i], jb[i].p, 4);
                t[i].u.SNOW3G_UIA2._key = ks;
                t[i].u.SNOW3G_UIA2._iv = iv;
        }
        chk_errno(m, 0);
        run_jobs(m, t, n, status);
        for (int i = 0; i < n; i++) {
                chk_status(i, status[i]);
                chk3(i, "tag", NULL, &one[i], &jb[i]);
                chk_src(i, &src[i]);
        }
}

static void
run_snow3g(IMB_MGR *m, IMB_MGR *bm, const int sub, int n, uint64_t *st)
{
        uint32_t len[MAXN];
        const snow3g_key_schedule_t *ks[MAXN];
        const void *ivp[MAXN], *srcp[MAXN];
        void *dstp[MAXN];
        gbuf src[MAXN], one[MAXN], jb[MAXN], api[MAXN];
        IMB_JOB t[MAXN];
        int status[MAXN];
        const int single =
                sub == S3_2 || sub == S3_4 || sub == S3_8 || sub == S3_N || sub == S3_NR;
        const int refuse = sub == S3_NR || sub == S3_NMKR;

        (void) bm;
        switch (sub) {
        case S3_2:
                n = clampn(n, 2, 2);
                break;
        case S3_4:
                n = clampn(n, 4, 4);
                break;
        case S3_8:
        case S3_8MK:
                n = clampn(n, 8, 8);
                break;
        case S3_N:
        case S3_NMK:
                n = clampn(n, 1, SNOW3G_N_MAX);
                break;
        case S3_NR:
        case S3_NMKR:
                n = clampn(n, SNOW3G_N_MAX + 1, MAXN);
                break;
        default:
                n = clampn(n, 1, MAXN);
                break;
        }
        if (sub == S3_BIT) {
                run_f8_bit(m, 0, n, st);
                return;
        }
        if (sub == S3_F9) {
                run_snow3g_f9(m, n, st);
                return;
        }

        gen_lens(st, n, 1, 2000, 64, len);
        case_lens(len, n);
        for (int i = 0; i < n; i++) {
                const uint8_t *key = xrand(st, 16);

                ks[i] = (single && i > 0) ? ks[0] : snow3g_sched(m, key);
                ivp[i] = xrand(st, 16);
                src[i] = gb_rand(st, len[i], rnd_mis(st));
                one[i] = gb_new(len[i], rnd_mis(st));
                jb[i] = gb_new(len[i], rnd_mis(st));
                api[i] = gb_new(len[i], rnd_mis(st));
                srcp[i] = src[i].p;
                dstp[i] = api[i].p;
        }

        if (refuse) {
                /* documented refusal above 16 buffers: out[0] = NULL, nothing processed */
                if (sub == S3_NR)
                        IMB_SNOW3G_F8_N_BUFFER(m, ks[0], ivp, srcp, dstp, len, (uint32_t) n);
                else
                        IMB_SNOW3G_F8_N_BUFFER_MULTIKEY(m, ks, ivp, srcp, dstp, len, (uint32_t) n);
                chk_u32(0, "ret", dstp[0] != NULL, 0, "cref");
                for (int i = 0; i < n; i++) {
                        chk_eq(i, "dst", api[i].p, one[i].p, len[i], "cref"); /* still zero */
                        chk_can(i, &api[i]);
                        chk_src(i, &src[i]);
                }
                return;
        }

        for (int i = 0; i < n; i++)
                IMB_SNOW3G_F8_1_BUFFER(m, ks[i], ivp[i], src[i].p, one[i].p, len[i]);
        chk_errno(m, 0);
        for (int i = 0; i < n; i++) {
                job_init(&t[i]);
                job_cipher(&t[i], IMB_CIPHER_SNOW3G_UEA2_BITLEN, IMB_DIR_ENCRYPT, ks[i], ks[i], 16,
                           ivp[i], 16, src[i].p, jb[i].p, 0, (uint64_t) len[i] * 8);
        }
        run_jobs(m, t, n, status);

        switch (sub) {
        case S3_2:
                IMB_SNOW3G_F8_2_BUFFER(m, ks[0], ivp[0], ivp[1], srcp[0], dstp[0], len[0], srcp[1],
                                       dstp[1], len[1]);
                break;
        case S3_4:
                IMB_SNOW3G_F8_4_BUFFER(m, ks[0], ivp[0], ivp[1], ivp[2], ivp[3], srcp[0], dstp[0],
                                       len[0], srcp[1], dstp[1], len[1], srcp[2], dstp[2], len[2],
                                       srcp[3], dstp[3], len[3]);
                break;
        case S3_8:
                IMB_SNOW3G_F8_8_BUFFER(m, ks[0], ivp[0], ivp[1], ivp[2], ivp[3], ivp[4], ivp[5],
                                       ivp[6], ivp[7], srcp[0], dstp[0], len[0], srcp[1], dstp[1],
                                       len[1], srcp[2], dstp[2], len[2], srcp[3], dstp[3], len[3],
                                       srcp[4], dstp[4], len[4], srcp[5], dstp[5], len[5], srcp[6],
                                       dstp[6], len[6], srcp[7], dstp[7], len[7]);
                break;
        case S3_8MK:
                IMB_SNOW3G_F8_8_BUFFER_MULTIKEY(m, ks, ivp, srcp, dstp, len);
                break;
        case S3_N:
                IMB_SNOW3G_F8_N_BUFFER(m, ks[0], ivp, srcp, dstp, len, (uint32_t) n);
                break;
        case S3_NMK:
                IMB_SNOW3G_F8_N_BUFFER_MULTIKEY(m, ks, ivp, srcp, dstp, len, (uint32_t) n);
                break;
        default:
                break;
        }
        chk_errno(m, 0);
        if (sub == S3_N || sub == S3_NMK)
                chk_u32(0, "ret", dstp[0] != api[0].p, 0, "cref"); /* not refused */
        for (int i = 0; i < n; i++) {
                chk_status(i, status[i]);
                chk3(i, "dst", sub != S3_1 ? &api[i] : NULL, &one[i], &jb[i]);
                chk_src(i, &src[i]);
        }
}

static void
plan_snow3g(void)
{
        static const int few[] = { 1, 8, 17, 40 };
        const int *ns;
        const int nn = nset(&ns);

        for (int r = 0; r < reps(3, 10); r++) {
                for (int i = 0; i < nn; i++) {
                        emit(ns[i] <= SNOW3G_N_MAX ? S3_N : S3_NR, ns[i]);
                        emit(ns[i] <= SNOW3G_N_MAX ? S3_NMK : S3_NMKR, ns[i]);
                }
                for (size_t i = 0; i < IMB_DIM(few); i++) {
                        emit(S3_1, few[i]);
                        emit(S3_BIT, few[i]);
                        emit(S3_F9, few[i]);
                }
                for (int i = 0; i < 3; i++) {
                        emit(S3_2, 2);
                        emit(S3_4, 4);
                        emit(S3_8, 8);
                        emit(S3_8MK, 8);
                }
        }
}

/* ========================================================================= */
/* 4. kasumi */

enum { KA_1, KA_2, KA_3, KA_4, KA_N, KA_BIT, KA_F9, KA_F9U };

static const char *const kasumi_subs[] = { "F8_1_BUFFER", "F8_2_BUFFER",     "F8_3_BUFFER",
                                           "F8_4_BUFFER", "F8_N_BUFFER",     "F8_1_BUFFER_BIT",
                                           "F9_1_BUFFER", "F9_1_BUFFER_USER" };

#define KASUMI_MAX_BYTES 2500 /* KASUMI_MAX_LEN (20000 bits) / 8, lib/include/kasumi_interface.h */

static void
setbit(uint8_t *p, const size_t pos, const unsigned v)
{
        if (v)
                p[pos / 8] |= (uint8_t) (0x80 >> (pos & 7));
}

/* COUNT || FRESH || message || DIRECTION || 1 || 0*, the input of IMB_KASUMI_F9_1_BUFFER */
static size_t
kasumi_f9_pad(uint8_t *out, const uint8_t iv[8], const uint8_t *msg, const uint32_t bits,
              const unsigned dir)
{
        const size_t nb = ((size_t) bits + 7) / 8, tot = 8 + ((size_t) bits + 2 + 7) / 8;

        memset(out, 0, tot);
        memcpy(out, iv, 8);
        memcpy(out + 8, msg, nb);
        if (bits & 7)
                out[8 + nb - 1] &= (uint8_t) (0xff << (8 - (bits & 7)));
        setbit(out + 8, bits, dir);
        setbit(out + 8, (size_t) bits + 1, 1);
        return tot;
}

static void
run_kasumi_f9(IMB_MGR *m, const int user, const int n, uint64_t *st)
{
        uint32_t len[MAXN];
        gbuf src[MAXN], one[MAXN], jb[MAXN], api[MAXN];
        IMB_JOB t[MAXN];
        int status[MAXN];

        if (user)
                gen_lens(st, n, 1, 19000, 512, len); /* bits */
        else
                gen_lens(st, n, 9, KASUMI_MAX_BYTES, 64, len); /* bytes, job minimum is 9 */
        case_lens(len, n);
        for (int i = 0; i < n; i++) {
                const kasumi_key_sched_t *ks = kasumi_sched(m, xrand(st, 16), 1);

                one[i] = gb_new(4, 0);
                jb[i] = gb_new(4, 0);
                api[i] = gb_new(4, 0);
                if (user) {
                        const uint8_t *iv = xrand(st, 8);
                        const unsigned dir = rnd_in(st, 0, 1);
                        gbuf msg = gb_rand(st, (len[i] + 7) / 8, rnd_mis(st));
                        uint8_t *pad = xalloc(8 + ((size_t) len[i] + 9) / 8 + 8);
                        const size_t tot = kasumi_f9_pad(pad, iv, msg.p, len[i], dir);
                        uint64_t iv64;

                        memcpy(&iv64, iv, sizeof(iv64));
                        IMB_KASUMI_F9_1_BUFFER_USER(m, ks, iv64, msg.p, len[i], api[i].p, dir);
                        chk_src(i, &msg);
                        src[i] = gb_new(tot, rnd_mis(st));
                        memcpy(src[i].p, pad, tot);
                        gb_keep(&src[i]);
                } else {
                        src[i] = gb_rand(st, len[i], rnd_mis(st));
                }
                IMB_KASUMI_F9_1_BUFFER(m, ks, src[i].p, (uint32_t) src[i].len, one[i].p);
                job_init(&t[i]);
                job_hash(&t[i], IMB_AUTH_KASUMI_UIA1, src[i].p, src[i].len, jb[i].p, 4);
                t[i].u.KASUMI_UIA1._key = ks;
        }
        chk_errno(m, 0);
        run_jobs(m, t, n, status);
        for (int i = 0; i < n; i++) {
                chk_status(i, status[i]);
                chk3(i, "tag", user ? &api[i] : NULL, &one[i], &jb[i]);
                chk_src(i, &src[i]);
        }
}

static void
run_kasumi(IMB_MGR *m, IMB_MGR *bm, const int sub, int n, uint64_t *st)
{
        uint32_t len[MAXN];
        const kasumi_key_sched_t *ks[MAXN];
        uint64_t iv64[MAXN];
        uint8_t *ivb[MAXN];
        const void *srcp[MAXN];
        void *dstp[MAXN];
        gbuf src[MAXN], one[MAXN], jb[MAXN], api[MAXN];
        IMB_JOB t[MAXN];
        int status[MAXN];
        const int single = sub >= KA_2 && sub <= KA_N;

        (void) bm;
        n = sub == KA_2   ? clampn(n, 2, 2)
            : sub == KA_3 ? clampn(n, 3, 3)
            : sub == KA_4 ? clampn(n, 4, 4)
                          : clampn(n, 1, MAXN);
        if (sub == KA_BIT) {
                run_f8_bit(m, 1, n, st);
                return;
        }
        if (sub == KA_F9 || sub == KA_F9U) {
                run_kasumi_f9(m, sub == KA_F9U, n, st);
                return;
        }

        gen_lens(st, n, 1, KASUMI_MAX_BYTES, 64, len);
        if (sub == KA_3 || sub == KA_4) /* one common length */
                for (int i = 1; i < n; i++)
                        len[i] = len[0];
        if (sub == KA_2) {
                /* the two-packet routine consumes the last common key-stream block with one ladder per packet:
                 * aim at the relations between the two lengths (equal, one the 8-byte round-up of the other, one
                 * block apart), also for short packets */
                const uint64_t r = imbh_splitmix64(st);

                if (r & 1)
                        len[0] = 1 + (uint32_t) ((r >> 8) % 48);
                switch ((r >> 1) & 7) {
                case 0:
                        len[1] = (len[0] + 7) & ~7u;
                        break;
                case 1:
                        len[1] = len[0];
                        len[0] = (len[1] + 7) & ~7u;
                        break;
                case 2:
                        len[1] = len[0];
                        break;
                case 3:
                        len[1] = len[0] + 8;
                        break;
                case 4:
                        len[1] = ((len[0] + 7) & ~7u) + 8;
                        break;
                default:
                        break;
                }
                for (int i = 0; i < 2; i++)
                        if (len[i] < 1 || len[i] > KASUMI_MAX_BYTES)
                                len[i] = 16;
        }
        case_lens(len, n);
        for (int i = 0; i < n; i++) {
                const uint8_t *key = xrand(st, 16);

                ks[i] = (single && i > 0) ? ks[0] : kasumi_sched(m, key, 0);
                ivb[i] = xrand(st, 8);
                memcpy(&iv64[i], ivb[i], 8);
                src[i] = gb_rand(st, len[i], rnd_mis(st));
                one[i] = gb_new(len[i], rnd_mis(st));
                jb[i] = gb_new(len[i], rnd_mis(st));
                api[i] = gb_new(len[i], rnd_mis(st));
                srcp[i] = src[i].p;
                dstp[i] = api[i].p;
        }

        for (int i = 0; i < n; i++)
                IMB_KASUMI_F8_1_BUFFER(m, ks[i], iv64[i], src[i].p, one[i].p, len[i]);
        chk_errno(m, 0);
        for (int i = 0; i < n; i++) {
                job_init(&t[i]);
                job_cipher(&t[i], IMB_CIPHER_KASUMI_UEA1_BITLEN, IMB_DIR_ENCRYPT, ks[i], ks[i], 16,
                           ivb[i], 8, src[i].p, jb[i].p, 0, (uint64_t) len[i] * 8);
        }
        run_jobs(m, t, n, status);

        switch (sub) {
        case KA_2:
                IMB_KASUMI_F8_2_BUFFER(m, ks[0], iv64[0], iv64[1], srcp[0], dstp[0], len[0],
                                       srcp[1], dstp[1], len[1]);
                break;
        case KA_3:
                IMB_KASUMI_F8_3_BUFFER(m, ks[0], iv64[0], iv64[1], iv64[2], srcp[0], dstp[0],
                                       srcp[1], dstp[1], srcp[2], dstp[2], len[0]);
                break;
        case KA_4:
                IMB_KASUMI_F8_4_BUFFER(m, ks[0], iv64[0], iv64[1], iv64[2], iv64[3], srcp[0],
                                       dstp[0], srcp[1], dstp[1], srcp[2], dstp[2], srcp[3],
                                       dstp[3], len[0]);
                break;
        case KA_N: /* lengths in BYTES (the header says bits, the code and kat-app use bytes) */
                IMB_KASUMI_F8_N_BUFFER(m, ks[0], iv64, srcp, dstp, len, (uint32_t) n);
                break;
        default:
                break;
        }
        chk_errno(m, 0);
        if (sub == KA_N)
                chk_u32(0, "ret", dstp[0] != api[0].p, 0, "cref"); /* not refused */
        for (int i = 0; i < n; i++) {
                chk_status(i, status[i]);
                chk3(i, "dst", sub != KA_1 ? &api[i] : NULL, &one[i], &jb[i]);
                chk_src(i, &src[i]);
        }
}

static void
plan_kasumi(void)
{
        static const int few[] = { 1, 8, 40 };
        const int *ns;
        const int nn = nset(&ns);

        for (int r = 0; r < reps(2, 6); r++) {
                for (int i = 0; i < nn; i++)
                        emit(KA_N, ns[i]);
                for (size_t i = 0; i < IMB_DIM(few); i++) {
                        emit(KA_1, few[i]);
                        emit(KA_BIT, few[i]);
                        emit(KA_F9, few[i]);
                        emit(KA_F9U, few[i]);
                }
                for (int i = 0; i < 3; i++) {
                        emit(KA_2, 2);
                        emit(KA_3, 3);
                        emit(KA_4, 4);
                }
        }
}

/* ========================================================================= */
/* 5. sha */

static const struct {
        IMB_HASH_ALG job, hmac;
        unsigned dig, blk, wsz, raw; /* digest, block, word size, ONE_BLOCK output bytes */
} sha_tab[6] = {
        { IMB_AUTH_SHA_1, IMB_AUTH_HMAC_SHA_1, 20, 64, 4, 20 },
        { IMB_AUTH_SHA_224, IMB_AUTH_HMAC_SHA_224, 28, 64, 4, 32 },
        { IMB_AUTH_SHA_256, IMB_AUTH_HMAC_SHA_256, 32, 64, 4, 32 },
        { IMB_AUTH_SHA_384, IMB_AUTH_HMAC_SHA_384, 48, 128, 8, 64 },
        { IMB_AUTH_SHA_512, IMB_AUTH_HMAC_SHA_512, 64, 128, 8, 64 },
        { IMB_AUTH_NULL, IMB_AUTH_MD5, 16, 64, 4, 16 }, /* MD5: ONE_BLOCK and HMAC only */
};

static const char *const sha_subs[] = {
        "SHA1",           "SHA224",           "SHA256",           "SHA384",
        "SHA512",         "SHA1_ONE_BLOCK",   "SHA224_ONE_BLOCK", "SHA256_ONE_BLOCK",
        "SHA384_ONE_BLOCK", "SHA512_ONE_BLOCK", "MD5_ONE_BLOCK",  "HMAC_IPAD_OPAD_SHA1",
        "HMAC_IPAD_OPAD_SHA224", "HMAC_IPAD_OPAD_SHA256", "HMAC_IPAD_OPAD_SHA384",
        "HMAC_IPAD_OPAD_SHA512", "HMAC_IPAD_OPAD_MD5"
};

static void
sha_oneshot(IMB_MGR *m, const int a, const void *src, const uint64_t len, void *tag)
{
        switch (a) {
        case 0:
                IMB_SHA1(m, src, len, tag);
                break;
        case 1:
                IMB_SHA224(m, src, len, tag);
                break;
        case 2:
                IMB_SHA256(m, src, len, tag);
                break;
        case 3:
                IMB_SHA384(m, src, len, tag);
                break;
        default:
                IMB_SHA512(m, src, len, tag);
                break;
        }
}

static void
sha_one_block(IMB_MGR *m, const int a, const void *blk, void *out)
{
        switch (a) {
        case 0:
                IMB_SHA1_ONE_BLOCK(m, blk, out);
                break;
        case 1:
                IMB_SHA224_ONE_BLOCK(m, blk, out);
                break;
        case 2:
                IMB_SHA256_ONE_BLOCK(m, blk, out);
                break;
        case 3:
                IMB_SHA384_ONE_BLOCK(m, blk, out);
                break;
        case 4:
                IMB_SHA512_ONE_BLOCK(m, blk, out);
                break;
        default:
                IMB_MD5_ONE_BLOCK(m, blk, out);
                break;
        }
}

/* MD5 compression of one block from the initial state (RFC 1321), digest order */
static void
md5_block_ref(const uint8_t blk[64], uint8_t out[16])
{
        static const uint8_t sh[64] = { 7, 12, 17, 22, 7, 12, 17, 22, 7, 12, 17, 22, 7, 12, 17, 22,
                                        5, 9,  14, 20, 5, 9,  14, 20, 5, 9,  14, 20, 5, 9,  14, 20,
                                        4, 11, 16, 23, 4, 11, 16, 23, 4, 11, 16, 23, 4, 11, 16, 23,
                                        6, 10, 15, 21, 6, 10, 15, 21, 6, 10, 15, 21, 6, 10, 15, 21 };
        static const uint32_t K[64] = {
                0xd76aa478, 0xe8c7b756, 0x242070db, 0xc1bdceee, 0xf57c0faf, 0x4787c62a, 0xa8304613,
                0xfd469501, 0x698098d8, 0x8b44f7af, 0xffff5bb1, 0x895cd7be, 0x6b901122, 0xfd987193,
                0xa679438e, 0x49b40821, 0xf61e2562, 0xc040b340, 0x265e5a51, 0xe9b6c7aa, 0xd62f105d,
                0x02441453, 0xd8a1e681, 0xe7d3fbc8, 0x21e1cde6, 0xc33707d6, 0xf4d50d87, 0x455a14ed,
                0xa9e3e905, 0xfcefa3f8, 0x676f02d9, 0x8d2a4c8a, 0xfffa3942, 0x8771f681, 0x6d9d6122,
                0xfde5380c, 0xa4beea44, 0x4bdecfa9, 0xf6bb4b60, 0xbebfbc70, 0x289b7ec6, 0xeaa127fa,
                0xd4ef3085, 0x04881d05, 0xd9d4d039, 0xe6db99e5, 0x1fa27cf8, 0xc4ac5665, 0xf4292244,
                0x432aff97, 0xab9423a7, 0xfc93a039, 0x655b59c3, 0x8f0ccc92, 0xffeff47d, 0x85845dd1,
                0x6fa87e4f, 0xfe2ce6e0, 0xa3014314, 0x4e0811a1, 0xf7537e82, 0xbd3af235, 0x2ad7d2bb,
                0xeb86d391
        };
        const uint32_t h0[4] = { 0x67452301, 0xefcdab89, 0x98badcfe, 0x10325476 };
        uint32_t M[16], a = h0[0], b = h0[1], c = h0[2], d = h0[3];

        for (int i = 0; i < 16; i++)
                M[i] = (uint32_t) blk[4 * i] | (uint32_t) blk[4 * i + 1] << 8 |
                       (uint32_t) blk[4 * i + 2] << 16 | (uint32_t) blk[4 * i + 3] << 24;
        for (unsigned i = 0; i < 64; i++) {
                uint32_t f;
                unsigned g;

                if (i < 16) {
                        f = (b & c) | (~b & d);
                        g = i;
                } else if (i < 32) {
                        f = (d & b) | (~d & c);
                        g = (5 * i + 1) & 15;
                } else if (i < 48) {
                        f = b ^ c ^ d;
                        g = (3 * i + 5) & 15;
                } else {
                        f = c ^ (b | ~d);
                        g = (7 * i) & 15;
                }
                f += a + K[i] + M[g];
                a = d;
                d = c;
                c = b;
                b += (f << sh[i]) | (f >> (32 - sh[i]));
        }
        const uint32_t r[4] = { h0[0] + a, h0[1] + b, h0[2] + c, h0[3] + d };

        for (int i = 0; i < 4; i++)
                for (int k = 0; k < 4; k++)
                        out[4 * i + k] = (uint8_t) (r[i] >> (8 * k));
}

/* raw SHA state words (host order) -> digest order (big-endian words) */
static void
sha_raw_to_digest(uint8_t *out, const uint8_t *raw, const unsigned bytes, const unsigned wsz)
{
        for (unsigned i = 0; i < bytes; i++)
                out[i] = raw[(i / wsz) * wsz + (wsz - 1 - i % wsz)];
}

static void
run_sha(IMB_MGR *m, IMB_MGR *bm, const int sub, int n, uint64_t *st)
{
        uint32_t len[MAXLENS];
        IMB_JOB t;
        int status;

        n = clampn(n, 1, MAXLENS);
        if (sub < 5) { /* one-shot against the job */
                const int a = sub;

                for (int i = 0; i < n; i++)
                        len[i] = i == 0 ? 0 : gen_len1(st, 1, 3000);
                case_lens(len, n);
                for (int i = 0; i < n; i++) {
                        gbuf src = gb_rand(st, len[i], rnd_mis(st));
                        gbuf one = gb_new(sha_tab[a].dig, rnd_mis(st));
                        gbuf jb = gb_new(sha_tab[a].dig, rnd_mis(st));
                        gbuf xv = gb_new(sha_tab[a].dig, 0);

                        sha_oneshot(m, a, src.p, len[i], one.p);
                        chk_errno(m, i);
                        job_init(&t);
                        job_hash(&t, sha_tab[a].job, src.p, len[i], jb.p, sha_tab[a].dig);
                        run_jobs(m, &t, 1, &status);
                        chk_status(i, status);
                        chk3(i, "tag", NULL, &one, &jb);
                        if (bm != NULL) {
                                sha_oneshot(bm, a, src.p, len[i], xv.p);
                                chk_eq(i, "tag", one.p, xv.p, xv.len, "xvariant");
                        }
                        chk_src(i, &src);
                }
                return;
        }
        if (sub < 10) { /* ONE_BLOCK of the hand-padded block against one-shot and job */
                const int a = sub - 5;
                const unsigned blk = sha_tab[a].blk, wsz = sha_tab[a].wsz;
                const unsigned maxl = blk - 1 - 2 * wsz; /* 55 or 111 */

                for (int i = 0; i < n; i++)
                        len[i] = (unsigned) n == maxl + 1 ? (unsigned) i
                                 : i == 0                 ? 0
                                 : i == 1                 ? maxl
                                                          : rnd_in(st, 0, maxl);
                case_lens(len, n);
                for (int i = 0; i < n; i++) {
                        gbuf src = gb_rand(st, len[i], rnd_mis(st));
                        gbuf pad = gb_new(blk, rnd_mis(st));
                        gbuf raw = gb_new(sha_tab[a].raw, 0);
                        gbuf api = gb_new(sha_tab[a].dig, 0);
                        gbuf one = gb_new(sha_tab[a].dig, 0);
                        gbuf jb = gb_new(sha_tab[a].dig, 0);
                        const uint64_t bits = (uint64_t) len[i] * 8;

                        memcpy(pad.p, src.p, len[i]);
                        pad.p[len[i]] = 0x80;
                        for (int k = 0; k < 8; k++)
                                pad.p[blk - 1 - k] = (uint8_t) (bits >> (8 * k));
                        gb_keep(&pad);
                        sha_one_block(m, a, pad.p, raw.p);
                        sha_raw_to_digest(api.p, raw.p, sha_tab[a].dig, wsz);
                        sha_oneshot(m, a, src.p, len[i], one.p);
                        chk_errno(m, i);
                        job_init(&t);
                        job_hash(&t, sha_tab[a].job, src.p, len[i], jb.p, sha_tab[a].dig);
                        run_jobs(m, &t, 1, &status);
                        chk_status(i, status);
                        chk3(i, "tag", &api, &one, &jb);
                        chk_can(i, &raw);
                        chk_src(i, &pad);
                        chk_src(i, &src);
                }
                return;
        }
        if (sub == 10) { /* MD5 ONE_BLOCK: other variant and C reference */
                for (int i = 0; i < n; i++)
                        len[i] = 64;
                case_lens(len, n);
                for (int i = 0; i < n; i++) {
                        gbuf blk = gb_rand(st, 64, rnd_mis(st));
                        gbuf out = gb_new(16, rnd_mis(st));
                        gbuf xv = gb_new(16, 0);
                        uint8_t ref[16];

                        IMB_MD5_ONE_BLOCK(m, blk.p, out.p);
                        md5_block_ref(blk.p, ref);
                        chk_eq(i, "tag", out.p, ref, 16, "cref");
                        if (bm != NULL) {
                                IMB_MD5_ONE_BLOCK(bm, blk.p, xv.p);
                                chk_eq(i, "tag", out.p, xv.p, 16, "xvariant");
                        }
                        chk_can(i, &out);
                        chk_src(i, &blk);
                }
                return;
        }
        /* imb_hmac_ipad_opad() against ONE_BLOCK of (key padded xor 0x36 / 0x5c) */
        const int a = sub - 11;
        const unsigned blk = sha_tab[a].blk, raw = sha_tab[a].raw;

        for (int i = 0; i < n; i++) {
                const uint32_t r = rnd_in(st, 0, 9);

                len[i] = r == 0 ? blk : r == 1 ? 1 : rnd_in(st, 1, blk);
                if (a < 5 && r >= 8) /* longer than a block: hashed first (not for MD5) */
                        len[i] = rnd_in(st, blk + 1, 3 * blk);
        }
        case_lens(len, n);
        for (int i = 0; i < n; i++) {
                gbuf key = gb_rand(st, len[i], rnd_mis(st));
                gbuf ip = gb_new(raw, 0), op = gb_new(raw, 0);
                gbuf xip = gb_new(raw, 0), xop = gb_new(raw, 0);
                gbuf eip = gb_new(raw, 0), eop = gb_new(raw, 0);
                uint8_t k[128] = { 0 }, b[128];
                size_t kl = len[i];

                imb_hmac_ipad_opad(m, sha_tab[a].hmac, key.p, len[i], ip.p, op.p);
                chk_errno(m, i);
                if (kl > blk) {
                        sha_oneshot(m, a, key.p, kl, k);
                        kl = sha_tab[a].dig;
                } else {
                        memcpy(k, key.p, kl);
                }
                for (unsigned j = 0; j < blk; j++)
                        b[j] = k[j] ^ 0x36;
                sha_one_block(m, a, b, eip.p);
                for (unsigned j = 0; j < blk; j++)
                        b[j] = k[j] ^ 0x5c;
                sha_one_block(m, a, b, eop.p);
                chk3(i, "tag", &ip, &eip, NULL);
                chk3(i, "tag", &op, &eop, NULL);
                if (bm != NULL) {
                        imb_hmac_ipad_opad(bm, sha_tab[a].hmac, key.p, len[i], xip.p, xop.p);
                        chk_eq(i, "tag", ip.p, xip.p, raw, "xvariant");
                        chk_eq(i, "tag", op.p, xop.p, raw, "xvariant");
                }
                chk_src(i, &key);
        }
}

static void
plan_sha(void)
{
        for (int r = 0; r < reps(2, 8); r++) {
                for (int a = 0; a < 5; a++) {
                        emit(a, 8);
                        emit(5 + a, 12);
                        if (g_thorough)
                                emit(5 + a, (int) (sha_tab[a].blk - 2 * sha_tab[a].wsz));
                }
                emit(10, 8);
                for (int a = 0; a < 6; a++)
                        emit(11 + a, 8);
        }
}

/* ========================================================================= */
/* 6. crc (and HEC) */

enum { CRC_HEC32 = 12, CRC_HEC64, CRC_HEC32_KAT, CRC_HEC64_KAT };

static const char *const crc_subs[] = { "CRC32_ETHERNET_FCS",
                                        "CRC32_SCTP",
                                        "CRC32_WIMAX_OFDMA_DATA",
                                        "CRC24_LTE_A",
                                        "CRC24_LTE_B",
                                        "CRC16_X25",
                                        "CRC16_FP_DATA",
                                        "CRC11_FP_HEADER",
                                        "CRC10_IUUP_DATA",
                                        "CRC8_WIMAX_OFDMA_HCS",
                                        "CRC7_FP_HEADER",
                                        "CRC6_IUUP_HEADER",
                                        "HEC_32",
                                        "HEC_64",
                                        "HEC_32_KAT",
                                        "HEC_64_KAT" };

static const IMB_HASH_ALG crc_alg[12] = {
        IMB_AUTH_CRC32_ETHERNET_FCS, IMB_AUTH_CRC32_SCTP,      IMB_AUTH_CRC32_WIMAX_OFDMA_DATA,
        IMB_AUTH_CRC24_LTE_A,        IMB_AUTH_CRC24_LTE_B,     IMB_AUTH_CRC16_X25,
        IMB_AUTH_CRC16_FP_DATA,      IMB_AUTH_CRC11_FP_HEADER, IMB_AUTH_CRC10_IUUP_DATA,
        IMB_AUTH_CRC8_WIMAX_OFDMA_HCS, IMB_AUTH_CRC7_FP_HEADER, IMB_AUTH_CRC6_IUUP_HEADER
};

static uint32_t
crc_direct(IMB_MGR *m, const int k, const void *p, const uint64_t len)
{
        switch (k) {
        case 0:
                return IMB_CRC32_ETHERNET_FCS(m, p, len);
        case 1:
                return IMB_CRC32_SCTP(m, p, len);
        case 2:
                return IMB_CRC32_WIMAX_OFDMA_DATA(m, p, len);
        case 3:
                return IMB_CRC24_LTE_A(m, p, len);
        case 4:
                return IMB_CRC24_LTE_B(m, p, len);
        case 5:
                return IMB_CRC16_X25(m, p, len);
        case 6:
                return IMB_CRC16_FP_DATA(m, p, len);
        case 7:
                return IMB_CRC11_FP_HEADER(m, p, len);
        case 8:
                return IMB_CRC10_IUUP_DATA(m, p, len);
        case 9:
                return IMB_CRC8_WIMAX_OFDMA_HCS(m, p, len);
        case 10:
                return IMB_CRC7_FP_HEADER(m, p, len);
        default:
                return IMB_CRC6_IUUP_HEADER(m, p, len);
        }
}

/*
 * XGEM header HEC (ITU-T G.987.3): 12-bit BCH remainder of the 19/51 header
 * bits, generator x^12+x^10+x^8+x^5+x^4+x^3+1 (0x1539; the asm constant
 * 0x53900000 is 0x539 << 20), followed by one even-parity bit.
 */
static uint32_t
hec_rem(const uint64_t msg, const int msgbits)
{
        uint32_t r = 0;

        for (int i = msgbits + 12 - 1; i >= 0; i--) {
                r = (r << 1) | (i >= 12 ? (uint32_t) ((msg >> (i - 12)) & 1) : 0);
                if (r & 0x1000)
                        r ^= 0x1539;
        }
        return r & 0xfff;
}

static uint32_t
hec32_ref(const uint8_t *p)
{
        const uint32_t h = (uint32_t) p[0] << 24 | (uint32_t) p[1] << 16 | (uint32_t) p[2] << 8 | p[3];
        uint32_t o = (h & 0xffffe000u) | (hec_rem(h >> 13, 19) << 1);

        o |= (uint32_t) __builtin_popcount(o) & 1;
        return __builtin_bswap32(o); /* stored little-endian it reads as the BE header */
}

static uint64_t
hec64_ref(const uint8_t *p)
{
        uint64_t h = 0;

        for (int i = 0; i < 8; i++)
                h = (h << 8) | p[i];
        uint64_t o = (h & ~UINT64_C(0x1fff)) | ((uint64_t) hec_rem(h >> 13, 51) << 1);

        o |= (uint64_t) __builtin_popcountll(o) & 1;
        return __builtin_bswap64(o);
}

/* vectors of test/kat-app/hec_test.c */
static const uint32_t hec32_kat[] = { 0x660e4758, 0xcc076e69, 0xcb1f206b, 0xa611502d, 0x4e1b7320,
                                      0x0a196148, 0xda034e4f, 0x5e116970, 0xea11646a, 0xd70a6820,
                                      0xa3186574, 0x41156375, 0x0d077061, 0x9b1e6f20, 0x6601657a,
                                      0x5d1d6570, 0x130f2066, 0x631f696e, 0x6013656e, 0x2e02614d,
                                      0x1b012e61, 0xd4182064, 0x9a0a6572, 0x2f162020 };
static const uint64_t hec64_kat[] = {
        0x550a4e4f502d4758, 0x48172c696e614b20, 0x8b0c696b616f7269, 0x7415702073617720,
        0x47025320656f4a20, 0x220a69616b754d20, 0x8e12656375646f72, 0x231a202c6874696d,
        0x731a65766144202c, 0x181a6e6168742064, 0x6e0a726168636952, 0x790f2c646f6f4820,
        0x0517206f7420736b, 0x6e17646f6f472064, 0xf2044c2069655720, 0x15094320616e6e41,
        0x000f44202c6e6f73, 0xe9056e61202c6e69, 0x9f156146202c6975, 0x80174b2073696e65,
        0x471c6320666f2064, 0x7203206563697262, 0x441f736d69746f68, 0x05042c657372756f,
        0x3d03616772756f42, 0x5f157559202c796b, 0x01066b6e61724620, 0x6017754a202c7472,
        0xe805207569716e61, 0x97186e6566664520, 0xa808696863692d6e, 0xd21748202c6f754c,
        0x8604726567726562
};

static void
run_crc(IMB_MGR *m, IMB_MGR *bm, const int sub, int n, uint64_t *st)
{
        uint32_t len[MAXLENS];

        if (sub == CRC_HEC32_KAT)
                n = clampn(n, (int) IMB_DIM(hec32_kat), (int) IMB_DIM(hec32_kat));
        else if (sub == CRC_HEC64_KAT)
                n = clampn(n, (int) IMB_DIM(hec64_kat), (int) IMB_DIM(hec64_kat));
        else
                n = clampn(n, 1, MAXN);

        if (sub < 12) {
                IMB_JOB t[MAXN];
                int status[MAXN];
                gbuf src[MAXN], one[MAXN], jb[MAXN];

                for (int i = 0; i < n; i++)
                        len[i] = i == 0 ? 0 : gen_len1(st, 1, 1500);
                case_lens(len, n);
                for (int i = 0; i < n; i++) {
                        src[i] = gb_rand(st, len[i], rnd_mis(st));
                        one[i] = gb_new(4, 0);
                        jb[i] = gb_new(4, 0);
                        const uint32_t c = crc_direct(m, sub, src[i].p, len[i]);

                        memcpy(one[i].p, &c, 4);
                        job_init(&t[i]);
                        job_hash(&t[i], crc_alg[sub], src[i].p, len[i], jb[i].p, 4);
                }
                chk_errno(m, 0);
                run_jobs(m, t, n, status);
                for (int i = 0; i < n; i++) {
                        chk_status(i, status[i]);
                        chk3(i, "tag", NULL, &one[i], &jb[i]);
                        if (bm != NULL) {
                                const uint32_t x = crc_direct(bm, sub, src[i].p, len[i]);

                                chk_eq(i, "tag", one[i].p, (const uint8_t *) &x, 4, "xvariant");
                        }
                        chk_src(i, &src[i]);
                }
                return;
        }

        const int wide = sub == CRC_HEC64 || sub == CRC_HEC64_KAT;
        const unsigned w = wide ? 8 : 4;

        for (int i = 0; i < n; i++)
                len[i] = w;
        case_lens(len, n);
        for (int i = 0; i < n; i++) {
                gbuf in = gb_new(w, rnd_mis(st));
                uint8_t got[8], want[8];

                if (sub == CRC_HEC32_KAT) {
                        const uint32_t x = hec32_kat[i] & ~0xfff10000u;

                        memcpy(in.p, &x, 4);
                        memcpy(want, &hec32_kat[i], 4);
                } else if (sub == CRC_HEC64_KAT) {
                        const uint64_t x = hec64_kat[i] & ~UINT64_C(0xfff1000000000000);

                        memcpy(in.p, &x, 8);
                        memcpy(want, &hec64_kat[i], 8);
                } else {
                        imbh_fill_random(st, in.p, w);
                }
                gb_keep(&in);
                if (wide) {
                        const uint64_t o = IMB_HEC_64(m, in.p), r = hec64_ref(in.p);

                        memcpy(got, &o, 8);
                        if (sub == CRC_HEC64)
                                memcpy(want, &r, 8);
                        else
                                chk_eq(i, "tag", (const uint8_t *) &r, want, 8, "cref");
                } else {
                        const uint32_t o = IMB_HEC_32(m, in.p), r = hec32_ref(in.p);

                        memcpy(got, &o, 4);
                        if (sub == CRC_HEC32)
                                memcpy(want, &r, 4);
                        else
                                chk_eq(i, "tag", (const uint8_t *) &r, want, 4, "cref");
                }
                chk_errno(m, i);
                chk_eq(i, "tag", got, want, w, "cref");
                if (bm != NULL) {
                        uint8_t xv[8];

                        if (wide) {
                                const uint64_t o = IMB_HEC_64(bm, in.p);

                                memcpy(xv, &o, 8);
                        } else {
                                const uint32_t o = IMB_HEC_32(bm, in.p);

                                memcpy(xv, &o, 4);
                        }
                        chk_eq(i, "tag", got, xv, w, "xvariant");
                }
                chk_src(i, &in);
        }
}

static void
plan_crc(void)
{
        for (int r = 0; r < reps(2, 10); r++) {
                for (int k = 0; k < 12; k++)
                        emit(k, 10);
                emit(CRC_HEC32, 32);
                emit(CRC_HEC64, 32);
        }
        emit(CRC_HEC32_KAT, (int) IMB_DIM(hec32_kat));
        emit(CRC_HEC64_KAT, (int) IMB_DIM(hec64_kat));
}

/* ========================================================================= */
/* 7. ghash_gmac (GHASH, GMAC, one-shot GCM) */

static const char *const ghash_subs[] = { "GHASH",          "AES128_GMAC",    "AES192_GMAC",
                                          "AES256_GMAC",    "AES128_GCM_ENC", "AES192_GCM_ENC",
                                          "AES256_GCM_ENC", "AES128_GCM_DEC", "AES192_GCM_DEC",
                                          "AES256_GCM_DEC" };

static struct gcm_key_data *
gcm_key(IMB_MGR *m, const uint8_t *key, const unsigned klen)
{
        struct gcm_key_data *k = xalloc(sizeof(*k));

        if (klen == 16)
                IMB_AES128_GCM_PRE(m, key, k);
        else if (klen == 24)
                IMB_AES192_GCM_PRE(m, key, k);
        else
                IMB_AES256_GCM_PRE(m, key, k);
        return k;
}

static void
gcm_oneshot(IMB_MGR *m, const unsigned klen, const int enc, const struct gcm_key_data *k,
            uint8_t *dst, const uint8_t *src, const uint64_t len, const uint8_t *iv,
            const uint8_t *aad, const uint64_t aadl, uint8_t *tag, const uint64_t tagl)
{
        struct gcm_context_data ctx;

        if (klen == 16) {
                if (enc)
                        IMB_AES128_GCM_ENC(m, k, &ctx, dst, src, len, iv, aad, aadl, tag, tagl);
                else
                        IMB_AES128_GCM_DEC(m, k, &ctx, dst, src, len, iv, aad, aadl, tag, tagl);
        } else if (klen == 24) {
                if (enc)
                        IMB_AES192_GCM_ENC(m, k, &ctx, dst, src, len, iv, aad, aadl, tag, tagl);
                else
                        IMB_AES192_GCM_DEC(m, k, &ctx, dst, src, len, iv, aad, aadl, tag, tagl);
        } else {
                if (enc)
                        IMB_AES256_GCM_ENC(m, k, &ctx, dst, src, len, iv, aad, aadl, tag, tagl);
                else
                        IMB_AES256_GCM_DEC(m, k, &ctx, dst, src, len, iv, aad, aadl, tag, tagl);
        }
}

static void
gcm_job(IMB_JOB *t, const unsigned klen, const int enc, const struct gcm_key_data *k, uint8_t *dst,
        const uint8_t *src, const uint64_t len, const uint8_t *iv, const uint8_t *aad,
        const uint64_t aadl, uint8_t *tag, const uint64_t tagl)
{
        job_init(t);
        job_cipher(t, IMB_CIPHER_GCM, enc ? IMB_DIR_ENCRYPT : IMB_DIR_DECRYPT, k, k, klen, iv, 12,
                   src, dst, 0, len);
        job_hash(t, IMB_AUTH_AES_GMAC, src, len, tag, tagl);
        t->u.GCM.aad = aad;
        t->u.GCM.aad_len_in_bytes = aadl;
}

static void
gmac_direct(IMB_MGR *m, const unsigned klen, const struct gcm_key_data *k, const uint8_t *iv,
            const uint64_t ivl, const uint8_t *src, const uint32_t *seg, const int nseg,
            uint8_t *tag, const uint64_t tagl)
{
        struct gcm_context_data ctx;

        if (klen == 16)
                IMB_AES128_GMAC_INIT(m, k, &ctx, iv, ivl);
        else if (klen == 24)
                IMB_AES192_GMAC_INIT(m, k, &ctx, iv, ivl);
        else
                IMB_AES256_GMAC_INIT(m, k, &ctx, iv, ivl);
        for (int s = 0; s < nseg; s++) {
                if (klen == 16)
                        IMB_AES128_GMAC_UPDATE(m, k, &ctx, src, seg[s]);
                else if (klen == 24)
                        IMB_AES192_GMAC_UPDATE(m, k, &ctx, src, seg[s]);
                else
                        IMB_AES256_GMAC_UPDATE(m, k, &ctx, src, seg[s]);
                src += seg[s];
        }
        if (klen == 16)
                IMB_AES128_GMAC_FINALIZE(m, k, &ctx, tag, tagl);
        else if (klen == 24)
                IMB_AES192_GMAC_FINALIZE(m, k, &ctx, tag, tagl);
        else
                IMB_AES256_GMAC_FINALIZE(m, k, &ctx, tag, tagl);
}

/* split len into nseg pieces, boundaries mostly not multiples of 16 */
static int
gen_segs(uint64_t *st, const uint32_t len, const int want, uint32_t *seg)
{
        int nseg = 0;
        uint32_t left = len;

        while (nseg < want - 1 && left > 1) {
                const uint32_t s = rnd_in(st, 1, left - 1);

                seg[nseg++] = s;
                left -= s;
        }
        seg[nseg++] = left;
        return nseg;
}

static uint32_t
gen_taglen(uint64_t *st)
{
        static const uint32_t t[] = { 16, 16, 16, 16, 12, 8, 4 };
        const uint32_t r = rnd_in(st, 0, 7);

        return r < 7 ? t[r] : rnd_in(st, 1, 16);
}

static void
run_ghash(IMB_MGR *m, IMB_MGR *bm, const int sub, int n, uint64_t *st)
{
        uint32_t len[MAXN];
        gbuf src[MAXN], one[MAXN], jb[MAXN], api[MAXN], oned[MAXN], jbd[MAXN];
        IMB_JOB t[MAXN];
        int status[MAXN];

        (void) bm;
        n = clampn(n, 1, MAXN);
        if (sub == 0) { /* GHASH */
                gen_lens(st, n, 1, 2000, 64, len);
                case_lens(len, n);
                for (int i = 0; i < n; i++) {
                        struct gcm_key_data *k = xalloc(sizeof(*k));
                        uint8_t *init = xalloc(16);

                        IMB_GHASH_PRE(m, xrand(st, 16), k);
                        if (i & 1)
                                imbh_fill_random(st, init, 16);
                        src[i] = gb_rand(st, len[i], rnd_mis(st));
                        one[i] = gb_new(16, rnd_mis(st));
                        jb[i] = gb_new(16, rnd_mis(st));
                        memcpy(one[i].p, init, 16); /* tag is in/out */
                        IMB_GHASH(m, k, src[i].p, len[i], one[i].p, 16);
                        job_init(&t[i]);
                        job_hash(&t[i], IMB_AUTH_GHASH, src[i].p, len[i], jb[i].p, 16);
                        t[i].u.GHASH._key = k;
                        t[i].u.GHASH._init_tag = init;
                }
                chk_errno(m, 0);
                run_jobs(m, t, n, status);
                for (int i = 0; i < n; i++) {
                        chk_status(i, status[i]);
                        chk3(i, "tag", NULL, &one[i], &jb[i]);
                        chk_src(i, &src[i]);
                }
                return;
        }
        if (sub <= 3) { /* GMAC: one update, several updates, job */
                const unsigned klen = sub == 1 ? 16 : sub == 2 ? 24 : 32;
                const IMB_HASH_ALG h = sub == 1   ? IMB_AUTH_AES_GMAC_128
                                       : sub == 2 ? IMB_AUTH_AES_GMAC_192
                                                  : IMB_AUTH_AES_GMAC_256;

                for (int i = 0; i < n; i++)
                        len[i] = i == 0 ? 0 : gen_len1(st, 1, 2000);
                case_lens(len, n);
                for (int i = 0; i < n; i++) {
                        const struct gcm_key_data *k = gcm_key(m, xrand(st, klen), klen);
                        const uint32_t ivl = rnd_in(st, 0, 9) < 7 ? 12 : rnd_in(st, 1, 32);
                        const uint8_t *iv = xrand(st, ivl);
                        const uint32_t tagl = gen_taglen(st);
                        uint32_t seg[4];
                        const int nseg = gen_segs(st, len[i], (int) rnd_in(st, 2, 4), seg);

                        src[i] = gb_rand(st, len[i], rnd_mis(st));
                        one[i] = gb_new(tagl, rnd_mis(st));
                        api[i] = gb_new(tagl, rnd_mis(st));
                        jb[i] = gb_new(tagl, rnd_mis(st));
                        gmac_direct(m, klen, k, iv, ivl, src[i].p, &len[i], 1, one[i].p, tagl);
                        gmac_direct(m, klen, k, iv, ivl, src[i].p, seg, nseg, api[i].p, tagl);
                        job_init(&t[i]);
                        job_hash(&t[i], h, src[i].p, len[i], jb[i].p, tagl);
                        t[i].u.GMAC._key = k;
                        t[i].u.GMAC._iv = iv;
                        t[i].u.GMAC.iv_len_in_bytes = ivl;
                }
                chk_errno(m, 0);
                run_jobs(m, t, n, status);
                for (int i = 0; i < n; i++) {
                        chk_status(i, status[i]);
                        chk3(i, "tag", &api[i], &one[i], &jb[i]);
                        chk_src(i, &src[i]);
                }
                return;
        }
        /* one-shot GCM against the job, 12-byte IV */
        const int enc = sub <= 6;
        const unsigned klen = (sub - 4) % 3 == 0 ? 16 : (sub - 4) % 3 == 1 ? 24 : 32;

        for (int i = 0; i < n; i++)
                len[i] = i == 0 ? 0 : gen_len1(st, 1, 1500);
        case_lens(len, n);
        for (int i = 0; i < n; i++) {
                const struct gcm_key_data *k = gcm_key(m, xrand(st, klen), klen);
                const uint8_t *iv = xrand(st, 12);
                const uint32_t aadl = rnd_in(st, 0, 3) ? rnd_in(st, 1, 64) : 0;
                const uint8_t *aad = xrand(st, aadl);
                const uint32_t tagl = gen_taglen(st);

                src[i] = gb_rand(st, len[i], rnd_mis(st));
                oned[i] = gb_new(len[i], rnd_mis(st));
                jbd[i] = gb_new(len[i], rnd_mis(st));
                one[i] = gb_new(tagl, rnd_mis(st));
                jb[i] = gb_new(tagl, rnd_mis(st));
                gcm_oneshot(m, klen, enc, k, oned[i].p, src[i].p, len[i], iv, aad, aadl, one[i].p,
                            tagl);
                gcm_job(&t[i], klen, enc, k, jbd[i].p, src[i].p, len[i], iv, aad, aadl, jb[i].p,
                        tagl);
        }
        chk_errno(m, 0);
        run_jobs(m, t, n, status);
        for (int i = 0; i < n; i++) {
                chk_status(i, status[i]);
                chk3(i, "dst", NULL, &oned[i], &jbd[i]);
                chk3(i, "tag", NULL, &one[i], &jb[i]);
                chk_src(i, &src[i]);
        }
}

static void
plan_ghash(void)
{
        for (int r = 0; r < reps(2, 10); r++) {
                emit(0, 8);
                for (int s = 1; s <= 3; s++)
                        emit(s, 6);
                for (int s = 4; s <= 9; s++)
                        emit(s, 6);
        }
}

/* ========================================================================= */
/* 8. quic */

enum {
        Q_GCM_ENC128,
        Q_GCM_ENC256,
        Q_GCM_DEC128,
        Q_GCM_DEC256,
        Q_HP_ECB128,
        Q_HP_ECB256,
        Q_CP_ENC,
        Q_CP_DEC,
        Q_HP_CHACHA
};

static const char *const quic_subs[] = { "QUIC_AES128_GCM_ENC",        "QUIC_AES256_GCM_ENC",
                                         "QUIC_AES128_GCM_DEC",        "QUIC_AES256_GCM_DEC",
                                         "QUIC_HP_AES128_ECB",         "QUIC_HP_AES256_ECB",
                                         "QUIC_CHACHA20_POLY1305_ENC", "QUIC_CHACHA20_POLY1305_DEC",
                                         "QUIC_HP_CHACHA20" };

#define ROTL32(v, c) (((v) << (c)) | ((v) >> (32 - (c))))
#define CHACHA_QR(a, b, c, d)                                                                      \
        do {                                                                                       \
                a += b;                                                                            \
                d ^= a;                                                                            \
                d = ROTL32(d, 16);                                                                 \
                c += d;                                                                            \
                b ^= c;                                                                            \
                b = ROTL32(b, 12);                                                                 \
                a += b;                                                                            \
                d ^= a;                                                                            \
                d = ROTL32(d, 8);                                                                  \
                c += d;                                                                            \
                b ^= c;                                                                            \
                b = ROTL32(b, 7);                                                                  \
        } while (0)

static uint32_t
le32(const uint8_t *p)
{
        return (uint32_t) p[0] | (uint32_t) p[1] << 8 | (uint32_t) p[2] << 16 |
               (uint32_t) p[3] << 24;
}

/* RFC 8439 block function; counter and nonce as the last four state words */
static void
chacha20_block_ref(const uint8_t key[32], const uint8_t ctr_nonce[16], uint8_t out[64])
{
        uint32_t s[16], x[16];

        s[0] = 0x61707865;
        s[1] = 0x3320646e;
        s[2] = 0x79622d32;
        s[3] = 0x6b206574;
        for (int i = 0; i < 8; i++)
                s[4 + i] = le32(key + 4 * i);
        for (int i = 0; i < 4; i++)
                s[12 + i] = le32(ctr_nonce + 4 * i);
        memcpy(x, s, sizeof(x));
        for (int i = 0; i < 10; i++) {
                CHACHA_QR(x[0], x[4], x[8], x[12]);
                CHACHA_QR(x[1], x[5], x[9], x[13]);
                CHACHA_QR(x[2], x[6], x[10], x[14]);
                CHACHA_QR(x[3], x[7], x[11], x[15]);
                CHACHA_QR(x[0], x[5], x[10], x[15]);
                CHACHA_QR(x[1], x[6], x[11], x[12]);
                CHACHA_QR(x[2], x[7], x[8], x[13]);
                CHACHA_QR(x[3], x[4], x[9], x[14]);
        }
        for (int i = 0; i < 16; i++) {
                const uint32_t v = x[i] + s[i];

                out[4 * i] = (uint8_t) v;
                out[4 * i + 1] = (uint8_t) (v >> 8);
                out[4 * i + 2] = (uint8_t) (v >> 16);
                out[4 * i + 3] = (uint8_t) (v >> 24);
        }
}

static void
chacha_poly_job(IMB_JOB *t, const int enc, const uint8_t *key, uint8_t *dst, const uint8_t *src,
                const uint64_t len, const uint8_t *iv, const uint8_t *aad, const uint64_t aadl,
                uint8_t *tag)
{
        job_init(t);
        job_cipher(t, IMB_CIPHER_CHACHA20_POLY1305, enc ? IMB_DIR_ENCRYPT : IMB_DIR_DECRYPT, key,
                   key, 32, iv, 12, src, dst, 0, len);
        job_hash(t, IMB_AUTH_CHACHA20_POLY1305, src, len, tag, 16);
        t->u.CHACHA20_POLY1305.aad = aad;
        t->u.CHACHA20_POLY1305.aad_len_in_bytes = aadl;
}

static void
run_quic(IMB_MGR *m, IMB_MGR *bm, const int sub, int n, uint64_t *st)
{
        uint32_t len[MAXN];
        uint64_t len64[MAXN];
        const void *srcp[MAXN], *ivp[MAXN], *aadp[MAXN];
        void *dstp[MAXN], *tagp[MAXN];
        gbuf src[MAXN], aad[MAXN];
        gbuf apid[MAXN], oned[MAXN], jbd[MAXN], apit[MAXN], onet[MAXN], jbt[MAXN];
        IMB_JOB t[MAXN];
        int status[MAXN];

        n = clampn(n, 1, MAXN);

        if (sub == Q_HP_ECB128 || sub == Q_HP_ECB256) {
                /* mask = first 5 bytes of AES-ECB(sample) */
                const unsigned klen = sub == Q_HP_ECB128 ? 16 : 32;
                const IMB_KEY_SIZE_BYTES ks = klen == 16 ? IMB_KEY_128_BYTES : IMB_KEY_256_BYTES;
                const uint8_t *key = xrand(st, klen);
                uint32_t *ek = xalloc(15 * 16), *dk = xalloc(15 * 16);

                if (klen == 16)
                        IMB_AES_KEYEXP_128(m, key, ek, dk);
                else
                        IMB_AES_KEYEXP_256(m, key, ek, dk);
                for (int i = 0; i < n; i++) {
                        len[i] = 16;
                        src[i] = gb_rand(st, 16, rnd_mis(st));
                        apid[i] = gb_new(5, rnd_mis(st));
                        oned[i] = gb_new(5, rnd_mis(st));
                        jbd[i] = gb_new(16, rnd_mis(st));
                        srcp[i] = src[i].p;
                        dstp[i] = apid[i].p;
                        job_init(&t[i]);
                        job_cipher(&t[i], IMB_CIPHER_ECB, IMB_DIR_ENCRYPT, ek, dk, klen, NULL, 0,
                                   src[i].p, jbd[i].p, 0, 16);
                }
                case_lens(len, n);
                imb_quic_hp_aes_ecb(m, ek, dstp, srcp, (uint64_t) n, ks);
                chk_errno(m, 0);
                for (int i = 0; i < n; i++) {
                        const void *s1[1] = { src[i].p };
                        void *d1[1] = { oned[i].p };

                        imb_quic_hp_aes_ecb(m, ek, d1, s1, 1, ks);
                }
                chk_errno(m, 0);
                run_jobs(m, t, n, status);
                for (int i = 0; i < n; i++) {
                        chk_status(i, status[i]);
                        chk_eq(i, "dst", apid[i].p, oned[i].p, 5, "1buf");
                        chk_eq(i, "dst", apid[i].p, jbd[i].p, 5, "job");
                        chk_can(i, &apid[i]);
                        chk_can(i, &oned[i]);
                        chk_can(i, &jbd[i]);
                        chk_src(i, &src[i]);
                }
                return;
        }

        if (sub == Q_HP_CHACHA) {
                /* mask = 5 bytes of ChaCha20 keystream, counter = sample[0..3], nonce = sample[4..15] */
                const uint8_t *key = xrand(st, 32);
                gbuf xv[MAXN];

                for (int i = 0; i < n; i++) {
                        len[i] = 16;
                        src[i] = gb_rand(st, 16, rnd_mis(st));
                        apid[i] = gb_new(5, rnd_mis(st));
                        oned[i] = gb_new(5, rnd_mis(st));
                        xv[i] = gb_new(5, rnd_mis(st));
                        srcp[i] = src[i].p;
                        dstp[i] = apid[i].p;
                }
                case_lens(len, n);
                imb_quic_hp_chacha20(m, key, dstp, srcp, (uint64_t) n);
                chk_errno(m, 0);
                for (int i = 0; i < n; i++) {
                        const void *s1[1] = { src[i].p };
                        void *d1[1] = { oned[i].p };

                        imb_quic_hp_chacha20(m, key, d1, s1, 1);
                }
                if (bm != NULL) {
                        for (int i = 0; i < n; i++)
                                dstp[i] = xv[i].p;
                        imb_quic_hp_chacha20(bm, key, dstp, srcp, (uint64_t) n);
                }
                for (int i = 0; i < n; i++) {
                        uint8_t blk[64];

                        chacha20_block_ref(key, src[i].p, blk);
                        chk_eq(i, "dst", apid[i].p, oned[i].p, 5, "1buf");
                        chk_eq(i, "dst", apid[i].p, blk, 5, "cref");
                        if (bm != NULL) {
                                chk_eq(i, "dst", apid[i].p, xv[i].p, 5, "xvariant");
                                chk_can(i, &xv[i]);
                        }
                        chk_can(i, &apid[i]);
                        chk_can(i, &oned[i]);
                        chk_src(i, &src[i]);
                }
                return;
        }

        /* AEAD batches: same key, per-packet IV and AAD, tag length 16 */
        const int gcm = sub <= Q_GCM_DEC256;
        const int enc = sub == Q_GCM_ENC128 || sub == Q_GCM_ENC256 || sub == Q_CP_ENC;
        const unsigned klen = (sub == Q_GCM_ENC128 || sub == Q_GCM_DEC128) ? 16 : 32;
        const IMB_KEY_SIZE_BYTES ks = klen == 16 ? IMB_KEY_128_BYTES : IMB_KEY_256_BYTES;
        const IMB_CIPHER_DIRECTION dir = enc ? IMB_DIR_ENCRYPT : IMB_DIR_DECRYPT;
        const uint8_t *key = xrand(st, 32);
        const struct gcm_key_data *gk = gcm ? gcm_key(m, key, klen) : NULL;
        const uint32_t aadl = rnd_in(st, 0, 4) ? rnd_in(st, 1, 64) : 0;

        gen_lens(st, n, 1, 1500, 64, len);
        if (rnd_in(st, 0, 7) == 0)
                len[rnd_in(st, 0, (uint32_t) n - 1)] = 0;
        case_lens(len, n);
        for (int i = 0; i < n; i++) {
                len64[i] = len[i];
                src[i] = gb_rand(st, len[i], rnd_mis(st));
                aad[i] = gb_rand(st, aadl, rnd_mis(st));
                ivp[i] = xrand(st, 12);
                apid[i] = gb_new(len[i], rnd_mis(st));
                oned[i] = gb_new(len[i], rnd_mis(st));
                jbd[i] = gb_new(len[i], rnd_mis(st));
                apit[i] = gb_new(16, rnd_mis(st));
                onet[i] = gb_new(16, rnd_mis(st));
                jbt[i] = gb_new(16, rnd_mis(st));
                srcp[i] = src[i].p;
                aadp[i] = aad[i].p;
                dstp[i] = apid[i].p;
                tagp[i] = apit[i].p;
        }
        if (gcm)
                imb_quic_aes_gcm(m, gk, ks, dir, dstp, srcp, len64, ivp, aadp, aadl, tagp, 16,
                                 (uint64_t) n);
        else
                imb_quic_chacha20_poly1305(m, key, dir, dstp, srcp, len64, ivp, aadp, aadl, tagp,
                                           (uint64_t) n);
        chk_errno(m, 0);
        for (int i = 0; i < n; i++) {
                if (gcm) { /* 1-buffer reference: the one-shot direct call */
                        gcm_oneshot(m, klen, enc, gk, oned[i].p, src[i].p, len[i], ivp[i],
                                    aad[i].p, aadl, onet[i].p, 16);
                        gcm_job(&t[i], klen, enc, gk, jbd[i].p, src[i].p, len[i], ivp[i], aad[i].p,
                                aadl, jbt[i].p, 16);
                } else { /* 1-buffer reference: a batch of one packet */
                        const void *s1[1] = { src[i].p }, *a1[1] = { aad[i].p };
                        void *d1[1] = { oned[i].p }, *t1[1] = { onet[i].p };

                        imb_quic_chacha20_poly1305(m, key, dir, d1, s1, &len64[i], &ivp[i], a1,
                                                   aadl, t1, 1);
                        chacha_poly_job(&t[i], enc, key, jbd[i].p, src[i].p, len[i], ivp[i],
                                        aad[i].p, aadl, jbt[i].p);
                }
        }
        chk_errno(m, 0);
        run_jobs(m, t, n, status);
        for (int i = 0; i < n; i++) {
                chk_status(i, status[i]);
                chk3(i, "dst", &apid[i], &oned[i], &jbd[i]);
                chk3(i, "tag", &apit[i], &onet[i], &jbt[i]);
                chk_src(i, &src[i]);
                chk_src(i, &aad[i]);
        }
}

static void
plan_quic(void)
{
        static const int q[] = { 1, 2, 3, 5, 8, 13, 20 };

        for (int r = 0; r < reps(1, 3); r++)
                for (int s = 0; s <= Q_HP_CHACHA; s++) {
                        if (g_thorough)
                                for (int n = 1; n <= 20; n++)
                                        emit(s, n);
                        else
                                for (size_t i = 0; i < IMB_DIM(q); i++)
                                        emit(s, q[i]);
                }
}

/* ========================================================================= */
/* 9. cfb_one */

static const char *const cfb_subs[] = { "AES128_CFB_ONE", "AES256_CFB_ONE" };

static void
cfb_one(IMB_MGR *m, const unsigned klen, void *dst, const void *src, const void *iv,
        const void *ek, const uint64_t len)
{
        if (klen == 16)
                IMB_AES128_CFB_ONE(m, dst, src, iv, ek, len);
        else
                IMB_AES256_CFB_ONE(m, dst, src, iv, ek, len);
}

static void
run_cfb(IMB_MGR *m, IMB_MGR *bm, const int sub, int n, uint64_t *st)
{
        const unsigned klen = sub == 0 ? 16 : 32;
        uint32_t len[MAXN];

        n = clampn(n, 1, MAXN);
        for (int i = 0; i < n; i++)
                len[i] = n == 16 ? (uint32_t) i + 1 : rnd_in(st, 1, 16);
        case_lens(len, n);
        for (int i = 0; i < n; i++) {
                const uint8_t *key = xrand(st, klen), *iv = xrand(st, 16);
                uint32_t *ek = xalloc(15 * 16), *dk = xalloc(15 * 16);
                uint32_t *xek = xalloc(15 * 16), *xdk = xalloc(15 * 16);
                const uint32_t L = len[i];
                gbuf src = gb_rand(st, L, rnd_mis(st));
                gbuf full = gb_new(16, rnd_mis(st)); /* zero padded copy */
                gbuf api = gb_new(L, rnd_mis(st));
                gbuf one = gb_new(16, rnd_mis(st));
                gbuf je = gb_new(16, rnd_mis(st)), jd = gb_new(16, rnd_mis(st));
                gbuf xv = gb_new(L, rnd_mis(st));
                IMB_JOB t[2];
                int status[2];

                if (klen == 16)
                        IMB_AES_KEYEXP_128(m, key, ek, dk);
                else
                        IMB_AES_KEYEXP_256(m, key, ek, dk);
                memcpy(full.p, src.p, L);
                gb_keep(&full);
                cfb_one(m, klen, api.p, src.p, iv, ek, L);
                cfb_one(m, klen, one.p, full.p, iv, ek, 16);
                chk_errno(m, i);
                /* c = p xor E(iv): the same single-block operation in both directions */
                job_init(&t[0]);
                job_cipher(&t[0], IMB_CIPHER_CFB, IMB_DIR_ENCRYPT, ek, ek, klen, iv, 16, full.p,
                           je.p, 0, 16);
                job_init(&t[1]);
                job_cipher(&t[1], IMB_CIPHER_CFB, IMB_DIR_DECRYPT, ek, ek, klen, iv, 16, full.p,
                           jd.p, 0, 16);
                run_jobs(m, t, 2, status);
                chk_status(i, status[0]);
                chk_status(i, status[1]);
                chk_eq(i, "dst", api.p, one.p, L, "1buf"); /* prefix property */
                chk_eq(i, "dst", api.p, je.p, L, "job");
                chk_eq(i, "dst", one.p, je.p, 16, "job");
                chk_eq(i, "dst", one.p, jd.p, 16, "job");
                if (bm != NULL) {
                        if (klen == 16)
                                IMB_AES_KEYEXP_128(bm, key, xek, xdk);
                        else
                                IMB_AES_KEYEXP_256(bm, key, xek, xdk);
                        cfb_one(bm, klen, xv.p, src.p, iv, xek, L);
                        chk_eq(i, "dst", api.p, xv.p, L, "xvariant");
                        chk_can(i, &xv);
                }
                chk_can(i, &api);
                chk_can(i, &one);
                chk_can(i, &je);
                chk_can(i, &jd);
                chk_src(i, &src);
                chk_src(i, &full);
        }
}

static void
plan_cfb(void)
{
        for (int r = 0; r < reps(2, 12); r++) {
                emit(0, 16);
                emit(1, 16);
        }
}

/* ========================================================================= */
/* 10. chacha_poly_direct */

static const char *const cp_subs[] = { "CHACHA20_POLY1305_ENC", "CHACHA20_POLY1305_DEC" };

static void
cp_direct(IMB_MGR *m, const int enc, const uint8_t *key, const uint8_t *iv, const uint8_t *aad,
          const uint64_t aadl, uint8_t *dst, const uint8_t *src, const uint32_t *seg,
          const int nseg, uint8_t *tag)
{
        struct chacha20_poly1305_context_data ctx;

        IMB_CHACHA20_POLY1305_INIT(m, key, &ctx, iv, aad, aadl);
        for (int s = 0; s < nseg; s++) {
                if (enc)
                        IMB_CHACHA20_POLY1305_ENC_UPDATE(m, key, &ctx, dst, src, seg[s]);
                else
                        IMB_CHACHA20_POLY1305_DEC_UPDATE(m, key, &ctx, dst, src, seg[s]);
                src += seg[s];
                dst += seg[s];
        }
        if (enc)
                IMB_CHACHA20_POLY1305_ENC_FINALIZE(m, &ctx, tag, 16);
        else
                IMB_CHACHA20_POLY1305_DEC_FINALIZE(m, &ctx, tag, 16);
}

static void
run_cp(IMB_MGR *m, IMB_MGR *bm, const int sub, int n, uint64_t *st)
{
        const int enc = sub == 0;
        uint32_t len[MAXN];
        gbuf src[MAXN], d1[MAXN], d2[MAXN], d3[MAXN], dj[MAXN], t1[MAXN], t2[MAXN], t3[MAXN],
                tj[MAXN];
        IMB_JOB t[MAXN];
        int status[MAXN];

        (void) bm;
        n = clampn(n, 1, MAXN);
        for (int i = 0; i < n; i++)
                len[i] = i == 0 ? 0 : gen_len1(st, 1, 2000);
        case_lens(len, n);
        for (int i = 0; i < n; i++) {
                const uint8_t *key = xrand(st, 32), *iv = xrand(st, 12);
                const uint32_t aadl = rnd_in(st, 0, 3) ? rnd_in(st, 1, 80) : 0;
                const uint8_t *aad = xrand(st, aadl);
                uint32_t s2[2], s3[3];
                const int n2 = gen_segs(st, len[i], 2, s2), n3 = gen_segs(st, len[i], 3, s3);

                src[i] = gb_rand(st, len[i], rnd_mis(st));
                d1[i] = gb_new(len[i], rnd_mis(st));
                d2[i] = gb_new(len[i], rnd_mis(st));
                d3[i] = gb_new(len[i], rnd_mis(st));
                dj[i] = gb_new(len[i], rnd_mis(st));
                t1[i] = gb_new(16, rnd_mis(st));
                t2[i] = gb_new(16, rnd_mis(st));
                t3[i] = gb_new(16, rnd_mis(st));
                tj[i] = gb_new(16, rnd_mis(st));
                cp_direct(m, enc, key, iv, aad, aadl, d1[i].p, src[i].p, &len[i], 1, t1[i].p);
                cp_direct(m, enc, key, iv, aad, aadl, d2[i].p, src[i].p, s2, n2, t2[i].p);
                cp_direct(m, enc, key, iv, aad, aadl, d3[i].p, src[i].p, s3, n3, t3[i].p);
                chacha_poly_job(&t[i], enc, key, dj[i].p, src[i].p, len[i], iv, aad, aadl,
                                tj[i].p);
        }
        chk_errno(m, 0);
        run_jobs(m, t, n, status);
        for (int i = 0; i < n; i++) {
                chk_status(i, status[i]);
                chk3(i, "dst", &d2[i], &d1[i], &dj[i]);
                chk3(i, "dst", &d3[i], &d1[i], &dj[i]);
                chk3(i, "tag", &t2[i], &t1[i], &tj[i]);
                chk3(i, "tag", &t3[i], &t1[i], &tj[i]);
                chk_src(i, &src[i]);
        }
}

static void
plan_cp(void)
{
        static const int few[] = { 1, 4, 8 };

        for (int r = 0; r < reps(2, 10); r++)
                for (int s = 0; s < 2; s++)
                        for (size_t i = 0; i < IMB_DIM(few); i++)
                                emit(s, few[i]);
}

/* ========================================================================= */
/* registry, process control, main */

#define TEST(nm, subs, run, plan) { nm, subs, (int) IMB_DIM(subs), run, plan }

static const ktest tests[] = {
        TEST("zuc_eea3", zuc_eea3_subs, run_zuc_eea3, plan_zuc_eea3),
        TEST("zuc_eia3", zuc_eia3_subs, run_zuc_eia3, plan_zuc_eia3),
        TEST("snow3g_f8", snow3g_subs, run_snow3g, plan_snow3g),
        TEST("kasumi", kasumi_subs, run_kasumi, plan_kasumi),
        TEST("sha", sha_subs, run_sha, plan_sha),
        TEST("crc", crc_subs, run_crc, plan_crc),
        TEST("ghash_gmac", ghash_subs, run_ghash, plan_ghash),
        TEST("quic", quic_subs, run_quic, plan_quic),
        TEST("cfb_one", cfb_subs, run_cfb, plan_cfb),
        TEST("chacha_poly_direct", cp_subs, run_cp, plan_cp),
};
#define NTESTS ((int) IMB_DIM(tests))

static int
in_list(const char *list, const char *name)
{
        const size_t l = strlen(name);

        if (list == NULL || !strcmp(list, "all"))
                return 1;
        for (const char *p = list; *p;) {
                const char *e = strchr(p, ',');
                const size_t k = e ? (size_t) (e - p) : strlen(p);

                if (k == l && !memcmp(p, name, l))
                        return 1;
                p += k + (e ? 1 : 0);
        }
        return 0;
}

/*
 * One child per (variant, test): a crash or a hang (alarm) of the library
 * becomes a CRASH line.  The child reports its counters through a pipe.
 */
static int
run_child(const int vi, const int ti, const int replay, const uint64_t cseed, const int n)
{
        int fd[2];
        long cnt[2] = { 0, 0 };

        fflush(stdout);
        if (pipe(fd) != 0) {
                perror("pipe");
                exit(2);
        }
        const pid_t pid = fork();

        if (pid < 0) {
                perror("fork");
                exit(2);
        }
        if (pid == 0) {
                close(fd[0]);
                setvbuf(stdout, NULL, _IOLBF, 0); /* keep finished lines if the library crashes */
                /* hang detector; generous because the driver runs many processes at once
                 * (KASUMI is a plain C implementation: ~10 s per variant in the thorough tier) */
                alarm(getenv("K9_ALARM") != NULL ? (unsigned) atoi(getenv("K9_ALARM")) : 900);
                V = &g_var[vi];
                T = &tests[ti];
                T_id = ti;
                BM = g_nvar > 1 ? g_var[vi == 0 ? g_nvar - 1 : 0].mgr : NULL;
                g_idx = 0;
                g_cases = g_fails = 0;
                /* harness self test of the crash reporting: K9_SELFTEST_CRASH=<test name> */
                if (getenv("K9_SELFTEST_CRASH") != NULL &&
                    !strcmp(getenv("K9_SELFTEST_CRASH"), T->name))
                        raise(SIGSEGV);
                if (replay) {
                        const int sub = (int) (cseed & 0xff);

                        if (sub >= T->nsubs) {
                                printf("k9 note cseed %016llx names sub %d, test %s has %d\n",
                                       (unsigned long long) cseed, sub, T->name, T->nsubs);
                                g_fails++;
                        } else {
                                do_case(sub, n, cseed);
                        }
                } else {
                        T->plan();
                }
                cnt[0] = g_cases;
                cnt[1] = g_fails;
                fflush(stdout);
                if (write(fd[1], cnt, sizeof(cnt)) != (ssize_t) sizeof(cnt))
                        _exit(3);
                _exit(0);
        }
        close(fd[1]);
        size_t got = 0;

        while (got < sizeof(cnt)) {
                const ssize_t r = read(fd[0], (char *) cnt + got, sizeof(cnt) - got);

                if (r < 0 && errno == EINTR)
                        continue;
                if (r <= 0)
                        break;
                got += (size_t) r;
        }
        close(fd[0]);
        int ws = 0;

        while (waitpid(pid, &ws, 0) < 0 && errno == EINTR)
                ;
        if (got == sizeof(cnt)) {
                g_cases += cnt[0];
                g_fails += cnt[1];
        }
        if (WIFSIGNALED(ws)) {
                printf("k9 var=%s test=%s CRASH sig=%d\n", g_var[vi].name, tests[ti].name,
                       WTERMSIG(ws));
                g_fails++;
                return 1;
        }
        if (!WIFEXITED(ws) || WEXITSTATUS(ws) != 0 || got != sizeof(cnt)) {
                printf("k9 var=%s test=%s CRASH sig=0\n", g_var[vi].name, tests[ti].name);
                g_fails++;
                return 1;
        }
        return 0;
}

static void
usage(void)
{
        fprintf(stderr, "usage: k9_entry [--seed S] [--tier quick|thorough] [--variants a,b|all]\n"
                        "                [--only t1,t2] [--cseed HEX --n N] [--list-tests]\n");
        exit(2);
}

int
main(int argc, char **argv)
{
        const char *variants = NULL, *only = NULL;
        int have_cseed = 0, n = 1;
        uint64_t cseed = 0;

        for (int i = 1; i < argc; i++) {
                const char *a = argv[i];
                const char *val = i + 1 < argc ? argv[i + 1] : NULL;

                if (!strcmp(a, "--list-tests")) {
                        for (int t = 0; t < NTESTS; t++)
                                puts(tests[t].name);
                        return 0;
                }
                if (val == NULL)
                        usage();
                if (!strcmp(a, "--seed"))
                        g_seed = strtoull(val, NULL, 0);
                else if (!strcmp(a, "--tier")) {
                        if (!strcmp(val, "thorough"))
                                g_thorough = 1;
                        else if (strcmp(val, "quick"))
                                usage();
                } else if (!strcmp(a, "--variants"))
                        variants = val;
                else if (!strcmp(a, "--only"))
                        only = val;
                else if (!strcmp(a, "--cseed")) {
                        cseed = strtoull(val, NULL, 16);
                        have_cseed = 1;
                } else if (!strcmp(a, "--n"))
                        n = atoi(val);
                else
                        usage();
                i++;
        }
        g_corrupt = getenv("K9_SELFTEST_CORRUPT");

        g_nvar = imbh_enum_variants(g_var);
        if (g_nvar == 0) {
                fprintf(stderr, "k9: no usable variant\n");
                return 2;
        }
        if (only != NULL) {
                int known = 0;

                for (int t = 0; t < NTESTS; t++)
                        known += in_list(only, tests[t].name);
                if (known == 0) {
                        fprintf(stderr, "k9: no test matches --only %s\n", only);
                        return 2;
                }
        }
        if (have_cseed && only == NULL) {
                fprintf(stderr, "k9: --cseed needs --only <test>\n");
                return 2;
        }

        printf("k9 note seed=%llu tier=%s variants=%d\n", (unsigned long long) g_seed,
               g_thorough ? "thorough" : "quick", g_nvar);
        printf("k9 note no IMB_ZUC256_EEA3_* / IMB_ZUC256_EIA3_* direct macros in this "
               "intel-ipsec-mb.h: 256-bit ZUC is job-only, skipped\n");
        printf("k9 note no IMB_QUIC_* macros in this header: the exported functions "
               "imb_quic_aes_gcm / imb_quic_hp_aes_ecb / imb_quic_chacha20_poly1305 / "
               "imb_quic_hp_chacha20 are called instead\n");
        printf("k9 note IMB_KASUMI_F8_N_BUFFER: the kernel takes at most 16 buffers per pass, the "
               "exported wrapper loops in chunks of 16, so any count works (tested up to %d); "
               "lengths are BYTES (header says bits), 1..%d\n",
               MAXN, KASUMI_MAX_BYTES);
        printf("k9 note IMB_SNOW3G_F8_N_BUFFER[_MULTIKEY]: count > %d is refused (out[0] = NULL, "
               "nothing written), checked as sub=F8_N_BUFFER*_REFUSE\n",
               SNOW3G_N_MAX);
        printf("k9 note IMB_ZUC_EEA3/EIA3_N_BUFFER: no count limit (groups of lanes, then "
               "1-buffer calls), tested up to %d\n",
               MAXN);
        if (g_corrupt != NULL && g_corrupt[0])
                printf("k9 note K9_SELFTEST_CORRUPT=%s: expected values are corrupted on purpose\n",
                       g_corrupt);

        int nv = 0, nt = 0;

        for (int t = 0; t < NTESTS; t++)
                nt += in_list(only, tests[t].name);
        for (int vi = 0; vi < g_nvar; vi++) {
                if (!in_list(variants, g_var[vi].name))
                        continue;
                nv++;
                for (int t = 0; t < NTESTS; t++)
                        if (in_list(only, tests[t].name))
                                run_child(vi, t, have_cseed, cseed, n);
        }
        if (nv == 0) {
                fprintf(stderr, "k9: no variant matches --variants %s\n", variants);
                return 2;
        }
        printf("K9 SUMMARY cases=%ld fails=%ld variants=%d tests=%d\n", g_cases, g_fails, nv, nt);
        return g_fails == 0 ? 0 : 1;
}
