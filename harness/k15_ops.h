/*
 * k15_ops.h - shared by k15_reinit.c (property C15) and k16_reattach.c (property C16):
 *  - op scripts over imbh work items (job API checked / no-check, burst API, flush, ...)
 *  - generic walks over manager memory driven by the generated layout tables
 *    (.build/gen/gen_layout.h from translators/t8_layout.py, gen_reset.h from t7_reset.py)
 *
 * Script format (one op per line):
 *   I <imbh work item tokens>     define item (index = order of definition, id= must equal index)
 *   J <idx>                       GET_NEXT_JOB + fill + SUBMIT_JOB, then drain GET_COMPLETED_JOB
 *   N <idx>                       same with SUBMIT_JOB_NOCHECK
 *   B <n> <idx>...                GET_NEXT_BURST(n) + fill + imb_set_session + SUBMIT_BURST
 *   F                             FLUSH_JOB once        FB <max>   FLUSH_BURST(max)
 *   C                             GET_COMPLETED_JOB     Q          QUEUE_SIZE
 *   FA                            flush until empty, with FLUSH_JOB after job-API submissions and
 *                                 FLUSH_BURST after burst submissions (the two APIs must not be mixed
 *                                 while jobs are in flight: burst flush dispatches on job->suite_id)
 * Trace: one "T" line per op (returned ids with status, queue size after) and one "R" line
 * per job handed back (imbh canonical result: status, errno, dst, tag, canaries).
 */
#ifndef K15_OPS_H
#define K15_OPS_H

#include <stdio.h>
#include <stdlib.h>
#include <string.h>
#include <stdint.h>
#include <intel-ipsec-mb.h>
#include "imbh.h"
#include "gen_layout.h"
#include "gen_reset.h"


/* ------------------------------------------------------------------------- */
/* arenas: with -Wl,--wrap=malloc,--wrap=calloc,--wrap=realloc,--wrap=free,--wrap=posix_memalign every
 * allocation made by the harness objects (imbh.c included) while an arena is current comes from
 * that arena (bump allocation, never reused).  k15: twin managers get their job buffers at equal
 * offsets of two arenas, so pointers can be normalised; k16: manager, job buffers, key material and
 * bookkeeping all live in one MAP_SHARED|MAP_FIXED region. */

typedef struct {
        uint8_t *base;
        size_t size;
        size_t *used; /* lives inside the arena (first word) so that it survives exec */
} karena;

#define K_MAX_ARENAS 8
static karena k_arenas[K_MAX_ARENAS];
static int k_narenas;
static karena *k_cur_arena;

void *__real_malloc(size_t);
void *__real_calloc(size_t, size_t);
void *__real_realloc(void *, size_t);
void __real_free(void *);
int __real_posix_memalign(void **, size_t, size_t);

static karena *
karena_register(void *base, size_t size, int fresh)
{
        karena *a = &k_arenas[k_narenas++];

        a->base = base;
        a->size = size;
        a->used = (size_t *) base;
        if (fresh)
                *a->used = 64;
        return a;
}

static karena *
karena_of(const void *p)
{
        for (int i = 0; i < k_narenas; i++)
                if ((const uint8_t *) p >= k_arenas[i].base &&
                    (const uint8_t *) p < k_arenas[i].base + k_arenas[i].size)
                        return &k_arenas[i];
        return NULL;
}

static void *
karena_alloc(karena *a, size_t n, size_t align)
{
        if (align < 16)
                align = 16;
        size_t off = (*a->used + 16 + align - 1) & ~(align - 1); /* 16-byte header holds the size */

        if (off + n > a->size) {
                fprintf(stderr, "arena exhausted\n");
                abort();
        }
        *(size_t *) (a->base + off - 16) = n;
        *a->used = off + n;
        return a->base + off;
}

void *
__wrap_malloc(size_t n)
{
        return k_cur_arena ? karena_alloc(k_cur_arena, n, 16) : __real_malloc(n);
}
void *
__wrap_calloc(size_t a, size_t b)
{
        if (!k_cur_arena)
                return __real_calloc(a, b);
        void *p = karena_alloc(k_cur_arena, a * b, 16);
        memset(p, 0, a * b);
        return p;
}
void *
__wrap_realloc(void *p, size_t n)
{
        karena *a = p ? karena_of(p) : NULL;

        if (a == NULL && !k_cur_arena)
                return __real_realloc(p, n);
        if (a == NULL && p != NULL) { /* heap block grown while an arena is current */
                return __real_realloc(p, n);
        }
        void *q = karena_alloc(a ? a : k_cur_arena, n, 16);

        if (p != NULL) {
                const size_t old = *(size_t *) ((uint8_t *) p - 16);
                memcpy(q, p, old < n ? old : n);
        }
        return q;
}
void
__wrap_free(void *p)
{
        if (p != NULL && karena_of(p) == NULL)
                __real_free(p);
}
int
__wrap_posix_memalign(void **out, size_t al, size_t n)
{
        if (!k_cur_arena)
                return __real_posix_memalign(out, al, n);
        *out = karena_alloc(k_cur_arena, n, al);
        return 0;
}

/* ------------------------------------------------------------------------- */
/* scripts */

typedef struct {
        char op;   /* J N B F f(FB) C Q */
        int n;     /* burst size / max */
        int *idx;  /* item indices */
} kop;

typedef struct {
        imbh_item *items;
        char **item_txt;
        int nitems;
        kop *ops;
        int nops;
} kscript;

static kscript *
kscript_load(const char *path)
{
        FILE *f = fopen(path, "r");
        if (!f) {
                fprintf(stderr, "cannot open %s\n", path);
                exit(2);
        }
        kscript *s = calloc(1, sizeof(*s));
        size_t cap_i = 64, cap_o = 256;
        s->items = calloc(cap_i, sizeof(imbh_item));
        s->item_txt = calloc(cap_i, sizeof(char *));
        s->ops = calloc(cap_o, sizeof(kop));
        size_t lcap = 1 << 20;
        char *line = malloc(lcap);
        while (fgets(line, (int) lcap, f)) {
                size_t L = strlen(line);
                while (L && (line[L - 1] == '\n' || line[L - 1] == '\r'))
                        line[--L] = 0;
                if (!L || line[0] == '#')
                        continue;
                if (line[0] == 'I' && line[1] == ' ') {
                        if ((size_t) s->nitems == cap_i) {
                                cap_i *= 2;
                                s->items = realloc(s->items, cap_i * sizeof(imbh_item));
                                s->item_txt = realloc(s->item_txt, cap_i * sizeof(char *));
                        }
                        memset(&s->items[s->nitems], 0, sizeof(imbh_item));
                        if (imbh_item_parse(line + 2, &s->items[s->nitems]) != 0 ||
                            s->items[s->nitems].bad) {
                                fprintf(stderr, "bad item: %.80s (%s)\n", line,
                                        s->items[s->nitems].err);
                                exit(2);
                        }
                        if (s->items[s->nitems].id != s->nitems) {
                                fprintf(stderr, "item id %ld != index %d\n",
                                        s->items[s->nitems].id, s->nitems);
                                exit(2);
                        }
                        s->nitems++;
                        continue;
                }
                if ((size_t) s->nops == cap_o) {
                        cap_o *= 2;
                        s->ops = realloc(s->ops, cap_o * sizeof(kop));
                }
                kop *o = &s->ops[s->nops];
                memset(o, 0, sizeof(*o));
                char *tok = strtok(line, " ");
                if (!strcmp(tok, "J") || !strcmp(tok, "N")) {
                        o->op = tok[0];
                        o->n = 1;
                        o->idx = malloc(sizeof(int));
                        o->idx[0] = atoi(strtok(NULL, " "));
                } else if (!strcmp(tok, "B")) {
                        o->op = 'B';
                        o->n = atoi(strtok(NULL, " "));
                        o->idx = malloc(sizeof(int) * (size_t) (o->n ? o->n : 1));
                        for (int i = 0; i < o->n; i++)
                                o->idx[i] = atoi(strtok(NULL, " "));
                } else if (!strcmp(tok, "F")) {
                        o->op = 'F';
                } else if (!strcmp(tok, "FB")) {
                        o->op = 'f';
                        o->n = atoi(strtok(NULL, " "));
                } else if (!strcmp(tok, "FA")) {
                        o->op = 'A'; /* flush everything with the API of the current episode */
                } else if (!strcmp(tok, "C")) {
                        o->op = 'C';
                } else if (!strcmp(tok, "Q")) {
                        o->op = 'Q';
                } else {
                        fprintf(stderr, "bad op %s\n", tok);
                        exit(2);
                }
                for (int i = 0; i < o->n && o->idx; i++)
                        if (o->idx[i] < 0 || o->idx[i] >= s->nitems) {
                                fprintf(stderr, "op refers to undefined item %d\n", o->idx[i]);
                                exit(2);
                        }
                s->nops++;
        }
        free(line);
        fclose(f);
        return s;
}

/* ------------------------------------------------------------------------- */
/* The kernels store whole vector registers into manager scratch, including registers they never
 * loaded: what the CALLER left there ends up in manager memory.  Twin managers are compared byte by
 * byte, so the harness enters the library with all vector registers zero. */
static void
k_scrub_regs(void)
{
        static int has512 = -1;

        if (has512 < 0)
                has512 = __builtin_cpu_supports("avx512f") ? 1 : 0;
        __asm__ volatile("vzeroall" ::: "xmm0", "xmm1", "xmm2", "xmm3", "xmm4", "xmm5", "xmm6", "xmm7", "xmm8", "xmm9",
                         "xmm10", "xmm11", "xmm12", "xmm13", "xmm14", "xmm15");
        if (has512)
                __asm__ volatile("vpxord %zmm16,%zmm16,%zmm16\n\tvpxord %zmm17,%zmm17,%zmm17\n\t"
                                 "vpxord %zmm18,%zmm18,%zmm18\n\tvpxord %zmm19,%zmm19,%zmm19\n\t"
                                 "vpxord %zmm20,%zmm20,%zmm20\n\tvpxord %zmm21,%zmm21,%zmm21\n\t"
                                 "vpxord %zmm22,%zmm22,%zmm22\n\tvpxord %zmm23,%zmm23,%zmm23\n\t"
                                 "vpxord %zmm24,%zmm24,%zmm24\n\tvpxord %zmm25,%zmm25,%zmm25\n\t"
                                 "vpxord %zmm26,%zmm26,%zmm26\n\tvpxord %zmm27,%zmm27,%zmm27\n\t"
                                 "vpxord %zmm28,%zmm28,%zmm28\n\tvpxord %zmm29,%zmm29,%zmm29\n\t"
                                 "vpxord %zmm30,%zmm30,%zmm30\n\tvpxord %zmm31,%zmm31,%zmm31");
}

/* ------------------------------------------------------------------------- */
/* running ops on one manager */

typedef struct {
        IMB_MGR *mgr;
        const kscript *s;
        imbh_run **runs; /* per item; NULL until submitted */
        int *pending;    /* item indices submitted and not yet handed back, in order */
        int npending;
        int *returned; /* every item handed back, in order */
        int nreturned;
        int order_violations; /* a job came back that was not the oldest pending one */
        int bad_status;
        const char *tag; /* prefix of trace lines */
        FILE *out;
        char last_api; /* 'J' or 'B': API of the submissions in flight */
        karena *arena; /* job buffers come from here (NULL: heap) */
} kctx;

static kctx *
kctx_new(IMB_MGR *mgr, const kscript *s, const char *tag, FILE *out)
{
        kctx *c = calloc(1, sizeof(*c));
        c->mgr = mgr;
        c->s = s;
        c->runs = calloc((size_t) s->nitems + 1, sizeof(imbh_run *));
        c->pending = calloc((size_t) s->nitems + 1, sizeof(int));
        c->returned = calloc((size_t) s->nitems + 1, sizeof(int));
        c->tag = tag;
        c->out = out;
        c->last_api = 'J';
        return c;
}

static void
k_handed_back(kctx *c, const IMB_JOB *job, imbh_str *tr)
{
        imbh_run *r = job->user_data;
        int idx = -1;

        for (int i = 0; i < c->s->nitems; i++)
                if (c->runs[i] == r) {
                        idx = i;
                        break;
                }
        if (idx < 0) {
                imbh_str_add(tr, " ?:%d", (int) job->status);
                c->order_violations++;
                return;
        }
        r->status = (int) job->status;
        r->done = 1;
        if (job->status != IMB_STATUS_COMPLETED)
                c->bad_status++;
        if (c->npending == 0 || c->pending[0] != idx)
                c->order_violations++;
        /* remove from pending wherever it is */
        for (int i = 0; i < c->npending; i++)
                if (c->pending[i] == idx) {
                        memmove(&c->pending[i], &c->pending[i + 1],
                                sizeof(int) * (size_t) (c->npending - i - 1));
                        c->npending--;
                        break;
                }
        c->returned[c->nreturned++] = idx;
        imbh_str_add(tr, " %d:%d", idx, (int) job->status);
}

static void
k_print_result(kctx *c, int idx)
{
        imbh_str s = { 0 };

        imbh_format_result(&s, c->runs[idx], "-", 0);
        fprintf(c->out, "%s R %s\n", c->tag, s.s);
        free(s.s);
}

static void
k_prepare(kctx *c, int idx)
{
        if (c->runs[idx] != NULL) {
                fprintf(stderr, "item %d submitted twice\n", idx);
                exit(2);
        }
        karena *saved = k_cur_arena;

        if (c->arena)
                k_cur_arena = c->arena;
        c->runs[idx] = imbh_run_new(c->mgr, &c->s->items[idx]);
        k_cur_arena = saved;
        if (c->runs[idx]->prep_err) {
                fprintf(stderr, "item %d cannot be prepared (%d)\n", idx, c->runs[idx]->prep_err);
                exit(2);
        }
}

/* flush until empty with the API of the jobs in flight; returns number handed back */
static int
k_flush_all(kctx *c)
{
        IMB_JOB *job;
        imbh_str tr = { 0 };
        const int before = c->nreturned;
        int guard = 0;

        imbh_str_add(&tr, "%s T -1 flushall%c ->", c->tag, c->last_api);
        if (c->last_api == 'B') {
                static IMB_JOB *jobs[IMB_MAX_JOBS];
                uint32_t done;

                while ((done = IMB_FLUSH_BURST(c->mgr, IMB_MAX_JOBS, jobs)) != 0 && guard++ < 1000)
                        for (uint32_t i = 0; i < done; i++)
                                k_handed_back(c, jobs[i], &tr);
        } else {
                while ((job = IMB_FLUSH_JOB(c->mgr)) != NULL && guard++ < 1000)
                        k_handed_back(c, job, &tr);
        }
        imbh_str_add(&tr, " | q=%u pend=%d", IMB_QUEUE_SIZE(c->mgr), c->npending);
        fprintf(c->out, "%s\n", tr.s);
        free(tr.s);
        for (int i = before; i < c->nreturned; i++)
                k_print_result(c, c->returned[i]);
        return c->nreturned - before;
}

/* runs op number n; returns number of jobs handed back */
static int
k_run_op(kctx *c, int opno)
{
        const kop *o = &c->s->ops[opno];
        IMB_MGR *mgr = c->mgr;
        imbh_str tr = { 0 };
        const int before = c->nreturned;
        IMB_JOB *job;

        if (o->op == 'A') {
                free(tr.s);
                return k_flush_all(c);
        }
        imbh_str_add(&tr, "%s T %d %c", c->tag, opno, o->op);
        k_scrub_regs();
        switch (o->op) {
        case 'J':
        case 'N':
                c->last_api = 'J';
                k_prepare(c, o->idx[0]);
                job = IMB_GET_NEXT_JOB(mgr);
                imbh_fill_job(job, c->runs[o->idx[0]]);
                c->pending[c->npending++] = o->idx[0];
                job = (o->op == 'N') ? IMB_SUBMIT_JOB_NOCHECK(mgr) : IMB_SUBMIT_JOB(mgr);
                c->runs[o->idx[0]]->err = imb_get_errno(mgr);
                imbh_str_add(&tr, " %d err=%d ->", o->idx[0], c->runs[o->idx[0]]->err);
                while (job != NULL) {
                        k_handed_back(c, job, &tr);
                        job = IMB_GET_COMPLETED_JOB(mgr);
                }
                break;
        case 'B': {
                IMB_JOB *jobs[IMB_MAX_BURST_SIZE];
                uint32_t n = (uint32_t) o->n;

                c->last_api = 'B';
                if (n > IMB_MAX_BURST_SIZE)
                        n = IMB_MAX_BURST_SIZE;
                const uint32_t got = IMB_GET_NEXT_BURST(mgr, n, jobs);

                imbh_str_add(&tr, " %u got=%u", n, got);
                for (uint32_t i = 0; i < got; i++) {
                        k_prepare(c, o->idx[i]);
                        imbh_fill_job(jobs[i], c->runs[o->idx[i]]);
                        imb_set_session(mgr, jobs[i]);
                        c->pending[c->npending++] = o->idx[i];
                }
                const uint32_t done = IMB_SUBMIT_BURST(mgr, got, jobs);

                imbh_str_add(&tr, " err=%d ->", imb_get_errno(mgr));
                for (uint32_t i = 0; i < done; i++)
                        k_handed_back(c, jobs[i], &tr);
                break;
        }
        case 'F':
                job = IMB_FLUSH_JOB(mgr);
                imbh_str_add(&tr, " ->");
                if (job != NULL)
                        k_handed_back(c, job, &tr);
                break;
        case 'f': {
                static IMB_JOB *jobs[IMB_MAX_JOBS];
                const uint32_t done = IMB_FLUSH_BURST(mgr, (uint32_t) o->n, jobs);

                imbh_str_add(&tr, " %d ->", o->n);
                for (uint32_t i = 0; i < done; i++)
                        k_handed_back(c, jobs[i], &tr);
                break;
        }
        case 'C':
                job = IMB_GET_COMPLETED_JOB(mgr);
                imbh_str_add(&tr, " ->");
                if (job != NULL)
                        k_handed_back(c, job, &tr);
                break;
        case 'Q':
                imbh_str_add(&tr, " ->");
                break;
        }
        imbh_str_add(&tr, " | q=%u pend=%d", IMB_QUEUE_SIZE(mgr), c->npending);
        fprintf(c->out, "%s\n", tr.s);
        free(tr.s);
        for (int i = before; i < c->nreturned; i++)
                k_print_result(c, c->returned[i]);
        return c->nreturned - before;
}

/* ------------------------------------------------------------------------- */
/* layout-driven walks */

static const struct gl_struct *
gl_find(const char *name)
{
        for (int i = 0; i < GL_NSTRUCTS; i++)
                if (!strcmp(gl_structs[i].name, name))
                        return &gl_structs[i];
        return NULL;
}

typedef void (*gl_elem_fn)(const struct gl_leaf *lf, uint32_t off, const uint32_t *index, void *arg);

/* calls fn for every element of a leaf (all array indices) */
static void
gl_for_each_elem(const struct gl_leaf *lf, gl_elem_fn fn, void *arg)
{
        uint32_t idx[4] = { 0, 0, 0, 0 };
        uint32_t total = 1;

        for (int d = 0; d < lf->ndims; d++)
                total *= lf->dim[d];
        for (uint32_t n = 0; n < total; n++) {
                uint32_t rem = n, off = lf->off;

                for (int d = lf->ndims - 1; d >= 0; d--) {
                        idx[d] = rem % lf->dim[d];
                        rem /= lf->dim[d];
                }
                for (int d = 0; d < lf->ndims; d++)
                        off += idx[d] * lf->stride[d];
                fn(lf, off, idx, arg);
        }
}

/* "ldata[3].job_in_lane" from path "ldata[].job_in_lane" and indices */
static void
gl_elem_name(const struct gl_leaf *lf, const uint32_t *index, char *buf, size_t n)
{
        size_t o = 0;
        int d = 0;

        for (const char *p = lf->path; *p && o + 16 < n; p++) {
                if (p[0] == '[' && p[1] == ']') {
                        o += (size_t) snprintf(buf + o, n - o, "[%u]", index[d++]);
                        p++;
                } else
                        buf[o++] = *p;
        }
        for (; d < lf->ndims && o + 16 < n; d++)
                o += (size_t) snprintf(buf + o, n - o, "[%u]", index[d]);
        buf[o] = 0;
}

static uint8_t *
k_ooo_ptr(IMB_MGR *mgr, const struct gr_ooo *e)
{
        return *(uint8_t **) ((uint8_t *) mgr + e->ptr_off);
}

/* number of non-NULL job_in_lane entries of one OOO manager */
struct k_cnt {
        const uint8_t *base;
        int n;
};
static void
k_cnt_fn(const struct gl_leaf *lf, uint32_t off, const uint32_t *index, void *arg)
{
        struct k_cnt *c = arg;
        (void) lf;
        (void) index;
        if (*(void *const *) (c->base + off) != NULL)
                c->n++;
}
static int
k_lanes_in_use(IMB_MGR *mgr, const struct gr_ooo *e)
{
        const struct gl_struct *st = gl_find(e->stype);
        struct k_cnt c = { k_ooo_ptr(mgr, e), 0 };

        for (uint32_t i = 0; i < st->nleaves; i++) {
                const struct gl_leaf *lf = &st->leaves[i];
                const size_t L = strlen(lf->path);

                if (L >= 11 && !strcmp(lf->path + L - 11, "job_in_lane"))
                        gl_for_each_elem(lf, k_cnt_fn, &c);
        }
        return c.n;
}

static const struct gr_variant *
k_variant_of(const IMB_MGR *mgr)
{
        for (int i = 0; i < GR_NVARIANTS; i++)
                if (gr_variants[i].arch == mgr->used_arch && gr_variants[i].arch_type == mgr->used_arch_type)
                        return &gr_variants[i];
        return NULL;
}

static int
k_variant_uses(const struct gr_variant *v, const char *field)
{
        for (unsigned i = 0; v && i < v->nused; i++)
                if (!strcmp(v->used[i], field))
                        return 1;
        return 0;
}

/* lanes holding a job, per manager the current variant schedules on */
static void
k_print_occupancy(IMB_MGR *mgr, const char *tag, FILE *out)
{
        const struct gr_variant *v = k_variant_of(mgr);

        fprintf(out, "%s OCC", tag);
        for (int i = 0; i < GR_NTABLE; i++) {
                if (!k_variant_uses(v, gr_table[i].field))
                        continue;
                const int n = k_lanes_in_use(mgr, &gr_table[i]);
                if (n)
                        fprintf(out, " %s=%d", gr_table[i].field, n);
        }
        fprintf(out, "\n");
}

static IMB_MGR *
k_init_arch(IMB_MGR *mgr, const char *arch)
{
        k_scrub_regs();
        if (!strcmp(arch, "sse"))
                init_mb_mgr_sse(mgr);
        else if (!strcmp(arch, "avx2"))
                init_mb_mgr_avx2(mgr);
        else if (!strcmp(arch, "avx512"))
                init_mb_mgr_avx512(mgr);
        else {
                fprintf(stderr, "bad arch %s\n", arch);
                exit(2);
        }
        return mgr;
}

#endif /* K15_OPS_H */
