/*
 * K14: descriptor snapshots, job status and error codes (property C14).
 *
 *   k14_desc --list-variants
 *   k14_desc --jobs <casefile> --variant <name> [--eps 0,1,2,3] [--batch N]
 *   k14_desc --direct --variant <name>
 *   k14_desc --strerror
 *   k14_desc --custom --variant <name>
 *
 * --jobs: every work item (K1 format, see K1_FORMAT.md) goes through entry points 0..3 of one
 * implementation variant, N items sharing the scheduler.  The descriptor is copied right
 * before it is handed to the library (after imb_set_session() for the burst API) and compared,
 * cell by cell (table generated from the header: .build/gen/job_fields.h), when the library hands
 * the job back.  Masked: `status`; msg_len_to_hash_in_bits for IMB_AUTH_AES_CMAC /
 * IMB_AUTH_AES_CMAC_256 (must then hold exactly bytes * 8); u.SNOW_V_AEAD.reserved for
 * IMB_CIPHER_SNOW_V_AEAD.  After EVERY API call the three views of the error code are read:
 * imb_get_errno(mgr), mgr->imb_errno, imb_get_errno(NULL) (= the process-wide mirror).
 *
 * Output (stdout), one line per event:
 *   R id= var= ep= status= sub_get= sub_field= sub_glob= diff=<-|cell:old>new;...> retcall=<call that handed it back>
 *   E var= ep= call=<name> get= field= glob= ok=<0|1> [id=]      successful call left a non-zero code, or views disagree
 *   X var= ep= id= what=<text>                                   other anomalies (job never returned, ...)
 *   D var= name= kind=<ok|fail> expect= get= field= glob=         --direct battery
 *   S code= str=<text>                                           --strerror
 *   U var= ep= idx= c= h= order= status= ccalls= hcalls= anyfail= same= get= field= retcall=   --custom battery
 *   T ...                                                        totals
 */
#include <stdio.h>
#include <stdlib.h>
#include <string.h>
#include <stdint.h>
#include <limits.h>
#include <errno.h>
#include <unistd.h>

#include "imbh.h"
#include "job_fields.h"

static const char *g_var = "?";
static int g_ep = -1;
static unsigned long g_calls = 0, g_ecount = 0, g_burst_seq = 0;

struct snap {
        int used;
        IMB_JOB copy;
        imbh_run *run;
};
static struct snap snaps[IMB_MAX_JOBS];

struct rec {
        int sub_get, sub_field, sub_glob;
        int have_sub;
};

static int
slot_index(const IMB_MGR *mgr, const IMB_JOB *j)
{
        const char *b = (const char *) mgr->jobs;
        const char *p = (const char *) j;

        if (p < b || p >= b + sizeof(mgr->jobs) || ((p - b) % sizeof(IMB_JOB)) != 0)
                return -1;
        return (int) ((p - b) / sizeof(IMB_JOB));
}

/* after a call that is expected to succeed */
static void
check_ok(IMB_MGR *mgr, const char *call, const long id)
{
        const int get = imb_get_errno(mgr);
        const int field = mgr->imb_errno;
        const int glob = imb_get_errno(NULL);

        g_calls++;
        if (get != 0 || field != 0 || glob != 0) {
                if (g_ecount++ < 200)
                        printf("E var=%s ep=%d call=%s get=%d field=%d glob=%d ok=1 id=%ld\n", g_var, g_ep,
                               call, get, field, glob, id);
        }
}

static uint64_t
rd(const uint8_t *p, const unsigned size)
{
        uint64_t v = 0;

        memcpy(&v, p, size);
        return v;
}

/* compare the job as handed back with its snapshot; print the R line */
static void
handed_back(IMB_MGR *mgr, IMB_JOB *job, const char *retcall, struct rec *recs, imbh_run **runs, const int n)
{
        const int slot = slot_index(mgr, job);

        if (slot < 0 || !snaps[slot].used) {
                printf("X var=%s ep=%d id=-1 what=returned-pointer-not-a-pending-slot(%d)\n", g_var, g_ep, slot);
                return;
        }
        struct snap *s = &snaps[slot];
        const uint8_t *a = (const uint8_t *) &s->copy;
        const uint8_t *b = (const uint8_t *) job;
        imbh_run *r = s->run;
        int idx = -1;

        for (int i = 0; i < n; i++)
                if (runs[i] == r)
                        idx = i;
        const int is_cmac_bytes = s->copy.hash_alg == IMB_AUTH_AES_CMAC || s->copy.hash_alg == IMB_AUTH_AES_CMAC_256;
        const int is_snowv = s->copy.cipher_mode == IMB_CIPHER_SNOW_V_AEAD;

        printf("R id=%ld var=%s ep=%d status=%d", r->it->id, g_var, g_ep, (int) job->status);
        if (idx >= 0 && recs[idx].have_sub)
                printf(" sub_get=%d sub_field=%d sub_glob=%d", recs[idx].sub_get, recs[idx].sub_field,
                       recs[idx].sub_glob);
        else
                printf(" sub_get=-1 sub_field=-1 sub_glob=-1");
        printf(" diff=");
        int nd = 0;
        unsigned covered = 0;
        for (int c = 0; c < VERIF_JOB_NCELLS; c++) {
                const struct verif_job_cell *cell = &verif_job_cells[c];
                const uint64_t va = rd(a + cell->off, cell->size), vb = rd(b + cell->off, cell->size);

                covered += cell->size;
                if (cell->off == offsetof(IMB_JOB, status))
                        continue;
                if (cell->off == offsetof(IMB_JOB, msg_len_to_hash_in_bytes) && is_cmac_bytes) {
                        /* model what the code does: exactly bytes * 8 (or untouched when rejected) */
                        if (vb == va * 8 || (vb == va && job->status == IMB_STATUS_INVALID_ARGS))
                                continue;
                }
                if (cell->off == offsetof(IMB_JOB, u.SNOW_V_AEAD.reserved) && is_snowv)
                        continue;
                if (va != vb)
                        printf("%s%s:%llx>%llx", nd++ ? ";" : "", cell->name, (unsigned long long) va,
                               (unsigned long long) vb);
        }
        /* padding bytes (the caller zeroed them with the rest of the descriptor) */
        {
                static uint8_t is_cell[sizeof(IMB_JOB)];
                static int init;

                if (!init) {
                        for (int c = 0; c < VERIF_JOB_NCELLS; c++)
                                memset(is_cell + verif_job_cells[c].off, 1, verif_job_cells[c].size);
                        init = 1;
                }
                for (unsigned o = 0; o < sizeof(IMB_JOB); o++)
                        if (!is_cell[o] && a[o] != b[o]) {
                                printf("%spadding@%u:%x>%x", nd++ ? ";" : "", o, a[o], b[o]);
                                break;
                        }
        }
        if (!nd)
                printf("-");
        printf(" retcall=%s\n", retcall);
        r->status = (int) job->status;
        r->done = 1;
        s->used = 0;
}

static void
snapshot(IMB_MGR *mgr, IMB_JOB *job, imbh_run *r)
{
        const int slot = slot_index(mgr, job);

        if (slot < 0) {
                printf("X var=%s ep=%d id=%ld what=get-next-returned-non-slot\n", g_var, g_ep, r->it->id);
                return;
        }
        if (snaps[slot].used)
                printf("X var=%s ep=%d id=%ld what=offered-slot-%d-still-pending\n", g_var, g_ep, r->it->id, slot);
        snaps[slot].used = 1;
        snaps[slot].copy = *job;
        snaps[slot].run = r;
}

static void
job_api(IMB_MGR *mgr, const int nocheck, imbh_run **runs, const int n)
{
        struct rec recs[IMB_MAX_BURST_SIZE];
        IMB_JOB *job;

        memset(recs, 0, sizeof(recs));
        for (int i = 0; i < n; i++) {
                job = IMB_GET_NEXT_JOB(mgr);
                check_ok(mgr, "GET_NEXT_JOB", runs[i]->it->id);
                imbh_fill_job(job, runs[i]);
                snapshot(mgr, job, runs[i]);
                job = nocheck ? IMB_SUBMIT_JOB_NOCHECK(mgr) : IMB_SUBMIT_JOB(mgr);
                recs[i].sub_get = imb_get_errno(mgr);
                recs[i].sub_field = mgr->imb_errno;
                recs[i].sub_glob = imb_get_errno(NULL);
                recs[i].have_sub = 1;
                g_calls++;
                const char *rc = nocheck ? "SUBMIT_JOB_NOCHECK" : "SUBMIT_JOB";
                while (job != NULL) {
                        handed_back(mgr, job, rc, recs, runs, n);
                        job = IMB_GET_COMPLETED_JOB(mgr);
                        check_ok(mgr, "GET_COMPLETED_JOB", runs[i]->it->id);
                        rc = "GET_COMPLETED_JOB";
                }
                if ((i & 3) == 3) {
                        (void) IMB_QUEUE_SIZE(mgr);
                        check_ok(mgr, "QUEUE_SIZE", runs[i]->it->id);
                }
        }
        for (;;) {
                job = IMB_FLUSH_JOB(mgr);
                check_ok(mgr, "FLUSH_JOB", -1);
                if (job == NULL)
                        break;
                handed_back(mgr, job, "FLUSH_JOB", recs, runs, n);
        }
        if (IMB_QUEUE_SIZE(mgr) != 0)
                printf("X var=%s ep=%d id=-1 what=queue-not-empty-after-flush\n", g_var, g_ep);
        check_ok(mgr, "QUEUE_SIZE", -1);
}

static void
burst_api(IMB_MGR *mgr, const int nocheck, imbh_run **runs, int n)
{
        IMB_JOB *jobs[IMB_MAX_BURST_SIZE];
        imbh_run *act[IMB_MAX_BURST_SIZE];
        struct rec recs[IMB_MAX_BURST_SIZE];
        imbh_run *all[IMB_MAX_BURST_SIZE];
        const int nall = n;

        memset(recs, 0, sizeof(recs));
        memcpy(act, runs, (size_t) n * sizeof(act[0]));
        memcpy(all, runs, (size_t) n * sizeof(act[0]));
        while (n > 0) {
                const uint32_t got = IMB_GET_NEXT_BURST(mgr, (uint32_t) n, jobs);

                check_ok(mgr, "GET_NEXT_BURST", act[0]->it->id);
                if (got != (uint32_t) n) {
                        printf("X var=%s ep=%d id=%ld what=get-next-burst-short(%u/%d)\n", g_var, g_ep, act[0]->it->id, got, n);
                        return;
                }
                for (int i = 0; i < n; i++) {
                        imbh_fill_job(jobs[i], act[i]);
                        const uint32_t sid = imb_set_session(mgr, jobs[i]);

                        g_calls++;
                        if (sid != 0)
                                check_ok(mgr, "imb_set_session", act[i]->it->id);
                        snapshot(mgr, jobs[i], act[i]);
                }
                uint32_t done = nocheck ? IMB_SUBMIT_BURST_NOCHECK(mgr, (uint32_t) n, jobs)
                                        : IMB_SUBMIT_BURST(mgr, (uint32_t) n, jobs);
                const int get = imb_get_errno(mgr), field = mgr->imb_errno, glob = imb_get_errno(NULL);

                g_calls++;
                g_burst_seq++;
                printf("B var=%s ep=%d seq=%lu n=%d ret=%u get=%d field=%d glob=%d ids=", g_var, g_ep, g_burst_seq, n, done, get,
                       field, glob);
                for (int i = 0; i < n; i++)
                        printf("%s%ld", i ? "," : "", act[i]->it->id);
                printf("\n");
                if (done == 0 && field != 0) {
                        /* whole burst refused (every refusal goes through imb_set_errno(state, e), so the manager's
                         * own field is set; the value of imb_get_errno() alone is not reliable here, see the C14
                         * triage list); jobs[0] points at the offender */
                        imbh_run *bad = NULL;
                        const int slot = slot_index(mgr, jobs[0]);
                        int k = 0;

                        if (slot >= 0 && snaps[slot].used)
                                bad = snaps[slot].run;
                        for (int i = 0; i < nall; i++)
                                if (all[i] == bad) {
                                        recs[i].sub_get = get;
                                        recs[i].sub_field = field;
                                        recs[i].sub_glob = glob;
                                        recs[i].have_sub = 1;
                                }
                        if (bad != NULL)
                                handed_back(mgr, jobs[0], "SUBMIT_BURST(refused)", recs, all, nall);
                        /* the other slots were never taken by the library: forget their snapshots */
                        for (int i = 0; i < IMB_MAX_JOBS; i++)
                                snaps[i].used = 0;
                        for (int i = 0; i < n; i++)
                                if (act[i] != bad)
                                        act[k++] = act[i];
                        if (k == n)
                                k = 0;
                        n = k;
                        continue;
                }
                for (int i = 0; i < nall; i++)
                        for (int k = 0; k < n; k++)
                                if (all[i] == act[k]) {
                                        recs[i].sub_get = get;
                                        recs[i].sub_field = field;
                                        recs[i].sub_glob = glob;
                                        recs[i].have_sub = 1;
                                }
                const char *rc = nocheck ? "SUBMIT_BURST_NOCHECK" : "SUBMIT_BURST";
                for (;;) {
                        for (uint32_t i = 0; i < done; i++)
                                handed_back(mgr, jobs[i], rc, recs, all, nall);
                        done = IMB_FLUSH_BURST(mgr, IMB_MAX_BURST_SIZE, jobs);
                        check_ok(mgr, "FLUSH_BURST", -1);
                        rc = "FLUSH_BURST";
                        if (done == 0)
                                break;
                }
                (void) IMB_QUEUE_SIZE(mgr);
                check_ok(mgr, "QUEUE_SIZE", -1);
                return;
        }
}

/* ------------------------------------------------------------------------- */

#define MAX_ITEMS 20000
static imbh_item *items;
static int nitems;

static int
load(const char *path)
{
        FILE *f = fopen(path, "r");
        static char line[1 << 20];

        if (!f) {
                perror(path);
                return -1;
        }
        items = calloc(MAX_ITEMS, sizeof(*items));
        while (fgets(line, sizeof(line), f) && nitems < MAX_ITEMS) {
                if (line[0] == '#' || line[0] == '\n')
                        continue;
                imbh_item_parse(line, &items[nitems]);
                nitems++;
        }
        fclose(f);
        return 0;
}

static int
run_jobs(IMB_MGR *mgr, const int *eps, const int neps, const int batch)
{
        char *valid = calloc((size_t) nitems, 1);

        for (int e = 0; e < neps; e++) {
                const int ep = eps[e];

                g_ep = ep;
                for (int base = 0; base < nitems; base += batch) {
                        imbh_run *runs[IMB_MAX_BURST_SIZE];
                        int idx[IMB_MAX_BURST_SIZE];
                        int n = 0;

                        for (int i = base; i < base + batch && i < nitems; i++) {
                                if (items[i].bad)
                                        continue;
                                if ((ep == 1 || ep == 3) && !valid[i])
                                        continue; /* unchecked entry points only see valid jobs */
                                if (items[i].unsafe && (ep == 1 || ep == 3))
                                        continue;
                                imbh_run *r = imbh_run_new(mgr, &items[i]);

                                if (r->prep_err) {
                                        imbh_run_free(r);
                                        continue;
                                }
                                (void) IMB_QUEUE_SIZE(mgr); /* key preparation used direct API calls: start clean */
                                idx[n] = i;
                                runs[n++] = r;
                        }
                        if (n == 0)
                                continue;
                        alarm(60);
                        if (ep == 0 || ep == 1)
                                job_api(mgr, ep == 1, runs, n);
                        else
                                burst_api(mgr, ep == 3, runs, n);
                        alarm(0);
                        for (int i = 0; i < n; i++) {
                                if (!runs[i]->done)
                                        printf("X var=%s ep=%d id=%ld what=job-never-handed-back\n", g_var, ep, runs[i]->it->id);
                                else if (ep == 0 && runs[i]->status == IMB_STATUS_COMPLETED)
                                        valid[idx[i]] = 1;
                                imbh_run_free(runs[i]);
                        }
                        for (int i = 0; i < IMB_MAX_JOBS; i++)
                                snaps[i].used = 0;
                }
        }
        printf("T var=%s api_calls=%lu errno_events=%lu items=%d\n", g_var, g_calls, g_ecount, nitems);
        free(valid);
        return 0;
}

/* ------------------------------------------------------------------------- */
/* direct / miscellaneous API battery                                          */

static IMB_MGR *D;
static void
dline(const char *name, const int fail, const int expect)
{
        printf("D var=%s name=%s kind=%s expect=%d get=%d field=%d glob=%d\n", g_var, name, fail ? "fail" : "ok",
               expect, imb_get_errno(D), D->imb_errno, imb_get_errno(NULL));
}
/* a succeeding call must leave 0 whatever the code was before: poison the mirror first */
static int g_poison = 1;
#define OK(name, call)                                                                                              \
        do {                                                                                                        \
                if (g_poison)                                                                                       \
                        D->keyexp_128(NULL, NULL, NULL);                                                            \
                call;                                                                                               \
                dline(name, 0, 0);                                                                                  \
        } while (0)
#define FAIL(name, code, call)                                                                                      \
        do {                                                                                                        \
                call;                                                                                               \
                dline(name, 1, code);                                                                               \
        } while (0)

static void
fill_cbc(IMB_JOB *j, const void *ek, const void *dk, uint8_t *buf, uint8_t *iv)
{
        memset(j, 0, sizeof(*j));
        j->cipher_mode = IMB_CIPHER_CBC;
        j->hash_alg = IMB_AUTH_NULL;
        j->chain_order = IMB_ORDER_CIPHER_HASH;
        j->cipher_direction = IMB_DIR_DECRYPT;
        j->src = buf;
        j->dst = buf;
        j->iv = iv;
        j->iv_len_in_bytes = 16;
        j->enc_keys = ek;
        j->dec_keys = dk;
        j->key_len_in_bytes = 16;
        j->msg_len_to_cipher_in_bytes = 32;
}

static void
run_direct(IMB_MGR *mgr)
{
        static uint8_t key[64] = { 1, 2, 3, 4, 5, 6, 7, 8, 9, 10, 11, 12, 13, 14, 15, 16, 17 };
        static DECLARE_ALIGNED(uint32_t ek[60], 16);
        static DECLARE_ALIGNED(uint32_t dk[60], 16);
        static DECLARE_ALIGNED(uint8_t buf[256], 64);
        static DECLARE_ALIGNED(uint8_t out[256], 64);
        static DECLARE_ALIGNED(uint8_t tag[64], 64);
        static DECLARE_ALIGNED(uint8_t iv[32], 16);
        static DECLARE_ALIGNED(uint8_t k1[16 * 11], 16);
        static DECLARE_ALIGNED(uint8_t k2[16], 16);
        static DECLARE_ALIGNED(uint8_t k3[16], 16);
        static struct gcm_key_data gk;
        static struct gcm_context_data gctx;
        static uint64_t des_ks[16];
        static uint8_t ipad[128], opad[128];
        IMB_JOB *arr[IMB_MAX_BURST_SIZE + 8];
        IMB_JOB *j;

        D = mgr;
        (void) IMB_QUEUE_SIZE(mgr);

        /* each pair: a failing call, then a succeeding one ("failure followed by success leaves 0") */
        FAIL("AES_KEYEXP_128(key=NULL)", IMB_ERR_NULL_KEY, IMB_AES_KEYEXP_128(mgr, NULL, ek, dk));
        OK("AES_KEYEXP_128", IMB_AES_KEYEXP_128(mgr, key, ek, dk));
        FAIL("AES_KEYEXP_192(enc=NULL)", IMB_ERR_NULL_EXP_KEY, IMB_AES_KEYEXP_192(mgr, key, NULL, dk));
        OK("AES_KEYEXP_192", IMB_AES_KEYEXP_192(mgr, key, ek, dk));
        FAIL("AES_KEYEXP_256(dec=NULL)", IMB_ERR_NULL_EXP_KEY, IMB_AES_KEYEXP_256(mgr, key, ek, NULL));
        OK("AES_KEYEXP_256", IMB_AES_KEYEXP_256(mgr, key, ek, dk));
        OK("AES_KEYEXP_128b", IMB_AES_KEYEXP_128(mgr, key, ek, dk));
        FAIL("AES_CMAC_SUBKEY_GEN_128(key=NULL)", IMB_ERR_NULL_EXP_KEY, IMB_AES_CMAC_SUBKEY_GEN_128(mgr, NULL, k2, k3));
        OK("AES_CMAC_SUBKEY_GEN_128", IMB_AES_CMAC_SUBKEY_GEN_128(mgr, ek, k2, k3));
        FAIL("AES_XCBC_KEYEXP(key=NULL)", IMB_ERR_NULL_KEY, IMB_AES_XCBC_KEYEXP(mgr, NULL, k1, k2, k3));
        OK("AES_XCBC_KEYEXP", IMB_AES_XCBC_KEYEXP(mgr, key, k1, k2, k3));
        FAIL("DES_KEYSCHED(key=NULL)", IMB_ERR_NULL_KEY, IMB_DES_KEYSCHED(mgr, des_ks, NULL));
        OK("DES_KEYSCHED", IMB_DES_KEYSCHED(mgr, des_ks, key));
        FAIL("AES128_GCM_PRE(key=NULL)", IMB_ERR_NULL_KEY, IMB_AES128_GCM_PRE(mgr, NULL, &gk));
        OK("AES128_GCM_PRE", IMB_AES128_GCM_PRE(mgr, key, &gk));
        FAIL("AES128_GCM_PRE(kd=NULL)", IMB_ERR_NULL_EXP_KEY, IMB_AES128_GCM_PRE(mgr, key, NULL));
        OK("AES256_GCM_PRE", IMB_AES256_GCM_PRE(mgr, key, &gk));
        OK("AES128_GCM_PREb", IMB_AES128_GCM_PRE(mgr, key, &gk));
        FAIL("AES128_GCM_ENC(ctx=NULL)", IMB_ERR_NULL_CTX,
             IMB_AES128_GCM_ENC(mgr, &gk, NULL, out, buf, 32, iv, buf, 8, tag, 16));
        OK("AES128_GCM_ENC", IMB_AES128_GCM_ENC(mgr, &gk, &gctx, out, buf, 32, iv, buf, 8, tag, 16));
        FAIL("AES128_GCM_DEC(key=NULL)", IMB_ERR_NULL_EXP_KEY,
             IMB_AES128_GCM_DEC(mgr, NULL, &gctx, out, buf, 32, iv, buf, 8, tag, 16));
        OK("AES128_GCM_DEC", IMB_AES128_GCM_DEC(mgr, &gk, &gctx, out, buf, 32, iv, buf, 8, tag, 16));
        FAIL("AES128_GCM_ENC(out=NULL)", IMB_ERR_NULL_DST,
             IMB_AES128_GCM_ENC(mgr, &gk, &gctx, NULL, buf, 32, iv, buf, 8, tag, 16));
        OK("AES128_GCM_INIT", IMB_AES128_GCM_INIT(mgr, &gk, &gctx, iv, buf, 8));
        FAIL("AES128_GCM_ENC_UPDATE(in=NULL)", IMB_ERR_NULL_SRC, IMB_AES128_GCM_ENC_UPDATE(mgr, &gk, &gctx, out, NULL, 16));
        OK("AES128_GCM_ENC_UPDATE", IMB_AES128_GCM_ENC_UPDATE(mgr, &gk, &gctx, out, buf, 16));
        FAIL("AES128_GCM_ENC_FINALIZE(tag=NULL)", IMB_ERR_NULL_AUTH, IMB_AES128_GCM_ENC_FINALIZE(mgr, &gk, &gctx, NULL, 16));
        OK("AES128_GCM_ENC_FINALIZE", IMB_AES128_GCM_ENC_FINALIZE(mgr, &gk, &gctx, tag, 16));
        FAIL("GHASH_PRE(key=NULL)", IMB_ERR_NULL_KEY, IMB_GHASH_PRE(mgr, NULL, &gk));
        OK("GHASH_PRE", IMB_GHASH_PRE(mgr, key, &gk));
        FAIL("GHASH(len=0)", IMB_ERR_AUTH_LEN, IMB_GHASH(mgr, &gk, buf, 0, tag, 16));
        OK("GHASH", IMB_GHASH(mgr, &gk, buf, 32, tag, 16));
        FAIL("GHASH(in=NULL)", IMB_ERR_NULL_SRC, IMB_GHASH(mgr, &gk, NULL, 32, tag, 16));
        OK("AES128_GMAC_INIT", IMB_AES128_GMAC_INIT(mgr, &gk, &gctx, iv, 12));
        FAIL("SHA1_ONE_BLOCK(data=NULL)", IMB_ERR_NULL_SRC, IMB_SHA1_ONE_BLOCK(mgr, NULL, tag));
        OK("SHA1_ONE_BLOCK", IMB_SHA1_ONE_BLOCK(mgr, buf, tag));
        FAIL("SHA256_ONE_BLOCK(digest=NULL)", IMB_ERR_NULL_AUTH, IMB_SHA256_ONE_BLOCK(mgr, buf, NULL));
        OK("SHA256_ONE_BLOCK", IMB_SHA256_ONE_BLOCK(mgr, buf, tag));
        FAIL("SHA512_ONE_BLOCK(data=NULL)", IMB_ERR_NULL_SRC, IMB_SHA512_ONE_BLOCK(mgr, NULL, tag));
        OK("SHA384_ONE_BLOCK", IMB_SHA384_ONE_BLOCK(mgr, buf, tag));
        FAIL("MD5_ONE_BLOCK(data=NULL)", IMB_ERR_NULL_SRC, IMB_MD5_ONE_BLOCK(mgr, NULL, tag));
        OK("MD5_ONE_BLOCK", IMB_MD5_ONE_BLOCK(mgr, buf, tag));
        FAIL("SHA1(data=NULL,len=5)", IMB_ERR_NULL_SRC, IMB_SHA1(mgr, NULL, 5, tag));
        OK("SHA1", IMB_SHA1(mgr, buf, 77, tag));
        FAIL("SHA256(digest=NULL)", IMB_ERR_NULL_AUTH, IMB_SHA256(mgr, buf, 77, NULL));
        OK("SHA224", IMB_SHA224(mgr, buf, 0, tag));
        OK("SHA512", IMB_SHA512(mgr, buf, 200, tag));
        FAIL("CRC32_ETHERNET_FCS(NULL,len=8)", IMB_ERR_NULL_SRC, (void) IMB_CRC32_ETHERNET_FCS(mgr, NULL, 8));
        OK("CRC32_ETHERNET_FCS", (void) IMB_CRC32_ETHERNET_FCS(mgr, buf, 64));
        OK("CRC16_X25", (void) IMB_CRC16_X25(mgr, buf, 64));
        FAIL("ZUC_EEA3_1_BUFFER(key=NULL)", IMB_ERR_NULL_KEY, IMB_ZUC_EEA3_1_BUFFER(mgr, NULL, iv, buf, out, 32));
        OK("ZUC_EEA3_1_BUFFER", IMB_ZUC_EEA3_1_BUFFER(mgr, key, iv, buf, out, 32));
        FAIL("ZUC_EIA3_1_BUFFER(in=NULL)", IMB_ERR_NULL_SRC, IMB_ZUC_EIA3_1_BUFFER(mgr, key, iv, NULL, 64, (uint32_t *) tag));
        OK("ZUC_EIA3_1_BUFFER", IMB_ZUC_EIA3_1_BUFFER(mgr, key, iv, buf, 64, (uint32_t *) tag));
        {
                static DECLARE_ALIGNED(uint8_t s3g[8192], 64);
                static kasumi_key_sched_t kks;

                FAIL("SNOW3G_INIT_KEY_SCHED(key=NULL)", IMB_ERR_NULL_KEY, (void) IMB_SNOW3G_INIT_KEY_SCHED(mgr, NULL, (snow3g_key_schedule_t *) s3g));
                OK("SNOW3G_INIT_KEY_SCHED", (void) IMB_SNOW3G_INIT_KEY_SCHED(mgr, key, (snow3g_key_schedule_t *) s3g));
                FAIL("SNOW3G_F8_1_BUFFER(len=0)", IMB_ERR_CIPH_LEN, IMB_SNOW3G_F8_1_BUFFER(mgr, (snow3g_key_schedule_t *) s3g, iv, buf, out, 0));
                OK("SNOW3G_F8_1_BUFFER", IMB_SNOW3G_F8_1_BUFFER(mgr, (snow3g_key_schedule_t *) s3g, iv, buf, out, 32));
                FAIL("KASUMI_INIT_F8_KEY_SCHED(key=NULL)", IMB_ERR_NULL_KEY, (void) IMB_KASUMI_INIT_F8_KEY_SCHED(mgr, NULL, &kks));
                OK("KASUMI_INIT_F8_KEY_SCHED", (void) IMB_KASUMI_INIT_F8_KEY_SCHED(mgr, key, &kks));
                FAIL("KASUMI_F8_1_BUFFER(in=NULL)", IMB_ERR_NULL_SRC, IMB_KASUMI_F8_1_BUFFER(mgr, &kks, 1, NULL, out, 32));
                OK("KASUMI_F8_1_BUFFER", IMB_KASUMI_F8_1_BUFFER(mgr, &kks, 1, buf, out, 32));
        }
        FAIL("imb_hmac_ipad_opad(key=NULL)", IMB_ERR_NULL_KEY, imb_hmac_ipad_opad(mgr, IMB_AUTH_HMAC_SHA_1, NULL, 16, ipad, opad));
        OK("imb_hmac_ipad_opad", imb_hmac_ipad_opad(mgr, IMB_AUTH_HMAC_SHA_1, key, 16, ipad, opad));
        FAIL("imb_hmac_ipad_opad(alg=CMAC)", IMB_ERR_HASH_ALGO, imb_hmac_ipad_opad(mgr, IMB_AUTH_AES_CMAC, key, 16, ipad, opad));
        OK("imb_hmac_ipad_opad(sha512,long-key)", imb_hmac_ipad_opad(mgr, IMB_AUTH_HMAC_SHA_512, buf, 200, ipad, opad));
        FAIL("imb_hmac_ipad_opad(md5,keylen=65)", IMB_ERR_KEY_LEN, imb_hmac_ipad_opad(mgr, IMB_AUTH_MD5, buf, 65, ipad, opad));
        OK("imb_hmac_ipad_opad(md5)", imb_hmac_ipad_opad(mgr, IMB_AUTH_MD5, key, 16, ipad, opad));

        /* more succeeding direct calls (each after a failing one: the poison) */
        {
                static kasumi_key_sched_t kks9;
                static DECLARE_ALIGNED(uint8_t s3g[8192], 64);
                static struct chacha20_poly1305_context_data cctx;
                static DECLARE_ALIGNED(uint32_t sm4e[32], 16);
                static DECLARE_ALIGNED(uint32_t sm4d[32], 16);

                OK("KASUMI_INIT_F9_KEY_SCHED", (void) IMB_KASUMI_INIT_F9_KEY_SCHED(mgr, key, &kks9));
                OK("KASUMI_F9_1_BUFFER", IMB_KASUMI_F9_1_BUFFER(mgr, &kks9, buf, 32, tag));
                OK("KASUMI_INIT_F8_KEY_SCHEDb", (void) IMB_KASUMI_INIT_F8_KEY_SCHED(mgr, key, &kks9));
                OK("KASUMI_F8_1_BUFFER_BIT", IMB_KASUMI_F8_1_BUFFER_BIT(mgr, &kks9, 1, buf, out, 70, 3));
                OK("SNOW3G_INIT_KEY_SCHEDb", (void) IMB_SNOW3G_INIT_KEY_SCHED(mgr, key, (snow3g_key_schedule_t *) s3g));
                OK("SNOW3G_F9_1_BUFFER", IMB_SNOW3G_F9_1_BUFFER(mgr, (snow3g_key_schedule_t *) s3g, iv, buf, 256, tag));
                OK("SNOW3G_F8_1_BUFFER_BIT", IMB_SNOW3G_F8_1_BUFFER_BIT(mgr, (snow3g_key_schedule_t *) s3g, iv, buf, out, 70, 3));
                {
                        /* multi-buffer direct calls (pure getters such as *_KEY_SCHED_SIZE, which have no
                         * failure mode and never touch the code, are deliberately not in the battery) */
                        const void *ivs[8] = { iv, iv, iv, iv, iv, iv, iv, iv };
                        const void *srcs[8] = { buf, buf + 32, buf + 64, buf + 96, buf, buf + 32, buf + 64, buf + 96 };
                        void *dsts[8] = { out, out + 32, out + 64, out + 96, out + 128, out + 160, out + 192, out + 224 };
                        uint32_t lens[8] = { 32, 32, 32, 32, 32, 32, 32, 32 };
                        const snow3g_key_schedule_t *keys8[8];
                        const void *zkeys[8] = { key, key, key, key, key, key, key, key };
                        uint32_t *tags[8];
                        static uint32_t tagw[8];
                        uint64_t kiv[4] = { 1, 2, 3, 4 };

                        for (int q = 0; q < 8; q++) {
                                keys8[q] = (const snow3g_key_schedule_t *) s3g;
                                tags[q] = &tagw[q];
                        }
                        OK("SNOW3G_F8_2_BUFFER", IMB_SNOW3G_F8_2_BUFFER(mgr, (snow3g_key_schedule_t *) s3g, iv, iv, buf, out, 32, buf + 32, out + 32, 32));
                        OK("SNOW3G_F8_4_BUFFER", IMB_SNOW3G_F8_4_BUFFER(mgr, (snow3g_key_schedule_t *) s3g, iv, iv, iv, iv, buf, out, 32, buf + 32, out + 32, 32, buf + 64, out + 64, 32, buf + 96, out + 96, 32));
                        OK("SNOW3G_F8_N_BUFFER", IMB_SNOW3G_F8_N_BUFFER(mgr, (snow3g_key_schedule_t *) s3g, ivs, srcs, dsts, lens, 5));
                        OK("SNOW3G_F8_8_BUFFER_MULTIKEY", IMB_SNOW3G_F8_8_BUFFER_MULTIKEY(mgr, keys8, ivs, srcs, dsts, lens));
                        OK("SNOW3G_F8_N_BUFFER_MULTIKEY", IMB_SNOW3G_F8_N_BUFFER_MULTIKEY(mgr, keys8, ivs, srcs, dsts, lens, 3));
                        OK("KASUMI_F8_2_BUFFER", IMB_KASUMI_F8_2_BUFFER(mgr, &kks9, 1, 2, buf, out, 32, buf + 32, out + 32, 32));
                        OK("KASUMI_F8_3_BUFFER", IMB_KASUMI_F8_3_BUFFER(mgr, &kks9, 1, 2, 3, buf, out, buf + 32, out + 32, buf + 64, out + 64, 32));
                        OK("KASUMI_F8_4_BUFFER", IMB_KASUMI_F8_4_BUFFER(mgr, &kks9, 1, 2, 3, 4, buf, out, buf + 32, out + 32, buf + 64, out + 64, buf + 96, out + 96, 32));
                        OK("KASUMI_F8_N_BUFFER", IMB_KASUMI_F8_N_BUFFER(mgr, &kks9, kiv, srcs, dsts, lens, 4));
                        OK("KASUMI_F9_1_BUFFER_USER", IMB_KASUMI_F9_1_BUFFER_USER(mgr, &kks9, 5, buf, 100, tag, 0));
                        OK("ZUC_EEA3_4_BUFFER", IMB_ZUC_EEA3_4_BUFFER(mgr, zkeys, ivs, srcs, dsts, lens));
                        OK("ZUC_EEA3_N_BUFFER", IMB_ZUC_EEA3_N_BUFFER(mgr, zkeys, ivs, srcs, dsts, lens, 6));
                        OK("ZUC_EIA3_N_BUFFER", IMB_ZUC_EIA3_N_BUFFER(mgr, zkeys, ivs, srcs, lens, tags, 5));
                        OK("imb_sm4_gcm_pre", imb_sm4_gcm_pre(mgr, key, &gk));
                        {
                                /* QUIC helpers (take the manager); one packet and zero packets */
                                void *qd[2] = { out, out + 64 };
                                const void *qs[2] = { buf, buf + 64 };
                                const void *qiv[2] = { iv, iv };
                                const void *qaad[2] = { buf + 128, buf + 128 };
                                void *qtag[2] = { tag, tag + 16 };
                                uint64_t qlen[2] = { 32, 32 };

                                OK("AES128_GCM_PREq", IMB_AES128_GCM_PRE(mgr, key, &gk));
                                OK("imb_quic_aes_gcm(1)", imb_quic_aes_gcm(mgr, &gk, IMB_KEY_128_BYTES, IMB_DIR_ENCRYPT, qd, qs, qlen, qiv, qaad, 8, qtag, 16, 1));
                                OK("imb_quic_aes_gcm(0)", imb_quic_aes_gcm(mgr, &gk, IMB_KEY_128_BYTES, IMB_DIR_ENCRYPT, qd, qs, qlen, qiv, qaad, 8, qtag, 16, 0));
                                FAIL("imb_quic_aes_gcm(key=NULL)", IMB_ERR_NULL_EXP_KEY, imb_quic_aes_gcm(mgr, NULL, IMB_KEY_128_BYTES, IMB_DIR_ENCRYPT, qd, qs, qlen, qiv, qaad, 8, qtag, 16, 1));
                                OK("imb_quic_hp_aes_ecb(1)", imb_quic_hp_aes_ecb(mgr, ek, qd, qs, 1, IMB_KEY_128_BYTES));
                                OK("imb_quic_hp_aes_ecb(0)", imb_quic_hp_aes_ecb(mgr, ek, qd, qs, 0, IMB_KEY_128_BYTES));
                                OK("imb_quic_chacha20_poly1305(1)", imb_quic_chacha20_poly1305(mgr, key, IMB_DIR_ENCRYPT, qd, qs, qlen, qiv, qaad, 8, qtag, 1));
                                OK("imb_quic_chacha20_poly1305(0)", imb_quic_chacha20_poly1305(mgr, key, IMB_DIR_ENCRYPT, qd, qs, qlen, qiv, qaad, 8, qtag, 0));
                                FAIL("imb_quic_chacha20_poly1305(key=NULL)", IMB_ERR_NULL_KEY, imb_quic_chacha20_poly1305(mgr, NULL, IMB_DIR_ENCRYPT, qd, qs, qlen, qiv, qaad, 8, qtag, 1));
                                OK("imb_quic_hp_chacha20(1)", imb_quic_hp_chacha20(mgr, key, qd, qs, 1));
                                OK("imb_quic_hp_chacha20(0)", imb_quic_hp_chacha20(mgr, key, qd, qs, 0));
                                OK("QUEUE_SIZEq", (void) IMB_QUEUE_SIZE(mgr));
                        }
                }
                OK("AES128_CFB_ONE", IMB_AES128_CFB_ONE(mgr, out, buf, iv, ek, 10));
                OK("AES256_CFB_ONE", IMB_AES256_CFB_ONE(mgr, out, buf, iv, ek, 16));
                OK("SM4_KEYEXP", IMB_SM4_KEYEXP(mgr, key, sm4e, sm4d));
                OK("CHACHA20_POLY1305_INIT", IMB_CHACHA20_POLY1305_INIT(mgr, key, &cctx, iv, buf, 8));
                OK("CHACHA20_POLY1305_ENC_UPDATE", IMB_CHACHA20_POLY1305_ENC_UPDATE(mgr, key, &cctx, out, buf, 40));
                OK("CHACHA20_POLY1305_ENC_FINALIZE", IMB_CHACHA20_POLY1305_ENC_FINALIZE(mgr, &cctx, tag, 16));
                OK("HEC_32", (void) IMB_HEC_32(mgr, buf));
                OK("HEC_64", (void) IMB_HEC_64(mgr, buf));
                OK("CRC32_SCTP", (void) IMB_CRC32_SCTP(mgr, buf, 64));
                OK("CRC24_LTE_A", (void) IMB_CRC24_LTE_A(mgr, buf, 64));
                OK("CRC24_LTE_B", (void) IMB_CRC24_LTE_B(mgr, buf, 64));
                OK("CRC16_FP_DATA", (void) IMB_CRC16_FP_DATA(mgr, buf, 64));
                OK("CRC11_FP_HEADER", (void) IMB_CRC11_FP_HEADER(mgr, buf, 64));
                OK("CRC7_FP_HEADER", (void) IMB_CRC7_FP_HEADER(mgr, buf, 64));
                OK("CRC10_IUUP_DATA", (void) IMB_CRC10_IUUP_DATA(mgr, buf, 64));
                OK("CRC6_IUUP_HEADER", (void) IMB_CRC6_IUUP_HEADER(mgr, buf, 64));
                OK("CRC32_WIMAX_OFDMA_DATA", (void) IMB_CRC32_WIMAX_OFDMA_DATA(mgr, buf, 64));
                OK("CRC8_WIMAX_OFDMA_HCS", (void) IMB_CRC8_WIMAX_OFDMA_HCS(mgr, buf, 64));
                OK("AES_KEYEXP_256b", IMB_AES_KEYEXP_256(mgr, key, ek, dk));
                OK("AES_CMAC_SUBKEY_GEN_256", IMB_AES_CMAC_SUBKEY_GEN_256(mgr, ek, k2, k3));
                OK("AES192_GCM_PRE", IMB_AES192_GCM_PRE(mgr, key, &gk));
                OK("AES192_GCM_ENC", IMB_AES192_GCM_ENC(mgr, &gk, &gctx, out, buf, 33, iv, buf, 5, tag, 12));
                OK("AES256_GCM_PREb", IMB_AES256_GCM_PRE(mgr, key, &gk));
                OK("AES256_GCM_DEC", IMB_AES256_GCM_DEC(mgr, &gk, &gctx, out, buf, 1, iv, buf, 0, tag, 8));
                OK("AES256_GCM_PRECOMP", IMB_AES256_GCM_PRECOMP(mgr, &gk));
                OK("AES256_GCM_INIT_VAR_IV", IMB_AES256_GCM_INIT_VAR_IV(mgr, &gk, &gctx, iv, 16, buf, 4));
                OK("AES256_GCM_DEC_UPDATE", IMB_AES256_GCM_DEC_UPDATE(mgr, &gk, &gctx, out, buf, 20));
                OK("AES256_GCM_DEC_FINALIZE", IMB_AES256_GCM_DEC_FINALIZE(mgr, &gk, &gctx, tag, 16));
                /* legal degenerate calls: a zero length makes the matching data pointer irrelevant (the
                 * library's own argument checks say "out/in != NULL (msg_len != 0)", "aad != NULL
                 * (aad_len != 0)"); such a call succeeds and must leave no error code behind */
                OK("AES128_GCM_PREz", IMB_AES128_GCM_PRE(mgr, key, &gk));
                OK("AES128_GCM_INIT(aad=NULL,0)", IMB_AES128_GCM_INIT(mgr, &gk, &gctx, iv, NULL, 0));
                OK("AES128_GCM_ENC_UPDATE(NULL,NULL,0)", IMB_AES128_GCM_ENC_UPDATE(mgr, &gk, &gctx, NULL, NULL, 0));
                OK("AES128_GCM_ENC_UPDATE(out,NULL,0)", IMB_AES128_GCM_ENC_UPDATE(mgr, &gk, &gctx, out, NULL, 0));
                OK("AES128_GCM_ENC_UPDATE(NULL,in,0)", IMB_AES128_GCM_ENC_UPDATE(mgr, &gk, &gctx, NULL, buf, 0));
                OK("AES128_GCM_ENC_FINALIZEz", IMB_AES128_GCM_ENC_FINALIZE(mgr, &gk, &gctx, tag, 16));
                OK("AES128_GCM_INITz", IMB_AES128_GCM_INIT(mgr, &gk, &gctx, iv, buf, 3));
                OK("AES128_GCM_DEC_UPDATE(NULL,NULL,0)", IMB_AES128_GCM_DEC_UPDATE(mgr, &gk, &gctx, NULL, NULL, 0));
                OK("AES128_GCM_DEC_UPDATE(out,NULL,0)", IMB_AES128_GCM_DEC_UPDATE(mgr, &gk, &gctx, out, NULL, 0));
                OK("AES128_GCM_DEC_UPDATE(NULL,in,0)", IMB_AES128_GCM_DEC_UPDATE(mgr, &gk, &gctx, NULL, buf, 0));
                OK("AES128_GCM_DEC_FINALIZEz", IMB_AES128_GCM_DEC_FINALIZE(mgr, &gk, &gctx, tag, 16));
                OK("AES128_GCM_ENC(len=0,aad=0,NULLs)",
                   IMB_AES128_GCM_ENC(mgr, &gk, &gctx, NULL, NULL, 0, iv, NULL, 0, tag, 16));
                OK("AES128_GCM_DEC(len=0,aad=0,NULLs)",
                   IMB_AES128_GCM_DEC(mgr, &gk, &gctx, NULL, NULL, 0, iv, NULL, 0, tag, 16));
                OK("AES192_GCM_PREz", IMB_AES192_GCM_PRE(mgr, key, &gk));
                OK("AES192_GCM_INIT_VAR_IV(aad=NULL,0)", IMB_AES192_GCM_INIT_VAR_IV(mgr, &gk, &gctx, iv, 16, NULL, 0));
                OK("AES192_GCM_ENC_UPDATE(NULL,NULL,0)", IMB_AES192_GCM_ENC_UPDATE(mgr, &gk, &gctx, NULL, NULL, 0));
                OK("AES192_GCM_DEC_UPDATE(NULL,NULL,0)", IMB_AES192_GCM_DEC_UPDATE(mgr, &gk, &gctx, NULL, NULL, 0));
                OK("AES192_GCM_ENC(len=0,NULLs)", IMB_AES192_GCM_ENC(mgr, &gk, &gctx, NULL, NULL, 0, iv, buf, 7, tag, 12));
                OK("AES192_GCM_DEC(aad=0,NULL)", IMB_AES192_GCM_DEC(mgr, &gk, &gctx, out, buf, 9, iv, NULL, 0, tag, 12));
                OK("AES256_GCM_PREz", IMB_AES256_GCM_PRE(mgr, key, &gk));
                OK("AES256_GCM_INITz", IMB_AES256_GCM_INIT(mgr, &gk, &gctx, iv, NULL, 0));
                OK("AES256_GCM_ENC_UPDATE(NULL,NULL,0)", IMB_AES256_GCM_ENC_UPDATE(mgr, &gk, &gctx, NULL, NULL, 0));
                OK("AES256_GCM_DEC_UPDATE(NULL,NULL,0)", IMB_AES256_GCM_DEC_UPDATE(mgr, &gk, &gctx, NULL, NULL, 0));
                OK("AES256_GCM_DEC_FINALIZEz", IMB_AES256_GCM_DEC_FINALIZE(mgr, &gk, &gctx, tag, 16));
                OK("AES256_GMAC_INIT", IMB_AES256_GMAC_INIT(mgr, &gk, &gctx, iv, 12));
                OK("AES256_GMAC_UPDATE(NULL,0)", IMB_AES256_GMAC_UPDATE(mgr, &gk, &gctx, NULL, 0));
                OK("AES256_GMAC_UPDATE", IMB_AES256_GMAC_UPDATE(mgr, &gk, &gctx, buf, 48));
                OK("AES256_GMAC_FINALIZE", IMB_AES256_GMAC_FINALIZE(mgr, &gk, &gctx, tag, 16));
                OK("SHA224_ONE_BLOCK", IMB_SHA224_ONE_BLOCK(mgr, buf, tag));
                OK("SHA512_ONE_BLOCK", IMB_SHA512_ONE_BLOCK(mgr, buf, tag));
                OK("SHA384", IMB_SHA384(mgr, buf, 130, tag));
                OK("SHA256", IMB_SHA256(mgr, buf, 64, tag));
                OK("AES_KEYEXP_128c", IMB_AES_KEYEXP_128(mgr, key, ek, dk));
        }
        /* job API housekeeping calls */
        OK("GET_NEXT_JOB", j = IMB_GET_NEXT_JOB(mgr));
        OK("GET_COMPLETED_JOB(empty)", (void) IMB_GET_COMPLETED_JOB(mgr));
        OK("FLUSH_JOB(empty)", (void) IMB_FLUSH_JOB(mgr));
        OK("QUEUE_SIZE", (void) IMB_QUEUE_SIZE(mgr));
        /* burst API argument errors */
        FAIL("GET_NEXT_BURST(n=129)", IMB_ERR_BURST_SIZE, (void) IMB_GET_NEXT_BURST(mgr, IMB_MAX_BURST_SIZE + 1, arr));
        OK("GET_NEXT_BURST(0)", (void) IMB_GET_NEXT_BURST(mgr, 0, arr));
        FAIL("GET_NEXT_BURST(jobs=NULL)", IMB_ERR_NULL_BURST, (void) IMB_GET_NEXT_BURST(mgr, 1, NULL));
        OK("FLUSH_BURST(empty)", (void) IMB_FLUSH_BURST(mgr, 4, arr));
        FAIL("SUBMIT_BURST(jobs=NULL)", IMB_ERR_NULL_BURST, (void) IMB_SUBMIT_BURST(mgr, 1, NULL));
        OK("QUEUE_SIZEb", (void) IMB_QUEUE_SIZE(mgr));
        FAIL("FLUSH_BURST(jobs=NULL)", IMB_ERR_NULL_BURST, (void) IMB_FLUSH_BURST(mgr, 1, NULL));
        OK("GET_NEXT_BURST(1)", (void) IMB_GET_NEXT_BURST(mgr, 1, arr));
        FAIL("SUBMIT_BURST(n=129)", IMB_ERR_BURST_SIZE, (void) IMB_SUBMIT_BURST(mgr, IMB_MAX_BURST_SIZE + 1, arr));
        {
                IMB_JOB *one[2] = { NULL, NULL };

                FAIL("SUBMIT_BURST(jobs[0]=NULL)", IMB_ERR_NULL_JOB, (void) IMB_SUBMIT_BURST(mgr, 1, one));
                OK("GET_NEXT_BURST(2)", (void) IMB_GET_NEXT_BURST(mgr, 2, arr));
                fill_cbc(arr[0], ek, dk, buf, iv);
                fill_cbc(arr[1], ek, dk, buf + 64, iv);
                OK("imb_set_session", (void) imb_set_session(mgr, arr[0]));
                (void) imb_set_session(mgr, arr[1]);
                one[0] = arr[1];
                FAIL("SUBMIT_BURST(out-of-order)", IMB_ERR_BURST_OOO, (void) IMB_SUBMIT_BURST(mgr, 1, one));
                fill_cbc(arr[0], ek, dk, buf, iv);
                (void) imb_set_session(mgr, arr[0]);
                arr[0]->suite_id[1] ^= 1;
                FAIL("SUBMIT_BURST(bad-suite-id)", IMB_ERR_BURST_SUITE_ID, (void) IMB_SUBMIT_BURST(mgr, 1, arr));
                fill_cbc(arr[0], ek, dk, buf, iv);
                (void) imb_set_session(mgr, arr[0]);
                OK("SUBMIT_BURST(1)", (void) IMB_SUBMIT_BURST(mgr, 1, arr));
                while (IMB_FLUSH_BURST(mgr, 8, arr) != 0)
                        ;
        }
        {
                /* not enough room: one parked job (a lone CBC encryption stays in its scheduler) keeps 200 finished
                 * jobs behind it in the ring; a legal burst size larger than the room left must be refused with
                 * IMB_ERR_QUEUE_SPACE (and nothing else) */
                uint32_t got = IMB_GET_NEXT_BURST(mgr, 1, arr);

                if (got == 1) {
                        fill_cbc(arr[0], ek, dk, buf, iv);
                        arr[0]->cipher_direction = IMB_DIR_ENCRYPT;
                        (void) imb_set_session(mgr, arr[0]);
                        OK("SUBMIT_BURST(parked head)", (void) IMB_SUBMIT_BURST(mgr, 1, arr));
                        for (int rep = 0; rep < 2; rep++) {
                                got = IMB_GET_NEXT_BURST(mgr, 100, arr);
                                for (uint32_t k = 0; k < got; k++) {
                                        fill_cbc(arr[k], ek, dk, buf, iv);
                                        (void) imb_set_session(mgr, arr[k]);
                                }
                                OK("SUBMIT_BURST(100 behind a parked job)", (void) IMB_SUBMIT_BURST(mgr, got, arr));
                        }
                        got = IMB_GET_NEXT_BURST(mgr, 64, arr);
                        for (uint32_t k = 0; k < got; k++) {
                                fill_cbc(arr[k], ek, dk, buf, iv);
                                (void) imb_set_session(mgr, arr[k]);
                        }
                        if (got < 64) {
                                for (uint32_t k = got; k < 64; k++)
                                        arr[k] = arr[0];
                                FAIL("SUBMIT_BURST(no-room)", IMB_ERR_QUEUE_SPACE, (void) IMB_SUBMIT_BURST(mgr, 64, arr));
                                OK("QUEUE_SIZE(after no-room)", (void) IMB_QUEUE_SIZE(mgr));
                        }
                        while (IMB_FLUSH_BURST(mgr, IMB_MAX_BURST_SIZE, arr) != 0)
                                ;
                }
        }
        /* synchronous bursts: a NULL job array is refused with the same code on all three (and recorded in the manager) */
        FAIL("SUBMIT_HASH_BURST(jobs=NULL)", IMB_ERR_NULL_BURST, (void) IMB_SUBMIT_HASH_BURST(mgr, NULL, 1, IMB_AUTH_HMAC_SHA_1));
        OK("QUEUE_SIZE(after hash burst NULL)", (void) IMB_QUEUE_SIZE(mgr));
        FAIL("SUBMIT_CIPHER_BURST(jobs=NULL)", IMB_ERR_NULL_BURST,
             (void) IMB_SUBMIT_CIPHER_BURST(mgr, NULL, 1, IMB_CIPHER_CBC, IMB_DIR_ENCRYPT, IMB_KEY_128_BYTES));
        OK("QUEUE_SIZE(after cipher burst NULL)", (void) IMB_QUEUE_SIZE(mgr));
        FAIL("SUBMIT_AEAD_BURST(jobs=NULL)", IMB_ERR_NULL_BURST,
             (void) IMB_SUBMIT_AEAD_BURST(mgr, NULL, 1, IMB_CIPHER_GCM, IMB_DIR_ENCRYPT, IMB_KEY_128_BYTES));
        OK("QUEUE_SIZE(after aead burst NULL)", (void) IMB_QUEUE_SIZE(mgr));
        FAIL("imb_set_session(job=NULL)", IMB_ERR_NULL_JOB, (void) imb_set_session(mgr, NULL));
        {
                IMB_JOB t;

                fill_cbc(&t, ek, dk, buf, iv);
                OK("imb_set_session(template)", (void) imb_set_session(mgr, &t));
                t.cipher_mode = (IMB_CIPHER_MODE) 99;
                FAIL("imb_set_session(cipher=99)", IMB_ERR_CIPH_MODE, (void) imb_set_session(mgr, &t));
                t.cipher_mode = IMB_CIPHER_CBC;
                t.hash_alg = (IMB_HASH_ALG) 99;
                FAIL("imb_set_session(hash=99)", IMB_ERR_HASH_ALGO, (void) imb_set_session(mgr, &t));
                t.hash_alg = IMB_AUTH_NULL;
                OK("imb_set_session(template)b", (void) imb_set_session(mgr, &t));
        }
        /* every entry point that works ON the manager (job API, asynchronous and synchronous burst API, checked and
         * unchecked flavours) leaves the manager's own error field at 0 when it succeeds, whatever an earlier failing
         * call on this manager left there: MOK() first makes such a call fail (the field then holds IMB_ERR_BURST_SIZE) */
#define MOK(name, call)                                                                                             \
        do {                                                                                                        \
                (void) IMB_GET_NEXT_BURST(mgr, IMB_MAX_BURST_SIZE + 1, arr);                                        \
                if (mgr->imb_errno != IMB_ERR_BURST_SIZE)                                                           \
                        printf("D var=%s name=MOK-poison kind=fail expect=%d get=%d field=%d glob=%d\n", g_var,     \
                               IMB_ERR_BURST_SIZE, imb_get_errno(mgr), mgr->imb_errno, imb_get_errno(NULL));        \
                call;                                                                                               \
                dline(name, 0, 0);                                                                                  \
        } while (0)
        {
                static IMB_JOB sj[4];
                static DECLARE_ALIGNED(uint8_t sbuf[4][64], 64);
                static DECLARE_ALIGNED(uint8_t sout[4][64], 64);
                static DECLARE_ALIGNED(uint8_t stag[4][64], 64);

                while (IMB_FLUSH_JOB(mgr) != NULL)
                        ;
                MOK("after-fail:GET_NEXT_JOB", j = IMB_GET_NEXT_JOB(mgr));
                fill_cbc(j, ek, dk, buf, iv);
                MOK("after-fail:SUBMIT_JOB", (void) IMB_SUBMIT_JOB(mgr));
                MOK("after-fail:GET_COMPLETED_JOB", (void) IMB_GET_COMPLETED_JOB(mgr));
                MOK("after-fail:FLUSH_JOB", (void) IMB_FLUSH_JOB(mgr));
                j = IMB_GET_NEXT_JOB(mgr);
                fill_cbc(j, ek, dk, buf, iv);
                MOK("after-fail:SUBMIT_JOB_NOCHECK", (void) IMB_SUBMIT_JOB_NOCHECK(mgr));
                while (IMB_FLUSH_JOB(mgr) != NULL)
                        ;
                MOK("after-fail:QUEUE_SIZE", (void) IMB_QUEUE_SIZE(mgr));
                MOK("after-fail:GET_NEXT_BURST", (void) IMB_GET_NEXT_BURST(mgr, 2, arr));
                fill_cbc(arr[0], ek, dk, buf, iv);
                fill_cbc(arr[1], ek, dk, buf, iv);
                (void) imb_set_session(mgr, arr[0]);
                (void) imb_set_session(mgr, arr[1]);
                MOK("after-fail:SUBMIT_BURST", (void) IMB_SUBMIT_BURST(mgr, 2, arr));
                MOK("after-fail:FLUSH_BURST", (void) IMB_FLUSH_BURST(mgr, IMB_MAX_BURST_SIZE, arr));
                if (IMB_GET_NEXT_BURST(mgr, 2, arr) == 2) {
                        fill_cbc(arr[0], ek, dk, buf, iv);
                        fill_cbc(arr[1], ek, dk, buf, iv);
                        (void) imb_set_session(mgr, arr[0]);
                        (void) imb_set_session(mgr, arr[1]);
                        MOK("after-fail:SUBMIT_BURST_NOCHECK", (void) IMB_SUBMIT_BURST_NOCHECK(mgr, 2, arr));
                        while (IMB_FLUSH_BURST(mgr, IMB_MAX_BURST_SIZE, arr) != 0)
                                ;
                }
                /* synchronous bursts */
                for (int q = 0; q < 4; q++) {
                        memset(&sj[q], 0, sizeof(sj[q]));
                        sj[q].src = sbuf[q];
                        sj[q].dst = sout[q];
                        sj[q].iv = iv;
                        sj[q].iv_len_in_bytes = 16;
                        sj[q].enc_keys = ek;
                        sj[q].dec_keys = dk;
                        sj[q].key_len_in_bytes = 16;
                        sj[q].msg_len_to_cipher_in_bytes = 32;
                        sj[q].msg_len_to_hash_in_bytes = 40;
                        sj[q].auth_tag_output = stag[q];
                        sj[q].auth_tag_output_len_in_bytes = 20;
                }
                MOK("after-fail:SUBMIT_CIPHER_BURST",
                    (void) IMB_SUBMIT_CIPHER_BURST(mgr, sj, 3, IMB_CIPHER_CBC, IMB_DIR_ENCRYPT, IMB_KEY_128_BYTES));
                MOK("after-fail:SUBMIT_CIPHER_BURST_NOCHECK",
                    (void) IMB_SUBMIT_CIPHER_BURST_NOCHECK(mgr, sj, 3, IMB_CIPHER_CBC, IMB_DIR_DECRYPT, IMB_KEY_128_BYTES));
                MOK("after-fail:SUBMIT_HASH_BURST", (void) IMB_SUBMIT_HASH_BURST(mgr, sj, 3, IMB_AUTH_SHA_1));
                MOK("after-fail:SUBMIT_HASH_BURST_NOCHECK", (void) IMB_SUBMIT_HASH_BURST_NOCHECK(mgr, sj, 3, IMB_AUTH_SHA_1));
                MOK("after-fail:SUBMIT_HASH_BURST_NOCHECK(sha256)",
                    (void) IMB_SUBMIT_HASH_BURST_NOCHECK(mgr, sj, 4, IMB_AUTH_SHA_256));
        }
        /* job API: an invalid job is flagged and the next call is clean */
        j = IMB_GET_NEXT_JOB(mgr);
        fill_cbc(j, ek, dk, buf, iv);
        j->src = NULL;
        FAIL("SUBMIT_JOB(src=NULL)", IMB_ERR_JOB_NULL_SRC, (void) IMB_SUBMIT_JOB(mgr));
        OK("FLUSH_JOB(after-invalid)", (void) IMB_FLUSH_JOB(mgr));
        j = IMB_GET_NEXT_JOB(mgr);
        fill_cbc(j, ek, dk, buf, iv);
        j->msg_len_to_cipher_in_bytes = 0;
        FAIL("SUBMIT_JOB(len=0)", IMB_ERR_JOB_CIPH_LEN, (void) IMB_SUBMIT_JOB(mgr));
        j = IMB_GET_NEXT_JOB(mgr);
        fill_cbc(j, ek, dk, buf, iv);
        OK("SUBMIT_JOB(valid-after-invalid)", (void) IMB_SUBMIT_JOB(mgr));
        while (IMB_FLUSH_JOB(mgr) != NULL)
                ;
        /* the manager's field is non-zero after a flagged job: a direct call made next must still
         * report its own outcome through imb_get_errno(mgr) */
        j = IMB_GET_NEXT_JOB(mgr);
        fill_cbc(j, ek, dk, buf, iv);
        j->dst = NULL;
        FAIL("SUBMIT_JOB(dst=NULL)", IMB_ERR_JOB_NULL_DST, (void) IMB_SUBMIT_JOB(mgr));
        g_poison = 0;
        OK("stale:AES_KEYEXP_128(after-flagged-job)", IMB_AES_KEYEXP_128(mgr, key, ek, dk));
        FAIL("stale:AES_KEYEXP_128(key=NULL,after-flagged-job)", IMB_ERR_NULL_KEY, IMB_AES_KEYEXP_128(mgr, NULL, ek, dk));
        OK("stale:SHA1_ONE_BLOCK(after-flagged-job)", IMB_SHA1_ONE_BLOCK(mgr, buf, tag));
        g_poison = 1;
        OK("FLUSH_JOB(after-stale)", (void) IMB_FLUSH_JOB(mgr));
        while (IMB_FLUSH_JOB(mgr) != NULL)
                ;
        /* NULL manager through the installed handlers */
        D = mgr;
        {
                (void) mgr->get_next_job(NULL);
                printf("D var=%s name=get_next_job(NULL) kind=fail expect=%d get=%d field=%d glob=%d\n", g_var,
                       IMB_ERR_NULL_MBMGR, imb_get_errno(NULL), 0, imb_get_errno(NULL));
                (void) mgr->queue_size(NULL);
                printf("D var=%s name=queue_size(NULL) kind=fail expect=%d get=%d field=%d glob=%d\n", g_var,
                       IMB_ERR_NULL_MBMGR, imb_get_errno(NULL), 0, imb_get_errno(NULL));
                (void) mgr->submit_job(NULL);
                printf("D var=%s name=submit_job(NULL) kind=fail expect=%d get=%d field=%d glob=%d\n", g_var,
                       IMB_ERR_NULL_MBMGR, imb_get_errno(NULL), 0, imb_get_errno(NULL));
                (void) mgr->flush_job(NULL);
                printf("D var=%s name=flush_job(NULL) kind=fail expect=%d get=%d field=%d glob=%d\n", g_var,
                       IMB_ERR_NULL_MBMGR, imb_get_errno(NULL), 0, imb_get_errno(NULL));
                imb_hmac_ipad_opad(NULL, IMB_AUTH_HMAC_SHA_1, key, 16, ipad, opad);
                printf("D var=%s name=imb_hmac_ipad_opad(mgr=NULL) kind=fail expect=%d get=%d field=%d glob=%d\n", g_var,
                       IMB_ERR_NULL_MBMGR, imb_get_errno(NULL), 0, imb_get_errno(NULL));
                (void) imb_set_session(NULL, NULL);
                printf("D var=%s name=imb_set_session(mgr=NULL) kind=fail expect=%d get=%d field=%d glob=%d\n", g_var,
                       IMB_ERR_NULL_MBMGR, imb_get_errno(NULL), 0, imb_get_errno(NULL));
        }
        OK("QUEUE_SIZE(after-NULL-mgr-calls)", (void) IMB_QUEUE_SIZE(mgr));
}

/* ------------------------------------------------------------------------- */

/* ------------------------------------------------------------------------- */
/* --custom: user-supplied cipher / hash callbacks that succeed or fail, both chain orders, chained
 * with library algorithms that complete at once or park in a scheduler, with other jobs in flight */
struct cust {
        int cfail, hfail, ccalls, hcalls, cret, hret;
};

static int
cust_cipher(IMB_JOB *job)
{
        struct cust *c = (struct cust *) job->user_data2;

        c->ccalls++;
        if (c->cfail)
                c->cret = 1;
        return c->cfail;
}

static int
cust_hash(IMB_JOB *job)
{
        struct cust *c = (struct cust *) job->user_data2;

        c->hcalls++;
        if (c->hfail)
                c->hret = 1;
        return c->hfail;
}

/* cipher kinds: 0 custom ok, 1 custom failing, 2 NULL, 3 CBC-128 enc, 4 CBC-128 dec, 5 CTR-128
 * hash kinds:   0 custom ok, 1 custom failing, 2 NULL, 3 HMAC-SHA1, 4 SHA-256, 5 AES-CMAC */
static void
cust_fill(IMB_JOB *j, const int ck, const int hk, const int order, struct cust *c, uint8_t *src, uint8_t *dst,
          uint8_t *tag, const void *ek, const void *dk, uint8_t *iv, const uint8_t *ipad, const uint8_t *opad,
          const void *k1, const void *k2, const void *k3, const uint64_t len)
{
        memset(j, 0, sizeof(*j));
        memset(c, 0, sizeof(*c));
        j->chain_order = order ? IMB_ORDER_HASH_CIPHER : IMB_ORDER_CIPHER_HASH;
        j->src = src;
        j->dst = dst;
        j->user_data = (void *) (uintptr_t) 0x1234567811223344ULL;
        j->user_data2 = c;
        j->msg_len_to_cipher_in_bytes = len;
        j->cipher_start_src_offset_in_bytes = 0;
        j->iv = iv;
        j->iv_len_in_bytes = 16;
        j->enc_keys = ek;
        j->dec_keys = dk;
        j->key_len_in_bytes = 16;
        j->cipher_direction = IMB_DIR_ENCRYPT;
        switch (ck) {
        case 0:
        case 1:
                j->cipher_mode = IMB_CIPHER_CUSTOM;
                j->cipher_func = cust_cipher;
                c->cfail = ck;
                break;
        case 2:
                j->cipher_mode = IMB_CIPHER_NULL;
                break;
        case 3:
                j->cipher_mode = IMB_CIPHER_CBC;
                break;
        case 4:
                j->cipher_mode = IMB_CIPHER_CBC;
                j->cipher_direction = IMB_DIR_DECRYPT;
                break;
        default:
                j->cipher_mode = IMB_CIPHER_CNTR;
                break;
        }
        j->hash_start_src_offset_in_bytes = 0;
        j->msg_len_to_hash_in_bytes = len;
        j->auth_tag_output = tag;
        switch (hk) {
        case 0:
        case 1:
                j->hash_alg = IMB_AUTH_CUSTOM;
                j->hash_func = cust_hash;
                j->auth_tag_output_len_in_bytes = 16;
                c->hfail = hk;
                break;
        case 2:
                j->hash_alg = IMB_AUTH_NULL;
                j->auth_tag_output = NULL;
                break;
        case 3:
                j->hash_alg = IMB_AUTH_HMAC_SHA_1;
                j->auth_tag_output_len_in_bytes = 12;
                j->u.HMAC._hashed_auth_key_xor_ipad = ipad;
                j->u.HMAC._hashed_auth_key_xor_opad = opad;
                break;
        case 4:
                j->hash_alg = IMB_AUTH_SHA_256;
                j->auth_tag_output_len_in_bytes = 32;
                break;
        default:
                j->hash_alg = IMB_AUTH_AES_CMAC;
                j->auth_tag_output_len_in_bytes = 16;
                j->u.CMAC._key_expanded = k1;
                j->u.CMAC._skey1 = k2;
                j->u.CMAC._skey2 = k3;
                break;
        }
}

#define CUST_BG 5
static void
cust_report(IMB_MGR *mgr, IMB_JOB *job, const IMB_JOB *copies, struct cust *cs, const int ntot, const int ep,
            const char *retcall, int *seen)
{
        const int slot = slot_index(mgr, job);
        struct cust *c = (struct cust *) job->user_data2;
        const int idx = (int) (c - cs);

        if (slot < 0 || idx < 0 || idx >= ntot) {
                printf("X var=%s ep=%d id=-1 what=custom-returned-unknown-job\n", g_var, ep);
                return;
        }
        seen[idx]++;
        IMB_JOB a = copies[idx], b = *job;

        a.status = b.status = 0;
        if ((a.hash_alg == IMB_AUTH_AES_CMAC) && b.msg_len_to_hash_in_bits == a.msg_len_to_hash_in_bytes * 8)
                b.msg_len_to_hash_in_bytes = a.msg_len_to_hash_in_bytes;
        const int same = memcmp(&a, &b, sizeof(a)) == 0;

        printf("U var=%s ep=%d idx=%d c=%d h=%d order=%d status=%d ccalls=%d hcalls=%d anyfail=%d same=%d get=%d field=%d "
               "retcall=%s\n",
               g_var, ep, idx, copies[idx].cipher_mode == IMB_CIPHER_CUSTOM ? c->cfail : -1,
               copies[idx].hash_alg == IMB_AUTH_CUSTOM ? c->hfail : -1,
               copies[idx].chain_order == IMB_ORDER_HASH_CIPHER, (int) job->status, c->ccalls, c->hcalls,
               c->cret | c->hret, same, imb_get_errno(mgr), mgr->imb_errno, retcall);
}

static void
run_custom(IMB_MGR *mgr)
{
        static uint8_t key[16] = { 9, 8, 7, 6, 5, 4, 3, 2, 1 };
        static DECLARE_ALIGNED(uint32_t ek[60], 16);
        static DECLARE_ALIGNED(uint32_t dk[60], 16);
        static DECLARE_ALIGNED(uint8_t k1[16 * 11], 16);
        static DECLARE_ALIGNED(uint8_t k2[16], 16);
        static DECLARE_ALIGNED(uint8_t k3[16], 16);
        static DECLARE_ALIGNED(uint8_t ipad[20], 16);
        static DECLARE_ALIGNED(uint8_t opad[20], 16);
        static DECLARE_ALIGNED(uint8_t iv[16], 16);
        static uint8_t src[CUST_BG + 1][256], dst[CUST_BG + 1][256], tag[CUST_BG + 1][64];
        static uint8_t hkey[20] = { 1, 2, 3 };
        struct cust cs[CUST_BG + 1];
        IMB_JOB copies[CUST_BG + 1];
        IMB_JOB *arr[IMB_MAX_BURST_SIZE];
        int seen[CUST_BG + 1];
        unsigned long n = 0;

        IMB_AES_KEYEXP_128(mgr, key, ek, dk);
        IMB_AES_CMAC_SUBKEY_GEN_128(mgr, ek, k2, k3);
        memcpy(k1, ek, sizeof(k1));
        imb_hmac_ipad_opad(mgr, IMB_AUTH_HMAC_SHA_1, hkey, sizeof(hkey), ipad, opad);
        for (unsigned i = 0; i < sizeof(src); i++)
                ((uint8_t *) src)[i] = (uint8_t) (i * 7 + 3);
        for (int ep = 0; ep < 4; ep++)
                for (int ck = 0; ck < 6; ck++)
                        for (int hk = 0; hk < 6; hk++)
                                for (int order = 0; order < 2; order++)
                                        for (int bg = 0; bg < 2; bg++) {
                                                if (ck > 1 && hk > 1)
                                                        continue;
                                                /* the background jobs park in the CBC / HMAC / CMAC schedulers so that the job
                                                 * under test is deferred and comes back through the flush / resubmit path */
                                                const int nbg = bg ? CUST_BG : 0;
                                                const int ntot = nbg + 1;
                                                const uint64_t len = 64;

                                                memset(seen, 0, sizeof(seen));
                                                for (int i = 0; i < ntot; i++) {
                                                        const int last = i == ntot - 1;

                                                        cust_fill(&copies[i], last ? ck : 3, last ? hk : (i & 1 ? 3 : 5),
                                                                  last ? order : (i >> 1) & 1, &cs[i], src[i], dst[i], tag[i], ek,
                                                                  dk, iv, ipad, opad, k1, k2, k3, last ? len : 64 + 16 * (uint64_t) i);
                                                }
                                                g_ep = ep;
                                                if (ep < 2) {
                                                        for (int i = 0; i < ntot; i++) {
                                                                IMB_JOB *j = IMB_GET_NEXT_JOB(mgr);

                                                                *j = copies[i];
                                                                j = ep == 1 ? IMB_SUBMIT_JOB_NOCHECK(mgr) : IMB_SUBMIT_JOB(mgr);
                                                                while (j != NULL) {
                                                                        cust_report(mgr, j, copies, cs, ntot, ep, "SUBMIT_JOB", seen);
                                                                        j = IMB_GET_COMPLETED_JOB(mgr);
                                                                }
                                                        }
                                                        for (IMB_JOB *j; (j = IMB_FLUSH_JOB(mgr)) != NULL;)
                                                                cust_report(mgr, j, copies, cs, ntot, ep, "FLUSH_JOB", seen);
                                                } else {
                                                        const uint32_t got = IMB_GET_NEXT_BURST(mgr, (uint32_t) ntot, arr);

                                                        if (got != (uint32_t) ntot) {
                                                                printf("X var=%s ep=%d id=-1 what=custom-get-next-burst-short\n", g_var, ep);
                                                                continue;
                                                        }
                                                        for (int i = 0; i < ntot; i++) {
                                                                *arr[i] = copies[i];
                                                                imb_set_session(mgr, arr[i]);
                                                                copies[i] = *arr[i];
                                                        }
                                                        uint32_t done = ep == 3 ? IMB_SUBMIT_BURST_NOCHECK(mgr, (uint32_t) ntot, arr)
                                                                                : IMB_SUBMIT_BURST(mgr, (uint32_t) ntot, arr);
                                                        const char *rc = "SUBMIT_BURST";

                                                        if (done == 0 && mgr->imb_errno != 0)
                                                                printf("X var=%s ep=%d id=-1 what=custom-burst-refused(%d)c%dh%d\n", g_var, ep,
                                                                       mgr->imb_errno, ck, hk);
                                                        for (;;) {
                                                                for (uint32_t i = 0; i < done; i++)
                                                                        cust_report(mgr, arr[i], copies, cs, ntot, ep, rc, seen);
                                                                done = IMB_FLUSH_BURST(mgr, IMB_MAX_BURST_SIZE, arr);
                                                                rc = "FLUSH_BURST";
                                                                if (done == 0)
                                                                        break;
                                                        }
                                                }
                                                for (int i = 0; i < ntot; i++)
                                                        if (seen[i] != 1)
                                                                printf("X var=%s ep=%d id=-1 what=custom-job-%d-returned-%d-times(c%dh%do%dbg%d)\n",
                                                                       g_var, ep, i, seen[i], ck, hk, order, bg);
                                                if (IMB_QUEUE_SIZE(mgr) != 0)
                                                        printf("X var=%s ep=%d id=-1 what=custom-queue-not-empty\n", g_var, ep);
                                                n++;
                                        }
        printf("T custom_scenarios=%lu\n", n);
}

static void
run_strerror(void)
{
        long checked = 0, bad = 0;
        static const int extra[] = { INT_MIN, INT_MIN + 1, INT_MAX, INT_MAX - 1, -70001, 70001, 1 << 20, -(1 << 20) };

        for (long v = -70000; v <= 70000 + (long) (sizeof(extra) / sizeof(extra[0])); v++) {
                const int n = v <= 70000 ? (int) v : extra[v - 70001];
                const char *s = imb_get_strerror(n);

                checked++;
                if (s == NULL || s[0] == 0) {
                        bad++;
                        printf("S code=%d str=%s\n", n, s == NULL ? "(null)" : "(empty)");
                        continue;
                }
                if ((n > IMB_ERR_MIN && n < IMB_ERR_MAX) || n == 0 || n == IMB_ERR_MIN || n == IMB_ERR_MAX ||
                    n == IMB_ERR_MAX + 1)
                        printf("S code=%d str=%s\n", n, s);
                else if (n < IMB_ERR_MIN) {
                        /* documented behaviour of the default branch: whatever strerror() says */
                        char want[256];

                        snprintf(want, sizeof(want), "%s", strerror(n));
                        if (strcmp(want, imb_get_strerror(n)) != 0) {
                                bad++;
                                printf("S code=%d str=%s want=%s\n", n, imb_get_strerror(n), want);
                        }
                }
        }
        printf("T strerror_checked=%ld bad=%ld err_min=%d err_max=%d\n", checked, bad, IMB_ERR_MIN, IMB_ERR_MAX);
}

int
main(int argc, char **argv)
{
        const char *casefile = NULL, *variant = NULL;
        int eps[4] = { 0, 1, 2, 3 }, neps = 4, batch = 8;
        int mode = 0;
        imbh_variant vars[IMBH_MAX_VARIANTS];

        for (int i = 1; i < argc; i++) {
                if (!strcmp(argv[i], "--jobs") && i + 1 < argc) {
                        mode = 1;
                        casefile = argv[++i];
                } else if (!strcmp(argv[i], "--direct"))
                        mode = 2;
                else if (!strcmp(argv[i], "--strerror"))
                        mode = 3;
                else if (!strcmp(argv[i], "--list-variants"))
                        mode = 4;
                else if (!strcmp(argv[i], "--custom"))
                        mode = 5;
                else if (!strcmp(argv[i], "--variant") && i + 1 < argc)
                        variant = argv[++i];
                else if (!strcmp(argv[i], "--batch") && i + 1 < argc)
                        batch = atoi(argv[++i]);
                else if (!strcmp(argv[i], "--eps") && i + 1 < argc) {
                        neps = 0;
                        for (const char *p = argv[++i]; *p && neps < 4; p++)
                                if (*p >= '0' && *p <= '3')
                                        eps[neps++] = *p - '0';
                } else {
                        fprintf(stderr, "usage: see the header of k14_desc.c\n");
                        return 2;
                }
        }
        if (batch < 1 || batch > IMB_MAX_BURST_SIZE)
                batch = 8;
        setvbuf(stdout, NULL, _IOFBF, 1 << 16);
        if (mode == 3) {
                run_strerror();
                return 0;
        }
        const int nvar = imbh_enum_variants(vars);

        if (mode == 4) {
                for (int i = 0; i < nvar; i++)
                        printf("%s\n", vars[i].name);
                return 0;
        }
        IMB_MGR *mgr = NULL;

        for (int i = 0; i < nvar; i++)
                if (variant != NULL && !strcmp(vars[i].name, variant))
                        mgr = vars[i].mgr;
        if (mgr == NULL) {
                fprintf(stderr, "k14_desc: unknown variant %s\n", variant ? variant : "(none)");
                return 2;
        }
        g_var = variant;
        if (mode == 1) {
                if (load(casefile) != 0)
                        return 2;
                return run_jobs(mgr, eps, neps, batch);
        }
        if (mode == 2) {
                run_direct(mgr);
                return 0;
        }
        if (mode == 5) {
                run_custom(mgr);
                return 0;
        }
        return 2;
}
