/*
 * imbh - harness helper library for differential checks against intel-ipsec-mb.
 *
 * Reusable pieces: hex parsing/printing, splitmix64 PRNG, enumeration of the
 * distinct implementation variants, work-item parsing, key preparation with
 * the library's own helpers, job filling and running a batch of work items
 * through one API entry point.  Formats are documented in K1_FORMAT.md.
 */
#ifndef IMBH_H
#define IMBH_H

#include <stddef.h>
#include <stdint.h>
#include <stdio.h>

#include <intel-ipsec-mb.h>

/* ------------------------------------------------------------------------- */
/* bytes / hex / prng */

typedef struct {
        uint8_t *p; /* NULL iff n == 0 */
        size_t n;
} imbh_bytes;

/* "-" or "" -> empty. Returns 0 on success, -1 on malformed hex. */
int
imbh_hex_parse(const char *s, size_t slen, imbh_bytes *out);
/* append hex of p[0..n) to f, "-" if n == 0 */
void
imbh_hex_print(FILE *f, const uint8_t *p, size_t n);
/* append hex to a growing string buffer */
typedef struct {
        char *s;
        size_t len, cap;
} imbh_str;
void
imbh_str_add(imbh_str *b, const char *fmt, ...) __attribute__((format(printf, 2, 3)));
void
imbh_str_hex(imbh_str *b, const uint8_t *p, size_t n);

uint64_t
imbh_splitmix64(uint64_t *state);
void
imbh_fill_random(uint64_t *state, uint8_t *p, size_t n);

/* ------------------------------------------------------------------------- */
/* variants */

#define IMBH_MAX_VARIANTS 12
#define IMBH_NUM_FLAGS    4

typedef struct {
        char name[16];      /* e.g. "avx2:f1" : init function + flags of first occurrence */
        char aliases[96];   /* other (init,flags) pairs installing the same function set */
        int init;           /* 0 sse, 1 avx2, 2 avx512 */
        uint64_t flags;     /* flags passed to alloc_mb_mgr() */
        uint32_t used_arch; /* IMB_ARCH */
        unsigned arch_type; /* mgr->used_arch_type */
        unsigned want_type; /* type derived from features with the IMB_CPUFLAGS_* rules */
        uint64_t features;
        uint64_t fn_hash; /* FNV-1a over the installed function pointers */
        IMB_MGR *mgr;
} imbh_variant;

/* Creates all (init, flags) managers, keeps the distinct ones. Returns count. */
int
imbh_enum_variants(imbh_variant v[IMBH_MAX_VARIANTS]);
void
imbh_print_variants(FILE *f, const imbh_variant *v, int n);

/* ------------------------------------------------------------------------- */
/* work items */

#define IMBH_CANARY 64

/* bits of imbh_item.nullmask ("null=" token) */
#define IMBH_NULL_SRC  (1u << 0)
#define IMBH_NULL_DST  (1u << 1)
#define IMBH_NULL_IV   (1u << 2)
#define IMBH_NULL_KEY  (1u << 3)
#define IMBH_NULL_AKEY (1u << 4)
#define IMBH_NULL_AAD  (1u << 5)
#define IMBH_NULL_TAG  (1u << 6)
#define IMBH_NULL_AIV  (1u << 7)
#define IMBH_NULL_NIV  (1u << 8)

typedef struct {
        long id;
        char name[48]; /* optional label (name= token), used by the self test */
        int cipher, dir, hash, order;
        imbh_bytes key, akey, iv, aiv, aad, msg;
        uint64_t coff, clen, hoff, hlen, tag;
        int inplace, salign, dalign;
        int64_t doff; /* dst pointer offset override in bytes, -1 = per-mode default */
        unsigned nullmask;
        int unsafe; /* ranges not checked by the harness; checked entry points only */
        int hdst;   /* hoff is relative to the dst area (hash of the cipher output) */
        /* parse state */
        int bad; /* !0: unusable line, reported as status=-1 errno=-3 */
        char err[80];
        /* self-test expectations (x* tokens) */
        imbh_bytes xout, xtag;
        int64_t xoff; /* byte offset of xout in the dst area, -1 = 0 */
        int xbitoff;
        int64_t xbits; /* number of bits of xout compared, -1 = all */
        int xstatus;   /* expected status, default 3 */
        int xloose;    /* tag bytes beyond xtag are not defined by the library */
} imbh_item;

int
imbh_item_parse(const char *line, imbh_item *it);
void
imbh_item_free(imbh_item *it);

/* harness-level rejection codes (status=-1) */
#define IMBH_EPREP_AKEY  (-1) /* raw auth key length unusable for the algorithm */
#define IMBH_EPREP_RANGE (-2) /* offsets/lengths exceed the message buffer */
#define IMBH_EPREP_PARSE (-3) /* malformed line / unsupported mode (CUSTOM, SGL) */

/* entry points */
enum {
        IMBH_EP_JOB = 0,           /* GET_NEXT_JOB / SUBMIT_JOB / FLUSH_JOB */
        IMBH_EP_JOB_NOCHECK = 1,   /* SUBMIT_JOB_NOCHECK */
        IMBH_EP_BURST = 2,         /* GET_NEXT_BURST / SUBMIT_BURST / FLUSH_BURST */
        IMBH_EP_BURST_NOCHECK = 3, /* SUBMIT_BURST_NOCHECK */
        IMBH_EP_SYNC = 4,          /* SUBMIT_{CIPHER,HASH,AEAD}_BURST */
        IMBH_EP_DIRECT = 5,        /* direct API */
        IMBH_EP_SYNC_NOCHECK = 6,  /* SUBMIT_{CIPHER,HASH,AEAD}_BURST_NOCHECK */
        IMBH_NUM_EPS
};

/* Is the entry point one that skips parameter checking in the library? */
static inline int
imbh_ep_unchecked(const int ep)
{
        return ep == IMBH_EP_JOB_NOCHECK || ep == IMBH_EP_BURST_NOCHECK ||
               ep == IMBH_EP_DIRECT || ep == IMBH_EP_SYNC_NOCHECK;
}

/* key material prepared from the raw keys for one manager */
struct imbh_keys;

/* one execution of a work item: fresh buffers + prepared keys + outcome */
typedef struct {
        const imbh_item *it;
        IMB_MGR *mgr;
        /* buffers */
        uint8_t *src_alloc, *src; /* src: first byte of the message copy */
        uint8_t *dst_alloc, *dst; /* NULL when in place */
        uint8_t *tag_alloc, *tag;
        size_t tag_room; /* bytes between the tag canaries */
        uint8_t *iv, *aiv, *aad; /* padded, aligned copies (NULL if empty) */
        struct imbh_keys *keys;
        int prep_err; /* IMBH_EPREP_* or 0 */
        /* outcome */
        int done;
        const char *skip; /* non-NULL: not run on this entry point (reason) */
        int status, err;
} imbh_run;

/* Allocates buffers and prepares keys. Never fails hard: see run->prep_err. */
imbh_run *
imbh_run_new(IMB_MGR *mgr, const imbh_item *it);
void
imbh_run_free(imbh_run *r);

/* Fills a job structure exactly as an application would. */
void
imbh_fill_job(IMB_JOB *job, imbh_run *r);

/* Can (cipher, hash) of the item go through this entry point at all? */
int
imbh_ep_supports(int ep, const imbh_item *it);

/*
 * Runs n prepared work items through entry point ep of mgr, sharing the
 * scheduler between them (submit all, then flush).  Sets done/status/err or
 * skip in every run.
 */
void
imbh_run_batch(IMB_MGR *mgr, int ep, imbh_run **runs, int n);

/* which bytes of the dst area carry output: pointer to the area and its size */
const uint8_t *
imbh_out_area(const imbh_run *r, size_t *len);

/*
 * Canonical result line (without newline) for a finished run:
 * id= var= ep= status= errno= dst= tag= canary= src= [niv=]
 */
void
imbh_format_result(imbh_str *out, const imbh_run *r, const char *var, int ep);

#endif /* IMBH_H */
