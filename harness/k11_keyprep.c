/*
 * k11_keyprep - C side of the C11 correspondence: runs every key-preparation helper of
 * intel-ipsec-mb on every implementation variant and prints the bytes it wrote.
 *
 *   k11_keyprep <casefile> [--variants a,b|all]      dump mode
 *   k11_keyprep --xv <seed> [--variants ..]           cross-variant consumption mode
 *
 * Case file: one case per line, key=value tokens:
 *   id=<n> op=<name> key=<hex|-> [hash=<IMB_HASH_ALG>] [count=<n> bearer=<n> dir=<n> fresh=<n>]
 * ops: aes_keyexp cmac_subkey xcbc_keyexp hmac one_block gcm_pre gcm_precomp ghash_pre des_keysched
 *      sm4_keyexp kasumi_f8_sched kasumi_f9_sched snow3g_sched
 *      iv_zuc_eea3 iv_zuc_eia3 iv_snow3g_f8 iv_snow3g_f9 iv_kasumi_f8 iv_kasumi_f9
 * Output, one line per (case, variant) ("var=any" for the manager-independent IV generators):
 *   id=<n> var=<v> op=<name> r=<int> o1=<hex> o2=<hex> o3=<hex> over=<0|1>
 * r: errno after the call (hmac), return value (iv generators), key-schedule size (kasumi, snow3g),
 *    0 otherwise.  over=1: a byte beyond the documented output size was modified (outputs live in
 *    buffers pre-filled with 0xEE ^ index and followed by 64 guard bytes).
 * gcm_pre / gcm_precomp / ghash_pre: o1 = expanded_keys[0 .. 16*(Nr+1)), o2 = bytes 240..sizeof of
 *    struct gcm_key_data (pre-filled, so untouched bytes show the fill pattern 0xEE ^ index).
 *
 * --xv: for every ordered pair of variants (v1, v2) key material prepared by v1 is consumed by a job
 *    on v2; the result must equal the job on v2 with material prepared by v2 itself.
 *   xv op=<name> v1=<a> v2=<b> case=<i> same|DIFF [got= want=]
 */
#define _GNU_SOURCE
#include <stdio.h>
#include <stdlib.h>
#include <string.h>
#include <stdint.h>
#include <stddef.h>
#include <unistd.h>
#include <sys/wait.h>
#include <signal.h>

#include <intel-ipsec-mb.h>
#include "imbh.h"

#define GUARD 64
#define FILL(i) ((uint8_t) (0xEE ^ (uint8_t) (i)))

typedef struct {
        uint8_t *base, *p;
        size_t n;
} obuf;

static obuf
ob_new(size_t n, size_t align)
{
        obuf b;
        void *a = NULL;

        if (posix_memalign(&a, 64, n + 2 * GUARD + align) != 0)
                exit(2);
        b.base = a;
        b.p = b.base + GUARD;
        b.n = n;
        for (size_t i = 0; i < n + GUARD; i++)
                b.p[i] = FILL(i);
        for (size_t i = 0; i < GUARD; i++)
                b.base[i] = FILL(i + 7);
        return b;
}

/* were bytes [used, n+GUARD) or the leading guard modified? */
static int
ob_over(const obuf *b, size_t used)
{
        for (size_t i = used; i < b->n + GUARD; i++)
                if (b->p[i] != FILL(i))
                        return 1;
        for (size_t i = 0; i < GUARD; i++)
                if (b->base[i] != FILL(i + 7))
                        return 1;
        return 0;
}

static void
ob_free(obuf *b)
{
        free(b->base);
}

static void
hexout(const char *label, const uint8_t *p, size_t n)
{
        printf(" %s=", label);
        if (n == 0)
                printf("-");
        for (size_t i = 0; i < n; i++)
                printf("%02x", p[i]);
}

static const char *
tok(const char *line, const char *key, char *buf, size_t bufsz)
{
        const size_t kl = strlen(key);
        const char *p = line;

        while (*p) {
                while (*p == ' ' || *p == '\t' || *p == '\n' || *p == '\r')
                        p++;
                const char *e = p;

                while (*e && *e != ' ' && *e != '\t' && *e != '\n' && *e != '\r')
                        e++;
                if ((size_t) (e - p) > kl && strncmp(p, key, kl) == 0 && p[kl] == '=') {
                        size_t n = (size_t) (e - p) - kl - 1;

                        if (n >= bufsz)
                                n = bufsz - 1;
                        memcpy(buf, p + kl + 1, n);
                        buf[n] = 0;
                        return buf;
                }
                p = e;
        }
        return NULL;
}

static size_t
state_bytes(int h)
{
        switch (h) {
        case IMB_AUTH_HMAC_SHA_1:
                return 20;
        case IMB_AUTH_HMAC_SHA_224:
        case IMB_AUTH_HMAC_SHA_256:
        case IMB_AUTH_HMAC_SM3:
                return 32;
        case IMB_AUTH_HMAC_SHA_384:
        case IMB_AUTH_HMAC_SHA_512:
                return 64;
        case IMB_AUTH_MD5:
                return 16;
        default:
                return 0;
        }
}

static size_t
aes_sched_bytes(size_t klen)
{
        return klen == 16 ? 176 : klen == 24 ? 208 : klen == 32 ? 240 : 0;
}

static void
run_case(IMB_MGR *mgr, const char *var, const char *line)
{
        char b1[64], op[64];
        static char keyhex[1 << 16];
        imbh_bytes key = { NULL, 0 };
        long id;
        int hash = 0;
        unsigned long count = 0, bearer = 0, dir = 0, fresh = 0;

        if (!tok(line, "id", b1, sizeof(b1)) || !tok(line, "op", op, sizeof(op)))
                return;
        id = strtol(b1, NULL, 0);
        if (tok(line, "key", keyhex, sizeof(keyhex)))
                if (imbh_hex_parse(keyhex, strlen(keyhex), &key) != 0)
                        return;
        if (tok(line, "hash", b1, sizeof(b1)))
                hash = (int) strtol(b1, NULL, 0);
        if (tok(line, "count", b1, sizeof(b1)))
                count = strtoul(b1, NULL, 0);
        if (tok(line, "bearer", b1, sizeof(b1)))
                bearer = strtoul(b1, NULL, 0);
        if (tok(line, "dir", b1, sizeof(b1)))
                dir = strtoul(b1, NULL, 0);
        if (tok(line, "fresh", b1, sizeof(b1)))
                fresh = strtoul(b1, NULL, 0);

        const int is_iv = strncmp(op, "iv_", 3) == 0;

        if (is_iv != (mgr == NULL)) {
                free(key.p);
                return;
        }
        /* the key always lives in an exactly sized heap block so that over-reads are visible to tools */
        uint8_t *k = malloc(key.n ? key.n : 1);

        if (key.n)
                memcpy(k, key.p, key.n);

        printf("id=%ld var=%s op=%s", id, var, op);
        if (strcmp(op, "aes_keyexp") == 0) {
                const size_t sb = aes_sched_bytes(key.n);
                obuf e = ob_new(240, 0), d = ob_new(240, 0);

                if (key.n == 16)
                        IMB_AES_KEYEXP_128(mgr, k, e.p, d.p);
                else if (key.n == 24)
                        IMB_AES_KEYEXP_192(mgr, k, e.p, d.p);
                else if (key.n == 32)
                        IMB_AES_KEYEXP_256(mgr, k, e.p, d.p);
                printf(" r=0");
                hexout("o1", e.p, sb);
                hexout("o2", d.p, sb);
                printf(" o3=- over=%d", ob_over(&e, sb) | ob_over(&d, sb));
                ob_free(&e);
                ob_free(&d);
        } else if (strcmp(op, "cmac_subkey") == 0) {
                obuf e = ob_new(240, 0), d = ob_new(240, 0), k1 = ob_new(16, 0), k2 = ob_new(16, 0);

                if (key.n == 16) {
                        IMB_AES_KEYEXP_128(mgr, k, e.p, d.p);
                        IMB_AES_CMAC_SUBKEY_GEN_128(mgr, e.p, k1.p, k2.p);
                } else if (key.n == 32) {
                        IMB_AES_KEYEXP_256(mgr, k, e.p, d.p);
                        IMB_AES_CMAC_SUBKEY_GEN_256(mgr, e.p, k1.p, k2.p);
                }
                printf(" r=0");
                hexout("o1", k1.p, 16);
                hexout("o2", k2.p, 16);
                printf(" o3=- over=%d", ob_over(&k1, 16) | ob_over(&k2, 16));
                ob_free(&e);
                ob_free(&d);
                ob_free(&k1);
                ob_free(&k2);
        } else if (strcmp(op, "xcbc_keyexp") == 0) {
                obuf e = ob_new(176, 0), k2 = ob_new(16, 0), k3 = ob_new(16, 0);

                IMB_AES_XCBC_KEYEXP(mgr, k, e.p, k2.p, k3.p);
                printf(" r=0");
                hexout("o1", e.p, 176);
                hexout("o2", k2.p, 16);
                hexout("o3", k3.p, 16);
                printf(" over=%d", ob_over(&e, 176) | ob_over(&k2, 16) | ob_over(&k3, 16));
                ob_free(&e);
                ob_free(&k2);
                ob_free(&k3);
        } else if (strcmp(op, "hmac") == 0) {
                const size_t sb = state_bytes(hash);
                obuf ip = ob_new(64, 0), opd = ob_new(64, 0);

                uint64_t dummy_ks[16];

                /* clear a stale error (manager and library-global errno) first */
                IMB_DES_KEYSCHED(mgr, dummy_ks, "12345678");
                imb_hmac_ipad_opad(mgr, (IMB_HASH_ALG) hash, k, key.n, ip.p, opd.p);
                printf(" r=%d", imb_get_errno(mgr));
                hexout("o1", ip.p, sb);
                hexout("o2", opd.p, sb);
                printf(" o3=- over=%d", ob_over(&ip, sb) | ob_over(&opd, sb));
                /* reset the library-global errno the helper may have left behind */
                IMB_DES_KEYSCHED(mgr, dummy_ks, "12345678");
                ob_free(&ip);
                ob_free(&opd);
        } else if (strcmp(op, "one_block") == 0) {
                const size_t sb = state_bytes(hash);
                obuf o = ob_new(64, 0);

                switch (hash) {
                case IMB_AUTH_HMAC_SHA_1:
                        IMB_SHA1_ONE_BLOCK(mgr, k, o.p);
                        break;
                case IMB_AUTH_HMAC_SHA_224:
                        IMB_SHA224_ONE_BLOCK(mgr, k, o.p);
                        break;
                case IMB_AUTH_HMAC_SHA_256:
                        IMB_SHA256_ONE_BLOCK(mgr, k, o.p);
                        break;
                case IMB_AUTH_HMAC_SHA_384:
                        IMB_SHA384_ONE_BLOCK(mgr, k, o.p);
                        break;
                case IMB_AUTH_HMAC_SHA_512:
                        IMB_SHA512_ONE_BLOCK(mgr, k, o.p);
                        break;
                case IMB_AUTH_MD5:
                        IMB_MD5_ONE_BLOCK(mgr, k, o.p);
                        break;
                default:
                        break;
                }
                printf(" r=0");
                hexout("o1", o.p, sb);
                printf(" o2=- o3=- over=%d", ob_over(&o, sb));
                ob_free(&o);
        } else if (strcmp(op, "gcm_pre") == 0 || strcmp(op, "gcm_precomp") == 0 ||
                   strcmp(op, "ghash_pre") == 0) {
                obuf g = ob_new(sizeof(struct gcm_key_data), 0);
                struct gcm_key_data *gk = (struct gcm_key_data *) g.p;
                size_t sb = aes_sched_bytes(key.n);

                if (strcmp(op, "gcm_pre") == 0) {
                        if (key.n == 16)
                                IMB_AES128_GCM_PRE(mgr, k, gk);
                        else if (key.n == 24)
                                IMB_AES192_GCM_PRE(mgr, k, gk);
                        else if (key.n == 32)
                                IMB_AES256_GCM_PRE(mgr, k, gk);
                } else if (strcmp(op, "gcm_precomp") == 0) {
                        obuf e = ob_new(240, 0), d = ob_new(240, 0);

                        if (key.n == 16) {
                                IMB_AES_KEYEXP_128(mgr, k, e.p, d.p);
                                memcpy(gk->expanded_keys, e.p, sb);
                                IMB_AES128_GCM_PRECOMP(mgr, gk);
                        } else if (key.n == 24) {
                                IMB_AES_KEYEXP_192(mgr, k, e.p, d.p);
                                memcpy(gk->expanded_keys, e.p, sb);
                                IMB_AES192_GCM_PRECOMP(mgr, gk);
                        } else if (key.n == 32) {
                                IMB_AES_KEYEXP_256(mgr, k, e.p, d.p);
                                memcpy(gk->expanded_keys, e.p, sb);
                                IMB_AES256_GCM_PRECOMP(mgr, gk);
                        }
                        ob_free(&e);
                        ob_free(&d);
                } else {
                        sb = 0;
                        IMB_GHASH_PRE(mgr, k, gk);
                }
                printf(" r=0");
                hexout("o1", g.p, sb);
                hexout("o2", g.p + 240, sizeof(struct gcm_key_data) - 240);
                printf(" o3=- over=%d", ob_over(&g, sizeof(struct gcm_key_data)));
                ob_free(&g);
        } else if (strcmp(op, "des_keysched") == 0) {
                obuf s = ob_new(IMB_DES_KEY_SCHED_SIZE, 0);

                IMB_DES_KEYSCHED(mgr, (uint64_t *) (void *) s.p, k);
                printf(" r=0");
                hexout("o1", s.p, IMB_DES_KEY_SCHED_SIZE);
                printf(" o2=- o3=- over=%d", ob_over(&s, IMB_DES_KEY_SCHED_SIZE));
                ob_free(&s);
        } else if (strcmp(op, "sm4_keyexp") == 0) {
                obuf e = ob_new(128, 0), d = ob_new(128, 0);

                IMB_SM4_KEYEXP(mgr, k, (uint32_t *) (void *) e.p, (uint32_t *) (void *) d.p);
                printf(" r=0");
                hexout("o1", e.p, 128);
                hexout("o2", d.p, 128);
                printf(" o3=- over=%d", ob_over(&e, 128) | ob_over(&d, 128));
                ob_free(&e);
                ob_free(&d);
        } else if (strcmp(op, "kasumi_f8_sched") == 0 || strcmp(op, "kasumi_f9_sched") == 0) {
                const size_t sz = IMB_KASUMI_KEY_SCHED_SIZE(mgr);
                obuf s = ob_new(sz, 0);

                if (op[8] == '8')
                        IMB_KASUMI_INIT_F8_KEY_SCHED(mgr, k, (kasumi_key_sched_t *) (void *) s.p);
                else
                        IMB_KASUMI_INIT_F9_KEY_SCHED(mgr, k, (kasumi_key_sched_t *) (void *) s.p);
                printf(" r=%zu", sz);
                hexout("o1", s.p, sz);
                printf(" o2=- o3=- over=%d", ob_over(&s, sz));
                ob_free(&s);
        } else if (strcmp(op, "snow3g_sched") == 0) {
                const size_t sz = IMB_SNOW3G_KEY_SCHED_SIZE(mgr);
                obuf s = ob_new(sz, 0);

                IMB_SNOW3G_INIT_KEY_SCHED(mgr, k, (snow3g_key_schedule_t *) (void *) s.p);
                printf(" r=%zu", sz);
                hexout("o1", s.p, sz);
                printf(" o2=- o3=- over=%d", ob_over(&s, sz));
                ob_free(&s);
        } else if (is_iv) {
                obuf iv = ob_new(16, 0);
                size_t n = 16;
                int r = 0;

                if (strcmp(op, "iv_zuc_eea3") == 0)
                        r = zuc_eea3_iv_gen((uint32_t) count, (uint8_t) bearer, (uint8_t) dir, iv.p);
                else if (strcmp(op, "iv_zuc_eia3") == 0)
                        r = zuc_eia3_iv_gen((uint32_t) count, (uint8_t) bearer, (uint8_t) dir, iv.p);
                else if (strcmp(op, "iv_snow3g_f8") == 0)
                        r = snow3g_f8_iv_gen((uint32_t) count, (uint8_t) bearer, (uint8_t) dir, iv.p);
                else if (strcmp(op, "iv_snow3g_f9") == 0)
                        r = snow3g_f9_iv_gen((uint32_t) count, (uint32_t) fresh, (uint8_t) dir, iv.p);
                else if (strcmp(op, "iv_kasumi_f8") == 0) {
                        r = kasumi_f8_iv_gen((uint32_t) count, (uint8_t) bearer, (uint8_t) dir, iv.p);
                        n = 8;
                } else if (strcmp(op, "iv_kasumi_f9") == 0) {
                        r = kasumi_f9_iv_gen((uint32_t) count, (uint32_t) fresh, iv.p);
                        n = 8;
                }
                printf(" r=%d", r);
                hexout("o1", iv.p, r == 0 ? n : 0);
                printf(" o2=- o3=- over=%d", ob_over(&iv, r == 0 ? n : 0));
                ob_free(&iv);
        } else {
                printf(" r=-99 o1=- o2=- o3=- over=0");
        }
        printf("\n");
        free(k);
        free(key.p);
}

/* ------------------------------------------------------------------------------------------ */
/* cross-variant consumption                                                                     */

typedef struct {
        uint8_t enc[240] __attribute__((aligned(16)));
        uint8_t dec[240] __attribute__((aligned(16)));
        uint8_t k2[16] __attribute__((aligned(16)));
        uint8_t k3[16] __attribute__((aligned(16)));
        uint8_t ipad[64] __attribute__((aligned(16)));
        uint8_t opad[64] __attribute__((aligned(16)));
        uint64_t des[3][16] __attribute__((aligned(16)));
        const void *des3[3];
        /* the SM4 job reads the schedule with movdqa: 16-byte alignment needed (not documented) */
        uint32_t sm4e[32] __attribute__((aligned(16)));
        uint32_t sm4d[32] __attribute__((aligned(16)));
        kasumi_key_sched_t kas __attribute__((aligned(16)));
        uint8_t snow[64] __attribute__((aligned(16)));
        struct gcm_key_data gcm;
} xvkeys;

enum { XV_AES128,
       XV_AES192,
       XV_AES256,
       XV_CMAC128,
       XV_CMAC256,
       XV_XCBC,
       XV_HMAC1,
       XV_HMAC224,
       XV_HMAC256,
       XV_HMAC384,
       XV_HMAC512,
       XV_HMACMD5,
       XV_HMACSM3,
       XV_DES,
       XV_DES3,
       XV_SM4,
       XV_KASUMI_F8,
       XV_KASUMI_F9,
       XV_SNOW3G,
       XV_GCM128,
       XV_GCM256,
       XV_GHASH,
       XV_NUM };
static const char *xv_names[XV_NUM] = { "aes128",  "aes192",  "aes256",   "cmac128",  "cmac256", "xcbc",
                                        "hmac_sha1", "hmac_sha224", "hmac_sha256", "hmac_sha384",
                                        "hmac_sha512", "hmac_md5", "hmac_sm3", "des", "des3", "sm4",
                                        "kasumi_f8", "kasumi_f9", "snow3g", "gcm128", "gcm256", "ghash" };
static const int xv_hash[XV_NUM] = { 0, 0, 0, 0, 0, 0, IMB_AUTH_HMAC_SHA_1, IMB_AUTH_HMAC_SHA_224,
                                     IMB_AUTH_HMAC_SHA_256, IMB_AUTH_HMAC_SHA_384, IMB_AUTH_HMAC_SHA_512,
                                     IMB_AUTH_MD5, IMB_AUTH_HMAC_SM3 };

static void
xv_prepare(IMB_MGR *m, int kind, const uint8_t *key, size_t klen, xvkeys *x)
{
        memset(x, 0, sizeof(*x));
        switch (kind) {
        case XV_AES128:
        case XV_CMAC128:
                IMB_AES_KEYEXP_128(m, key, x->enc, x->dec);
                if (kind == XV_CMAC128)
                        IMB_AES_CMAC_SUBKEY_GEN_128(m, x->enc, x->k2, x->k3);
                break;
        case XV_AES192:
                IMB_AES_KEYEXP_192(m, key, x->enc, x->dec);
                break;
        case XV_AES256:
        case XV_CMAC256:
                IMB_AES_KEYEXP_256(m, key, x->enc, x->dec);
                if (kind == XV_CMAC256)
                        IMB_AES_CMAC_SUBKEY_GEN_256(m, x->enc, x->k2, x->k3);
                break;
        case XV_XCBC:
                IMB_AES_XCBC_KEYEXP(m, key, x->enc, x->k2, x->k3);
                break;
        case XV_HMAC1:
        case XV_HMAC224:
        case XV_HMAC256:
        case XV_HMAC384:
        case XV_HMAC512:
        case XV_HMACMD5:
        case XV_HMACSM3:
                imb_hmac_ipad_opad(m, (IMB_HASH_ALG) xv_hash[kind], key, klen, x->ipad, x->opad);
                break;
        case XV_DES:
                IMB_DES_KEYSCHED(m, x->des[0], key);
                break;
        case XV_DES3:
                for (int i = 0; i < 3; i++) {
                        IMB_DES_KEYSCHED(m, x->des[i], key + 8 * i);
                        x->des3[i] = x->des[i];
                }
                break;
        case XV_SM4:
                IMB_SM4_KEYEXP(m, key, x->sm4e, x->sm4d);
                break;
        case XV_KASUMI_F8:
                IMB_KASUMI_INIT_F8_KEY_SCHED(m, key, &x->kas);
                break;
        case XV_KASUMI_F9:
                IMB_KASUMI_INIT_F9_KEY_SCHED(m, key, &x->kas);
                break;
        case XV_SNOW3G:
                IMB_SNOW3G_INIT_KEY_SCHED(m, key, (snow3g_key_schedule_t *) (void *) x->snow);
                break;
        case XV_GCM128:
                IMB_AES128_GCM_PRE(m, key, &x->gcm);
                break;
        case XV_GCM256:
                IMB_AES256_GCM_PRE(m, key, &x->gcm);
                break;
        case XV_GHASH:
                IMB_GHASH_PRE(m, key, &x->gcm);
                break;
        default:
                break;
        }
}

/* run one job on m with the prepared material; out = dst (msglen bytes) followed by tag (taglen) */
static int
xv_consume(IMB_MGR *m, int kind, int dirn, const xvkeys *x, const uint8_t *msg, size_t msglen,
           const uint8_t *iv, uint8_t *out, size_t *outlen)
{
        IMB_JOB *job;
        uint8_t dst[512], tag[64];
        static const uint8_t aad[12] = { 1, 2, 3, 4, 5, 6, 7, 8, 9, 10, 11, 12 };
        size_t taglen = 0, dlen = msglen;

        while (IMB_FLUSH_JOB(m) != NULL)
                ;
        memset(dst, 0, sizeof(dst));
        memset(tag, 0, sizeof(tag));
        job = IMB_GET_NEXT_JOB(m);
        memset(job, 0, sizeof(*job));
        job->src = msg;
        job->dst = dst;
        job->cipher_direction = dirn ? IMB_DIR_DECRYPT : IMB_DIR_ENCRYPT;
        job->chain_order = dirn ? IMB_ORDER_HASH_CIPHER : IMB_ORDER_CIPHER_HASH;
        job->cipher_mode = IMB_CIPHER_NULL;
        job->hash_alg = IMB_AUTH_NULL;
        job->msg_len_to_cipher_in_bytes = msglen;
        job->msg_len_to_hash_in_bytes = msglen;
        job->iv = iv;
        job->auth_tag_output = tag;
        switch (kind) {
        case XV_AES128:
        case XV_AES192:
        case XV_AES256:
                job->cipher_mode = IMB_CIPHER_CBC;
                job->enc_keys = x->enc;
                job->dec_keys = x->dec;
                job->key_len_in_bytes = kind == XV_AES128 ? 16 : kind == XV_AES192 ? 24 : 32;
                job->iv_len_in_bytes = 16;
                break;
        case XV_CMAC128:
        case XV_CMAC256:
                job->hash_alg = kind == XV_CMAC128 ? IMB_AUTH_AES_CMAC : IMB_AUTH_AES_CMAC_256;
                job->u.CMAC._key_expanded = x->enc;
                job->u.CMAC._skey1 = x->k2;
                job->u.CMAC._skey2 = x->k3;
                taglen = 16;
                dlen = 0;
                break;
        case XV_XCBC:
                job->hash_alg = IMB_AUTH_AES_XCBC;
                job->u.XCBC._k1_expanded = (const uint32_t *) (const void *) x->enc;
                job->u.XCBC._k2 = x->k2;
                job->u.XCBC._k3 = x->k3;
                taglen = 12;
                dlen = 0;
                break;
        case XV_HMAC1:
        case XV_HMAC224:
        case XV_HMAC256:
        case XV_HMAC384:
        case XV_HMAC512:
        case XV_HMACMD5:
        case XV_HMACSM3:
                job->hash_alg = (IMB_HASH_ALG) xv_hash[kind];
                job->u.HMAC._hashed_auth_key_xor_ipad = x->ipad;
                job->u.HMAC._hashed_auth_key_xor_opad = x->opad;
                taglen = kind == XV_HMAC1     ? 20
                         : kind == XV_HMAC224 ? 28
                         : kind == XV_HMAC256 ? 32
                         : kind == XV_HMAC384 ? 48
                         : kind == XV_HMAC512 ? 64
                         : kind == XV_HMACMD5 ? 16
                                              : 32;
                dlen = 0;
                break;
        case XV_DES:
                job->cipher_mode = IMB_CIPHER_DES;
                job->enc_keys = job->dec_keys = x->des[0];
                job->key_len_in_bytes = 8;
                job->iv_len_in_bytes = 8;
                break;
        case XV_DES3:
                job->cipher_mode = IMB_CIPHER_DES3;
                job->enc_keys = job->dec_keys = x->des3;
                job->key_len_in_bytes = 24;
                job->iv_len_in_bytes = 8;
                break;
        case XV_SM4:
                job->cipher_mode = IMB_CIPHER_SM4_CBC;
                job->enc_keys = x->sm4e;
                job->dec_keys = x->sm4d;
                job->key_len_in_bytes = 16;
                job->iv_len_in_bytes = 16;
                break;
        case XV_KASUMI_F8:
                job->cipher_mode = IMB_CIPHER_KASUMI_UEA1_BITLEN;
                job->enc_keys = job->dec_keys = &x->kas;
                job->key_len_in_bytes = 16;
                job->iv_len_in_bytes = 8;
                job->msg_len_to_cipher_in_bits = msglen * 8;
                break;
        case XV_KASUMI_F9:
                job->hash_alg = IMB_AUTH_KASUMI_UIA1;
                job->u.KASUMI_UIA1._key = &x->kas;
                taglen = 4;
                dlen = 0;
                break;
        case XV_SNOW3G:
                job->cipher_mode = IMB_CIPHER_SNOW3G_UEA2_BITLEN;
                job->enc_keys = job->dec_keys = x->snow;
                job->key_len_in_bytes = 16;
                job->iv_len_in_bytes = 16;
                job->msg_len_to_cipher_in_bits = msglen * 8;
                break;
        case XV_GCM128:
        case XV_GCM256:
                job->cipher_mode = IMB_CIPHER_GCM;
                job->hash_alg = IMB_AUTH_AES_GMAC;
                job->enc_keys = job->dec_keys = &x->gcm;
                job->key_len_in_bytes = kind == XV_GCM128 ? 16 : 32;
                job->iv_len_in_bytes = 12;
                job->u.GCM.aad = aad;
                job->u.GCM.aad_len_in_bytes = sizeof(aad);
                taglen = 16;
                break;
        case XV_GHASH:
                job->hash_alg = IMB_AUTH_GHASH;
                job->u.GHASH._key = &x->gcm;
                job->u.GHASH._init_tag = iv;
                taglen = 16;
                dlen = 0;
                break;
        default:
                break;
        }
        job->auth_tag_output_len_in_bytes = taglen;
        job = IMB_SUBMIT_JOB(m);
        if (job == NULL)
                job = IMB_FLUSH_JOB(m);
        if (job == NULL || job->status != IMB_STATUS_COMPLETED) {
                *outlen = 0;
                return job == NULL ? -1 : (int) job->status;
        }
        memcpy(out, dst, dlen);
        memcpy(out + dlen, tag, taglen);
        *outlen = dlen + taglen;
        return IMB_STATUS_COMPLETED;
}

static int
run_xv(imbh_variant *v, int nv, uint64_t seed)
{
        int fails = 0, cases = 0;
        uint64_t st = seed * 0x9E3779B97F4A7C15ULL + 11;

        for (int kind = 0; kind < XV_NUM; kind++) {
                for (int c = 0; c < 3; c++) {
                        uint8_t key[200], msg[256], iv[16];
                        /* c = 2: a key longer than the hash block for the HMACs (MD5: 64) */
                        size_t klen = 16;
                        const size_t msglen = 16 * (1 + (size_t) (imbh_splitmix64(&st) % 9));

                        imbh_fill_random(&st, key, sizeof(key));
                        imbh_fill_random(&st, msg, sizeof(msg));
                        imbh_fill_random(&st, iv, sizeof(iv));
                        switch (kind) {
                        case XV_AES192:
                        case XV_DES3:
                                klen = 24;
                                break;
                        case XV_AES256:
                        case XV_CMAC256:
                        case XV_GCM256:
                                klen = 32;
                                break;
                        case XV_DES:
                                klen = 8;
                                break;
                        case XV_HMAC1:
                        case XV_HMAC224:
                        case XV_HMAC256:
                        case XV_HMAC384:
                        case XV_HMAC512:
                        case XV_HMACSM3:
                                klen = c == 0 ? 20 : c == 1 ? 64 : 150;
                                break;
                        case XV_HMACMD5:
                                klen = c == 0 ? 16 : c == 1 ? 33 : 64;
                                break;
                        default:
                                break;
                        }
                        for (int dirn = 0; dirn < 2; dirn++)
                                for (int a = 0; a < nv; a++)
                                        for (int b = 0; b < nv; b++) {
                                                static xvkeys xa __attribute__((aligned(64)));
                                                static xvkeys xb __attribute__((aligned(64)));
                                                uint8_t oa[600], ob[600];
                                                size_t la = 0, lb = 0;

                                                xv_prepare(v[a].mgr, kind, key, klen, &xa);
                                                xv_prepare(v[b].mgr, kind, key, klen, &xb);
                                                const int sa = xv_consume(v[b].mgr, kind, dirn, &xa, msg,
                                                                          msglen, iv, oa, &la);
                                                const int sb = xv_consume(v[b].mgr, kind, dirn, &xb, msg,
                                                                          msglen, iv, ob, &lb);
                                                const int same = sa == sb && la == lb &&
                                                                 memcmp(oa, ob, la) == 0;

                                                cases++;
                                                printf("xv op=%s v1=%s v2=%s case=%d dir=%d klen=%zu "
                                                       "len=%zu %s",
                                                       xv_names[kind], v[a].name, v[b].name, c, dirn, klen,
                                                       msglen, same ? "same" : "DIFF");
                                                if (!same) {
                                                        fails++;
                                                        printf(" st=%d/%d", sa, sb);
                                                        hexout("got", oa, la > 48 ? 48 : la);
                                                        hexout("want", ob, lb > 48 ? 48 : lb);
                                                        hexout("key", key, klen);
                                                }
                                                printf("\n");
                                        }
                }
        }
        printf("XV SUMMARY cases=%d diffs=%d\n", cases, fails);
        return 0;
}

/*
 * Same naming and de-duplication as imbh_enum_variants(), but a manager whose init ended with
 * IMB_ERR_SELFTEST is kept (a broken helper usually trips the power-on self test, and the failing
 * key still has to be located); "selftest var=<v> errno=<e>" is printed for every variant.
 */
static int
enum_variants_tolerant(imbh_variant v[IMBH_MAX_VARIANTS], const int report)
{
        static const char *const init_names[3] = { "sse", "avx2", "avx512" };
        const size_t fb = offsetof(IMB_MGR, get_next_job), fe = offsetof(IMB_MGR, earliest_job);
        int n = 0;

        for (int init = 0; init < 3; init++)
                for (uint64_t flags = 0; flags < IMBH_NUM_FLAGS; flags++) {
                        IMB_MGR *mgr = alloc_mb_mgr(flags);
                        const uint64_t need = init == 0   ? IMB_CPUFLAGS_SSE
                                              : init == 1 ? IMB_CPUFLAGS_AVX2
                                                          : IMB_CPUFLAGS_AVX512;

                        if (mgr == NULL)
                                continue;
                        if ((mgr->features & need) != need) {
                                free_mb_mgr(mgr);
                                continue;
                        }
                        if (init == 0)
                                init_mb_mgr_sse(mgr);
                        else if (init == 1)
                                init_mb_mgr_avx2(mgr);
                        else
                                init_mb_mgr_avx512(mgr);
                        const int e = imb_get_errno(mgr);

                        if (e != 0 && e != IMB_ERR_SELFTEST) {
                                free_mb_mgr(mgr);
                                continue;
                        }
                        int dup = 0;

                        for (int i = 0; i < n; i++)
                                if (v[i].used_arch == mgr->used_arch &&
                                    v[i].arch_type == mgr->used_arch_type &&
                                    memcmp((const uint8_t *) v[i].mgr + fb, (const uint8_t *) mgr + fb,
                                           fe - fb) == 0)
                                        dup = 1;
                        if (dup || n >= IMBH_MAX_VARIANTS) {
                                free_mb_mgr(mgr);
                                continue;
                        }
                        memset(&v[n], 0, sizeof(v[n]));
                        snprintf(v[n].name, sizeof(v[n].name), "%s:f%llu", init_names[init],
                                 (unsigned long long) flags);
                        v[n].init = init;
                        v[n].flags = flags;
                        v[n].used_arch = mgr->used_arch;
                        v[n].arch_type = mgr->used_arch_type;
                        v[n].features = mgr->features;
                        v[n].mgr = mgr;
                        if (report)
                                printf("selftest var=%s errno=%d\n", v[n].name, e);
                        n++;
                }
        return n;
}

int
main(int argc, char **argv)
{
        imbh_variant v[IMBH_MAX_VARIANTS];
        const char *casefile = NULL, *vsel = "all";
        int xv = 0;
        uint64_t seed = 1;

        for (int i = 1; i < argc; i++) {
                if (strcmp(argv[i], "--variants") == 0 && i + 1 < argc)
                        vsel = argv[++i];
                else if (strcmp(argv[i], "--xv") == 0 && i + 1 < argc) {
                        xv = 1;
                        seed = strtoull(argv[++i], NULL, 0);
                } else
                        casefile = argv[i];
        }
        /* managers that fail their power-on self test are kept (and reported): a broken helper
         * usually trips the self test, and the failing key still has to be located */
        int nv = enum_variants_tolerant(v, !xv);

        if (strcmp(vsel, "all") != 0) {
                int k = 0;

                for (int i = 0; i < nv; i++) {
                        char pat[2100];

                        snprintf(pat, sizeof(pat), ",%s,", v[i].name);
                        char hay[2100];

                        snprintf(hay, sizeof(hay), ",%s,", vsel);
                        if (strstr(hay, pat) != NULL)
                                v[k++] = v[i];
                }
                nv = k;
        }
        if (xv)
                return run_xv(v, nv, seed);
        if (casefile == NULL) {
                fprintf(stderr, "usage: k11_keyprep <casefile> [--variants ..] | --xv <seed>\n");
                return 2;
        }
        for (int i = 0; i < nv; i++)
                printf("variant=%s used_arch=%u type=t%u\n", v[i].name, v[i].used_arch, v[i].arch_type);
        fflush(stdout);

        /* every variant in its own child: a crash inside a helper is reported, not fatal */
        for (int vi = -1; vi < nv; vi++) {
                fflush(stdout);
                const pid_t pid = fork();

                if (pid == 0) {
                        FILE *f = fopen(casefile, "r");
                        static char line[1 << 17];

                        if (f == NULL)
                                _exit(3);
                        alarm(300);
                        while (fgets(line, sizeof(line), f) != NULL) {
                                if (line[0] == '#' || line[0] == '\n')
                                        continue;
                                run_case(vi < 0 ? NULL : v[vi].mgr, vi < 0 ? "any" : v[vi].name, line);
                        }
                        fclose(f);
                        fflush(stdout);
                        _exit(0);
                }
                int status = 0;

                waitpid(pid, &status, 0);
                if (WIFSIGNALED(status))
                        printf("CRASH var=%s sig=%d\n", vi < 0 ? "any" : v[vi].name, WTERMSIG(status));
        }
        return 0;
}
