/*
 * K6: several managers in one process — interleaved in one thread, or one thread per manager
 * (property C17).
 *
 *   k6_threads --items <file> --script <file> --mode interleave            ops in file order, one thread
 *   k6_threads --items <file> --script <file> --mode solo --only <m>       only manager m exists and runs
 *   k6_threads --items <file> --script <file> --mode threads --seed <n>    one thread per manager, randomised schedule
 *   ... --mode interleave|threads --reloc    every manager is used through a relocated copy of its idle block
 *   k6_threads --sessrace <threads> <calls per thread>                      concurrent imb_set_session on private managers
 *   k6_threads --initrace <threads> <seconds>                              concurrent creation of private managers
 *   k6_threads --witness [--iters N]                                       imb_get_errno() fall-back probes
 *
 * items : work items in K1 format (K1_FORMAT.md), referenced by 0-based line index.
 * script: M <m> <sse|avx2|avx512> <flags>          manager m (0-based, consecutive)
 *         O <m> J <item>                           GET_NEXT_JOB, fill, SUBMIT_JOB (+ GET_COMPLETED_JOB until NULL)
 *         O <m> N <item>                           same with SUBMIT_JOB_NOCHECK
 *         O <m> B <item,item,...>                  GET_NEXT_BURST, fill + imb_set_session, SUBMIT_BURST
 *         O <m> F | C | Q | FB <max>               FLUSH_JOB | GET_COMPLETED_JOB | QUEUE_SIZE | FLUSH_BURST
 *         O <m> D <k>                              direct / miscellaneous API call number k (table below)
 *         O <m> S <item>                           imb_set_session on a template descriptor
 *         O <m> I                                  init_mb_mgr_<arch>(m) again
 *
 * Transcript, one line per call, per manager (printed grouped by manager at the end):
 *   P <m> <seq> <op> ret=<text> field=<mgr->imb_errno> get=<imb_get_errno(mgr) right after the call> outs=<id:status:digest,...>
 * digest = FNV-1a over the job's destination area and tag buffer.  Session ids are not printed.
 * Globals: G tag=<before|after> hex=<bytes of the library's writable non-RELRO memory>  (for the
 * "only modelled globals change" check done by checks/c17.py with Gen/globals.json).
 */
#define _GNU_SOURCE
#include <stdio.h>
#include <stdlib.h>
#include <string.h>
#include <stdint.h>
#include <stdarg.h>
#include <pthread.h>
#include <time.h>
#include <unistd.h>
#include <sched.h>
#include <link.h>
#include <unistd.h>
#include <execinfo.h>
#include <signal.h>

#include "imbh.h"

#define MAX_MGRS  16
#define MAX_ITEMS 8192
#define MAX_OPS   200000

struct op {
        int m;
        char kind[3];
        int nidx;
        int idx[IMB_MAX_BURST_SIZE];
        long arg;
};

struct mgrctx {
        IMB_MGR *mgr;
        int arch; /* 0 sse 1 avx2 2 avx512 */
        uint64_t flags;
        imbh_str tr;
        long seq;
        uint64_t rng;
        /* key material for the direct calls */
        DECLARE_ALIGNED(uint32_t ek[60], 16);
        DECLARE_ALIGNED(uint32_t dk[60], 16);
        DECLARE_ALIGNED(uint8_t buf[256], 64);
        DECLARE_ALIGNED(uint8_t out[256], 64);
        DECLARE_ALIGNED(uint8_t tag[64], 64);
        struct gcm_key_data gk;
        imbh_run **live;
        long nlive, caplive;
};

static imbh_item *items;
static int nitems;
static struct op *ops;
static long nops;
static struct mgrctx M[MAX_MGRS];
static int nmgr;

/* ------------------------------------------------------------------------- */
static uint64_t
fnv(uint64_t h, const uint8_t *p, size_t n)
{
        for (size_t i = 0; i < n; i++)
                h = (h ^ p[i]) * UINT64_C(0x100000001b3);
        return h;
}

/* imbh_str_add() formats through a 256-byte buffer: long transcripts are appended raw */
static void
raw_append(imbh_str *b, const char *p, const size_t n)
{
        if (b->len + n + 1 > b->cap) {
                size_t cap = b->cap ? b->cap : 256;

                while (cap < b->len + n + 1)
                        cap *= 2;
                b->s = realloc(b->s, cap);
                if (b->s == NULL)
                        exit(2);
                b->cap = cap;
        }
        memcpy(b->s + b->len, p, n);
        b->len += n;
        b->s[b->len] = 0;
}

static void
init_mgr(struct mgrctx *c)
{
        if (c->arch == 0)
                init_mb_mgr_sse(c->mgr);
        else if (c->arch == 1)
                init_mb_mgr_avx2(c->mgr);
        else
                init_mb_mgr_avx512(c->mgr);
}

static void
keep(struct mgrctx *c, imbh_run *r)
{
        if (c->nlive == c->caplive) {
                c->caplive = c->caplive ? c->caplive * 2 : 256;
                c->live = realloc(c->live, (size_t) c->caplive * sizeof(c->live[0]));
        }
        c->live[c->nlive++] = r;
}

static void
out_job(imbh_str *tr, const IMB_JOB *job, int *first)
{
        imbh_run *r = job->user_data;
        size_t len;

        if (r == NULL) {
                /* a job the caller never filled came back */
                imbh_str_add(tr, "%sUNKNOWN-JOB(status=%d,cipher=%d,hash=%d,src=%p)", *first ? "" : ",", (int) job->status,
                             (int) job->cipher_mode, (int) job->hash_alg, (const void *) job->src);
                *first = 0;
                return;
        }
        const uint8_t *p = imbh_out_area(r, &len);
        uint64_t h = UINT64_C(0xcbf29ce484222325);

        h = fnv(h, p, len);
        h = fnv(h, r->tag, r->tag_room);
        imbh_str_add(tr, "%s%ld:%d:%016llx", *first ? "" : ",", r->it->id, (int) job->status, (unsigned long long) h);
        *first = 0;
}

static void
trailer(struct mgrctx *c, const int get, const int field)
{
        (void) c;
        (void) get;
        (void) field;
}

#define NDIRECT 12
/* returns a small integer describing the call's own return (0 when void) */
static long
direct_call(struct mgrctx *c, const long k)
{
        IMB_MGR *mgr = c->mgr;
        static const uint8_t key[32] = { 9, 8, 7, 6, 5, 4, 3, 2, 1, 2, 3, 4, 5, 6, 7, 8, 9 };
        uint8_t ipad[128], opad[128];
        IMB_JOB *arr[4];

        switch (k % NDIRECT) {
        case 0:
                IMB_AES_KEYEXP_128(mgr, key, c->ek, c->dk);
                return 0;
        case 1:
                IMB_AES_KEYEXP_128(mgr, NULL, c->ek, c->dk); /* fails: IMB_ERR_NULL_KEY (mirror only) */
                return 0;
        case 2:
                IMB_AES128_GCM_PRE(mgr, key, &c->gk);
                return 0;
        case 3:
                IMB_SHA256(mgr, c->buf, 100, c->tag);
                return (long) c->tag[0];
        case 4:
                IMB_SHA1_ONE_BLOCK(mgr, NULL, c->tag); /* fails: IMB_ERR_NULL_SRC */
                return 0;
        case 5:
                return (long) IMB_GET_NEXT_BURST(mgr, IMB_MAX_BURST_SIZE + 1, arr); /* fails: BURST_SIZE (field + mirror) */
        case 6:
                (void) mgr->queue_size(NULL); /* NULL manager through the handler: IMB_ERR_NULL_MBMGR, mirror only */
                return 0;
        case 7: {
                /* per-manager key material: a shared scratch buffer inside the library would show */
                uint8_t k2[80];
                uint64_t h = UINT64_C(0xcbf29ce484222325);

                for (unsigned i = 0; i < sizeof(k2); i++)
                        k2[i] = (uint8_t) (i * 3 + 17 * (unsigned) (c - M) + (unsigned) c->seq);
                imb_hmac_ipad_opad(mgr, IMB_AUTH_HMAC_SHA_256, k2, 20 + (size_t) (c->seq % 60), ipad, opad);
                h = fnv(h, ipad, 32);
                h = fnv(h, opad, 32);
                return (long) (h & 0x7fffffff);
        }
        case 8:
                imb_hmac_ipad_opad(mgr, IMB_AUTH_AES_CMAC, key, 20, ipad, opad); /* fails: HASH_ALGO (mirror only) */
                return 0;
        case 9:
                return (long) IMB_CRC32_ETHERNET_FCS(mgr, c->buf, 64);
        case 10:
                (void) IMB_FLUSH_BURST(mgr, 1, NULL); /* fails: NULL_BURST */
                return 0;
        default:
                IMB_GHASH_PRE(mgr, key, &c->gk);
                return 0;
        }
}

static void
run_op(struct mgrctx *c, const struct op *o)
{
        IMB_MGR *mgr = c->mgr;
        IMB_JOB *job;
        int first = 1;
        char ret[64] = "-";
        imbh_str *t = &c->tr;
        const size_t mark = t->len;
        imbh_str outs = { 0 };
        int get = 0, field = 0;

#define SAMPLE()                                                                                                    \
        do {                                                                                                        \
                field = mgr->imb_errno;                                                                             \
                get = imb_get_errno(mgr);                                                                           \
        } while (0)

        if (!strcmp(o->kind, "J") || !strcmp(o->kind, "N")) {
                imbh_run *r = imbh_run_new(mgr, &items[o->idx[0]]);

                keep(c, r);
                if (r->prep_err) {
                        snprintf(ret, sizeof(ret), "prep%d", r->prep_err);
                        SAMPLE();
                } else {
                        job = IMB_GET_NEXT_JOB(mgr);
                        imbh_fill_job(job, r);
                        job = o->kind[0] == 'J' ? IMB_SUBMIT_JOB(mgr) : IMB_SUBMIT_JOB_NOCHECK(mgr);
                        SAMPLE();
                        snprintf(ret, sizeof(ret), "%s", job ? "job" : "null");
                        while (job != NULL) {
                                out_job(&outs, job, &first);
                                job = IMB_GET_COMPLETED_JOB(mgr);
                        }
                }
        } else if (!strcmp(o->kind, "B")) {
                IMB_JOB *jobs[IMB_MAX_BURST_SIZE];
                const uint32_t n = (uint32_t) o->nidx;
                const uint32_t got = IMB_GET_NEXT_BURST(mgr, n, jobs);

                if (got != n) {
                        SAMPLE();
                        snprintf(ret, sizeof(ret), "short%u", got);
                } else {
                        int bad = 0;

                        for (uint32_t i = 0; i < n; i++) {
                                imbh_run *r = imbh_run_new(mgr, &items[o->idx[i]]);

                                keep(c, r);
                                if (r->prep_err)
                                        bad = 1;
                                imbh_fill_job(jobs[i], r);
                                (void) imb_set_session(mgr, jobs[i]);
                        }
                        if (bad) {
                                /* unusable item in the burst: nothing was handed to the library */
                                (void) IMB_QUEUE_SIZE(mgr);
                                SAMPLE();
                                snprintf(ret, sizeof(ret), "prep");
                        } else {
                                const uint32_t done = IMB_SUBMIT_BURST(mgr, n, jobs);

                                SAMPLE();
                                snprintf(ret, sizeof(ret), "%u", done);
                                if (done == 0 && field != 0) {
                                        imbh_run *r = jobs[0]->user_data;

                                        imbh_str_add(&outs, "rej%ld:%d", r->it->id, (int) jobs[0]->status);
                                } else
                                        for (uint32_t i = 0; i < done; i++)
                                                out_job(&outs, jobs[i], &first);
                        }
                }
        } else if (!strcmp(o->kind, "F")) {
                job = IMB_FLUSH_JOB(mgr);
                SAMPLE();
                snprintf(ret, sizeof(ret), "%s", job ? "job" : "null");
                if (job)
                        out_job(&outs, job, &first);
        } else if (!strcmp(o->kind, "C")) {
                job = IMB_GET_COMPLETED_JOB(mgr);
                SAMPLE();
                snprintf(ret, sizeof(ret), "%s", job ? "job" : "null");
                if (job)
                        out_job(&outs, job, &first);
        } else if (!strcmp(o->kind, "Q")) {
                const uint32_t q = IMB_QUEUE_SIZE(mgr);

                SAMPLE();
                snprintf(ret, sizeof(ret), "%u", q);
        } else if (!strcmp(o->kind, "FB")) {
                IMB_JOB *jobs[IMB_MAX_JOBS];
                const uint32_t done = IMB_FLUSH_BURST(mgr, (uint32_t) o->arg, jobs);

                SAMPLE();
                snprintf(ret, sizeof(ret), "%u", done);
                for (uint32_t i = 0; i < done; i++)
                        out_job(&outs, jobs[i], &first);
        } else if (!strcmp(o->kind, "D")) {
                const long r = direct_call(c, o->arg);

                SAMPLE();
                snprintf(ret, sizeof(ret), "%ld", r);
        } else if (!strcmp(o->kind, "S")) {
                imbh_run *r = imbh_run_new(mgr, &items[o->idx[0]]);
                IMB_JOB tj;

                keep(c, r);
                imbh_fill_job(&tj, r);
                const uint32_t id = imb_set_session(mgr, &tj);

                SAMPLE();
                snprintf(ret, sizeof(ret), "%s:%u:%u", id ? "id" : "0", tj.suite_id[0] != 0, tj.suite_id[1] != 0);
        } else if (!strcmp(o->kind, "I")) {
                init_mgr(c);
                SAMPLE();
                snprintf(ret, sizeof(ret), "feat%llx", (unsigned long long) mgr->features);
        } else {
                fprintf(stderr, "k6: bad op %s\n", o->kind);
                exit(2);
        }
        (void) mark;
        imbh_str_add(t, "P %d %ld %s ret=%s field=%d get=%d outs=", (int) (c - M), c->seq++, o->kind, ret, field, get);
        raw_append(t, outs.len ? outs.s : "-", outs.len ? outs.len : 1);
        raw_append(t, "\n", 1);
        free(outs.s);
        trailer(c, get, field);
}

/* ------------------------------------------------------------------------- */
/* the library's writable, non-RELRO memory                                    */
static uint8_t *g_rw;
static size_t g_rw_len;

static int
phdr_cb(struct dl_phdr_info *info, size_t size, void *data)
{
        (void) size;
        (void) data;
        if (info->dlpi_name == NULL || strstr(info->dlpi_name, "libIPSec_MB") == NULL)
                return 0;
        ElfW(Addr) relro_end = 0;
        for (int i = 0; i < info->dlpi_phnum; i++)
                if (info->dlpi_phdr[i].p_type == PT_GNU_RELRO)
                        relro_end = info->dlpi_phdr[i].p_vaddr + info->dlpi_phdr[i].p_memsz;
        for (int i = 0; i < info->dlpi_phnum; i++) {
                const ElfW(Phdr) *p = &info->dlpi_phdr[i];

                if (p->p_type == PT_LOAD && (p->p_flags & PF_W)) {
                        ElfW(Addr) lo = p->p_vaddr, hi = p->p_vaddr + p->p_memsz;

                        if (relro_end > lo && relro_end <= hi)
                                lo = relro_end;
                        g_rw = (uint8_t *) (info->dlpi_addr + lo);
                        g_rw_len = hi - lo;
                        printf("G tag=map vaddr=0x%lx len=%zu addr=0x%lx\n", (unsigned long) lo, g_rw_len, (unsigned long) (uintptr_t) g_rw);
                }
        }
        return 0;
}

static void
dump_globals(const char *tag)
{
        if (g_rw == NULL)
                return;
        printf("G tag=%s hex=", tag);
        for (size_t i = 0; i < g_rw_len; i++)
                printf("%02x", g_rw[i]);
        printf("\n");
}

/* ------------------------------------------------------------------------- */
static int
load_items(const char *path)
{
        FILE *f = fopen(path, "r");
        static char line[1 << 20];

        if (!f) {
                perror(path);
                return -1;
        }
        items = calloc(MAX_ITEMS, sizeof(*items));
        while (fgets(line, sizeof(line), f) && nitems < MAX_ITEMS) {
                if (line[0] == '#' || line[0] == '\n')
                        continue;
                imbh_item_parse(line, &items[nitems]);
                nitems++;
        }
        fclose(f);
        return 0;
}

static int
load_script(const char *path, const int only)
{
        FILE *f = fopen(path, "r");
        static char line[1 << 16];

        if (!f) {
                perror(path);
                return -1;
        }
        ops = calloc(MAX_OPS, sizeof(*ops));
        while (fgets(line, sizeof(line), f)) {
                char *tok = strtok(line, " \n");

                if (!tok || tok[0] == '#')
                        continue;
                if (!strcmp(tok, "M")) {
                        const int m = atoi(strtok(NULL, " \n"));
                        const char *a = strtok(NULL, " \n");
                        const uint64_t fl = strtoull(strtok(NULL, " \n"), NULL, 0);

                        if (m != nmgr || m >= MAX_MGRS) {
                                fprintf(stderr, "k6: managers must be numbered consecutively\n");
                                return -1;
                        }
                        M[m].arch = !strcmp(a, "sse") ? 0 : !strcmp(a, "avx2") ? 1 : 2;
                        M[m].flags = fl;
                        nmgr++;
                } else if (!strcmp(tok, "O") && nops < MAX_OPS) {
                        struct op *o = &ops[nops];

                        memset(o, 0, sizeof(*o));
                        o->m = atoi(strtok(NULL, " \n"));
                        snprintf(o->kind, sizeof(o->kind), "%s", strtok(NULL, " \n"));
                        char *a = strtok(NULL, " \n");

                        if (!strcmp(o->kind, "B") && a) {
                                for (char *p = strtok(a, ","); p && o->nidx < IMB_MAX_BURST_SIZE; p = strtok(NULL, ","))
                                        o->idx[o->nidx++] = atoi(p);
                        } else if (a) {
                                o->arg = atol(a);
                                o->idx[0] = (int) o->arg;
                                o->nidx = 1;
                        }
                        for (int i = 0; i < o->nidx; i++)
                                if ((!strcmp(o->kind, "J") || !strcmp(o->kind, "N") || !strcmp(o->kind, "B") || !strcmp(o->kind, "S")) &&
                                    (o->idx[i] < 0 || o->idx[i] >= nitems)) {
                                        fprintf(stderr, "k6: item index %d out of range\n", o->idx[i]);
                                        return -1;
                                }
                        if (only < 0 || o->m == only)
                                nops++;
                }
        }
        fclose(f);
        return 0;
}

static int g_reloc;

static void
create_mgr(struct mgrctx *c, const int idx)
{
        c->mgr = alloc_mb_mgr(c->flags);
        if (c->mgr == NULL) {
                fprintf(stderr, "k6: alloc_mb_mgr failed\n");
                exit(2);
        }
        init_mgr(c);
        if (imb_get_errno(c->mgr) != 0) {
                fprintf(stderr, "k6: init of manager %d failed: %d\n", idx, imb_get_errno(c->mgr));
                exit(2);
        }
        if (g_reloc) {
                /* --reloc: the manager that is used is a relocated copy of the idle, initialised one: the whole block is
                 * copied to fresh memory and fixed up with imb_set_pointers_mb_mgr(copy, flags, 0) (the documented way
                 * of attaching to a manager block without resetting it); the original block stays allocated but is
                 * overwritten with a pattern, so a copy that still reaches into it (a pointer that was not re-derived:
                 * state shared between two manager blocks) computes with garbage instead of silently agreeing */
                const size_t sz = imb_get_mb_mgr_size();
                void *blk = NULL;

                if (posix_memalign(&blk, 64, sz) != 0) {
                        fprintf(stderr, "k6: posix_memalign failed\n");
                        exit(2);
                }
                memcpy(blk, c->mgr, sz);
                IMB_MGR *old = c->mgr;
                IMB_MGR *nw = imb_set_pointers_mb_mgr(blk, c->flags, 0);

                if (nw == NULL) {
                        fprintf(stderr, "k6: imb_set_pointers_mb_mgr(copy) failed\n");
                        exit(2);
                }
                memset(old, 0xA5, sz);
                c->mgr = nw;
        }
        c->rng = 0x1234 + (uint64_t) idx * 977;
        for (unsigned i = 0; i < sizeof(c->buf); i++)
                c->buf[i] = (uint8_t) (i * 7 + 1);
}

/* ---- threads ---- */
static pthread_barrier_t bar;
static long bar_every, bar_rounds;
static uint64_t g_seed;

static void *
thread_main(void *arg)
{
        struct mgrctx *c = arg;
        const int m = (int) (c - M);
        uint64_t st = g_seed * 0x9E3779B97F4A7C15ULL + (uint64_t) m * 0xD1B54A32D192ED03ULL + 1;
        long mine = 0, rounds = 0;

        pthread_barrier_wait(&bar);
        for (long i = 0; i < nops; i++) {
                if (ops[i].m != m)
                        continue;
                /* randomised schedule: all threads line up every bar_every own calls (as long as every
                 * thread still has that many), in between a random yield or a random spin */
                if (bar_every > 0 && mine > 0 && (mine % bar_every) == 0 && rounds < bar_rounds) {
                        pthread_barrier_wait(&bar);
                        rounds++;
                }
                const uint64_t r = imbh_splitmix64(&st);

                if ((r & 7) == 0)
                        sched_yield();
                else if ((r & 7) < 3) {
                        volatile unsigned spin = (unsigned) ((r >> 8) & 0x3ff);

                        while (spin--)
                                ;
                }
                run_op(c, &ops[i]);
                mine++;
        }
        while (rounds < bar_rounds) {
                pthread_barrier_wait(&bar);
                rounds++;
        }
        return NULL;
}

/* ---- concurrent creation / initialisation of private managers ---- */
/* Every thread allocates, initialises, uses and frees ITS OWN managers in a loop; what a manager looks like right
 * after alloc_mb_mgr()/init_mb_mgr_*() (feature word, architecture, type, error code) must not depend on what other
 * threads do at the same time.  The reference is the same loop body executed alone, before the threads start. */
struct ir_obs {
        uint64_t feat_alloc, feat_init;
        int err, arch, type;
};
static volatile int ir_stop;
static struct ir_obs ir_ref[3][4];
static volatile long ir_rounds, ir_bad;
static char ir_first[512];
static pthread_mutex_t ir_mu = PTHREAD_MUTEX_INITIALIZER;

static int
ir_one(const int init, const uint64_t flags, struct ir_obs *o)
{
        IMB_MGR *m = alloc_mb_mgr(flags);

        if (m == NULL)
                return -1;
        o->feat_alloc = m->features;
        if (init == 0)
                init_mb_mgr_sse(m);
        else if (init == 1)
                init_mb_mgr_avx2(m);
        else
                init_mb_mgr_avx512(m);
        o->feat_init = m->features;
        o->err = m->imb_errno;
        o->arch = (int) m->used_arch;
        o->type = (int) m->used_arch_type;
        free_mb_mgr(m);
        return 0;
}

static void *
ir_worker(void *arg)
{
        uint64_t st = (uint64_t) (uintptr_t) arg * 0x9e3779b97f4a7c15ULL + 1;

        while (!ir_stop) {
                st = st * 6364136223846793005ULL + 1442695040888963407ULL;
                const int init = (int) ((st >> 33) % 3);
                const uint64_t flags = (st >> 40) & 3;
                struct ir_obs o;

                if (ir_one(init, flags, &o) != 0)
                        continue;
                __sync_fetch_and_add(&ir_rounds, 1);
                const struct ir_obs *r = &ir_ref[init][flags];

                if (o.feat_alloc != r->feat_alloc || o.feat_init != r->feat_init || o.err != r->err || o.arch != r->arch ||
                    o.type != r->type) {
                        if (__sync_fetch_and_add(&ir_bad, 1) == 0) {
                                pthread_mutex_lock(&ir_mu);
                                snprintf(ir_first, sizeof(ir_first),
                                         "init=%d flags=%llu alone:features=%llx/%llx,errno=%d,arch=%d,type=%d "
                                         "concurrent:features=%llx/%llx,errno=%d,arch=%d,type=%d",
                                         init, (unsigned long long) flags, (unsigned long long) r->feat_alloc,
                                         (unsigned long long) r->feat_init, r->err, r->arch, r->type,
                                         (unsigned long long) o.feat_alloc, (unsigned long long) o.feat_init, o.err, o.arch,
                                         o.type);
                                pthread_mutex_unlock(&ir_mu);
                        }
                }
        }
        return NULL;
}

static int
initrace(const int nthreads, const double secs)
{
        pthread_t th[64];
        struct timespec t0, t;

        for (int i = 0; i < 3; i++)
                for (uint64_t f = 0; f < 4; f++)
                        if (ir_one(i, f, &ir_ref[i][f]) != 0)
                                return 2;
        /* the reference itself must be reproducible alone */
        for (int rep = 0; rep < 50; rep++)
                for (int i = 0; i < 3; i++)
                        for (uint64_t f = 0; f < 4; f++) {
                                struct ir_obs o;

                                ir_one(i, f, &o);
                                if (memcmp(&o, &ir_ref[i][f], sizeof(o)) != 0) {
                                        printf("IR unstable-alone init=%d flags=%llu\n", i, (unsigned long long) f);
                                        return 0;
                                }
                        }
        clock_gettime(CLOCK_MONOTONIC, &t0);
        for (int i = 0; i < nthreads && i < 64; i++)
                pthread_create(&th[i], NULL, ir_worker, (void *) (uintptr_t) (i + 1));
        for (;;) {
                usleep(20000);
                clock_gettime(CLOCK_MONOTONIC, &t);
                if ((t.tv_sec - t0.tv_sec) + (t.tv_nsec - t0.tv_nsec) * 1e-9 >= secs || ir_bad)
                        break;
        }
        ir_stop = 1;
        for (int i = 0; i < nthreads && i < 64; i++)
                pthread_join(th[i], NULL);
        printf("IR threads=%d rounds=%ld mismatches=%ld first=%s\n", nthreads, (long) ir_rounds, (long) ir_bad,
               ir_bad ? ir_first : "-");
        return 0;
}

/* ---- concurrent imb_set_session(): the process-wide session counter ---- */
/* Alone, N calls hand out N distinct session ids (the id is an injective function of an atomic counter).  With several
 * threads, each on its own manager, all ids handed out in the process must still be distinct. */
#define SR_MAXT 16
static uint32_t *sr_ids[SR_MAXT];
static long sr_n;
static pthread_barrier_t sr_bar;

static void *
sr_worker(void *arg)
{
        const int t = (int) (intptr_t) arg;
        IMB_MGR *m = alloc_mb_mgr(0);
        IMB_JOB tmpl;

        if (t % 3 == 0)
                init_mb_mgr_sse(m);
        else if (t % 3 == 1)
                init_mb_mgr_avx2(m);
        else
                init_mb_mgr_avx512(m);
        memset(&tmpl, 0, sizeof(tmpl));
        tmpl.cipher_mode = IMB_CIPHER_CBC;
        tmpl.cipher_direction = IMB_DIR_ENCRYPT;
        tmpl.key_len_in_bytes = 16;
        tmpl.hash_alg = IMB_AUTH_NULL;
        tmpl.chain_order = IMB_ORDER_CIPHER_HASH;
        pthread_barrier_wait(&sr_bar);
        for (long i = 0; i < sr_n; i++)
                sr_ids[t][i] = imb_set_session(m, &tmpl);
        free_mb_mgr(m);
        return NULL;
}

static int
cmp_u32(const void *a, const void *b)
{
        const uint32_t x = *(const uint32_t *) a, y = *(const uint32_t *) b;

        return x < y ? -1 : x > y;
}

static int
sessrace(const int nthreads, const long n)
{
        pthread_t th[SR_MAXT];
        const int T = nthreads > SR_MAXT ? SR_MAXT : nthreads;

        sr_n = n;
        /* alone first: one thread, T * n calls */
        uint32_t *all = malloc((size_t) T * (size_t) n * sizeof(uint32_t));

        if (!all)
                return 2;
        pthread_barrier_init(&sr_bar, NULL, 1);
        sr_ids[0] = all;
        sr_n = (long) T * n;
        sr_worker((void *) (intptr_t) 0);
        qsort(all, (size_t) sr_n, sizeof(uint32_t), cmp_u32);
        long dup_alone = 0;

        for (long i = 1; i < sr_n; i++)
                dup_alone += all[i] == all[i - 1];
        pthread_barrier_destroy(&sr_bar);
        /* concurrently */
        sr_n = n;
        pthread_barrier_init(&sr_bar, NULL, (unsigned) T);
        for (int t = 0; t < T; t++)
                sr_ids[t] = all + (size_t) t * (size_t) n;
        for (int t = 0; t < T; t++)
                pthread_create(&th[t], NULL, sr_worker, (void *) (intptr_t) t);
        for (int t = 0; t < T; t++)
                pthread_join(th[t], NULL);
        long dup_within = 0;

        for (int t = 0; t < T; t++) {
                qsort(sr_ids[t], (size_t) n, sizeof(uint32_t), cmp_u32);
                for (long i = 1; i < n; i++)
                        dup_within += sr_ids[t][i] == sr_ids[t][i - 1];
        }
        qsort(all, (size_t) T * (size_t) n, sizeof(uint32_t), cmp_u32);
        long dup_all = 0;

        for (long i = 1; i < (long) T * n; i++)
                dup_all += all[i] == all[i - 1];
        printf("SR threads=%d calls_per_thread=%ld dup_alone=%ld dup_within_manager=%ld dup_overall=%ld\n", T, n, dup_alone,
               dup_within, dup_all);
        free(all);
        return 0;
}

/* ---- witnesses for the imb_get_errno() fall-back ---- */
static volatile int w_stop;
static IMB_MGR *wA, *wB;

static void *
w_failer(void *arg)
{
        IMB_JOB *arr[4];
        long n = 0;

        (void) arg;
        while (!w_stop) {
                (void) IMB_GET_NEXT_BURST(wB, IMB_MAX_BURST_SIZE + 1, arr); /* fails on B, every time */
                n++;
        }
        return (void *) n;
}

static int
witness(const long iters)
{
        IMB_JOB *arr[4];

        wA = alloc_mb_mgr(0);
        wB = alloc_mb_mgr(0);
        init_mb_mgr_sse(wA);
        init_mb_mgr_avx2(wB);
        /* W1, one thread: A succeeds; B fails; imb_get_errno(A) */
        (void) IMB_QUEUE_SIZE(wA);
        const int a0 = imb_get_errno(wA);

        (void) IMB_GET_NEXT_BURST(wB, IMB_MAX_BURST_SIZE + 1, arr);
        const int codeB = imb_get_errno(wB);

        printf("W1 getA_after_own_call=%d fieldA=%d codeB=%d getA_after_B_failed=%d\n", a0, wA->imb_errno, codeB,
               imb_get_errno(wA));
        /* the same with A used alone */
        (void) IMB_QUEUE_SIZE(wB);
        (void) IMB_QUEUE_SIZE(wA);
        printf("W1solo getA=%d\n", imb_get_errno(wA));
        /* W2, two threads, each manager used by exactly one thread: T1 only ever succeeds on A and reads
         * imb_get_errno(A) right after its own call; T2 only ever fails on B */
        pthread_t t2;
        long nonzero = 0, first = 0;

        pthread_create(&t2, NULL, w_failer, NULL);
        for (long i = 0; i < iters; i++) {
                (void) IMB_QUEUE_SIZE(wA);
                const int e = imb_get_errno(wA);

                if (e != 0) {
                        if (!nonzero)
                                first = e;
                        nonzero++;
                }
        }
        w_stop = 1;
        void *fails;

        pthread_join(t2, &fails);
        printf("W2 iterations=%ld nonzero=%ld first_code=%ld fieldA=%d failing_calls_on_B=%ld\n", iters, nonzero, first,
               wA->imb_errno, (long) fails);
        /* W3: thread 1 (re)initialises its own manager A while thread 2 keeps failing on B.  The power-up self test
         * inside init asks imb_get_errno(A) after IMB_SUBMIT_JOB returned NULL (lib/x86_64/self_test.c process_job). */
        long inits = iters / 4000 < 50 ? 50 : iters / 4000, st_fail = 0, st_queue = 0, st_code = 0;

        w_stop = 0;
        pthread_create(&t2, NULL, w_failer, NULL);
        for (long i = 0; i < inits; i++) {
                init_mb_mgr_sse(wA);
                const int e = wA->imb_errno;
                const int pass = (wA->features & IMB_FEATURE_SELF_TEST_PASS) != 0;

                if (e != 0 || !pass) {
                        st_fail++;
                        st_code = e;
                        if (wA->earliest_job >= 0)
                                st_queue++; /* a self-test job is still queued: it would be handed to the application */
                }
        }
        w_stop = 1;
        pthread_join(t2, &fails);
        /* alone: the same number of initialisations without the other thread */
        long solo_fail = 0;

        for (long i = 0; i < 20; i++) {
                init_mb_mgr_sse(wA);
                if (wA->imb_errno != 0 || !(wA->features & IMB_FEATURE_SELF_TEST_PASS))
                        solo_fail++;
        }
        printf("W3 inits=%ld selftest_failed=%ld code=%ld left_job_queued=%ld solo_failed=%ld\n", inits, st_fail, st_code, st_queue,
               solo_fail);
        return 0;
}

static void
on_crash(int sig)
{
        void *bt[48];
        const int n = backtrace(bt, 48);

        fprintf(stderr, "k6: signal %d\n", sig);
        backtrace_symbols_fd(bt, n, 2);
        _exit(128 + sig);
}

int
main(int argc, char **argv)
{
        signal(SIGSEGV, on_crash);
        signal(SIGBUS, on_crash);
        signal(SIGILL, on_crash);
        const char *itemsf = NULL, *scriptf = NULL, *mode = "interleave";
        int only = -1;
        long iters = 2000000;
        int do_witness = 0;

        for (int i = 1; i < argc; i++) {
                if (!strcmp(argv[i], "--items") && i + 1 < argc)
                        itemsf = argv[++i];
                else if (!strcmp(argv[i], "--script") && i + 1 < argc)
                        scriptf = argv[++i];
                else if (!strcmp(argv[i], "--mode") && i + 1 < argc)
                        mode = argv[++i];
                else if (!strcmp(argv[i], "--only") && i + 1 < argc)
                        only = atoi(argv[++i]);
                else if (!strcmp(argv[i], "--seed") && i + 1 < argc)
                        g_seed = strtoull(argv[++i], NULL, 0);
                else if (!strcmp(argv[i], "--reloc"))
                        g_reloc = 1;
                else if (!strcmp(argv[i], "--witness"))
                        do_witness = 1;
                else if (!strcmp(argv[i], "--sessrace") && i + 2 < argc) {
                        const int nt = atoi(argv[++i]);
                        const long n = atol(argv[++i]);

                        setvbuf(stdout, NULL, _IOFBF, 1 << 16);
                        alarm(120);
                        return sessrace(nt, n);
                } else if (!strcmp(argv[i], "--initrace") && i + 2 < argc) {
                        const int nt = atoi(argv[++i]);
                        const double secs = atof(argv[++i]);

                        setvbuf(stdout, NULL, _IOFBF, 1 << 16);
                        alarm(120);
                        return initrace(nt, secs);
                }
                else if (!strcmp(argv[i], "--iters") && i + 1 < argc)
                        iters = atol(argv[++i]);
                else {
                        fprintf(stderr, "usage: see the header of k6_threads.c\n");
                        return 2;
                }
        }
        setvbuf(stdout, NULL, _IOFBF, 1 << 16);
        dl_iterate_phdr(phdr_cb, NULL);
        dump_globals("before");
        if (do_witness) {
                witness(iters);
                dump_globals("after");
                return 0;
        }
        if (!itemsf || !scriptf)
                return 2;
        if (load_items(itemsf) != 0 || load_script(scriptf, !strcmp(mode, "solo") ? only : -1) != 0)
                return 2;
        alarm(300);
        if (!strcmp(mode, "solo")) {
                if (only < 0 || only >= nmgr)
                        return 2;
                create_mgr(&M[only], only);
                for (long i = 0; i < nops; i++)
                        run_op(&M[only], &ops[i]);
        } else if (!strcmp(mode, "interleave")) {
                for (int m = 0; m < nmgr; m++)
                        create_mgr(&M[m], m);
                for (long i = 0; i < nops; i++)
                        run_op(&M[ops[i].m], &ops[i]);
        } else if (!strcmp(mode, "threads")) {
                pthread_t th[MAX_MGRS];
                long cnt[MAX_MGRS] = { 0 }, mn = -1;

                for (int m = 0; m < nmgr; m++)
                        create_mgr(&M[m], m);
                for (long i = 0; i < nops; i++)
                        cnt[ops[i].m]++;
                for (int m = 0; m < nmgr; m++)
                        if (mn < 0 || cnt[m] < mn)
                                mn = cnt[m];
                bar_every = 1 + (long) (g_seed % 13);
                bar_rounds = mn > 0 ? (mn - 1) / bar_every : 0;
                pthread_barrier_init(&bar, NULL, (unsigned) nmgr);
                for (int m = 0; m < nmgr; m++)
                        pthread_create(&th[m], NULL, thread_main, &M[m]);
                for (int m = 0; m < nmgr; m++)
                        pthread_join(th[m], NULL);
        } else
                return 2;
        alarm(0);
        for (int m = 0; m < nmgr; m++)
                if (M[m].tr.s)
                        fputs(M[m].tr.s, stdout);
        dump_globals("after");
        return 0;
}
