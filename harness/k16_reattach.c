/*
 * k16_reattach - correspondence harness for property C16 (re-attaching to a manager after a crash).
 *
 * The manager block, every job buffer, all key material and the harness bookkeeping live in ONE
 * MAP_SHARED|MAP_FIXED region at a fixed address (all allocations of this program and of imbh.c are
 * redirected there, see k15_ops.h).  A history runs up to crash point k ("processing stops between
 * two API calls"), then another party re-attaches with imb_set_pointers_mb_mgr(ptr, flags, 0) and
 * flushes:
 *
 *   k16_reattach run <arch> <flags> <script> <k> <mode> <arenafile>
 *      mode none : un-crashed twin (no re-attachment; flush at k, then the rest of the history)
 *      mode same : re-attach in the same process
 *      mode fork : re-attach in a forked child (same library mapping)
 *      mode exec : re-attach in a freshly exec'ed process (`k16_reattach helper <arenafile>`), ASLR on,
 *                  so the library image sits at another base (both bases are printed and compared)
 *
 * After re-attachment: every function pointer of IMB_MGR must point into the library image of the
 * CURRENT process, the OOO pointers must be base + cumulative sizes; flush (with the API of the
 * episode in flight) must hand back exactly the pending jobs in order, completed; queue empty;
 * then the rest of the history runs; every result is compared with the job run alone on a fresh
 * manager.  Before the crash point is left, every pointer field of every OOO manager is checked to
 * point into the shared region (never into the library image or the stack).
 */
#define _GNU_SOURCE
#include <stdio.h>
#include <stdlib.h>
#include <string.h>
#include <stdint.h>
#include <unistd.h>
#include <fcntl.h>
#include <errno.h>
#include <dlfcn.h>
#include <sys/mman.h>
#include <sys/wait.h>
#include <sys/prctl.h>
#include <signal.h>
#include <intel-ipsec-mb.h>
#include "include/ipsec_ooo_mgr.h"
#include "k15_ops.h"

#define K16_ADDR  ((void *) 0x10000000000ULL)
#define K16_SIZE  ((size_t) 256 << 20)
#define K16_MAGIC 0x4b31365f72656174ULL
#define K16_TIME_LIMIT 40 /* seconds; a run takes well under one */

#ifndef MAP_FIXED_NOREPLACE
#define MAP_FIXED_NOREPLACE 0x100000
#endif

struct k16_hdr {
        uint64_t magic;
        IMB_MGR *mgr;
        kscript *s;
        kctx *ctx;
        char arch[16];
        uint64_t flags;
        int k;
        uint64_t lib_lo, lib_hi; /* library image of the process that ran the history */
        int crash_pid;
};

static uint64_t lib_lo, lib_hi;

static void
find_library(void)
{
        FILE *f = fopen("/proc/self/maps", "r");
        char line[512];

        lib_lo = ~0ULL;
        lib_hi = 0;
        while (f && fgets(line, sizeof(line), f)) {
                unsigned long long a, b;

                if (strstr(line, "libIPSec_MB") && sscanf(line, "%llx-%llx", &a, &b) == 2) {
                        if (a < lib_lo)
                                lib_lo = a;
                        if (b > lib_hi)
                                lib_hi = b;
                }
        }
        if (f)
                fclose(f);
}

static karena *
map_arena(const char *path, int create)
{
        int fd = open(path, create ? (O_RDWR | O_CREAT | O_TRUNC) : O_RDWR, 0600);

        if (fd < 0 || (create && ftruncate(fd, (off_t) K16_SIZE) != 0)) {
                fprintf(stderr, "arena file %s: %s\n", path, strerror(errno));
                exit(2);
        }
        void *p = mmap(K16_ADDR, K16_SIZE, PROT_READ | PROT_WRITE, MAP_SHARED | MAP_FIXED_NOREPLACE, fd, 0);

        if (p != K16_ADDR) {
                fprintf(stderr, "cannot map the arena at %p: %s\n", K16_ADDR, strerror(errno));
                exit(2);
        }
        close(fd);
        return karena_register(p, K16_SIZE, create);
}

/* ------------------------------------------------------------------------- */
/* checks on the block */

struct scan {
        const uint8_t *base; /* region base */
        const char *field;
        const karena *ar;
        uint8_t inuse[64]; /* lane holds a job */
        int bad, idle_stale, idle_lib, checked;
};

static void
scan_lane_elem(const struct gl_leaf *lf, uint32_t off, const uint32_t *index, void *arg)
{
        struct scan *sc = arg;
        (void) lf;
        if (index[0] < 64 && *(void *const *) (sc->base + off) != NULL)
                sc->inuse[index[0]] = 1;
}

static void
scan_ptr_elem(const struct gl_leaf *lf, uint32_t off, const uint32_t *index, void *arg)
{
        struct scan *sc = arg;
        const uint64_t v = *(const uint64_t *) (sc->base + off);
        char name[160];

        if (lf->kind != GL_PTR || v < 0x10000)
                return; /* NULL, or a small integer kept in a pointer-typed field (SNOW3G x16 keeps byte counts in
                           args.in/out): below mmap_min_addr, not an address in any process */
        const int in_region =
                v >= (uint64_t) (uintptr_t) sc->ar->base && v < (uint64_t) (uintptr_t) sc->ar->base + sc->ar->size;
        const int lane_busy = (lf->ndims == 0) || (index[0] < 64 && sc->inuse[index[0]]);

        if (!lane_busy) {
                /* idle lane: whatever an earlier job (or the self test) left; never dereferenced */
                if (!in_region) {
                        sc->idle_stale++;
                        if (v >= lib_lo && v < lib_hi)
                                sc->idle_lib++;
                }
                return;
        }
        sc->checked++;
        if (in_region)
                return;
        gl_elem_name(lf, index, name, sizeof(name));
        printf("PTRBAD field=%s leaf=%s value=%llx %s\n", sc->field, name, (unsigned long long) v,
               (v >= lib_lo && v < lib_hi) ? "LIBRARY" : "outside-shared-region");
        sc->bad++;
}

static int
is_lane_leaf(const struct gl_leaf *lf)
{
        const size_t L = strlen(lf->path);
        return L >= 11 && !strcmp(lf->path + L - 11, "job_in_lane");
}

/* every pointer field of every lane that holds a job points into the shared region; no 8-byte word of
 * a manager the variant uses holds an address inside the library image */
static int
scan_block(IMB_MGR *mgr, const karena *ar)
{
        const struct gr_variant *v = k_variant_of(mgr);
        int bad = 0, libwords = 0, nptr = 0, idle = 0, idle_lib = 0, checked = 0;

        for (int i = 0; i < GR_NTABLE; i++) {
                if (!k_variant_uses(v, gr_table[i].field))
                        continue;
                const struct gl_struct *st = gl_find(gr_table[i].stype);
                struct scan sc;

                memset(&sc, 0, sizeof(sc));
                sc.base = k_ooo_ptr(mgr, &gr_table[i]);
                sc.field = gr_table[i].field;
                sc.ar = ar;
                for (uint32_t l = 0; l < st->nleaves; l++)
                        if (is_lane_leaf(&st->leaves[l]))
                                gl_for_each_elem(&st->leaves[l], scan_lane_elem, &sc);
                for (uint32_t l = 0; l < st->nleaves; l++)
                        if (st->leaves[l].kind == GL_PTR) {
                                gl_for_each_elem(&st->leaves[l], scan_ptr_elem, &sc);
                                nptr++;
                        }
                bad += sc.bad;
                idle += sc.idle_stale;
                idle_lib += sc.idle_lib;
                checked += sc.checked;
                for (uint32_t o = 0; o + 8 <= gr_table[i].rb_off; o += 8) {
                        const uint64_t w = *(const uint64_t *) (sc.base + o);

                        if (w >= lib_lo && w < lib_hi) {
                                if (libwords < 10)
                                        printf("LIBWORD field=%s off=%u value=%llx\n", gr_table[i].field, o,
                                               (unsigned long long) w);
                                libwords++;
                        }
                }
        }
        printf("SCAN ptr_leaves=%d busy_lane_ptrs_checked=%d ptr_bad=%d idle_lane_stale_ptrs=%d idle_lane_library_ptrs=%d libwords=%d\n",
               nptr, checked, bad, idle, idle_lib, libwords);
        if (libwords || idle_lib)
                printf("FAIL scan: %d words of out-of-order manager state hold addresses inside the library image\n",
                       libwords > idle_lib ? libwords : idle_lib);
        return bad + libwords + idle_lib;
}

static void
chk_fnptr(const struct gl_leaf *lf, uint32_t off, const uint32_t *index, void *arg)
{
        IMB_MGR *mgr = ((void **) arg)[0];
        int *bad = ((void **) arg)[1];
        const uint64_t v = *(const uint64_t *) ((const uint8_t *) mgr + off);

        (void) index;
        if (lf->kind != GL_FNPTR)
                return;
        if (!strcmp(lf->path, "self_test_cb_fn"))
                return; /* the caller's, not the library's */
        if (v < lib_lo || v >= lib_hi) {
                if (*bad < 8)
                        printf("FNPTRBAD %s=%llx not in the library image [%llx,%llx)\n", lf->path,
                               (unsigned long long) v, (unsigned long long) lib_lo, (unsigned long long) lib_hi);
                (*bad)++;
        }
}

static int
check_after_reattach(IMB_MGR *mgr)
{
        int bad = 0;
        void *arg[2] = { mgr, &bad };
        const struct gl_struct *st = gl_find("IMB_MGR");
        size_t off = (sizeof(IMB_MGR) + 63) & ~(size_t) 63;
        int pbad = 0;

        for (uint32_t l = 0; l < st->nleaves; l++)
                gl_for_each_elem(&st->leaves[l], chk_fnptr, arg);
        for (int i = 0; i < GR_NTABLE; i++) {
                if (k_ooo_ptr(mgr, &gr_table[i]) != (uint8_t *) mgr + off) {
                        printf("OOOPTRBAD %s=%p expected %p\n", gr_table[i].field, (void *) k_ooo_ptr(mgr, &gr_table[i]),
                               (void *) ((uint8_t *) mgr + off));
                        pbad++;
                }
                if (*(uint64_t *) (k_ooo_ptr(mgr, &gr_table[i]) + gr_table[i].rb_off) != 0xDEADCAFEDEADCAFEULL)
                        pbad++, printf("ROADBLOCK %s missing\n", gr_table[i].field);
                off += gr_table[i].asize;
        }
        printf("REATTACHED fnptr_bad=%d oooptr_bad=%d errno=%d arch=%u type=%u\n", bad, pbad, imb_get_errno(mgr), mgr->used_arch,
               (unsigned) mgr->used_arch_type);
        return bad + pbad;
}

/* ------------------------------------------------------------------------- */

static char *
result_string(imbh_run *r)
{
        imbh_str s = { 0 };

        imbh_format_result(&s, r, "-", 0);
        return s.s;
}

/* everything after the crash point; runs in the re-attaching party */
static int
continue_after(struct k16_hdr *h, const char *mode)
{
        kctx *c = h->ctx;
        IMB_MGR *mgr = h->mgr;
        long fails = 0;

        c->out = stdout;
        c->tag = "F";
        find_library();
        printf("LIB mode=%s crash=[%llx,%llx) now=[%llx,%llx) pid=%d crash_pid=%d\n", mode, (unsigned long long) h->lib_lo,
               (unsigned long long) h->lib_hi, (unsigned long long) lib_lo, (unsigned long long) lib_hi, (int) getpid(), h->crash_pid);
        if (strcmp(mode, "none") != 0) {
                const uint64_t earliest = (uint64_t) mgr->earliest_job, next = (uint64_t) mgr->next_job;
                IMB_MGR *m2 = imb_set_pointers_mb_mgr(mgr, mgr->flags, 0);

                if (m2 != mgr)
                        fails++, printf("FAIL reattach: returned %p\n", (void *) m2);
                if ((uint64_t) mgr->earliest_job != earliest || (uint64_t) mgr->next_job != next)
                        fails++, printf("FAIL reattach: ring indices changed\n");
                fails += check_after_reattach(mgr);
        }
        /* flush: exactly the pending jobs, in order */
        const int npend = c->npending;
        int *pend = malloc(sizeof(int) * (size_t) (npend + 1));

        memcpy(pend, c->pending, sizeof(int) * (size_t) npend);
        const int before = c->nreturned;
        k_flush_all(c);
        const int got = c->nreturned - before;

        if (got != npend)
                fails++, printf("FAIL flush: %d jobs handed back, %d were in flight\n", got, npend);
        for (int i = 0; i < got && i < npend; i++)
                if (c->returned[before + i] != pend[i]) {
                        fails++;
                        printf("FAIL flush: position %d: job %d handed back, job %d expected\n", i, c->returned[before + i],
                               pend[i]);
                        break;
                }
        const uint32_t q = IMB_QUEUE_SIZE(mgr);
        IMB_JOB *cj = IMB_GET_COMPLETED_JOB(mgr), *fj = IMB_FLUSH_JOB(mgr);

        printf("AFTERFLUSH q=%u completed=%s flush=%s order_violations=%d bad_status=%d\n", q, cj ? "JOB" : "NULL",
               fj ? "JOB" : "NULL", c->order_violations, c->bad_status);
        if (q != 0 || cj != NULL || fj != NULL)
                fails++, printf("FAIL flush: manager not empty after flushing\n");
        /* the manager remains usable: rest of the history */
        c->tag = "C";
        for (int i = h->k; i < h->s->nops; i++)
                k_run_op(c, i);
        k_flush_all(c);
        if (c->npending)
                fails++, printf("FAIL usable: %d jobs never came back\n", c->npending);
        fails += c->order_violations + c->bad_status;

        /* every result against the job run alone on a fresh manager (heap, not the shared region) */
        karena *saved = k_cur_arena;
        int nalone = 0, adiff = 0;

        k_cur_arena = NULL;
        /* two references: the same variant ("alone"), and another architecture with default flags ("correct results":
         * the flush path of this variant itself may be what is wrong, and then the job alone on this variant is wrong
         * in the same way) */
        for (int ref = 0; ref < 2; ref++) {
        IMB_MGR *R = alloc_mb_mgr(ref == 0 ? mgr->flags : 0);
        const char *rarch = ref == 0 ? h->arch : (strcmp(h->arch, "sse") == 0 ? "avx512" : "sse");

        k_init_arch(R, rarch);
        if (imb_get_errno(R) != 0) {
                free_mb_mgr(R);
                continue;       /* this CPU cannot run the other architecture */
        }
        for (int i = 0; i < h->s->nitems; i++) {
                if (c->runs[i] == NULL || !c->runs[i]->done)
                        continue;
                if (ref == 1 && h->s->items[i].hash == IMB_AUTH_DOCSIS_CRC32)
                        continue;       /* frames without a defined CRC: the tag bytes differ between architectures
                                         * (recorded C03 finding, known_findings.txt), not a matter of this property */
                imbh_run *r = imbh_run_new(R, &h->s->items[i]);
                IMB_JOB *job = IMB_GET_NEXT_JOB(R);

                imbh_fill_job(job, r);
                job = IMB_SUBMIT_JOB(R);
                r->err = imb_get_errno(R);
                if (job == NULL)
                        job = IMB_FLUSH_JOB(R);
                if (job == NULL || job->user_data != r) {
                        adiff++;
                        continue;
                }
                r->status = (int) job->status;
                r->done = 1;
                char *x = result_string(r), *y = result_string(c->runs[i]);

                nalone++;
                if (strcmp(x, y) != 0) {
                        adiff++;
                        if (adiff <= 3)
                                printf("FAIL %s: item %d\n  here : %.400s\n  %s: %.400s\n", ref ? "reference-arch" : "alone", i, y,
                                       ref ? rarch : "alone", x);
                }
                free(x);
                free(y);
                imbh_run_free(r);
        }
        }
        k_cur_arena = saved;
        fails += adiff;
        printf("SUMMARY mode=%s fails=%ld k=%d pending_at_crash=%d flushed=%d total_returned=%d alone_checked=%d relocated=%d\n", mode,
               fails, h->k, npend, got, c->nreturned, nalone, (h->lib_lo != lib_lo));
        fflush(stdout);
        return fails ? 1 : 0;
}

static int
mode_helper(const char *arenafile)
{
        karena *ar = map_arena(arenafile, 0);
        struct k16_hdr *h = *(struct k16_hdr **) (ar->base + 8);

        if (h == NULL || h->magic != K16_MAGIC) {
                fprintf(stderr, "helper: no header in the arena\n");
                return 2;
        }
        k_cur_arena = ar;
        return continue_after(h, "exec");
}

static int
mode_run(int argc, char **argv)
{
        if (argc < 8) {
                fprintf(stderr, "usage: run arch flags script k mode arenafile\n");
                return 2;
        }
        const char *mode = argv[6];
        karena *ar = map_arena(argv[7], 1);

        k_cur_arena = ar;
        struct k16_hdr *h = calloc(1, sizeof(*h));

        *(struct k16_hdr **) (ar->base + 8) = h;
        h->magic = K16_MAGIC;
        snprintf(h->arch, sizeof(h->arch), "%s", argv[2]);
        h->flags = strtoull(argv[3], NULL, 0);
        h->s = kscript_load(argv[4]);
        h->k = atoi(argv[5]);
        if (h->k > h->s->nops)
                h->k = h->s->nops;
        void *mem = NULL;

        if (posix_memalign(&mem, 64, imb_get_mb_mgr_size()) != 0)
                return 2;
        h->mgr = imb_set_pointers_mb_mgr(mem, h->flags, 1);
        k_init_arch(h->mgr, h->arch);
        if (imb_get_errno(h->mgr) != 0) {
                printf("SKIP init failed errno=%d\n", imb_get_errno(h->mgr));
                return 3;
        }
        find_library();
        h->lib_lo = lib_lo;
        h->lib_hi = lib_hi;
        h->crash_pid = (int) getpid();
        printf("VARIANT arch=%u type=%u features=%llx mgr=%p\n", h->mgr->used_arch, (unsigned) h->mgr->used_arch_type,
               (unsigned long long) h->mgr->features, (void *) h->mgr);
        h->ctx = kctx_new(h->mgr, h->s, "H", stdout);
        for (int i = 0; i < h->k; i++)
                k_run_op(h->ctx, i);
        k_print_occupancy(h->mgr, "H", stdout);
        printf("PENDING n=%d api=%c :", h->ctx->npending, h->ctx->last_api);
        for (int i = 0; i < h->ctx->npending; i++)
                printf(" %d", h->ctx->pending[i]);
        printf("\n");
        int pre_fail = h->ctx->order_violations + h->ctx->bad_status;

        pre_fail += scan_block(h->mgr, ar);
        fflush(stdout);

        int rc;

        if (!strcmp(mode, "none") || !strcmp(mode, "same")) {
                rc = continue_after(h, mode);
        } else {
                const pid_t pid = fork();

                if (pid == 0) {
                        prctl(PR_SET_PDEATHSIG, SIGKILL); /* never outlive the parent */
                        alarm(K16_TIME_LIMIT);            /* a hang inside the library ends here (SIGALRM); kept across execv */
                        if (!strcmp(mode, "exec")) {
                                char *av[] = { argv[0], (char *) "helper", argv[7], NULL };

                                munmap(K16_ADDR, K16_SIZE);
                                execv("/proc/self/exe", av);
                                _exit(127);
                        }
                        _exit(continue_after(h, "fork"));
                }
                int st = 0;

                waitpid(pid, &st, 0);
                rc = WIFEXITED(st) ? WEXITSTATUS(st) : 128 + WTERMSIG(st);
                if (!WIFEXITED(st))
                        printf("FAIL crash: re-attaching process died with signal %d%s\n", WTERMSIG(st),
                               WTERMSIG(st) == SIGALRM ? " (did not terminate: hang)" : "");
        }
        if (pre_fail)
                printf("FAIL pre: %d problems before the crash point\n", pre_fail);
        fflush(stdout);
        return (rc || pre_fail) ? (rc > 1 ? rc : 1) : 0;
}

int
main(int argc, char **argv)
{
        setvbuf(stdout, NULL, _IOFBF, 1 << 20);
        if (!(argc >= 3 && !strcmp(argv[1], "helper")))
                alarm(K16_TIME_LIMIT + 10);
        if (argc >= 3 && !strcmp(argv[1], "helper"))
                return mode_helper(argv[2]);
        if (argc >= 2 && !strcmp(argv[1], "run"))
                return mode_run(argc, argv);
        fprintf(stderr, "usage: %s run arch flags script k mode arenafile | helper arenafile\n", argv[0]);
        return 2;
}
