/*
 * k7_step - correspondence K7 tie (d) (property C19): native single-step traces.
 *
 * The valgrind based ties (k7_leak + memcheck / lackey) can only execute SSE type 1 and
 * AVX2 type 1.  This harness executes the jobs natively, so every variant the host can run
 * is covered (sse:f0..f2, avx2:f0..f1, avx512:f0..f1): the parent process single-steps the
 * child with ptrace(PTRACE_SINGLESTEP) between two marker points placed around
 * IMB_SUBMIT_JOB ... IMB_FLUSH_JOB (the same region as k7_leak.c) and records
 *   - the sequence of instruction addresses (control flow), and
 *   - the effective address of every memory operand, computed from the registers
 *     (PTRACE_GETREGS; PTRACE_GETREGSET NT_X86_XSTATE for vector indices and mask registers)
 *     and an operand table produced offline from `objdump -D -M intel` of the traced images
 *     (checks/c19_step.py: build_optab).
 *
 *   k7_step <init>:f<flags> <script> --image <path substring> <table> [--image ...]
 *           [--batch N] [--dump <group index> <file>]... [--max-steps N]
 *
 *   <init>   sse | avx2 | avx512     <flags>  0..3 (bit 0 IMB_FLAG_SHANI_OFF, bit 1 IMB_FLAG_GFNI_OFF)
 *   script   same format as k7_leak.c: <id> <algo> <dir> <len> <off> <keyhex> <ivhex> <msgseed>
 *            or, for the direct (non-job) entry points of KASUMI / SNOW3G (--batch 1):
 *            <id> direct:<name> <n> <len0,len1,..> <off> <key0[,key1,..]> <ivhex> <msgseed>
 *            (the marked region then holds the one IMB_<NAME>(mgr, ...) call)
 *   --image  an image (shared object or the executable itself: substring "SELF") whose
 *            instructions are decoded; the first one is the library under test
 *
 * Every group of N consecutive cases is prepared exactly like k7_leak.c does (its prepare() is
 * compiled in), after the manager has been initialised again (init_mb_mgr_*), so that every
 * group starts from the same manager / ring / lane state; all buffers are reused.  The traces
 * of two groups that differ only in their keys must therefore be literally identical.
 *
 * Address normalisation (so that traces are also comparable between processes; the child
 * additionally runs with ADDR_NO_RANDOMIZE): <image>+offset inside a traced image, otherwise
 * offset inside a region announced by the child (manager, per-slot buffers), the stack
 * (relative to RSP at the start marker), TLS (relative to fs_base), any other mapping of
 * /proc/<pid>/maps (index + offset), or the raw address.
 *
 * Output (stdout; the child's own lines are interleaved in order):
 *   VARIANT arch=.. type=.. features=..
 *   SEG <group> steps=<all single steps> lib=<steps inside image 0> other=<steps inside other
 *       decoded images> out=<steps outside every decoded image> mem=<addresses recorded>
 *       undec=<executed instructions whose memory operand could not be decoded>
 *       unk=<steps at an address inside a decoded image that is not an instruction start of
 *       the table> xst=<xstate reads> ihash=<control flow> dhash=<addresses> [crash=<signal>]
 *   CASE id=.. status=.. errno=.. out=<hex>
 *   END groups=<n> steps=<total>
 */
#define _GNU_SOURCE
#define K7_NO_MAIN
#include "k7_leak.c" /* prepare(), collect(), slots[], xalloc(), hex2bin(): identical job set-up */

#include <sys/ptrace.h>
#include <sys/wait.h>
#include <sys/user.h>
#include <sys/uio.h>
#include <sys/stat.h>
#include <sys/personality.h>
#include <elf.h>
#include <cpuid.h>
#include <signal.h>
#include <unistd.h>
#include <errno.h>
#include <fcntl.h>
#include <inttypes.h>

#define K7_MAGIC 0x4b37535445503031ULL /* "K7STEP01" */
#define H_INFO   1
#define H_BEGIN  2
#define H_END    3

#define MAXREG 160

typedef struct {
        uint64_t base, size;
        char name[16];
} k7_region;

typedef struct {
        uint64_t magic, nreg;
        k7_region reg[MAXREG];
} k7_info;

/* ============================================================================================ */
/* child */

static __attribute__((noinline)) void
hyper(uint64_t code, uint64_t a, uint64_t b)
{
        __asm__ volatile("int3" : : "a"(K7_MAGIC), "D"(code), "S"(a), "d"(b) : "memory");
}

static k7_info info;

static void
add_region(const char *name, int idx, const void *p, size_t n)
{
        if (info.nreg >= MAXREG)
                return;
        k7_region *r = &info.reg[info.nreg++];

        r->base = (uint64_t) (uintptr_t) p;
        r->size = n;
        if (idx >= 0)
                snprintf(r->name, sizeof(r->name), "%s%d", name, idx);
        else
                snprintf(r->name, sizeof(r->name), "%s", name);
}

static int
child_main(const char *variant, const char *script, const int batch)
{
        char init[16];
        unsigned long long flags = 0;

        (void) k7_page;
        if (sscanf(variant, "%15[a-z0-9]:f%llu", init, &flags) != 2 || flags > 3) {
                fprintf(stderr, "k7_step: bad variant %s\n", variant);
                return 2;
        }
        void (*init_fn)(IMB_MGR *) = NULL;
        uint64_t need = 0;

        if (strcmp(init, "sse") == 0) {
                init_fn = init_mb_mgr_sse;
                need = IMB_CPUFLAGS_SSE;
        } else if (strcmp(init, "avx2") == 0) {
                init_fn = init_mb_mgr_avx2;
                need = IMB_CPUFLAGS_AVX2;
        } else if (strcmp(init, "avx512") == 0) {
                init_fn = init_mb_mgr_avx512;
                need = IMB_CPUFLAGS_AVX512;
        } else {
                return 2;
        }
        IMB_MGR *mgr = alloc_mb_mgr(flags);

        if (mgr == NULL)
                return 3;
        if ((mgr->features & need) != need) {
                fprintf(stderr, "k7_step: host cannot run %s\n", variant);
                return 4;
        }
        init_fn(mgr);
        if (imb_get_errno(mgr) != 0) {
                fprintf(stderr, "k7_step: init failed: %s\n", imb_get_strerror(imb_get_errno(mgr)));
                return 4;
        }
        const size_t mgr_size = imb_get_mb_mgr_size();

        s3g_size = IMB_SNOW3G_KEY_SCHED_SIZE(mgr);
        if (s3g_size < sizeof(snow3g_key_schedule_t))
                s3g_size = sizeof(snow3g_key_schedule_t);

        static char lines[MAXBATCH][2048];
        static IMB_JOB tmpl[MAXBATCH];

        info.magic = K7_MAGIC;
        add_region("mgr", -1, mgr, mgr_size);
        for (int b = 0; b < batch; b++) {
                slot_t *s = &slots[b];

                s->src = xalloc(MAXLEN + 64);
                s->dst = xalloc(MAXLEN + 64);
                s->tag = xalloc(64);
                s->iv = xalloc(64);
                s->des_ks = xalloc(3 * IMB_DES_KEY_SCHED_SIZE);
                s->kas = xalloc(sizeof(*s->kas));
                s->s3g = xalloc(s3g_size);
                for (int i = 0; i < 3; i++)
                        s->des3_ptrs[i] = s->des_ks[i];
                add_region("src", b, s->src, MAXLEN + 128);
                add_region("dst", b, s->dst, MAXLEN + 128);
                add_region("tag", b, s->tag, 128);
                add_region("iv", b, s->iv, 128);
                add_region("desks", b, s->des_ks, 3 * IMB_DES_KEY_SCHED_SIZE + 64);
                add_region("kasks", b, s->kas, sizeof(*s->kas) + 64);
                add_region("s3gks", b, s->s3g, s3g_size + 64);
        }
        add_region("slots", -1, slots, sizeof(slots));
        add_region("tmpl", -1, tmpl, sizeof(tmpl));
        /* direct (non-job) entry points: argument block and arenas, allocated once */
        direct_alloc();
        add_region("dcall", -1, &dcall, sizeof(dcall));
        add_region("dsrc", -1, dsrc, (size_t) DMAX * DSTRIDE + 64);
        add_region("ddst", -1, ddst, (size_t) DMAX * DSTRIDE + 64);
        add_region("div", -1, div_, (size_t) DMAX * 64 + 64);
        add_region("ds3gks", -1, ds3g, (size_t) DMAX * DKSTRIDE + 64);

        printf("VARIANT arch=%u type=%u features=%llx\n", (unsigned) mgr->used_arch,
               (unsigned) mgr->used_arch_type, (unsigned long long) mgr->features);
        fflush(stdout);
        hyper(H_INFO, (uint64_t) (uintptr_t) &info, (uint64_t) (uintptr_t) &imb_get_version);

        FILE *f = fopen(script, "r");

        if (f == NULL)
                return 2;
        uint64_t group = 0;

        for (;;) {
                int n = 0;

                while (n < batch && fgets(lines[n], sizeof(lines[n]), f) != NULL) {
                        if (lines[n][0] == '#' || lines[n][0] == '\n')
                                continue;
                        n++;
                }
                if (n == 0)
                        break;
                /* same starting state for every group: ring, lanes, out-of-order managers */
                init_fn(mgr);
                if (imb_get_errno(mgr) != 0)
                        return 4;
                for (int b = 0; b < n; b++)
                        prepare(mgr, &slots[b], lines[b], &tmpl[b]);

                int err_job = 0;

                hyper(H_BEGIN, group, (uint64_t) n); /* ---- segment start ---- */
                for (int b = 0; b < n; b++) {
                        if (!slots[b].ok)
                                continue;
                        if (slots[b].direct) { /* api=direct:<name>: the one processing call */
                                run_direct(mgr, &slots[b]);
                                if (slots[b].status != (int) IMB_STATUS_COMPLETED && err_job == 0)
                                        err_job = slots[b].status - 1000;
                                continue;
                        }
                        IMB_JOB *job = IMB_GET_NEXT_JOB(mgr);

                        *job = tmpl[b];
                        IMB_JOB *ret = IMB_SUBMIT_JOB(mgr);
                        const int e = imb_get_errno(mgr);

                        if (e != 0 && err_job == 0)
                                err_job = e;
                        collect(ret);
                }
                for (;;) {
                        IMB_JOB *ret = IMB_FLUSH_JOB(mgr);

                        if (ret == NULL)
                                break;
                        collect(ret);
                }
                hyper(H_END, group, 0); /* ---- segment end ---- */
                group++;

                for (int b = 0; b < n; b++) {
                        slot_t *s = &slots[b];

                        if (!s->ok) {
                                printf("CASE id=%s status=-1 errno=-3 out=-\n", s->id);
                                continue;
                        }
                        finish_direct(mgr, s);
                        printf("CASE id=%s status=%d errno=%d", s->id, s->done ? s->status : -2, err_job);
                        if (s->direct)
                                printf(" api=direct:%s fn=%llx", direct_names[s->direct - 1],
                                       direct_fn_off(s));
                        printf(" out=");
                        if (s->out_len == 0)
                                printf("-");
                        for (size_t i = 0; i < s->out_len; i++)
                                printf("%02x", s->out_ptr[i]);
                        printf("\n");
                }
                fflush(stdout);
        }
        fclose(f);
        free_mb_mgr(mgr);
        return 0;
}

/* ============================================================================================ */
/* parent: operand tables */

enum { K_NONE = 0, K_MEM = 1, K_RIP = 2, K_VSIB = 3, K_STR = 4, K_STACK = 5, K_UNDEC = 6 };

#define F_WRITE  0x01 /* the memory operand is the destination */
#define F_ADDR32 0x02 /* 32-bit address size */
#define F_MASKED 0x04 /* EVEX opmask on a memory operand: rec.mask = k register */
#define F_FS     0x08
#define F_GS     0x10
#define F_IDX64  0x20 /* VSIB: 64-bit indices */
#define F_SI     0x40 /* string: [rsi] accessed */
#define F_DI     0x80 /* string: [rdi] accessed */

typedef struct __attribute__((packed)) {
        uint32_t addr;
        uint8_t kind, base, index, scale;
        int64_t disp; /* displacement; K_RIP: target relative to the image base */
        uint16_t size;
        uint8_t flags, mask, lanes, pad[3];
} rec_t;

typedef struct {
        char match[256];
        char label[32];
        const rec_t *rec;
        size_t nrec;
        uint64_t base, end;   /* whole mapped range */
        uint64_t xlo, xhi;    /* executable range */
} image_t;

#define MAXIMG 4
static image_t img[MAXIMG];
static int nimg;

static int
load_table(image_t *im, const char *path)
{
        const int fd = open(path, O_RDONLY);
        struct stat st;

        if (fd < 0 || fstat(fd, &st) != 0 || st.st_size < 16)
                return -1;
        const uint8_t *p = mmap(NULL, (size_t) st.st_size, PROT_READ, MAP_PRIVATE, fd, 0);

        close(fd);
        if (p == MAP_FAILED || memcmp(p, "K7OPTAB1", 8) != 0)
                return -1;
        uint64_t n;

        memcpy(&n, p + 8, 8);
        if (16 + n * sizeof(rec_t) != (uint64_t) st.st_size)
                return -1;
        im->rec = (const rec_t *) (p + 16);
        im->nrec = (size_t) n;
        return 0;
}

static const rec_t *
find_rec(const image_t *im, const uint32_t rel)
{
        size_t lo = 0, hi = im->nrec;

        while (lo < hi) {
                const size_t mid = (lo + hi) / 2;

                if (im->rec[mid].addr < rel)
                        lo = mid + 1;
                else
                        hi = mid;
        }
        return (lo < im->nrec && im->rec[lo].addr == rel) ? &im->rec[lo] : NULL;
}

/* ============================================================================================ */
/* parent: address space of the child */

typedef struct {
        uint64_t lo, hi;
        char name[24];
} map_t;

#define MAXMAP 256
static map_t maps[MAXMAP];
static int nmaps;
static k7_info cinfo;
static uint64_t stack_ref, stack_lo, stack_hi;

static int
read_child(const pid_t pid, const uint64_t addr, void *buf, const size_t n)
{
        struct iovec l = { buf, n }, r = { (void *) (uintptr_t) addr, n };

        return process_vm_readv(pid, &l, 1, &r, 1, 0) == (ssize_t) n ? 0 : -1;
}

static void
read_maps(const pid_t pid)
{
        char path[64], line[1024], self[512];

        snprintf(path, sizeof(path), "/proc/%d/exe", (int) pid);
        ssize_t k = readlink(path, self, sizeof(self) - 1);

        self[k > 0 ? k : 0] = 0;
        snprintf(path, sizeof(path), "/proc/%d/maps", (int) pid);
        FILE *f = fopen(path, "r");

        if (f == NULL)
                return;
        nmaps = 0;
        for (int i = 0; i < nimg; i++)
                img[i].base = img[i].end = img[i].xlo = img[i].xhi = 0;
        while (fgets(line, sizeof(line), f) != NULL) {
                unsigned long long lo, hi, off;
                char perm[8], file[768];

                file[0] = 0;
                if (sscanf(line, "%llx-%llx %7s %llx %*s %*s %767[^\n]", &lo, &hi, perm, &off, file) < 4)
                        continue;
                const char *fn = file;

                while (*fn == ' ')
                        fn++;
                for (int i = 0; i < nimg; i++) {
                        const int hit = strcmp(img[i].match, "SELF") == 0 ? strcmp(fn, self) == 0
                                                                          : strstr(fn, img[i].match) != NULL;
                        if (!hit)
                                continue;
                        if (img[i].base == 0 || lo - off < img[i].base)
                                img[i].base = lo - off;
                        if (hi > img[i].end)
                                img[i].end = hi;
                        if (perm[2] == 'x') {
                                if (img[i].xlo == 0 || lo < img[i].xlo)
                                        img[i].xlo = lo;
                                if (hi > img[i].xhi)
                                        img[i].xhi = hi;
                        }
                }
                if (strcmp(fn, "[stack]") == 0) {
                        stack_lo = lo;
                        stack_hi = hi;
                }
                if (nmaps < MAXMAP) {
                        const char *b = strrchr(fn, '/');

                        maps[nmaps].lo = lo;
                        maps[nmaps].hi = hi;
                        snprintf(maps[nmaps].name, sizeof(maps[nmaps].name), "%.20s", b ? b + 1 : (*fn ? fn : "anon"));
                        nmaps++;
                }
        }
        fclose(f);
}

/* region classes of a normalised address */
enum { R_IMG = 1, R_REG = 2, R_STACK = 3, R_TLS = 4, R_MAP = 5, R_RAW = 6 };

typedef struct {
        int cls, idx;
        uint64_t off;
} naddr_t;

static uint64_t fs_base_cur;

static naddr_t
normalise(const uint64_t a)
{
        naddr_t r = { R_RAW, 0, a };

        for (int i = 0; i < nimg; i++)
                if (a >= img[i].base && a < img[i].end && img[i].end != 0) {
                        r.cls = R_IMG;
                        r.idx = i;
                        r.off = a - img[i].base;
                        return r;
                }
        for (uint64_t i = 0; i < cinfo.nreg; i++)
                if (a >= cinfo.reg[i].base && a < cinfo.reg[i].base + cinfo.reg[i].size) {
                        r.cls = R_REG;
                        r.idx = (int) i;
                        r.off = a - cinfo.reg[i].base;
                        return r;
                }
        if (a >= stack_lo - (8u << 20) && a < stack_hi) {
                r.cls = R_STACK;
                r.off = a - stack_ref; /* two's complement: negative below the reference */
                return r;
        }
        if (fs_base_cur != 0 && a + 4096 >= fs_base_cur && a < fs_base_cur + 4096) {
                r.cls = R_TLS;
                r.off = a - fs_base_cur;
                return r;
        }
        for (int i = 0; i < nmaps; i++)
                if (a >= maps[i].lo && a < maps[i].hi) {
                        r.cls = R_MAP;
                        r.idx = i;
                        r.off = a - maps[i].lo;
                        return r;
                }
        return r;
}

static void
print_naddr(FILE *f, const naddr_t n)
{
        switch (n.cls) {
        case R_IMG:
                fprintf(f, "%s+%" PRIx64, img[n.idx].label, n.off);
                break;
        case R_REG:
                fprintf(f, "%s+%" PRIx64, cinfo.reg[n.idx].name, n.off);
                break;
        case R_STACK:
                if ((int64_t) n.off < 0)
                        fprintf(f, "stack-%" PRIx64, (uint64_t) (-(int64_t) n.off));
                else
                        fprintf(f, "stack+%" PRIx64, n.off);
                break;
        case R_TLS:
                fprintf(f, "tls%+" PRId64, (int64_t) n.off);
                break;
        case R_MAP:
                fprintf(f, "map%d(%s)+%" PRIx64, n.idx, maps[n.idx].name, n.off);
                break;
        default:
                fprintf(f, "raw:%" PRIx64, n.off);
        }
}

/* ============================================================================================ */
/* parent: registers */

static uint64_t
gpr(const struct user_regs_struct *r, const unsigned n)
{
        switch (n) {
        case 0: return r->rax;
        case 1: return r->rcx;
        case 2: return r->rdx;
        case 3: return r->rbx;
        case 4: return r->rsp;
        case 5: return r->rbp;
        case 6: return r->rsi;
        case 7: return r->rdi;
        case 8: return r->r8;
        case 9: return r->r9;
        case 10: return r->r10;
        case 11: return r->r11;
        case 12: return r->r12;
        case 13: return r->r13;
        case 14: return r->r14;
        default: return r->r15;
        }
}

/* standard (non-compacted) XSAVE layout as delivered by PTRACE_GETREGSET NT_X86_XSTATE */
static uint32_t off_ymmh = 576, off_k = 1088, off_zmmh = 1152, off_hi16 = 1664;
static uint8_t xbuf[16384] __attribute__((aligned(64)));
static size_t xlen;

static void
xsave_offsets(void)
{
        unsigned a, b, c, d;

        if (__get_cpuid_max(0, NULL) < 0xd)
                return;
        if (__get_cpuid_count(0xd, 2, &a, &b, &c, &d) && a != 0)
                off_ymmh = b;
        if (__get_cpuid_count(0xd, 5, &a, &b, &c, &d) && a != 0)
                off_k = b;
        if (__get_cpuid_count(0xd, 6, &a, &b, &c, &d) && a != 0)
                off_zmmh = b;
        if (__get_cpuid_count(0xd, 7, &a, &b, &c, &d) && a != 0)
                off_hi16 = b;
}

static int
get_xstate(const pid_t pid)
{
        struct iovec iov = { xbuf, sizeof(xbuf) };

        memset(xbuf, 0, 2752);
        if (ptrace(PTRACE_GETREGSET, pid, (void *) NT_X86_XSTATE, &iov) != 0)
                return -1;
        xlen = iov.iov_len;
        return 0;
}

/* components that are in their initial state are not written by the kernel's copy: the buffer
 * is zeroed before the call, which is the initial state */
static void
vec_reg(const unsigned n, uint8_t out[64])
{
        memset(out, 0, 64);
        if (n < 16) {
                memcpy(out, xbuf + 160 + 16 * n, 16);
                if (off_ymmh + 16 * n + 16 <= xlen)
                        memcpy(out + 16, xbuf + off_ymmh + 16 * n, 16);
                if (off_zmmh + 32 * n + 32 <= xlen)
                        memcpy(out + 32, xbuf + off_zmmh + 32 * n, 32);
        } else if (off_hi16 + 64 * (n - 16) + 64 <= xlen) {
                memcpy(out, xbuf + off_hi16 + 64 * (n - 16), 64);
        }
}

static uint64_t
k_reg(const unsigned n)
{
        uint64_t v = 0;

        if (off_k + 8 * n + 8 <= xlen)
                memcpy(&v, xbuf + off_k + 8 * n, 8);
        return v;
}

/* ============================================================================================ */
/* parent: tracing */

static uint64_t
fnv(uint64_t h, uint64_t v)
{
        for (int i = 0; i < 8; i++) {
                h ^= (v >> (8 * i)) & 0xff;
                h *= 0x100000001b3ULL;
        }
        return h;
}

typedef struct {
        uint64_t steps, lib, other, out, mem, undec, unk, xst;
        uint64_t ih, dh;
        FILE *df;
} seg_t;

static void
rec_addr(seg_t *s, const uint64_t ea, const unsigned size, const int write, const char tag)
{
        const naddr_t n = normalise(ea);

        s->mem++;
        s->dh = fnv(fnv(s->dh, ((uint64_t) n.cls << 56) ^ ((uint64_t) n.idx << 48) ^ (uint64_t) tag), n.off);
        s->dh = fnv(s->dh, ((uint64_t) size << 1) | (uint64_t) (write != 0));
        if (s->df != NULL) {
                fprintf(s->df, " %c", write ? 'W' : 'R');
                if (tag != 'm')
                        fputc(tag, s->df);
                print_naddr(s->df, n);
                fprintf(s->df, "/%u", size);
        }
}

static void
do_step(seg_t *s, const pid_t pid, const struct user_regs_struct *r)
{
        const uint64_t rip = r->rip;
        int im = -1;

        s->steps++;
        for (int i = 0; i < nimg; i++)
                if (rip >= img[i].xlo && rip < img[i].xhi) {
                        im = i;
                        break;
                }
        if (im < 0) {
                /* outside every decoded image: control flow only */
                const naddr_t n = normalise(rip);

                s->out++;
                s->ih = fnv(fnv(s->ih, ((uint64_t) n.cls << 56) ^ ((uint64_t) n.idx << 48)), n.off);
                if (s->df != NULL) {
                        fprintf(s->df, "X ");
                        print_naddr(s->df, n);
                        fputc('\n', s->df);
                }
                return;
        }
        const uint64_t rel = rip - img[im].base;

        if (im == 0)
                s->lib++;
        else
                s->other++;
        s->ih = fnv(s->ih, ((uint64_t) (0x80 + im) << 56) ^ rel);
        if (s->df != NULL)
                fprintf(s->df, "I %s+%" PRIx64, img[im].label, rel);
        const rec_t *rc = find_rec(&img[im], (uint32_t) rel);

        if (rc == NULL) {
                s->unk++;
                if (s->df != NULL)
                        fprintf(s->df, " ?unknown-instruction\n");
                return;
        }
        fs_base_cur = r->fs_base;
        switch (rc->kind) {
        case K_NONE:
                break;
        case K_UNDEC:
                s->undec++;
                if (s->df != NULL)
                        fprintf(s->df, " ?undecoded-operand");
                break;
        case K_STACK:
                rec_addr(s, r->rsp, rc->size, rc->flags & F_WRITE, 's');
                break;
        case K_RIP:
                rec_addr(s, img[im].base + (uint64_t) rc->disp, rc->size, rc->flags & F_WRITE, 'm');
                break;
        case K_MEM: {
                uint64_t ea = (uint64_t) rc->disp;

                if (rc->base != 0xff)
                        ea += gpr(r, rc->base);
                if (rc->index != 0xff)
                        ea += gpr(r, rc->index) * rc->scale;
                if (rc->flags & F_ADDR32)
                        ea &= 0xffffffffULL;
                if (rc->flags & F_FS)
                        ea += r->fs_base;
                if (rc->flags & F_GS)
                        ea += r->gs_base;
                rec_addr(s, ea, rc->size, rc->flags & F_WRITE, 'm');
                if (rc->flags & F_MASKED) {
                        /* the opmask decides which elements are touched (fault suppression) */
                        if (get_xstate(pid) == 0) {
                                const uint64_t kv = k_reg(rc->mask);

                                s->xst++;
                                s->dh = fnv(s->dh, kv);
                                if (s->df != NULL)
                                        fprintf(s->df, " k%u=%" PRIx64, rc->mask, kv);
                        } else {
                                s->undec++;
                        }
                }
                break;
        }
        case K_STR:
                /* one step per iteration of a rep prefix */
                if (rc->flags & F_SI)
                        rec_addr(s, (rc->flags & F_ADDR32) ? (r->rsi & 0xffffffffULL) : r->rsi, rc->size, 0, 'm');
                if (rc->flags & F_DI)
                        rec_addr(s, (rc->flags & F_ADDR32) ? (r->rdi & 0xffffffffULL) : r->rdi, rc->size,
                                 rc->flags & F_WRITE, 'm');
                break;
        case K_VSIB: {
                uint8_t iv[64], mv[64];
                uint64_t kmask = ~0ULL;

                if (get_xstate(pid) != 0) {
                        s->undec++;
                        break;
                }
                s->xst++;
                vec_reg(rc->index, iv);
                if (rc->flags & F_MASKED) {
                        kmask = k_reg(rc->mask & 7);
                } else if (rc->mask & 0x80) {
                        /* AVX2 gather: the sign bit of every element of the mask vector */
                        vec_reg(rc->mask & 0x1f, mv);
                        kmask = 0;
                        for (unsigned l = 0; l < rc->lanes; l++)
                                if (mv[rc->size * l + rc->size - 1] & 0x80)
                                        kmask |= 1ULL << l;
                }
                for (unsigned l = 0; l < rc->lanes; l++) {
                        int64_t idx;

                        if (!((kmask >> l) & 1))
                                continue;
                        if (rc->flags & F_IDX64) {
                                memcpy(&idx, iv + 8 * l, 8);
                        } else {
                                int32_t i32;

                                memcpy(&i32, iv + 4 * l, 4);
                                idx = i32;
                        }
                        uint64_t ea = (uint64_t) rc->disp + (uint64_t) idx * rc->scale;

                        if (rc->base != 0xff)
                                ea += gpr(r, rc->base);
                        rec_addr(s, ea, rc->size, rc->flags & F_WRITE, 'g');
                }
                break;
        }
        default:
                s->undec++;
        }
        if (s->df != NULL)
                fputc('\n', s->df);
}

static int
parent_main(const pid_t pid, const long *dump_idx, char *const *dump_path, const int ndump,
            const uint64_t max_steps)
{
        int st;
        uint64_t hyper_rip = 0, total = 0, groups = 0;
        struct user_regs_struct r;

        if (waitpid(pid, &st, 0) != pid || !WIFSTOPPED(st)) {
                fprintf(stderr, "k7_step: child did not stop after exec\n");
                return 3;
        }
        ptrace(PTRACE_SETOPTIONS, pid, 0, (void *) PTRACE_O_EXITKILL);
        xsave_offsets();
        int sig = 0;

        for (;;) {
                if (ptrace(PTRACE_CONT, pid, 0, (void *) (long) sig) != 0) {
                        perror("PTRACE_CONT");
                        return 3;
                }
                if (waitpid(pid, &st, 0) != pid)
                        return 3;
                if (WIFEXITED(st)) {
                        fflush(stdout);
                        printf("END groups=%" PRIu64 " steps=%" PRIu64 " exit=%d\n", groups, total, WEXITSTATUS(st));
                        return WEXITSTATUS(st);
                }
                if (WIFSIGNALED(st)) {
                        printf("END groups=%" PRIu64 " steps=%" PRIu64 " killed=%d\n", groups, total, WTERMSIG(st));
                        return 5;
                }
                sig = WSTOPSIG(st);
                if (sig != SIGTRAP)
                        continue; /* deliver */
                sig = 0;
                if (ptrace(PTRACE_GETREGS, pid, 0, &r) != 0)
                        return 3;
                if (r.rax != K7_MAGIC)
                        continue;
                if (r.rdi == H_INFO) {
                        hyper_rip = r.rip;
                        if (read_child(pid, r.rsi, &cinfo, sizeof(cinfo)) != 0 || cinfo.magic != K7_MAGIC ||
                            cinfo.nreg > MAXREG) {
                                fprintf(stderr, "k7_step: cannot read the child's region table\n");
                                return 3;
                        }
                        read_maps(pid);
                        for (int i = 0; i < nimg; i++)
                                if (img[i].xhi == 0) {
                                        fprintf(stderr, "k7_step: image %s not mapped\n", img[i].match);
                                        return 3;
                                }
                        if (!(r.rdx >= img[0].xlo && r.rdx < img[0].xhi)) {
                                fprintf(stderr, "k7_step: imb_get_version is not inside image 0\n");
                                return 3;
                        }
                        printf("MAP");
                        for (int i = 0; i < nimg; i++)
                                printf(" %s=%" PRIx64 "-%" PRIx64, img[i].label, img[i].base, img[i].end);
                        printf(" ref=%" PRIx64 "\n", r.rdx - img[0].base);
                        fflush(stdout);
                        continue;
                }
                if (r.rdi != H_BEGIN || hyper_rip == 0)
                        continue;
                /* ---- single-step until the end marker ---- */
                seg_t s;
                const uint64_t gidx = r.rsi;
                int crash = 0;

                memset(&s, 0, sizeof(s));
                s.ih = s.dh = 0xcbf29ce484222325ULL;
                for (int i = 0; i < ndump; i++)
                        if ((uint64_t) dump_idx[i] == gidx) {
                                s.df = fopen(dump_path[i], "w");
                                if (s.df == NULL)
                                        return 2;
                        }
                stack_ref = r.rsp;
                if (nmaps == 0)
                        read_maps(pid);
                for (;;) {
                        /* r = state before the next instruction */
                        do_step(&s, pid, &r);
                        if (ptrace(PTRACE_SINGLESTEP, pid, 0, 0) != 0) {
                                crash = -1;
                                break;
                        }
                        if (waitpid(pid, &st, 0) != pid || !WIFSTOPPED(st)) {
                                crash = WIFSIGNALED(st) ? WTERMSIG(st) : -2;
                                break;
                        }
                        if (WSTOPSIG(st) != SIGTRAP) {
                                crash = WSTOPSIG(st);
                                break;
                        }
                        if (ptrace(PTRACE_GETREGS, pid, 0, &r) != 0) {
                                crash = -3;
                                break;
                        }
                        if (r.rip == hyper_rip && r.rax == K7_MAGIC) {
                                if (r.rdi == H_END)
                                        break;
                        }
                        if (s.steps >= max_steps) {
                                crash = -4; /* hang */
                                break;
                        }
                }
                total += s.steps;
                groups++;
                if (s.df != NULL)
                        fclose(s.df);
                fflush(stdout);
                printf("SEG %" PRIu64 " steps=%" PRIu64 " lib=%" PRIu64 " other=%" PRIu64 " out=%" PRIu64
                       " mem=%" PRIu64 " undec=%" PRIu64 " unk=%" PRIu64 " xst=%" PRIu64
                       " ihash=%016" PRIx64 " dhash=%016" PRIx64,
                       gidx, s.steps, s.lib, s.other, s.out, s.mem, s.undec, s.unk, s.xst, s.ih, s.dh);
                if (crash != 0) {
                        ptrace(PTRACE_GETREGS, pid, 0, &r);
                        printf(" crash=%d rip=", crash);
                        print_naddr(stdout, normalise(r.rip));
                }
                printf("\n");
                fflush(stdout);
                if (crash != 0) {
                        kill(pid, SIGKILL);
                        waitpid(pid, &st, 0);
                        printf("END groups=%" PRIu64 " steps=%" PRIu64 " crash=%d\n", groups, total, crash);
                        return 5;
                }
        }
}

int
main(int argc, char **argv)
{
        if (argc >= 2 && strcmp(argv[1], "--child") == 0) {
                if (argc < 5)
                        return 2;
                return child_main(argv[2], argv[3], atoi(argv[4]));
        }
        if (argc < 3) {
                fprintf(stderr, "usage: k7_step <sse|avx2|avx512>:f<0..3> <script> --image <substr> <table> "
                                "[--image ...] [--batch N] [--dump idx file]... [--max-steps N]\n");
                return 2;
        }
        int batch = 1, ndump = 0;
        long dump_idx[16];
        char *dump_path[16];
        uint64_t max_steps = 400000000ULL;

        for (int i = 3; i < argc; i++) {
                if (strcmp(argv[i], "--batch") == 0 && i + 1 < argc) {
                        batch = atoi(argv[++i]);
                } else if (strcmp(argv[i], "--max-steps") == 0 && i + 1 < argc) {
                        max_steps = strtoull(argv[++i], NULL, 0);
                } else if (strcmp(argv[i], "--dump") == 0 && i + 2 < argc && ndump < 16) {
                        dump_idx[ndump] = atol(argv[i + 1]);
                        dump_path[ndump++] = argv[i + 2];
                        i += 2;
                } else if (strcmp(argv[i], "--image") == 0 && i + 2 < argc && nimg < MAXIMG) {
                        image_t *im = &img[nimg];
                        const char *b = strrchr(argv[i + 1], '/');

                        snprintf(im->match, sizeof(im->match), "%s", argv[i + 1]);
                        snprintf(im->label, sizeof(im->label), "%s", nimg == 0 ? "lib" : (b ? b + 1 : argv[i + 1]));
                        for (char *c = im->label; *c; c++)
                                if (*c == '.' || *c == '-') {
                                        *c = 0;
                                        break;
                                }
                        if (load_table(im, argv[i + 2]) != 0) {
                                fprintf(stderr, "k7_step: bad operand table %s\n", argv[i + 2]);
                                return 2;
                        }
                        nimg++;
                        i += 2;
                } else {
                        fprintf(stderr, "k7_step: bad argument %s\n", argv[i]);
                        return 2;
                }
        }
        if (batch < 1 || batch > MAXBATCH || nimg == 0)
                return 2;
        fflush(stdout);
        const pid_t pid = fork();

        if (pid < 0)
                return 3;
        if (pid == 0) {
                char bs[16];

                snprintf(bs, sizeof(bs), "%d", batch);
                personality(ADDR_NO_RANDOMIZE);
                setenv("LD_BIND_NOW", "1", 1);
                if (ptrace(PTRACE_TRACEME, 0, 0, 0) != 0)
                        _exit(126);
                execl("/proc/self/exe", argv[0], "--child", argv[1], argv[2], bs, (char *) NULL);
                _exit(127);
        }
        return parent_main(pid, dump_idx, dump_path, ndump, max_steps);
}
