/* K8: initialising a manager for an architecture whose CPU features are absent must fail
 * cleanly.  The host CPU has every feature, so absence is simulated the only way the public
 * API allows: IMB_MGR.features (a public field, filled by alloc_mb_mgr from CPUID) is edited to
 * what alloc_mb_mgr produces on a CPU without the feature, then init_mb_mgr_<arch> is called.
 * Each case runs in a forked child so that a crash is reported, not fatal.
 * Output: one line per case. */
#include <stdio.h>
#include <stdlib.h>
#include <string.h>
#include <unistd.h>
#include <sys/wait.h>
#include <intel-ipsec-mb.h>

static void
do_init(IMB_MGR *m, int a)
{
        if (a == 0)
                init_mb_mgr_sse(m);
        else if (a == 1)
                init_mb_mgr_avx2(m);
        else if (a == 2)
                init_mb_mgr_avx512(m);
}

int
main(void)
{
        static const char *an[] = { "sse", "avx2", "avx512", "none" };
        for (int prior = 0; prior < 4; prior++)
                for (int a = 0; a < 3; a++)
                        for (uint64_t flags = 0; flags < 4; flags += 3) {
                                int pfd[2];
                                if (pipe(pfd))
                                        return 2;
                                fflush(stdout);
                                pid_t pid = fork();
                                if (pid == 0) {
                                        close(pfd[0]);
                                        IMB_MGR *m = alloc_mb_mgr(flags);
                                        if (prior < 3)
                                                do_init(m, prior);
                                        const uint64_t need = a == 0   ? IMB_FEATURE_SSE4_2
                                                              : a == 1 ? IMB_FEATURE_AVX2
                                                                       : IMB_FEATURE_AVX512_SKX;
                                        m->features &= ~need;
                                        void *h_before = (void *) m->submit_job;
                                        const IMB_ARCH arch_before = m->used_arch;
                                        do_init(m, a);
                                        char buf[256];
                                        int n = snprintf(buf, sizeof(buf), "errno=%d handlers=%s used_arch=%s pass_bit=%d",
                                                         imb_get_errno(m),
                                                         (void *) m->submit_job == h_before ? "unchanged" : "changed",
                                                         m->used_arch == arch_before ? "unchanged" : "changed",
                                                         (m->features & IMB_FEATURE_SELF_TEST_PASS) ? 1 : 0);
                                        if (write(pfd[1], buf, n) != n)
                                                _exit(3);
                                        _exit(0);
                                }
                                close(pfd[1]);
                                char buf[256];
                                ssize_t n = read(pfd[0], buf, sizeof(buf) - 1);
                                if (n < 0)
                                        n = 0;
                                buf[n] = 0;
                                close(pfd[0]);
                                int st = 0;
                                waitpid(pid, &st, 0);
                                printf("prior=%s arch=%s flags=%llu ", an[prior], an[a], (unsigned long long) flags);
                                if (WIFSIGNALED(st))
                                        printf("CRASH sig=%d\n", WTERMSIG(st));
                                else
                                        printf("%s\n", buf);
                        }
        return 0;
}
