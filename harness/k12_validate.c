/* harness/k12_validate.c -- C12: parameter checking.
 *
 * Modes
 *   a <cases>   translator validation: for every job_view line build the IMB_JOB (and the memory the
 *               checker reads through pointers) and call the REAL is_job_invalid() from
 *               lib/include/mb_mgr_job_check.h (static inline, compiled here from the /repo header)
 *               exactly like submit_job_and_check() does; print `accept` / `reject <errno>`.
 *   l <cases>   same for is_job_invalid_light() (as called by imb_set_session()).
 *   b <cases>   behaviour through the public API of the rebuilt library (job API and async burst
 *               API) on every manager (sse/avx2/avx512 x flags 0 / SHANI_OFF|GFNI_OFF); prints one
 *               result record per (case, manager, api); see print format at run_b().
 *   m           misuse of the burst calls (NULL array, oversize, NULL job, out-of-order job, stale
 *               suite id, queue space) + invalid job inside the synchronous cipher/hash bursts.
 *   d           direct-API NULL / over-limit argument table, each row in a forked child.
 *
 * Case line format: see ocaml/validate_driver.ml (32 + 3*nsegs unsigned decimals).
 *
 * Pointers in a case are real addresses inside an arena that this program maps at a fixed
 * address (ARENA_BASE, ARENA_SIZE) -- the generator (checks/c12.py) lays buffers out in it, so the
 * numbers in the view ARE the pointers the library sees.  Two pointer values are symbolic:
 * FN_TOKEN in cipher_func/hash_func is replaced by the address of a harness callback.
 *
 * What the harness needs from the library internals: nothing but the header.  mb_mgr_job_check.h
 * includes error.h, which declares `extern volatile int imb_errno` (not exported by the shared
 * object): the harness defines its own instance.
 */
#define _GNU_SOURCE
#include <stdio.h>
#include <stdlib.h>
#include <string.h>
#include <stdint.h>
#include <errno.h>
#include <signal.h>
#include <setjmp.h>
#include <unistd.h>
#include <sys/mman.h>
#include <sys/wait.h>

#include "intel-ipsec-mb.h"

volatile int imb_errno; /* satisfies include/error.h; private to the harness copy of the checker */
#include "include/mb_mgr_job_check.h"

#define ARENA_BASE 0x100000000000ULL
#define ARENA_SIZE 0x100000ULL /* 1 MiB */
#define FN_TOKEN (ARENA_BASE + 0xFF000ULL)

#define NF 32
#define MAXSEGS 64

struct view {
        uint64_t f[NF];
        uint64_t nsegs;
        uint64_t seg[MAXSEGS][3];
};

static uint8_t *arena;
static uint8_t *pristine; /* deterministic fill of the arena */
static uint8_t *shadow;   /* pristine + memory-view writes of the current case */

static int
in_arena(uint64_t a, uint64_t len)
{
        return a >= ARENA_BASE && a <= ARENA_BASE + ARENA_SIZE && len <= ARENA_BASE + ARENA_SIZE - a;
}

static void
map_arena(void)
{
        void *p = mmap((void *) ARENA_BASE, ARENA_SIZE, PROT_READ | PROT_WRITE,
                       MAP_PRIVATE | MAP_ANONYMOUS | MAP_FIXED_NOREPLACE, -1, 0);
        if (p != (void *) ARENA_BASE) {
                fprintf(stderr, "k12: cannot map arena at %llx\n", (unsigned long long) ARENA_BASE);
                exit(3);
        }
        arena = p;
        pristine = malloc(ARENA_SIZE);
        shadow = malloc(ARENA_SIZE);
        uint64_t s = 0x9E3779B97F4A7C15ULL;
        for (size_t i = 0; i < ARENA_SIZE; i += 8) {
                s += 0x9E3779B97F4A7C15ULL;
                uint64_t z = s;
                z = (z ^ (z >> 30)) * 0xBF58476D1CE4E5B9ULL;
                z = (z ^ (z >> 27)) * 0x94D049BB133111EBULL;
                z ^= z >> 31;
                memcpy(pristine + i, &z, 8);
        }
}

static int
parse_line(char *line, struct view *v)
{
        char *p = line, *e;
        for (int i = 0; i < NF; i++) {
                errno = 0;
                v->f[i] = strtoull(p, &e, 10);
                if (e == p || errno)
                        return -1;
                p = e;
        }
        v->nsegs = v->f[31];
        if (v->nsegs > MAXSEGS)
                return -2;
        for (uint64_t i = 0; i < v->nsegs; i++)
                for (int k = 0; k < 3; k++) {
                        v->seg[i][k] = strtoull(p, &e, 10);
                        if (e == p)
                                return -1;
                        p = e;
                }
        while (*p == ' ' || *p == '\n' || *p == '\r' || *p == '\t')
                p++;
        return *p == 0 ? 0 : -1;
}

static int
custom_cipher(IMB_JOB *job)
{
        job->status |= IMB_STATUS_COMPLETED_CIPHER;
        return 0;
}
static int
custom_hash(IMB_JOB *job)
{
        job->status |= IMB_STATUS_COMPLETED_AUTH;
        return 0;
}

/* fill an IMB_JOB from a view: raw slot values */
static void
job_from_view(IMB_JOB *job, const struct view *v)
{
        const uint64_t *f = v->f;
        memset(job, 0, sizeof(*job));
        job->enc_keys = (const void *) f[0];
        job->dec_keys = (const void *) f[1];
        job->key_len_in_bytes = f[2];
        job->src = (const uint8_t *) f[3];
        job->dst = (uint8_t *) f[4];
        job->cipher_start_src_offset_in_bytes = f[5];
        job->msg_len_to_cipher_in_bytes = f[6];
        job->hash_start_src_offset_in_bytes = f[7];
        job->msg_len_to_hash_in_bytes = f[8];
        job->iv = (const uint8_t *) f[9];
        job->iv_len_in_bytes = f[10];
        job->auth_tag_output = (uint8_t *) f[11];
        job->auth_tag_output_len_in_bytes = f[12];
        /* the three words of the hash-specific union */
        job->u.GCM.aad = (const void *) f[13];
        job->u.GCM.aad_len_in_bytes = f[14];
        job->u.GCM.ctx = (struct gcm_context_data *) f[15];
        job->cipher_mode = (IMB_CIPHER_MODE) (uint32_t) f[16];
        job->cipher_direction = (IMB_CIPHER_DIRECTION) (uint32_t) f[17];
        job->hash_alg = (IMB_HASH_ALG) (uint32_t) f[18];
        job->chain_order = (IMB_CHAIN_ORDER) (uint32_t) f[19];
        job->cipher_func = (f[20] == FN_TOKEN) ? custom_cipher : (int (*)(IMB_JOB *)) f[20];
        job->hash_func = (f[21] == FN_TOKEN) ? custom_hash : (int (*)(IMB_JOB *)) f[21];
        job->sgl_state = (IMB_SGL_STATE) (uint32_t) f[22];
        job->cipher_fields.CBCS.next_iv = (void *) f[23];
}

static void
poke(uint64_t addr, const void *data, size_t n)
{
        memcpy((void *) addr, data, n);
        memcpy(shadow + (addr - ARENA_BASE), data, n);
}

/* Materialise the memory view.  Returns 0 if every read the checker may perform through a pointer
 * is backed by the arena (or the pointer is NULL, which the checker tests first), 1 otherwise
 * (case skipped: the real checker would read unmapped memory). */
static int
apply_memory_view(const struct view *v)
{
        const uint64_t *f = v->f;
        const uint32_t cm = (uint32_t) f[16];
        int unsafe = 0;

        memcpy(arena, pristine, ARENA_SIZE);
        memcpy(shadow, pristine, ARENA_SIZE);
        if (cm == IMB_CIPHER_DES3) {
                if (f[0] != 0) {
                        if (in_arena(f[0], 24))
                                poke(f[0], &f[24], 24);
                        else
                                unsafe = 1;
                }
                if (f[1] != 0) {
                        if (in_arena(f[1], 24)) {
                                /* enc_keys == dec_keys is legal ("same key schedule used for enc and dec") */
                                if (f[1] == f[0] && memcmp(&f[24], &f[27], 24) != 0)
                                        unsafe = 1;
                                poke(f[1], &f[27], 24);
                        } else
                                unsafe = 1;
                }
        }
        if (cm == IMB_CIPHER_PON_AES_CNTR && f[3] != 0) {
                const uint64_t a = f[3] + f[7]; /* wraps like the pointer arithmetic in the checker */
                if (in_arena(a, 8))
                        poke(a, &f[30], 8);
                else
                        unsafe = 1;
        }
        if ((cm == IMB_CIPHER_GCM_SGL || cm == IMB_CIPHER_CHACHA20_POLY1305_SGL) &&
            (uint32_t) f[22] == IMB_SGL_ALL && f[3] != 0 && f[4] != 0) {
                if (f[4] != v->nsegs || !in_arena(f[3], 24 * v->nsegs))
                        unsafe = 1;
                else
                        for (uint64_t i = 0; i < v->nsegs; i++)
                                poke(f[3] + 24 * i, v->seg[i], 24);
        }
        return unsafe;
}

/* ------------------------------------------------------------------ mode a / l */
static int
run_a(const char *path, int light)
{
        FILE *fp = fopen(path, "r");
        if (!fp) {
                perror(path);
                return 2;
        }
        IMB_MGR *mgr = alloc_mb_mgr(0);
        if (!mgr)
                return 2;
        init_mb_mgr_sse(mgr);
        static char line[16384];
        struct view v;
        IMB_JOB job;
        while (fgets(line, sizeof(line), fp)) {
                if (line[0] == '#' || line[0] == '\n')
                        continue;
                int r = parse_line(line, &v);
                if (r) {
                        printf("parse-error %d\n", r);
                        continue;
                }
                if (apply_memory_view(&v)) {
                        printf("skip\n");
                        continue;
                }
                job_from_view(&job, &v);
                imb_set_errno(mgr, 0);
                int inv;
                if (light)
                        inv = is_job_invalid_light(mgr, job.cipher_mode, job.hash_alg, job.cipher_direction,
                                                   job.key_len_in_bytes);
                else
                        inv = is_job_invalid(mgr, &job, job.cipher_mode, job.hash_alg, job.cipher_direction,
                                             job.key_len_in_bytes);
                if (inv) {
                        if (mgr->imb_errno != imb_errno)
                                printf("reject %d global-mismatch %d\n", mgr->imb_errno, imb_errno);
                        else
                                printf("reject %d\n", mgr->imb_errno);
                } else {
                        if (mgr->imb_errno != 0)
                                printf("accept errno-set %d\n", mgr->imb_errno);
                        else
                                printf("accept\n");
                }
        }
        fclose(fp);
        free_mb_mgr(mgr);
        return 0;
}

int
main(int argc, char **argv)
{
        if (argc < 2) {
                fprintf(stderr, "usage: k12_validate a|l|b <cases> | m | d\n");
                return 2;
        }
        setvbuf(stdout, NULL, _IOFBF, 1 << 16);
        map_arena();
        if ((argv[1][0] == 'a' || argv[1][0] == 'l') && argc >= 3)
                return run_a(argv[2], argv[1][0] == 'l');
        fprintf(stderr, "unknown mode\n");
        return 2;
}
