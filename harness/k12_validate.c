/* harness/k12_validate.c -- C12: parameter checking.
 *
 * Modes
 *   a <cases>   translator validation: for every job_view line build the IMB_JOB (and the memory the
 *               checker reads through pointers) and call the REAL is_job_invalid() from
 *               lib/include/mb_mgr_job_check.h (static inline, compiled here from the /repo header)
 *               exactly like submit_job_and_check() does; print `accept` / `reject <errno>`.
 *   l <cases>   same for is_job_invalid_light() (as called by imb_set_session()).
 *   b <cases>   behaviour through the public API of the rebuilt library (job API and async burst
 *               API) on every manager (sse/avx2/avx512 x flags 0 / SHANI_OFF|GFNI_OFF); prints one
 *               result record per (case, manager, api); see print format at run_b().
 *   m           misuse of the burst calls (NULL array, oversize, NULL job, out-of-order job, stale
 *               suite id, queue space) + invalid job inside the synchronous cipher/hash bursts.
 *   d           direct-API NULL / over-limit argument table, each row in a forked child.
 *
 * Case line format: see ocaml/validate_driver.ml (32 + 3*nsegs unsigned decimals).
 *
 * Pointers in a case are real addresses inside an arena that this program maps at a fixed
 * address (ARENA_BASE, ARENA_SIZE) -- the generator (checks/c12.py) lays buffers out in it, so the
 * numbers in the view ARE the pointers the library sees.  Two pointer values are symbolic:
 * FN_TOKEN in cipher_func/hash_func is replaced by the address of a harness callback.
 *
 * What the harness needs from the library internals: nothing but the header.  mb_mgr_job_check.h
 * includes error.h, which declares `extern volatile int imb_errno` (not exported by the shared
 * object): the harness defines its own instance.
 */
#define _GNU_SOURCE
#include <stdio.h>
#include <stdlib.h>
#include <string.h>
#include <stdint.h>
#include <errno.h>
#include <signal.h>
#include <setjmp.h>
#include <unistd.h>
#include <sys/mman.h>
#include <sys/wait.h>

#include "intel-ipsec-mb.h"

volatile int imb_errno; /* satisfies include/error.h; private to the harness copy of the checker */
#include "include/mb_mgr_job_check.h"

#define ARENA_BASE 0x100000000000ULL
#define ARENA_SIZE 0x100000ULL /* 1 MiB */
#define FN_TOKEN (ARENA_BASE + 0xFF000ULL)

#define NF 32
#define MAXSEGS 64

struct view {
        uint64_t f[NF];
        uint64_t nsegs;
        uint64_t seg[MAXSEGS][3];
};

static uint8_t *arena;
static uint8_t *pristine; /* deterministic fill of the arena */
static uint8_t *shadow;   /* pristine + memory-view writes of the current case */

static int
in_arena(uint64_t a, uint64_t len)
{
        return a >= ARENA_BASE && a <= ARENA_BASE + ARENA_SIZE && len <= ARENA_BASE + ARENA_SIZE - a;
}

static void
map_arena(void)
{
        void *p = mmap((void *) ARENA_BASE, ARENA_SIZE, PROT_READ | PROT_WRITE,
                       MAP_PRIVATE | MAP_ANONYMOUS | MAP_FIXED_NOREPLACE, -1, 0);
        if (p != (void *) ARENA_BASE) {
                fprintf(stderr, "k12: cannot map arena at %llx\n", (unsigned long long) ARENA_BASE);
                exit(3);
        }
        arena = p;
        pristine = malloc(ARENA_SIZE);
        shadow = malloc(ARENA_SIZE);
        uint64_t s = 0x9E3779B97F4A7C15ULL;
        for (size_t i = 0; i < ARENA_SIZE; i += 8) {
                s += 0x9E3779B97F4A7C15ULL;
                uint64_t z = s;
                z = (z ^ (z >> 30)) * 0xBF58476D1CE4E5B9ULL;
                z = (z ^ (z >> 27)) * 0x94D049BB133111EBULL;
                z ^= z >> 31;
                memcpy(pristine + i, &z, 8);
        }
        memcpy(arena, pristine, ARENA_SIZE);
        memcpy(shadow, pristine, ARENA_SIZE);
}

static int
parse_line(char *line, struct view *v)
{
        char *p = line, *e;
        for (int i = 0; i < NF; i++) {
                errno = 0;
                v->f[i] = strtoull(p, &e, 10);
                if (e == p || errno)
                        return -1;
                p = e;
        }
        v->nsegs = v->f[31];
        if (v->nsegs > MAXSEGS)
                return -2;
        for (uint64_t i = 0; i < v->nsegs; i++)
                for (int k = 0; k < 3; k++) {
                        v->seg[i][k] = strtoull(p, &e, 10);
                        if (e == p)
                                return -1;
                        p = e;
                }
        while (*p == ' ' || *p == '\n' || *p == '\r' || *p == '\t')
                p++;
        return *p == 0 ? 0 : -1;
}

static int
custom_cipher(IMB_JOB *job)
{
        job->status |= IMB_STATUS_COMPLETED_CIPHER;
        return 0;
}
static int
custom_hash(IMB_JOB *job)
{
        job->status |= IMB_STATUS_COMPLETED_AUTH;
        return 0;
}

/* fill an IMB_JOB from a view: raw slot values */
static void
job_from_view(IMB_JOB *job, const struct view *v)
{
        const uint64_t *f = v->f;
        memset(job, 0, sizeof(*job));
        job->enc_keys = (const void *) f[0];
        job->dec_keys = (const void *) f[1];
        job->key_len_in_bytes = f[2];
        job->src = (const uint8_t *) f[3];
        job->dst = (uint8_t *) f[4];
        job->cipher_start_src_offset_in_bytes = f[5];
        job->msg_len_to_cipher_in_bytes = f[6];
        job->hash_start_src_offset_in_bytes = f[7];
        job->msg_len_to_hash_in_bytes = f[8];
        job->iv = (const uint8_t *) f[9];
        job->iv_len_in_bytes = f[10];
        job->auth_tag_output = (uint8_t *) f[11];
        job->auth_tag_output_len_in_bytes = f[12];
        /* the three words of the hash-specific union */
        job->u.GCM.aad = (const void *) f[13];
        job->u.GCM.aad_len_in_bytes = f[14];
        job->u.GCM.ctx = (struct gcm_context_data *) f[15];
        job->cipher_mode = (IMB_CIPHER_MODE) (uint32_t) f[16];
        job->cipher_direction = (IMB_CIPHER_DIRECTION) (uint32_t) f[17];
        job->hash_alg = (IMB_HASH_ALG) (uint32_t) f[18];
        job->chain_order = (IMB_CHAIN_ORDER) (uint32_t) f[19];
        job->cipher_func = (f[20] == FN_TOKEN) ? custom_cipher : (int (*)(IMB_JOB *)) f[20];
        job->hash_func = (f[21] == FN_TOKEN) ? custom_hash : (int (*)(IMB_JOB *)) f[21];
        job->sgl_state = (IMB_SGL_STATE) (uint32_t) f[22];
        job->cipher_fields.CBCS.next_iv = (void *) f[23];
}

static int track_shadow = 0; /* mode b: keep `shadow` = what the arena must look like if nothing is written */
static struct {
        uint64_t addr;
        size_t n;
} pokes[8 + MAXSEGS];
static int npokes;

static void
poke(uint64_t addr, const void *data, size_t n)
{
        memcpy((void *) addr, data, n);
        if (track_shadow) {
                memcpy(shadow + (addr - ARENA_BASE), data, n);
                pokes[npokes].addr = addr;
                pokes[npokes].n = n;
                npokes++;
        }
}

/* restore arena and shadow to the pristine image: cheap path undoes only the pokes of the last
 * case when the arena is known to equal the shadow */
static void
reset_arena(int arena_equals_shadow)
{
        if (!arena_equals_shadow) {
                memcpy(arena, pristine, ARENA_SIZE);
                memcpy(shadow, pristine, ARENA_SIZE);
        } else {
                for (int i = 0; i < npokes; i++) {
                        const size_t off = pokes[i].addr - ARENA_BASE;
                        memcpy(arena + off, pristine + off, pokes[i].n);
                        memcpy(shadow + off, pristine + off, pokes[i].n);
                }
        }
        npokes = 0;
}

/* Materialise the memory view.  Returns 0 if every read the checker may perform through a pointer
 * is backed by the arena (or the pointer is NULL, which the checker tests first), 1 otherwise
 * (case skipped: the real checker would read unmapped memory). */
static int
apply_memory_view(const struct view *v)
{
        const uint64_t *f = v->f;
        const uint32_t cm = (uint32_t) f[16];
        int unsafe = 0;

        npokes = 0;
        if (cm == IMB_CIPHER_DES3) {
                if (f[0] != 0) {
                        if (in_arena(f[0], 24))
                                poke(f[0], &f[24], 24);
                        else
                                unsafe = 1;
                }
                if (f[1] != 0) {
                        if (in_arena(f[1], 24)) {
                                /* enc_keys == dec_keys is legal ("same key schedule used for enc and dec") */
                                if (f[1] == f[0] && memcmp(&f[24], &f[27], 24) != 0)
                                        unsafe = 1;
                                poke(f[1], &f[27], 24);
                        } else
                                unsafe = 1;
                }
        }
        if (cm == IMB_CIPHER_PON_AES_CNTR && f[3] != 0) {
                const uint64_t a = f[3] + f[7]; /* wraps like the pointer arithmetic in the checker */
                if (in_arena(a, 8))
                        poke(a, &f[30], 8);
                else
                        unsafe = 1;
        }
        if ((cm == IMB_CIPHER_GCM_SGL || cm == IMB_CIPHER_CHACHA20_POLY1305_SGL) &&
            (uint32_t) f[22] == IMB_SGL_ALL && f[3] != 0 && f[4] != 0) {
                if (f[4] != v->nsegs || !in_arena(f[3], 24 * v->nsegs))
                        unsafe = 1;
                else
                        for (uint64_t i = 0; i < v->nsegs; i++)
                                poke(f[3] + 24 * i, v->seg[i], 24);
        }
        if (track_shadow && (cm == IMB_CIPHER_GCM_SGL || cm == IMB_CIPHER_CHACHA20_POLY1305_SGL) && in_arena(f[15], 512)) {
                /* a well-defined (zero) SGL context so that UPDATE/COMPLETE without INIT is harmless */
                static const uint8_t zeros[512];
                poke(f[15], zeros, sizeof(zeros));
        }
        return unsafe;
}

/* ------------------------------------------------------------------ mode a / l */
static int
run_a(const char *path, int light)
{
        FILE *fp = fopen(path, "r");
        if (!fp) {
                perror(path);
                return 2;
        }
        IMB_MGR *mgr = alloc_mb_mgr(0);
        if (!mgr)
                return 2;
        init_mb_mgr_sse(mgr);
        static char line[16384];
        struct view v;
        IMB_JOB job;
        while (fgets(line, sizeof(line), fp)) {
                if (line[0] == '#' || line[0] == '\n')
                        continue;
                int r = parse_line(line, &v);
                if (r) {
                        printf("parse-error %d\n", r);
                        continue;
                }
                if (apply_memory_view(&v)) {
                        printf("skip\n");
                        continue;
                }
                job_from_view(&job, &v);
                imb_set_errno(mgr, 0);
                int inv;
                if (light)
                        inv = is_job_invalid_light(mgr, job.cipher_mode, job.hash_alg, job.cipher_direction,
                                                   job.key_len_in_bytes);
                else
                        inv = is_job_invalid(mgr, &job, job.cipher_mode, job.hash_alg, job.cipher_direction,
                                             job.key_len_in_bytes);
                if (inv) {
                        if (mgr->imb_errno != imb_errno)
                                printf("reject %d global-mismatch %d\n", mgr->imb_errno, imb_errno);
                        else
                                printf("reject %d\n", mgr->imb_errno);
                } else {
                        if (mgr->imb_errno != 0)
                                printf("accept errno-set %d\n", mgr->imb_errno);
                        else
                                printf("accept\n");
                }
        }
        fclose(fp);
        free_mb_mgr(mgr);
        return 0;
}


/* ------------------------------------------------------------------ managers */
struct mgrdesc {
        const char *name;
        IMB_ARCH arch;
        uint64_t flags;
        IMB_MGR *mgr;
};
static struct mgrdesc mgrs[] = {
        { "sse", IMB_ARCH_SSE, 0, NULL },
        { "sse-noshani-nogfni", IMB_ARCH_SSE, IMB_FLAG_SHANI_OFF | IMB_FLAG_GFNI_OFF, NULL },
        { "avx2", IMB_ARCH_AVX2, 0, NULL },
        { "avx2-noshani-nogfni", IMB_ARCH_AVX2, IMB_FLAG_SHANI_OFF | IMB_FLAG_GFNI_OFF, NULL },
        { "avx512", IMB_ARCH_AVX512, 0, NULL },
        { "avx512-noshani-nogfni", IMB_ARCH_AVX512, IMB_FLAG_SHANI_OFF | IMB_FLAG_GFNI_OFF, NULL },
};
#define NMGRS ((int) (sizeof(mgrs) / sizeof(mgrs[0])))

static IMB_MGR *
make_mgr(const struct mgrdesc *d)
{
        IMB_MGR *m = alloc_mb_mgr(d->flags);
        if (!m)
                return NULL;
        switch (d->arch) {
        case IMB_ARCH_SSE:
                init_mb_mgr_sse(m);
                break;
        case IMB_ARCH_AVX2:
                init_mb_mgr_avx2(m);
                break;
        default:
                init_mb_mgr_avx512(m);
                break;
        }
        if (imb_get_errno(m) != 0) {
                free_mb_mgr(m);
                return NULL;
        }
        return m;
}

/* ------------------------------------------------------------------ neighbours */
/* two fixed valid jobs (AES-128-CBC encrypt + HMAC-SHA1-96) living OUTSIDE the arena */
struct nbr {
        DECLARE_ALIGNED(uint32_t ek[15 * 4], 16);
        DECLARE_ALIGNED(uint32_t dk[15 * 4], 16);
        uint8_t iv[16], ipad[20], opad[20];
        uint8_t src[256], dst[256], tag[16];
        uint8_t ref_dst[256], ref_tag[16];
        unsigned len;
};
static struct nbr NA, NB;

static void
nbr_init(IMB_MGR *m, struct nbr *n, unsigned len, uint8_t seed)
{
        uint8_t key[16];
        for (int i = 0; i < 16; i++) {
                key[i] = (uint8_t) (seed * 7 + i);
                n->iv[i] = (uint8_t) (seed * 13 + 3 * i);
        }
        for (int i = 0; i < 20; i++) {
                n->ipad[i] = (uint8_t) (seed + 31 * i);
                n->opad[i] = (uint8_t) (seed * 3 + 17 * i);
        }
        for (unsigned i = 0; i < sizeof(n->src); i++)
                n->src[i] = (uint8_t) (seed ^ (i * 5));
        n->len = len;
        IMB_AES_KEYEXP_128(m, key, n->ek, n->dk);
}
static void
nbr_fill(IMB_JOB *j, struct nbr *n)
{
        memset(j, 0, sizeof(*j));
        memset(n->dst, 0xA5, sizeof(n->dst));
        memset(n->tag, 0x5A, sizeof(n->tag));
        j->cipher_mode = IMB_CIPHER_CBC;
        j->cipher_direction = IMB_DIR_ENCRYPT;
        j->chain_order = IMB_ORDER_CIPHER_HASH;
        j->hash_alg = IMB_AUTH_HMAC_SHA_1;
        j->enc_keys = n->ek;
        j->dec_keys = n->dk;
        j->key_len_in_bytes = 16;
        j->src = n->src;
        j->dst = n->dst;
        j->msg_len_to_cipher_in_bytes = n->len;
        j->msg_len_to_hash_in_bytes = n->len;
        j->iv = n->iv;
        j->iv_len_in_bytes = 16;
        j->auth_tag_output = n->tag;
        j->auth_tag_output_len_in_bytes = 12;
        j->u.HMAC._hashed_auth_key_xor_ipad = n->ipad;
        j->u.HMAC._hashed_auth_key_xor_opad = n->opad;
}
static int
nbr_ok(const IMB_JOB *j, const struct nbr *n)
{
        return j->status == IMB_STATUS_COMPLETED && memcmp(n->dst, n->ref_dst, sizeof(n->dst)) == 0 &&
               memcmp(n->tag, n->ref_tag, sizeof(n->tag)) == 0;
}
static int
nbr_reference(IMB_MGR *m, struct nbr *n)
{
        IMB_JOB *j = IMB_GET_NEXT_JOB(m);
        nbr_fill(j, n);
        IMB_JOB *r = IMB_SUBMIT_JOB(m);
        if (!r)
                r = IMB_FLUSH_JOB(m);
        if (!r || r->status != IMB_STATUS_COMPLETED)
                return -1;
        memcpy(n->ref_dst, n->dst, sizeof(n->dst));
        memcpy(n->ref_tag, n->tag, sizeof(n->tag));
        while (IMB_FLUSH_JOB(m))
                ;
        return 0;
}

/* ------------------------------------------------------------------ fault containment */
static sigjmp_buf fault_env;
static volatile sig_atomic_t fault_armed, fault_sig;
static void
fault_handler(int sig)
{
        if (fault_armed) {
                fault_sig = sig;
                siglongjmp(fault_env, 1);
        }
        signal(sig, SIG_DFL);
        raise(sig);
}
static void
install_fault_handlers(void)
{
        struct sigaction sa;
        static uint8_t altstack[1 << 16];
        stack_t ss = { .ss_sp = altstack, .ss_size = sizeof(altstack), .ss_flags = 0 };
        sigaltstack(&ss, NULL);
        memset(&sa, 0, sizeof(sa));
        sa.sa_handler = fault_handler;
        sa.sa_flags = SA_NODEFER | SA_ONSTACK;
        sigaction(SIGSEGV, &sa, NULL);
        sigaction(SIGBUS, &sa, NULL);
        sigaction(SIGILL, &sa, NULL);
        sigaction(SIGFPE, &sa, NULL);
        sigaction(SIGALRM, &sa, NULL);
}

/* descriptor comparison: everything but the status word (offset of `status`, 4 bytes) */
static int
desc_changed(const IMB_JOB *now, const IMB_JOB *before)
{
        IMB_JOB a = *now, b = *before;
        a.status = b.status = 0;
        return memcmp(&a, &b, sizeof(a)) != 0;
}

/* ------------------------------------------------------------------ mode b */
/* One record per (case, manager, api):
 *   R <case> <mgr> job   status=<s> errno=<e> ret=<k> desc=<0|1> arena=<0|1> nbr=<0|1> order=<0|1> fault=<sig|0>
 *   R <case> <mgr> burst status=<s> errno=<e> ret=<n> desc=<0|1> arena=<0|1> nbr=<0|1> order=<0|1 = jobs[0] is not the invalid job> fault=<sig|0>
 * desc  = descriptor bytes other than `status` changed between fill and hand-back
 * arena = some byte of the caller buffers (the whole arena) differs from pristine+view
 * nbr   = a neighbour valid job (one before, one after) did not complete with its reference output */
static int
run_case_job(IMB_MGR *m, const struct view *v, int *status, int *err, int *ret_desc, int *nbr_bad, int *order_bad)
{
        IMB_JOB *pa, *pv, *pb, *seq[8];
        IMB_JOB snap;
        int nseq = 0;
        IMB_JOB *r;

        pa = IMB_GET_NEXT_JOB(m);
        nbr_fill(pa, &NA);
        r = IMB_SUBMIT_JOB(m);
        if (r)
                seq[nseq++] = r;
        pv = IMB_GET_NEXT_JOB(m);
        job_from_view(pv, v);
        snap = *pv;
        r = IMB_SUBMIT_JOB(m);
        *err = imb_get_errno(m);
        if (r)
                seq[nseq++] = r;
        *status = pv->status; /* status right after submission */
        pb = IMB_GET_NEXT_JOB(m);
        nbr_fill(pb, &NB);
        r = IMB_SUBMIT_JOB(m);
        if (r)
                seq[nseq++] = r;
        while (nseq < 8 && (r = IMB_FLUSH_JOB(m)) != NULL)
                seq[nseq++] = r;
        *order_bad = !(nseq == 3 && seq[0] == pa && seq[1] == pv && seq[2] == pb);
        *nbr_bad = !(nbr_ok(pa, &NA) && nbr_ok(pb, &NB));
        if (*status != IMB_STATUS_INVALID_ARGS)
                *status = pv->status; /* final status of an accepted job */
        *ret_desc = desc_changed(pv, &snap);
        return 0;
}

static int
run_case_burst(IMB_MGR *m, const struct view *v, int *status, int *err, int *ret, int *ret_desc, int *nbr_bad,
               int *first_not_invalid)
{
        IMB_JOB *jobs[IMB_MAX_BURST_SIZE];
        IMB_JOB *pa, *pv, *pb, snap;
        uint32_t n, got;

        n = IMB_GET_NEXT_BURST(m, 3, jobs);
        if (n != 3)
                return -1;
        pa = jobs[0];
        pv = jobs[1];
        pb = jobs[2];
        nbr_fill(pa, &NA);
        job_from_view(pv, v);
        nbr_fill(pb, &NB);
        imb_set_session(m, pa);
        imb_set_session(m, pv); /* fails for jobs the light check rejects: suite id stays 0 */
        imb_set_session(m, pb);
        snap = *pv;
        got = IMB_SUBMIT_BURST(m, 3, jobs);
        *err = imb_get_errno(m);
        *ret = (int) got;
        *first_not_invalid = 0;
        if (got == 0 && *err != 0 && jobs[0]->status == IMB_STATUS_INVALID_ARGS) {
                /* rejected burst: nothing may have been processed.  (errno alone is not a reliable
                 * sign of rejection: an ACCEPTED job can leave an error code behind, e.g. when the
                 * SGL path forwards a NULL key to the direct API.) */
                *first_not_invalid = (jobs[0] != pv);
                *status = pv->status;
                *ret_desc = desc_changed(pv, &snap);
                int untouched = 1;
                for (unsigned i = 0; i < sizeof(NA.dst); i++)
                        if (NA.dst[i] != 0xA5 || NB.dst[i] != 0xA5)
                                untouched = 0;
                /* the two valid jobs on their own must still work */
                n = IMB_GET_NEXT_BURST(m, 2, jobs);
                if (n != 2)
                        return -2;
                pa = jobs[0];
                pb = jobs[1];
                nbr_fill(pa, &NA);
                nbr_fill(pb, &NB);
                imb_set_session(m, pa);
                imb_set_session(m, pb);
                got = IMB_SUBMIT_BURST(m, 2, jobs);
                if (imb_get_errno(m) != 0)
                        return -3;
                while (got < 2) {
                        uint32_t k = IMB_FLUSH_BURST(m, 2 - got, jobs);
                        if (k == 0)
                                break;
                        got += k;
                }
                *nbr_bad = !(untouched && got == 2 && nbr_ok(pa, &NA) && nbr_ok(pb, &NB));
                return 0;
        }
        while (got < 3) {
                uint32_t k = IMB_FLUSH_BURST(m, 3 - got, jobs);
                if (k == 0)
                        break;
                got += k;
        }
        *status = pv->status;
        *ret_desc = desc_changed(pv, &snap);
        *nbr_bad = !(got == 3 && nbr_ok(pa, &NA) && nbr_ok(pb, &NB));
        return 0;
}

static int
run_b(const char *path)
{
        FILE *fp = fopen(path, "r");
        if (!fp) {
                perror(path);
                return 2;
        }
        track_shadow = 1;
        install_fault_handlers();
        /* reference outputs of the two neighbour jobs: computed on every manager, must agree */
        {
                uint8_t first[2][256 + 16];
                int have = 0;
                for (int i = 0; i < NMGRS; i++) {
                        mgrs[i].mgr = make_mgr(&mgrs[i]);
                        if (!mgrs[i].mgr) {
                                printf("M %s unavailable\n", mgrs[i].name);
                                continue;
                        }
                        if (nbr_reference(mgrs[i].mgr, &NA) || nbr_reference(mgrs[i].mgr, &NB)) {
                                printf("M %s reference-failed\n", mgrs[i].name);
                                mgrs[i].mgr = NULL;
                                continue;
                        }
                        uint8_t cur[2][256 + 16];
                        memcpy(cur[0], NA.ref_dst, 256);
                        memcpy(cur[0] + 256, NA.ref_tag, 16);
                        memcpy(cur[1], NB.ref_dst, 256);
                        memcpy(cur[1] + 256, NB.ref_tag, 16);
                        if (!have) {
                                memcpy(first, cur, sizeof(first));
                                have = 1;
                        }
                        printf("M %s %s\n", mgrs[i].name, memcmp(first, cur, sizeof(first)) == 0 ? "ok" : "reference-differs");
                }
        }
        static char line[16384];
        struct view v;
        long caseno = -1;
        int clean = 0;
        while (fgets(line, sizeof(line), fp)) {
                if (line[0] == '#' || line[0] == '\n')
                        continue;
                caseno++;
                if (parse_line(line, &v)) {
                        printf("R %ld - parse-error\n", caseno);
                        continue;
                }
                for (int mi = 0; mi < NMGRS; mi++) {
                        for (int api = 0; api < 2; api++) {
                                IMB_MGR *m = mgrs[mi].mgr;
                                if (!m)
                                        continue;
                                reset_arena(clean);
                                clean = 0;
                                if (apply_memory_view(&v)) {
                                        printf("R %ld %s %s skip-unsafe-view\n", caseno, mgrs[mi].name, api ? "burst" : "job");
                                        reset_arena(0);
                                        continue;
                                }
                                int status = -1, err = -1, ret = -1, dchg = 0, nbr_bad = 0, ord = 0, rc = 0;
                                fault_sig = 0;
                                if (sigsetjmp(fault_env, 1) == 0) {
                                        fault_armed = 1;
                                        alarm(20);
                                        if (api == 0)
                                                rc = run_case_job(m, &v, &status, &err, &dchg, &nbr_bad, &ord);
                                        else
                                                rc = run_case_burst(m, &v, &status, &err, &ret, &dchg, &nbr_bad, &ord);
                                        alarm(0);
                                        fault_armed = 0;
                                } else {
                                        /* the library faulted while handling this case: manager state is lost */
                                        alarm(0);
                                        fault_armed = 0;
                                        mgrs[mi].mgr = make_mgr(&mgrs[mi]); /* old one is leaked on purpose */
                                        m = mgrs[mi].mgr;
                                        if (m) {
                                                nbr_init(m, &NA, 64, 1);
                                                nbr_init(m, &NB, 128, 2);
                                        }
                                }
                                /* leave nothing behind for the next case */
                                if (m && !fault_sig) {
                                        int guard = 0;
                                        while (IMB_FLUSH_JOB(m) != NULL && guard++ < 512)
                                                ;
                                        if (IMB_QUEUE_SIZE(m) != 0) {
                                                mgrs[mi].mgr = make_mgr(&mgrs[mi]);
                                                rc = rc ? rc : -8;
                                        }
                                }
                                const int achg = memcmp(arena, shadow, ARENA_SIZE) != 0;
                                clean = !achg;
                                printf("R %ld %s %s status=%d errno=%d ret=%d desc=%d arena=%d nbr=%d order=%d fault=%d rc=%d\n",
                                       caseno, mgrs[mi].name, api ? "burst" : "job", status, err, ret, dchg, achg, nbr_bad, ord,
                                       (int) fault_sig, rc);
                        }
                }
        }
        fclose(fp);
        return 0;
}

/* ------------------------------------------------------------------ mode m: misuse of the burst calls */
static void
m_line(const char *mgr, const char *what, int ok, int ret, int err, int exp_err, const char *extra)
{
        printf("U %s %-28s ret=%d errno=%d expected=%d %s %s\n", mgr, what, ret, err, exp_err, extra, ok ? "OK" : "FAIL");
}

/* after every misuse a well-formed burst of the two neighbours must still give reference output */
static int
good_burst(IMB_MGR *m)
{
        IMB_JOB *jobs[4];
        uint32_t n = IMB_GET_NEXT_BURST(m, 2, jobs), got;
        if (n != 2)
                return 0;
        IMB_JOB *pa = jobs[0], *pb = jobs[1];
        nbr_fill(pa, &NA);
        nbr_fill(pb, &NB);
        imb_set_session(m, pa);
        imb_set_session(m, pb);
        got = IMB_SUBMIT_BURST(m, 2, jobs);
        if (imb_get_errno(m) != 0)
                return 0;
        while (got < 2) {
                uint32_t k = IMB_FLUSH_BURST(m, 2 - got, jobs);
                if (!k)
                        break;
                got += k;
        }
        return got == 2 && nbr_ok(pa, &NA) && nbr_ok(pb, &NB);
}

static void
run_m_one(const struct mgrdesc *d, IMB_MGR *m)
{
        IMB_JOB *jobs[IMB_MAX_BURST_SIZE + 2];
        uint32_t n;
        int e, ok;

        nbr_init(m, &NA, 64, 1);
        nbr_init(m, &NB, 128, 2);
        if (nbr_reference(m, &NA) || nbr_reference(m, &NB)) {
                printf("U %s reference-failed FAIL\n", d->name);
                return;
        }
        /* 1. NULL array */
        n = IMB_SUBMIT_BURST(m, 1, NULL);
        e = imb_get_errno(m);
        ok = (n == 0 && e == IMB_ERR_NULL_BURST) && good_burst(m);
        m_line(d->name, "submit_burst(jobs=NULL)", ok, (int) n, e, IMB_ERR_NULL_BURST, "");
        n = IMB_GET_NEXT_BURST(m, 1, NULL);
        e = imb_get_errno(m);
        ok = (n == 0 && e == IMB_ERR_NULL_BURST) && good_burst(m);
        m_line(d->name, "get_next_burst(jobs=NULL)", ok, (int) n, e, IMB_ERR_NULL_BURST, "");
        n = IMB_FLUSH_BURST(m, 1, NULL);
        e = imb_get_errno(m);
        ok = (n == 0 && e == IMB_ERR_NULL_BURST) && good_burst(m);
        m_line(d->name, "flush_burst(jobs=NULL)", ok, (int) n, e, IMB_ERR_NULL_BURST, "");
        /* 2. oversize */
        IMB_GET_NEXT_BURST(m, 2, jobs);
        n = IMB_SUBMIT_BURST(m, IMB_MAX_BURST_SIZE + 1, jobs);
        e = imb_get_errno(m);
        ok = (n == 0 && e == IMB_ERR_BURST_SIZE) && good_burst(m);
        m_line(d->name, "submit_burst(n=MAX+1)", ok, (int) n, e, IMB_ERR_BURST_SIZE, "");
        n = IMB_GET_NEXT_BURST(m, IMB_MAX_BURST_SIZE + 1, jobs);
        e = imb_get_errno(m);
        ok = (n == 0 && e == IMB_ERR_BURST_SIZE) && good_burst(m);
        m_line(d->name, "get_next_burst(n=MAX+1)", ok, (int) n, e, IMB_ERR_BURST_SIZE, "");
        /* 3. NULL job pointer inside the array */
        IMB_GET_NEXT_BURST(m, 2, jobs);
        nbr_fill(jobs[0], &NA);
        imb_set_session(m, jobs[0]);
        jobs[1] = NULL;
        n = IMB_SUBMIT_BURST(m, 2, jobs);
        e = imb_get_errno(m);
        ok = (n == 0 && e == IMB_ERR_NULL_JOB && NA.dst[0] == 0xA5 && NA.dst[63] == 0xA5) && good_burst(m);
        m_line(d->name, "submit_burst(jobs[1]=NULL)", ok, (int) n, e, IMB_ERR_NULL_JOB, "first-job-untouched");
        /* 4. jobs out of order */
        IMB_GET_NEXT_BURST(m, 2, jobs);
        {
                IMB_JOB *t = jobs[0];
                jobs[0] = jobs[1];
                jobs[1] = t;
                nbr_fill(jobs[0], &NA);
                nbr_fill(jobs[1], &NB);
                imb_set_session(m, jobs[0]);
                imb_set_session(m, jobs[1]);
                IMB_JOB *bad = jobs[0];
                n = IMB_SUBMIT_BURST(m, 2, jobs);
                e = imb_get_errno(m);
                ok = (n == 0 && e == IMB_ERR_BURST_OOO && jobs[0] == bad && bad->status == IMB_STATUS_INVALID_ARGS &&
                      NA.dst[0] == 0xA5 && NB.dst[0] == 0xA5) &&
                     good_burst(m);
                m_line(d->name, "submit_burst(out of order)", ok, (int) n, e, IMB_ERR_BURST_OOO, "nothing-processed");
        }
        /* 5. valid job whose suite id was not set (imb_set_session not called) */
        IMB_GET_NEXT_BURST(m, 1, jobs);
        nbr_fill(jobs[0], &NA);
        {
                IMB_JOB *bad = jobs[0];
                n = IMB_SUBMIT_BURST(m, 1, jobs);
                e = imb_get_errno(m);
                ok = (n == 0 && e == IMB_ERR_BURST_SUITE_ID && bad->status == IMB_STATUS_INVALID_ARGS && NA.dst[0] == 0xA5) &&
                     good_burst(m);
                m_line(d->name, "submit_burst(no set_session)", ok, (int) n, e, IMB_ERR_BURST_SUITE_ID, "nothing-processed");
        }
        /* 6. not enough space in the queue: one job that stays in flight (a single HMAC lane does not
         *    complete on its own) followed by NULL/NULL jobs that complete but cannot be returned
         *    before it; then a burst larger than the remaining space */
        {
                IMB_JOB *j = IMB_GET_NEXT_JOB(m);
                int queued = 0, returned = 0;
                nbr_fill(j, &NA);
                j->cipher_mode = IMB_CIPHER_NULL;
                if (IMB_SUBMIT_JOB(m))
                        returned++;
                queued++;
                for (int i = 0; i < 200; i++) {
                        j = IMB_GET_NEXT_JOB(m);
                        memset(j, 0, sizeof(*j));
                        j->cipher_mode = IMB_CIPHER_NULL;
                        j->hash_alg = IMB_AUTH_NULL;
                        j->cipher_direction = IMB_DIR_ENCRYPT;
                        j->chain_order = IMB_ORDER_CIPHER_HASH;
                        if (IMB_SUBMIT_JOB(m))
                                returned++;
                        queued++;
                }
                const uint32_t qs = IMB_QUEUE_SIZE(m);
                n = IMB_GET_NEXT_BURST(m, 128, jobs);
                const uint32_t avail = n;
                uint32_t r2 = IMB_SUBMIT_BURST(m, 128, jobs);
                e = imb_get_errno(m);
                char extra[96];
                snprintf(extra, sizeof(extra), "queue=%u offered=%u returned-early=%d", qs, avail, returned);
                int flushed = 0;
                while (IMB_FLUSH_JOB(m))
                        flushed++;
                ok = (qs > 128 && avail < 128 && r2 == 0 && e == IMB_ERR_QUEUE_SPACE && flushed == (int) qs) && good_burst(m);
                m_line(d->name, "submit_burst(n>space)", ok, (int) r2, e, IMB_ERR_QUEUE_SPACE, extra);
        }
        /* 7. synchronous cipher burst with an invalid job in the middle / NULL array / bad cipher */
        {
                static IMB_JOB cj[3];
                static uint8_t d0[64], d1[64], d2[64];
                uint8_t *dd[3] = { d0, d1, d2 };
                for (int i = 0; i < 3; i++) {
                        nbr_fill(&cj[i], &NA);
                        cj[i].hash_alg = IMB_AUTH_NULL;
                        memset(dd[i], 0xA5, 64);
                        cj[i].dst = dd[i];
                }
                cj[1].src = NULL;
                n = IMB_SUBMIT_CIPHER_BURST(m, cj, 3, IMB_CIPHER_CBC, IMB_DIR_ENCRYPT, IMB_KEY_128_BYTES);
                e = imb_get_errno(m);
                int untouched = 1;
                for (int i = 0; i < 3; i++)
                        for (int k = 0; k < 64; k++)
                                if (dd[i][k] != 0xA5)
                                        untouched = 0;
                ok = (n == 0 && e == IMB_ERR_JOB_NULL_SRC && cj[1].status == IMB_STATUS_INVALID_ARGS && untouched);
                cj[1].src = NA.src;
                n = IMB_SUBMIT_CIPHER_BURST(m, cj, 3, IMB_CIPHER_CBC, IMB_DIR_ENCRYPT, IMB_KEY_128_BYTES);
                ok = ok && n == 3 && imb_get_errno(m) == 0 && memcmp(d0, NA.ref_dst, 64) == 0 && memcmp(d2, NA.ref_dst, 64) == 0;
                m_line(d->name, "cipher_burst(job[1].src=NULL)", ok, (int) n, e, IMB_ERR_JOB_NULL_SRC, "none-processed-then-ok");
                n = IMB_SUBMIT_CIPHER_BURST(m, NULL, 3, IMB_CIPHER_CBC, IMB_DIR_ENCRYPT, IMB_KEY_128_BYTES);
                e = imb_get_errno(m);
                m_line(d->name, "cipher_burst(jobs=NULL)", n == 0 && e == IMB_ERR_NULL_BURST, (int) n, e, IMB_ERR_NULL_BURST, "");
                n = IMB_SUBMIT_CIPHER_BURST(m, cj, 3, IMB_CIPHER_DES, IMB_DIR_ENCRYPT, IMB_KEY_128_BYTES);
                e = imb_get_errno(m);
                m_line(d->name, "cipher_burst(cipher=DES)", n == 0 && e == IMB_ERR_CIPH_MODE, (int) n, e, IMB_ERR_CIPH_MODE, "");
        }
        /* 8. synchronous hash burst with an invalid job / unsupported hash */
        {
                static IMB_JOB hj[3];
                static uint8_t t0[16], t1[16], t2[16];
                uint8_t *tt[3] = { t0, t1, t2 };
                for (int i = 0; i < 3; i++) {
                        nbr_fill(&hj[i], &NA);
                        hj[i].cipher_mode = IMB_CIPHER_NULL;
                        memset(tt[i], 0x5A, 16);
                        hj[i].auth_tag_output = tt[i];
                }
                hj[1].auth_tag_output_len_in_bytes = 13;
                n = IMB_SUBMIT_HASH_BURST(m, hj, 3, IMB_AUTH_HMAC_SHA_1);
                e = imb_get_errno(m);
                int untouched = 1;
                for (int i = 0; i < 3; i++)
                        for (int k = 0; k < 16; k++)
                                if (tt[i][k] != 0x5A)
                                        untouched = 0;
                ok = (n == 0 && e == IMB_ERR_JOB_AUTH_TAG_LEN && hj[1].status == IMB_STATUS_INVALID_ARGS && untouched);
                m_line(d->name, "hash_burst(job[1].tag_len=13)", ok, (int) n, e, IMB_ERR_JOB_AUTH_TAG_LEN, "none-processed");
                n = IMB_SUBMIT_HASH_BURST(m, hj, 3, IMB_AUTH_AES_XCBC);
                e = imb_get_errno(m);
                m_line(d->name, "hash_burst(hash=XCBC)", n == 0 && e == IMB_ERR_HASH_ALGO, (int) n, e, IMB_ERR_HASH_ALGO, "");
        }
}

static int
run_m(void)
{
        install_fault_handlers();
        for (int i = 0; i < NMGRS; i++) {
                IMB_MGR *m = make_mgr(&mgrs[i]);
                if (!m) {
                        printf("M %s unavailable\n", mgrs[i].name);
                        continue;
                }
                fault_sig = 0;
                if (sigsetjmp(fault_env, 1) == 0) {
                        fault_armed = 1;
                        alarm(30);
                        run_m_one(&mgrs[i], m);
                        alarm(0);
                        fault_armed = 0;
                } else {
                        fault_armed = 0;
                        printf("U %s fault signal=%d FAIL\n", mgrs[i].name, (int) fault_sig);
                }
        }
        return 0;
}

/*@@DIRECT_TABLE@@*/

int
main(int argc, char **argv)
{
        if (argc < 2) {
                fprintf(stderr, "usage: k12_validate a|l|b <cases> | m | d\n");
                return 2;
        }
        setvbuf(stdout, NULL, _IOFBF, 1 << 16);
        map_arena();
        if ((argv[1][0] == 'a' || argv[1][0] == 'l') && argc >= 3)
                return run_a(argv[2], argv[1][0] == 'l');
        if (argv[1][0] == 'b' && argc >= 3) {
                /* neighbours are initialised per manager inside nbr_reference users */
                IMB_MGR *m0 = alloc_mb_mgr(0);
                init_mb_mgr_sse(m0);
                nbr_init(m0, &NA, 64, 1);
                nbr_init(m0, &NB, 128, 2);
                return run_b(argv[2]);
        }
        if (argv[1][0] == 'm')
                return run_m();
        fprintf(stderr, "unknown mode\n");
        return 2;
}
