/* harness/k12_validate.c -- C12: parameter checking.
 *
 * Modes
 *   a <cases>   translator validation: for every job_view line build the IMB_JOB (and the memory the
 *               checker reads through pointers) and call the REAL is_job_invalid() from
 *               lib/include/mb_mgr_job_check.h (static inline, compiled here from the /repo header)
 *               exactly like submit_job_and_check() does; print `accept` / `reject <errno>`.
 *   l <cases>   same for is_job_invalid_light() (as called by imb_set_session()).
 *   b <cases> [<selector>]
 *               behaviour through the public API of the rebuilt library (job API, async burst API and
 *               the synchronous cipher / hash / AEAD burst API) on every manager (sse/avx2/avx512 x
 *               flags 0 / SHANI_OFF|GFNI_OFF); prints one result record per (case, manager, api[, burst
 *               layout]); see print format at run_b() and run_sync().  <selector>: one character per
 *               case, '0' = job + async burst, '1' = all three, '2' / '3' = synchronous burst only (on a
 *               rotating pair of managers / on all).
 *   i <cases>   suite id of every job_view as computed by the library (IMB_MGR.set_suite_id); compared with
 *               the translated calc_cipher_tab_index / set_cipher_suite_id
 *   s           checked async burst with right / stale suite-id words (see run_s)
 *   m           misuse of the burst calls (NULL array, oversize, NULL job, out-of-order job, stale
 *               suite id, queue space) + invalid job inside the synchronous cipher/hash bursts.
 *   d           direct-API NULL / over-limit argument table, each row in a forked child.
 *
 * Case line format: see ocaml/validate_driver.ml (32 + 3*nsegs unsigned decimals).
 *
 * Pointers in a case are real addresses inside an arena that this program maps at a fixed
 * address (ARENA_BASE, ARENA_SIZE) -- the generator (checks/c12.py) lays buffers out in it, so the
 * numbers in the view ARE the pointers the library sees.  Two pointer values are symbolic:
 * FN_TOKEN in cipher_func/hash_func is replaced by the address of a harness callback.
 *
 * What the harness needs from the library internals: nothing but the header.  mb_mgr_job_check.h
 * includes error.h, which declares `extern volatile int imb_errno` (not exported by the shared
 * object): the harness defines its own instance.
 */
#define _GNU_SOURCE
#include <stdio.h>
#include <stdlib.h>
#include <string.h>
#include <stdint.h>
#include <errno.h>
#include <signal.h>
#include <setjmp.h>
#include <unistd.h>
#include <sys/mman.h>
#include <sys/wait.h>

#include "intel-ipsec-mb.h"

volatile int imb_errno; /* satisfies include/error.h; private to the harness copy of the checker */
#include "include/mb_mgr_job_check.h"

#define ARENA_BASE 0x100000000000ULL
#define ARENA_SIZE 0x100000ULL /* 1 MiB */
#define FN_TOKEN (ARENA_BASE + 0xFF000ULL)

#define NF 32
#define MAXSEGS 64

struct view {
        uint64_t f[NF];
        uint64_t nsegs;
        uint64_t seg[MAXSEGS][3];
};

static uint8_t *arena;
static uint8_t *pristine; /* deterministic fill of the arena */
static uint8_t *shadow;   /* pristine + memory-view writes of the current case */

static int
in_arena(uint64_t a, uint64_t len)
{
        return a >= ARENA_BASE && a <= ARENA_BASE + ARENA_SIZE && len <= ARENA_BASE + ARENA_SIZE - a;
}

static void
map_arena(void)
{
        void *p = mmap((void *) ARENA_BASE, ARENA_SIZE, PROT_READ | PROT_WRITE,
                       MAP_PRIVATE | MAP_ANONYMOUS | MAP_FIXED_NOREPLACE, -1, 0);
        if (p != (void *) ARENA_BASE) {
                fprintf(stderr, "k12: cannot map arena at %llx\n", (unsigned long long) ARENA_BASE);
                exit(3);
        }
        arena = p;
        pristine = malloc(ARENA_SIZE);
        shadow = malloc(ARENA_SIZE);
        uint64_t s = 0x9E3779B97F4A7C15ULL;
        for (size_t i = 0; i < ARENA_SIZE; i += 8) {
                s += 0x9E3779B97F4A7C15ULL;
                uint64_t z = s;
                z = (z ^ (z >> 30)) * 0xBF58476D1CE4E5B9ULL;
                z = (z ^ (z >> 27)) * 0x94D049BB133111EBULL;
                z ^= z >> 31;
                memcpy(pristine + i, &z, 8);
        }
        memcpy(arena, pristine, ARENA_SIZE);
        memcpy(shadow, pristine, ARENA_SIZE);
}

static int
parse_line(char *line, struct view *v)
{
        char *p = line, *e;
        for (int i = 0; i < NF; i++) {
                errno = 0;
                v->f[i] = strtoull(p, &e, 10);
                if (e == p || errno)
                        return -1;
                p = e;
        }
        v->nsegs = v->f[31];
        if (v->nsegs > MAXSEGS)
                return -2;
        for (uint64_t i = 0; i < v->nsegs; i++)
                for (int k = 0; k < 3; k++) {
                        v->seg[i][k] = strtoull(p, &e, 10);
                        if (e == p)
                                return -1;
                        p = e;
                }
        while (*p == ' ' || *p == '\n' || *p == '\r' || *p == '\t')
                p++;
        return *p == 0 ? 0 : -1;
}

static int
custom_cipher(IMB_JOB *job)
{
        job->status |= IMB_STATUS_COMPLETED_CIPHER;
        return 0;
}
static int
custom_hash(IMB_JOB *job)
{
        job->status |= IMB_STATUS_COMPLETED_AUTH;
        return 0;
}

/* fill an IMB_JOB from a view: raw slot values */
static void
job_from_view(IMB_JOB *job, const struct view *v)
{
        const uint64_t *f = v->f;
        memset(job, 0, sizeof(*job));
        job->enc_keys = (const void *) f[0];
        job->dec_keys = (const void *) f[1];
        job->key_len_in_bytes = f[2];
        job->src = (const uint8_t *) f[3];
        job->dst = (uint8_t *) f[4];
        job->cipher_start_src_offset_in_bytes = f[5];
        job->msg_len_to_cipher_in_bytes = f[6];
        job->hash_start_src_offset_in_bytes = f[7];
        job->msg_len_to_hash_in_bytes = f[8];
        job->iv = (const uint8_t *) f[9];
        job->iv_len_in_bytes = f[10];
        job->auth_tag_output = (uint8_t *) f[11];
        job->auth_tag_output_len_in_bytes = f[12];
        /* the three words of the hash-specific union */
        job->u.GCM.aad = (const void *) f[13];
        job->u.GCM.aad_len_in_bytes = f[14];
        job->u.GCM.ctx = (struct gcm_context_data *) f[15];
        job->cipher_mode = (IMB_CIPHER_MODE) (uint32_t) f[16];
        job->cipher_direction = (IMB_CIPHER_DIRECTION) (uint32_t) f[17];
        job->hash_alg = (IMB_HASH_ALG) (uint32_t) f[18];
        job->chain_order = (IMB_CHAIN_ORDER) (uint32_t) f[19];
        job->cipher_func = (f[20] == FN_TOKEN) ? custom_cipher : (int (*)(IMB_JOB *)) f[20];
        job->hash_func = (f[21] == FN_TOKEN) ? custom_hash : (int (*)(IMB_JOB *)) f[21];
        job->sgl_state = (IMB_SGL_STATE) (uint32_t) f[22];
        job->cipher_fields.CBCS.next_iv = (void *) f[23];
}

static int track_shadow = 0; /* mode b: keep `shadow` = what the arena must look like if nothing is written */
static struct {
        uint64_t addr;
        size_t n;
} pokes[8 + MAXSEGS];
static int npokes;

static void
poke(uint64_t addr, const void *data, size_t n)
{
        memcpy((void *) addr, data, n);
        if (track_shadow) {
                memcpy(shadow + (addr - ARENA_BASE), data, n);
                pokes[npokes].addr = addr;
                pokes[npokes].n = n;
                npokes++;
        }
}

/* restore arena and shadow to the pristine image: cheap path undoes only the pokes of the last
 * case when the arena is known to equal the shadow */
static void
reset_arena(int arena_equals_shadow)
{
        if (!arena_equals_shadow) {
                memcpy(arena, pristine, ARENA_SIZE);
                memcpy(shadow, pristine, ARENA_SIZE);
        } else {
                for (int i = 0; i < npokes; i++) {
                        const size_t off = pokes[i].addr - ARENA_BASE;
                        memcpy(arena + off, pristine + off, pokes[i].n);
                        memcpy(shadow + off, pristine + off, pokes[i].n);
                }
        }
        npokes = 0;
}

/* Materialise the memory view.  Returns 0 if every read the checker may perform through a pointer
 * is backed by the arena (or the pointer is NULL, which the checker tests first), 1 otherwise
 * (case skipped: the real checker would read unmapped memory). */
static int
apply_memory_view(const struct view *v)
{
        const uint64_t *f = v->f;
        const uint32_t cm = (uint32_t) f[16];
        int unsafe = 0;

        npokes = 0;
        if (cm == IMB_CIPHER_DES3) {
                if (f[0] != 0) {
                        if (in_arena(f[0], 24))
                                poke(f[0], &f[24], 24);
                        else
                                unsafe = 1;
                }
                if (f[1] != 0) {
                        if (in_arena(f[1], 24)) {
                                /* enc_keys == dec_keys is legal ("same key schedule used for enc and dec") */
                                if (f[1] == f[0] && memcmp(&f[24], &f[27], 24) != 0)
                                        unsafe = 1;
                                poke(f[1], &f[27], 24);
                        } else
                                unsafe = 1;
                }
        }
        if (cm == IMB_CIPHER_PON_AES_CNTR && f[3] != 0) {
                const uint64_t a = f[3] + f[7]; /* wraps like the pointer arithmetic in the checker */
                if (in_arena(a, 8))
                        poke(a, &f[30], 8);
                else
                        unsafe = 1;
        }
        if ((cm == IMB_CIPHER_GCM_SGL || cm == IMB_CIPHER_CHACHA20_POLY1305_SGL) &&
            (uint32_t) f[22] == IMB_SGL_ALL && f[3] != 0 && f[4] != 0) {
                if (f[4] != v->nsegs || !in_arena(f[3], 24 * v->nsegs))
                        unsafe = 1;
                else
                        for (uint64_t i = 0; i < v->nsegs; i++)
                                poke(f[3] + 24 * i, v->seg[i], 24);
        }
        if (track_shadow && (cm == IMB_CIPHER_GCM_SGL || cm == IMB_CIPHER_CHACHA20_POLY1305_SGL) && in_arena(f[15], 512)) {
                /* a well-defined (zero) SGL context so that UPDATE/COMPLETE without INIT is harmless */
                static const uint8_t zeros[512];
                poke(f[15], zeros, sizeof(zeros));
        }
        return unsafe;
}

/* ------------------------------------------------------------------ mode a / l */
static int
run_a(const char *path, int light)
{
        FILE *fp = fopen(path, "r");
        if (!fp) {
                perror(path);
                return 2;
        }
        IMB_MGR *mgr = alloc_mb_mgr(0);
        if (!mgr)
                return 2;
        init_mb_mgr_sse(mgr);
        static char line[16384];
        struct view v;
        IMB_JOB job;
        while (fgets(line, sizeof(line), fp)) {
                if (line[0] == '#' || line[0] == '\n')
                        continue;
                int r = parse_line(line, &v);
                if (r) {
                        printf("parse-error %d\n", r);
                        continue;
                }
                if (apply_memory_view(&v)) {
                        printf("skip\n");
                        continue;
                }
                job_from_view(&job, &v);
                imb_set_errno(mgr, 0);
                int inv;
                if (light)
                        inv = is_job_invalid_light(mgr, job.cipher_mode, job.hash_alg, job.cipher_direction,
                                                   job.key_len_in_bytes);
                else
                        inv = is_job_invalid(mgr, &job, job.cipher_mode, job.hash_alg, job.cipher_direction,
                                             job.key_len_in_bytes);
                if (inv) {
                        if (mgr->imb_errno != imb_errno)
                                printf("reject %d global-mismatch %d\n", mgr->imb_errno, imb_errno);
                        else
                                printf("reject %d\n", mgr->imb_errno);
                } else {
                        if (mgr->imb_errno != 0)
                                printf("accept errno-set %d\n", mgr->imb_errno);
                        else
                                printf("accept\n");
                }
        }
        fclose(fp);
        free_mb_mgr(mgr);
        return 0;
}


/* ------------------------------------------------------------------ managers */
struct mgrdesc {
        const char *name;
        IMB_ARCH arch;
        uint64_t flags;
        IMB_MGR *mgr;
};
static struct mgrdesc mgrs[] = {
        { "sse", IMB_ARCH_SSE, 0, NULL },
        { "sse-noshani-nogfni", IMB_ARCH_SSE, IMB_FLAG_SHANI_OFF | IMB_FLAG_GFNI_OFF, NULL },
        { "avx2", IMB_ARCH_AVX2, 0, NULL },
        { "avx2-noshani-nogfni", IMB_ARCH_AVX2, IMB_FLAG_SHANI_OFF | IMB_FLAG_GFNI_OFF, NULL },
        { "avx512", IMB_ARCH_AVX512, 0, NULL },
        { "avx512-noshani-nogfni", IMB_ARCH_AVX512, IMB_FLAG_SHANI_OFF | IMB_FLAG_GFNI_OFF, NULL },
};
#define NMGRS ((int) (sizeof(mgrs) / sizeof(mgrs[0])))

static IMB_MGR *
make_mgr(const struct mgrdesc *d)
{
        IMB_MGR *m = alloc_mb_mgr(d->flags);
        if (!m)
                return NULL;
        switch (d->arch) {
        case IMB_ARCH_SSE:
                init_mb_mgr_sse(m);
                break;
        case IMB_ARCH_AVX2:
                init_mb_mgr_avx2(m);
                break;
        default:
                init_mb_mgr_avx512(m);
                break;
        }
        if (imb_get_errno(m) != 0) {
                free_mb_mgr(m);
                return NULL;
        }
        return m;
}

/* ------------------------------------------------------------------ neighbours */
/* two fixed valid jobs (AES-128-CBC encrypt + HMAC-SHA1-96) living OUTSIDE the arena */
struct nbr {
        DECLARE_ALIGNED(uint32_t ek[15 * 4], 16);
        DECLARE_ALIGNED(uint32_t dk[15 * 4], 16);
        uint8_t iv[16], ipad[20], opad[20];
        uint8_t src[256], dst[256], tag[16];
        uint8_t ref_dst[256], ref_tag[16];
        unsigned len;
};
static struct nbr NA, NB;

static void
nbr_init(IMB_MGR *m, struct nbr *n, unsigned len, uint8_t seed)
{
        uint8_t key[16];
        for (int i = 0; i < 16; i++) {
                key[i] = (uint8_t) (seed * 7 + i);
                n->iv[i] = (uint8_t) (seed * 13 + 3 * i);
        }
        for (int i = 0; i < 20; i++) {
                n->ipad[i] = (uint8_t) (seed + 31 * i);
                n->opad[i] = (uint8_t) (seed * 3 + 17 * i);
        }
        for (unsigned i = 0; i < sizeof(n->src); i++)
                n->src[i] = (uint8_t) (seed ^ (i * 5));
        n->len = len;
        IMB_AES_KEYEXP_128(m, key, n->ek, n->dk);
}
static void
nbr_fill(IMB_JOB *j, struct nbr *n)
{
        memset(j, 0, sizeof(*j));
        memset(n->dst, 0xA5, sizeof(n->dst));
        memset(n->tag, 0x5A, sizeof(n->tag));
        j->cipher_mode = IMB_CIPHER_CBC;
        j->cipher_direction = IMB_DIR_ENCRYPT;
        j->chain_order = IMB_ORDER_CIPHER_HASH;
        j->hash_alg = IMB_AUTH_HMAC_SHA_1;
        j->enc_keys = n->ek;
        j->dec_keys = n->dk;
        j->key_len_in_bytes = 16;
        j->src = n->src;
        j->dst = n->dst;
        j->msg_len_to_cipher_in_bytes = n->len;
        j->msg_len_to_hash_in_bytes = n->len;
        j->iv = n->iv;
        j->iv_len_in_bytes = 16;
        j->auth_tag_output = n->tag;
        j->auth_tag_output_len_in_bytes = 12;
        j->u.HMAC._hashed_auth_key_xor_ipad = n->ipad;
        j->u.HMAC._hashed_auth_key_xor_opad = n->opad;
}
static int
nbr_ok(const IMB_JOB *j, const struct nbr *n)
{
        return j->status == IMB_STATUS_COMPLETED && memcmp(n->dst, n->ref_dst, sizeof(n->dst)) == 0 &&
               memcmp(n->tag, n->ref_tag, sizeof(n->tag)) == 0;
}
static int
nbr_reference(IMB_MGR *m, struct nbr *n)
{
        IMB_JOB *j = IMB_GET_NEXT_JOB(m);
        nbr_fill(j, n);
        IMB_JOB *r = IMB_SUBMIT_JOB(m);
        if (!r)
                r = IMB_FLUSH_JOB(m);
        if (!r || r->status != IMB_STATUS_COMPLETED)
                return -1;
        memcpy(n->ref_dst, n->dst, sizeof(n->dst));
        memcpy(n->ref_tag, n->tag, sizeof(n->tag));
        while (IMB_FLUSH_JOB(m))
                ;
        return 0;
}

/* ------------------------------------------------------------------ fault containment */
static sigjmp_buf fault_env;
static volatile sig_atomic_t fault_armed, fault_sig;
static void
fault_handler(int sig)
{
        if (fault_armed) {
                fault_sig = sig;
                siglongjmp(fault_env, 1);
        }
        signal(sig, SIG_DFL);
        raise(sig);
}
static void
install_fault_handlers(void)
{
        struct sigaction sa;
        static uint8_t altstack[1 << 16];
        stack_t ss = { .ss_sp = altstack, .ss_size = sizeof(altstack), .ss_flags = 0 };
        sigaltstack(&ss, NULL);
        memset(&sa, 0, sizeof(sa));
        sa.sa_handler = fault_handler;
        sa.sa_flags = SA_NODEFER | SA_ONSTACK;
        sigaction(SIGSEGV, &sa, NULL);
        sigaction(SIGBUS, &sa, NULL);
        sigaction(SIGILL, &sa, NULL);
        sigaction(SIGFPE, &sa, NULL);
        sigaction(SIGALRM, &sa, NULL);
}

/* descriptor comparison: everything but the status word (offset of `status`, 4 bytes) */
static int
desc_changed(const IMB_JOB *now, const IMB_JOB *before)
{
        IMB_JOB a = *now, b = *before;
        a.status = b.status = 0;
        return memcmp(&a, &b, sizeof(a)) != 0;
}

/* ------------------------------------------------------------------ mode b */
/* One record per (case, manager, api):
 *   R <case> <mgr> job   status=<s> errno=<e> ret=<k> desc=<0|1> arena=<0|1> nbr=<0|1> order=<0|1> fault=<sig|0>
 *   R <case> <mgr> burst status=<s> errno=<e> ret=<n> desc=<0|1> arena=<0|1> nbr=<0|1> order=<0|1 = jobs[0] is not the invalid job> fault=<sig|0>
 * desc  = descriptor bytes other than `status` changed between fill and hand-back
 * arena = some byte of the caller buffers (the whole arena) differs from pristine+view
 * nbr   = a neighbour valid job (one before, one after) did not complete with its reference output */
static int
run_case_job(IMB_MGR *m, const struct view *v, int *status, int *err, int *ret_desc, int *nbr_bad, int *order_bad)
{
        IMB_JOB *pa, *pv, *pb, *seq[8];
        IMB_JOB snap;
        int nseq = 0;
        IMB_JOB *r;

        pa = IMB_GET_NEXT_JOB(m);
        nbr_fill(pa, &NA);
        r = IMB_SUBMIT_JOB(m);
        if (r)
                seq[nseq++] = r;
        pv = IMB_GET_NEXT_JOB(m);
        job_from_view(pv, v);
        snap = *pv;
        r = IMB_SUBMIT_JOB(m);
        *err = imb_get_errno(m);
        if (r)
                seq[nseq++] = r;
        *status = pv->status; /* status right after submission */
        pb = IMB_GET_NEXT_JOB(m);
        nbr_fill(pb, &NB);
        r = IMB_SUBMIT_JOB(m);
        if (r)
                seq[nseq++] = r;
        while (nseq < 8 && (r = IMB_FLUSH_JOB(m)) != NULL)
                seq[nseq++] = r;
        *order_bad = !(nseq == 3 && seq[0] == pa && seq[1] == pv && seq[2] == pb);
        *nbr_bad = !(nbr_ok(pa, &NA) && nbr_ok(pb, &NB));
        if (*status != IMB_STATUS_INVALID_ARGS)
                *status = pv->status; /* final status of an accepted job */
        *ret_desc = desc_changed(pv, &snap);
        return 0;
}

static int
run_case_burst(IMB_MGR *m, const struct view *v, int *status, int *err, int *ret, int *ret_desc, int *nbr_bad,
               int *first_not_invalid)
{
        IMB_JOB *jobs[IMB_MAX_BURST_SIZE];
        IMB_JOB *pa, *pv, *pb, snap;
        uint32_t n, got;

        n = IMB_GET_NEXT_BURST(m, 3, jobs);
        if (n != 3)
                return -1;
        pa = jobs[0];
        pv = jobs[1];
        pb = jobs[2];
        nbr_fill(pa, &NA);
        job_from_view(pv, v);
        nbr_fill(pb, &NB);
        imb_set_session(m, pa);
        imb_set_session(m, pv); /* fails for jobs the light check rejects: suite id stays 0 */
        imb_set_session(m, pb);
        snap = *pv;
        got = IMB_SUBMIT_BURST(m, 3, jobs);
        *err = imb_get_errno(m);
        *ret = (int) got;
        *first_not_invalid = 0;
        if (got == 0 && *err != 0 && jobs[0]->status == IMB_STATUS_INVALID_ARGS) {
                /* rejected burst: nothing may have been processed.  (errno alone is not a reliable
                 * sign of rejection: an ACCEPTED job can leave an error code behind, e.g. when the
                 * SGL path forwards a NULL key to the direct API.) */
                *first_not_invalid = (jobs[0] != pv);
                *status = pv->status;
                *ret_desc = desc_changed(pv, &snap);
                int untouched = 1;
                for (unsigned i = 0; i < sizeof(NA.dst); i++)
                        if (NA.dst[i] != 0xA5 || NB.dst[i] != 0xA5)
                                untouched = 0;
                /* the two valid jobs on their own must still work */
                n = IMB_GET_NEXT_BURST(m, 2, jobs);
                if (n != 2)
                        return -2;
                pa = jobs[0];
                pb = jobs[1];
                nbr_fill(pa, &NA);
                nbr_fill(pb, &NB);
                imb_set_session(m, pa);
                imb_set_session(m, pb);
                got = IMB_SUBMIT_BURST(m, 2, jobs);
                if (imb_get_errno(m) != 0)
                        return -3;
                while (got < 2) {
                        uint32_t k = IMB_FLUSH_BURST(m, 2 - got, jobs);
                        if (k == 0)
                                break;
                        got += k;
                }
                *nbr_bad = !(untouched && got == 2 && nbr_ok(pa, &NA) && nbr_ok(pb, &NB));
                return 0;
        }
        while (got < 3) {
                uint32_t k = IMB_FLUSH_BURST(m, 3 - got, jobs);
                if (k == 0)
                        break;
                got += k;
        }
        *status = pv->status;
        *ret_desc = desc_changed(pv, &snap);
        *nbr_bad = !(got == 3 && nbr_ok(pa, &NA) && nbr_ok(pb, &NB));
        return 0;
}

/* ------------------------------------------------------------------ mode b, third API kind: "sync"
 * The SYNCHRONOUS burst API (lib/include/mb_mgr_burst.h): the caller owns a contiguous IMB_JOB array and
 * names the algorithm in the call:
 *   kind 1  IMB_SUBMIT_CIPHER_BURST(mgr, jobs, n, cipher, dir, key_size)   CBC / CNTR / ECB / CFB, hash NULL
 *   kind 2  IMB_SUBMIT_HASH_BURST(mgr, jobs, n, hash)                      HMAC-SHA-1..512, SHA-1..512, AES-CMAC{,_BITLEN,_256}
 *   kind 3  IMB_SUBMIT_AEAD_BURST(mgr, jobs, n, cipher, dir, key_size)     AES-CCM
 * A case is applicable when its descriptor names such an algorithm; cipher / dir / key size / hash
 * arguments are taken from the descriptor itself (what a caller following the documentation passes).
 * The descriptor sits at position `pos` of a burst of `n` whose other entries are valid neighbour jobs
 * of the same algorithm / direction / key size (buffers outside the arena).  Layouts: (pos,n) = (0,2),
 * (1,3), (2,3); when the call arguments themselves are unusable for any job (direction not 1/2, key
 * size the algorithm does not have) the case is submitted alone (0,1).  An accepted (1,3) run is
 * repeated through the _NOCHECK entry point (chk=0).
 *
 * One record per run:
 *   R <case> <mgr> sync status=<case job status> errno=<e> ret=<r> desc=<case descriptor changed>
 *        arena=<arena differs from pristine+view> nbr=<see below> order=<see below> fault=<sig|0> rc=<harness>
 *        kind=<1|2|3> pos=<p> n=<n> chk=<1|0> out=<arena differs from the job-API run of the same descriptor | -1 no reference>
 *        refst=<status of that job-API run> referr=<its errno> phase=<1 reference runs | 2 burst call>
 * A run "looks rejected" when ret == 0 and errno != 0.  Then
 *   nbr   = a neighbour descriptor changed (status included), a neighbour dst/tag byte was written, or a
 *           burst of the two neighbours alone does not complete with reference output afterwards
 *   order = the first job with status INVALID_ARGS is not the case (or another job carries it too)
 * otherwise
 *   nbr   = a neighbour is not COMPLETED with its reference output (reference = job API, same manager)
 *   order = 0
 * The reference run of the case descriptor goes through IMB_SUBMIT_JOB on the same manager; for AES-CCM
 * its chain order is set to the one the burst implements (encrypt: hash then cipher; decrypt: cipher
 * then hash) -- the burst call has no chain-order input. */
enum { SYNC_NA = 0, SYNC_CIPHER = 1, SYNC_HASH = 2, SYNC_AEAD = 3 };

static int
sync_kind(const struct view *v)
{
        const uint32_t cm = (uint32_t) v->f[16], ha = (uint32_t) v->f[18];

        if (ha == IMB_AUTH_NULL &&
            (cm == IMB_CIPHER_CBC || cm == IMB_CIPHER_CNTR || cm == IMB_CIPHER_ECB || cm == IMB_CIPHER_CFB))
                return (v->f[2] >> 32) ? SYNC_NA : SYNC_CIPHER; /* key size travels as a 32-bit enum argument */
        if (cm == IMB_CIPHER_NULL)
                switch (ha) {
                case IMB_AUTH_HMAC_SHA_1:
                case IMB_AUTH_HMAC_SHA_224:
                case IMB_AUTH_HMAC_SHA_256:
                case IMB_AUTH_HMAC_SHA_384:
                case IMB_AUTH_HMAC_SHA_512:
                case IMB_AUTH_SHA_1:
                case IMB_AUTH_SHA_224:
                case IMB_AUTH_SHA_256:
                case IMB_AUTH_SHA_384:
                case IMB_AUTH_SHA_512:
                case IMB_AUTH_AES_CMAC:
                case IMB_AUTH_AES_CMAC_BITLEN:
                case IMB_AUTH_AES_CMAC_256:
                        return SYNC_HASH;
                default:
                        return SYNC_NA;
                }
        if (cm == IMB_CIPHER_CCM && ha == IMB_AUTH_AES_CCM)
                return (v->f[2] >> 32) ? SYNC_NA : SYNC_AEAD;
        return SYNC_NA;
}

/* can ANY job be valid under the call arguments the case dictates?  (else no neighbours) */
static int
sync_args_ok(int kind, const struct view *v)
{
        const uint32_t dir = (uint32_t) v->f[17];
        const uint64_t key = v->f[2];

        if (kind == SYNC_HASH)
                return 1;
        if (dir != IMB_DIR_ENCRYPT && dir != IMB_DIR_DECRYPT)
                return 0;
        if (kind == SYNC_CIPHER)
                return key == 16 || key == 24 || key == 32;
        return key == 16 || key == 32;
}

struct snbr {
        DECLARE_ALIGNED(uint8_t ek[16 * 15], 16);
        DECLARE_ALIGNED(uint8_t dk[16 * 15], 16);
        DECLARE_ALIGNED(uint8_t sk[2][16], 16);
        DECLARE_ALIGNED(uint8_t pad[2][64], 16);
        uint8_t iv[16], aad[16];
        uint8_t src[256], dst[256], tag[64];
        uint8_t ref_dst[256], ref_tag[64];
        unsigned len;
};
static struct snbr SN[2];

static void
snbr_init(void)
{
        for (int k = 0; k < 2; k++) {
                struct snbr *n = &SN[k];
                uint8_t *p = (uint8_t *) n;
                uint32_t s = 0x1234567u + 77u * (unsigned) k;
                for (size_t i = 0; i < sizeof(*n); i++) {
                        s = s * 1664525u + 1013904223u;
                        p[i] = (uint8_t) (s >> 24);
                }
                n->len = k ? 128 : 64;
        }
}

static uint64_t
sync_tag_len(uint32_t ha)
{
        switch (ha) {
        case IMB_AUTH_HMAC_SHA_1:
                return 12;
        case IMB_AUTH_HMAC_SHA_224:
                return 14;
        case IMB_AUTH_HMAC_SHA_256:
                return 16;
        case IMB_AUTH_HMAC_SHA_384:
                return 24;
        case IMB_AUTH_HMAC_SHA_512:
                return 32;
        case IMB_AUTH_SHA_1:
                return 20;
        case IMB_AUTH_SHA_224:
                return 28;
        case IMB_AUTH_SHA_256:
                return 32;
        case IMB_AUTH_SHA_384:
                return 48;
        case IMB_AUTH_SHA_512:
                return 64;
        case IMB_AUTH_AES_CMAC_BITLEN:
                return 4;
        default:
                return 16; /* AES-CMAC, AES-CMAC-256 */
        }
}

/* a valid job of the algorithm the case names */
static void
snbr_fill(IMB_JOB *j, struct snbr *n, int kind, const struct view *v)
{
        const uint32_t cm = (uint32_t) v->f[16], dir = (uint32_t) v->f[17], ha = (uint32_t) v->f[18];

        memset(j, 0, sizeof(*j));
        memset(n->dst, 0xA5, sizeof(n->dst));
        memset(n->tag, 0x5A, sizeof(n->tag));
        j->cipher_mode = (IMB_CIPHER_MODE) cm;
        j->hash_alg = (IMB_HASH_ALG) ha;
        j->cipher_direction = (kind == SYNC_HASH) ? IMB_DIR_ENCRYPT : (IMB_CIPHER_DIRECTION) dir;
        j->chain_order = IMB_ORDER_CIPHER_HASH;
        j->enc_keys = n->ek;
        j->dec_keys = n->dk;
        j->key_len_in_bytes = (kind == SYNC_HASH) ? 16 : v->f[2];
        j->src = n->src;
        j->dst = n->dst;
        j->iv = n->iv;
        if (kind == SYNC_CIPHER) {
                j->msg_len_to_cipher_in_bytes = n->len;
                j->iv_len_in_bytes = 16;
        } else if (kind == SYNC_HASH) {
                j->auth_tag_output = n->tag;
                j->auth_tag_output_len_in_bytes = sync_tag_len(ha);
                if (ha == IMB_AUTH_AES_CMAC_BITLEN)
                        j->msg_len_to_hash_in_bits = n->len * 8 - 3;
                else
                        j->msg_len_to_hash_in_bytes = n->len - 3;
                if (ha == IMB_AUTH_AES_CMAC || ha == IMB_AUTH_AES_CMAC_BITLEN || ha == IMB_AUTH_AES_CMAC_256) {
                        j->u.CMAC._key_expanded = n->ek;
                        j->u.CMAC._skey1 = n->sk[0];
                        j->u.CMAC._skey2 = n->sk[1];
                } else {
                        j->u.HMAC._hashed_auth_key_xor_ipad = n->pad[0];
                        j->u.HMAC._hashed_auth_key_xor_opad = n->pad[1];
                }
        } else {
                j->chain_order = (dir == IMB_DIR_ENCRYPT) ? IMB_ORDER_HASH_CIPHER : IMB_ORDER_CIPHER_HASH;
                j->msg_len_to_cipher_in_bytes = n->len - 3;
                j->msg_len_to_hash_in_bytes = n->len - 3;
                j->iv_len_in_bytes = 13;
                j->auth_tag_output = n->tag;
                j->auth_tag_output_len_in_bytes = 8;
                j->u.CCM.aad = n->aad;
                j->u.CCM.aad_len_in_bytes = 12;
        }
}

static int
snbr_reference(IMB_MGR *m, struct snbr *n, int kind, const struct view *v)
{
        IMB_JOB *j = IMB_GET_NEXT_JOB(m);
        snbr_fill(j, n, kind, v);
        IMB_JOB *r = IMB_SUBMIT_JOB(m);
        if (!r)
                r = IMB_FLUSH_JOB(m);
        if (!r || r != j || r->status != IMB_STATUS_COMPLETED)
                return -1;
        memcpy(n->ref_dst, n->dst, sizeof(n->dst));
        memcpy(n->ref_tag, n->tag, sizeof(n->tag));
        while (IMB_FLUSH_JOB(m))
                ;
        return 0;
}
static int
snbr_untouched(const struct snbr *n)
{
        for (unsigned i = 0; i < sizeof(n->dst); i++)
                if (n->dst[i] != 0xA5)
                        return 0;
        for (unsigned i = 0; i < sizeof(n->tag); i++)
                if (n->tag[i] != 0x5A)
                        return 0;
        return 1;
}
static int
snbr_ok(const IMB_JOB *j, const struct snbr *n)
{
        return j->status == IMB_STATUS_COMPLETED && memcmp(n->dst, n->ref_dst, sizeof(n->dst)) == 0 &&
               memcmp(n->tag, n->ref_tag, sizeof(n->tag)) == 0;
}

static uint32_t
sync_call(IMB_MGR *m, int kind, int chk, IMB_JOB *jobs, uint32_t n, const struct view *v)
{
        const IMB_CIPHER_MODE cm = (IMB_CIPHER_MODE) (uint32_t) v->f[16];
        const IMB_CIPHER_DIRECTION dir = (IMB_CIPHER_DIRECTION) (uint32_t) v->f[17];
        const IMB_HASH_ALG ha = (IMB_HASH_ALG) (uint32_t) v->f[18];
        const IMB_KEY_SIZE_BYTES key = (IMB_KEY_SIZE_BYTES) (uint32_t) v->f[2];

        switch (kind) {
        case SYNC_CIPHER:
                return chk ? IMB_SUBMIT_CIPHER_BURST(m, jobs, n, cm, dir, key)
                           : IMB_SUBMIT_CIPHER_BURST_NOCHECK(m, jobs, n, cm, dir, key);
        case SYNC_HASH:
                return chk ? IMB_SUBMIT_HASH_BURST(m, jobs, n, ha) : IMB_SUBMIT_HASH_BURST_NOCHECK(m, jobs, n, ha);
        default:
                return chk ? IMB_SUBMIT_AEAD_BURST(m, jobs, n, cm, dir, key)
                           : IMB_SUBMIT_AEAD_BURST_NOCHECK(m, jobs, n, cm, dir, key);
        }
}

static uint8_t *refarena;         /* arena after the job-API run of the case descriptor */
static volatile int sync_phase;   /* where a fault happened */

/* phase 1: reference runs (job API).  Leaves arena == shadow == pristine + view. */
static void
sync_references(IMB_MGR *m, int mi, int kind, int args_ok, const struct view *v, int *have_ref, int *refst, int *referr, int *nref_ok)
{
        IMB_JOB *j, *r;

        *have_ref = 0;
        *nref_ok = 0;
        j = IMB_GET_NEXT_JOB(m);
        job_from_view(j, v);
        if (kind == SYNC_AEAD)
                j->chain_order = ((uint32_t) v->f[17] == IMB_DIR_ENCRYPT) ? IMB_ORDER_HASH_CIPHER : IMB_ORDER_CIPHER_HASH;
        r = IMB_SUBMIT_JOB(m);
        *referr = imb_get_errno(m);
        if (!r)
                r = IMB_FLUSH_JOB(m);
        *refst = j->status;
        while (IMB_FLUSH_JOB(m))
                ;
        if (r == j && j->status == IMB_STATUS_COMPLETED && *referr == 0) {
                memcpy(refarena, arena, ARENA_SIZE);
                *have_ref = 1;
        }
        if (memcmp(arena, shadow, ARENA_SIZE) != 0) {
                reset_arena(0);
                apply_memory_view(v);
        }
        if (args_ok) {
                /* neighbour references: one job-API run per (manager, algorithm, direction, key size), cached
                 * (consecutive cases mostly name the same algorithm) */
                static struct {
                        int valid, kind;
                        uint32_t cm, dir, ha;
                        uint64_t key;
                        uint8_t dst[2][sizeof(SN[0].ref_dst)], tag[2][sizeof(SN[0].ref_tag)];
                } nc[NMGRS];
                __typeof__(&nc[0]) c = &nc[mi];
                const uint32_t cm = (uint32_t) v->f[16], dir = (uint32_t) v->f[17], ha = (uint32_t) v->f[18];
                if (c->valid && c->kind == kind && c->cm == cm && c->ha == ha && (kind == SYNC_HASH || (c->dir == dir && c->key == v->f[2]))) {
                        for (int k = 0; k < 2; k++) {
                                memcpy(SN[k].ref_dst, c->dst[k], sizeof(SN[k].ref_dst));
                                memcpy(SN[k].ref_tag, c->tag[k], sizeof(SN[k].ref_tag));
                        }
                        *nref_ok = 1;
                } else {
                        c->valid = 0;
                        *nref_ok = (snbr_reference(m, &SN[0], kind, v) == 0 && snbr_reference(m, &SN[1], kind, v) == 0);
                        if (*nref_ok) {
                                c->valid = 1;
                                c->kind = kind;
                                c->cm = cm;
                                c->dir = dir;
                                c->ha = ha;
                                c->key = v->f[2];
                                for (int k = 0; k < 2; k++) {
                                        memcpy(c->dst[k], SN[k].ref_dst, sizeof(SN[k].ref_dst));
                                        memcpy(c->tag[k], SN[k].ref_tag, sizeof(SN[k].ref_tag));
                                }
                        }
                }
        }
}

struct sync_obs {
        int status, err, ret, dchg, nbr, order;
};

/* phase 2: one burst call */
static void
sync_one(IMB_MGR *m, int kind, int chk, unsigned pos, unsigned n, const struct view *v, struct sync_obs *o)
{
        static IMB_JOB sj[3], snap[3];
        struct snbr *who[3] = { NULL, NULL, NULL };
        unsigned k, nn = 0;

        for (k = 0; k < n; k++) {
                if (k == pos)
                        job_from_view(&sj[k], v);
                else {
                        who[k] = &SN[nn++];
                        snbr_fill(&sj[k], who[k], kind, v);
                }
                snap[k] = sj[k];
        }
        o->ret = (int) sync_call(m, kind, chk, sj, n, v);
        o->err = imb_get_errno(m);
        o->status = sj[pos].status;
        o->dchg = desc_changed(&sj[pos], &snap[pos]);
        o->nbr = 0;
        o->order = 0;
        if (o->ret == 0 && o->err != 0) {
                int first = -1, count = 0;
                for (k = 0; k < n; k++) {
                        if (sj[k].status == IMB_STATUS_INVALID_ARGS) {
                                if (first < 0)
                                        first = (int) k;
                                count++;
                        }
                        if (k != pos && (memcmp(&sj[k], &snap[k], sizeof(sj[k])) != 0 || !snbr_untouched(who[k])))
                                o->nbr = 1;
                }
                o->order = (count > 1) || (count == 1 && first != (int) pos);
                if (nn > 0) {
                        /* the valid jobs on their own must still work */
                        static IMB_JOB gj[2];
                        snbr_fill(&gj[0], &SN[0], kind, v);
                        snbr_fill(&gj[1], &SN[1], kind, v);
                        const uint32_t got = sync_call(m, kind, 1, gj, 2, v);
                        if (got != 2 || imb_get_errno(m) != 0 || !snbr_ok(&gj[0], &SN[0]) || !snbr_ok(&gj[1], &SN[1]))
                                o->nbr = 1;
                }
        } else {
                for (k = 0; k < n; k++)
                        if (k != pos && !snbr_ok(&sj[k], who[k]))
                                o->nbr = 1;
        }
}

static void
run_sync(int mi, const struct view *v, long caseno, int *clean)
{
        static const unsigned layouts[3][2] = { { 0, 2 }, { 1, 3 }, { 2, 3 } };
        const int kind = sync_kind(v);
        const int args_ok = sync_args_ok(kind, v);
        IMB_MGR *m = mgrs[mi].mgr;
        int have_ref = 0, refst = -1, referr = -1, nref_ok = 0;
        int nocheck_pending = 0;

        reset_arena(*clean);
        *clean = 0;
        if (apply_memory_view(v)) {
                printf("R %ld %s sync skip-unsafe-view\n", caseno, mgrs[mi].name);
                reset_arena(0);
                return;
        }
        for (int li = -1; li < 4 && m; li++) {
                /* li = -1: reference runs; 0..2: layouts; 3: the (1,3) layout through _NOCHECK */
                struct sync_obs o = { -1, -1, -1, 0, 0, 0 };
                unsigned pos = 0, n = 1;
                int rc = 0, chk = 1;

                if (li >= 0 && li < 3) {
                        if (!args_ok && li > 0)
                                continue;
                        if (args_ok) {
                                pos = layouts[li][0];
                                n = layouts[li][1];
                        }
                } else if (li == 3) {
                        if (!nocheck_pending)
                                continue;
                        pos = 1;
                        n = 3;
                        chk = 0;
                }
                fault_sig = 0;
                if (sigsetjmp(fault_env, 1) == 0) {
                        fault_armed = 1;
                        alarm(20);
                        if (li < 0) {
                                sync_phase = 1;
                                sync_references(m, mi, kind, args_ok, v, &have_ref, &refst, &referr, &nref_ok);
                        } else {
                                sync_phase = 2;
                                sync_one(m, kind, chk, pos, n, v, &o);
                        }
                        alarm(0);
                        fault_armed = 0;
                } else {
                        alarm(0);
                        fault_armed = 0;
                        free_mb_mgr(mgrs[mi].mgr);
                        mgrs[mi].mgr = make_mgr(&mgrs[mi]);
                        m = mgrs[mi].mgr;
                        if (m) {
                                nbr_init(m, &NA, 64, 1);
                                nbr_init(m, &NB, 128, 2);
                        }
                }
                if (m && !fault_sig) {
                        int guard = 0;
                        while (IMB_FLUSH_JOB(m) != NULL && guard++ < 512)
                                ;
                        if (IMB_QUEUE_SIZE(m) != 0) {
                                free_mb_mgr(mgrs[mi].mgr);
                                mgrs[mi].mgr = make_mgr(&mgrs[mi]);
                                m = mgrs[mi].mgr;
                                rc = -8;
                        }
                }
                if (li < 0) {
                        if (fault_sig || rc || (args_ok && !nref_ok)) {
                                /* the job-API reference itself failed: reported, no burst is attempted */
                                printf("R %ld %s sync status=%d errno=%d ret=-1 desc=0 arena=%d nbr=%d order=0 fault=%d rc=%d kind=%d pos=0 "
                                       "n=0 chk=1 out=-1 refst=%d referr=%d phase=1\n",
                                       caseno, mgrs[mi].name, refst, referr, memcmp(arena, shadow, ARENA_SIZE) != 0,
                                       args_ok && !nref_ok, (int) fault_sig, rc ? rc : (fault_sig ? 0 : -9), kind, refst, referr);
                                reset_arena(0);
                                return;
                        }
                        continue;
                }
                const int achg = memcmp(arena, shadow, ARENA_SIZE) != 0;
                const int out = have_ref ? (memcmp(arena, refarena, ARENA_SIZE) != 0) : -1;
                printf("R %ld %s sync status=%d errno=%d ret=%d desc=%d arena=%d nbr=%d order=%d fault=%d rc=%d kind=%d pos=%u n=%u "
                       "chk=%d out=%d refst=%d referr=%d phase=2\n",
                       caseno, mgrs[mi].name, o.status, o.err, o.ret, o.dchg, achg, o.nbr, o.order, (int) fault_sig, rc, kind, pos, n,
                       chk, out, refst, referr);
                if (li == 1 && !fault_sig && o.ret == (int) n && o.err == 0 && o.status == IMB_STATUS_COMPLETED)
                        nocheck_pending = 1;
                if (achg || fault_sig) {
                        reset_arena(0);
                        apply_memory_view(v);
                }
        }
        /* arena == shadow here (pristine + view) unless the manager was lost */
        *clean = (m != NULL);
}

static int
run_b(const char *path, const char *maskpath)
{
        FILE *fp = fopen(path, "r");
        if (!fp) {
                perror(path);
                return 2;
        }
        /* optional per-case selector, one character per case line:
         *   '0' job + async burst only   '1' job + async burst + sync   '2' sync only, on managers k and k+3 (k = case number mod 3)
         *   '3' sync only, every manager     (no file: all '1') */
        char *mask = NULL;
        size_t masklen = 0;
        if (maskpath) {
                FILE *mf = fopen(maskpath, "r");
                if (!mf) {
                        perror(maskpath);
                        return 2;
                }
                fseek(mf, 0, SEEK_END);
                long sz = ftell(mf);
                fseek(mf, 0, SEEK_SET);
                mask = malloc((size_t) sz + 1);
                masklen = fread(mask, 1, (size_t) sz, mf);
                fclose(mf);
                while (masklen && (mask[masklen - 1] == '\n' || mask[masklen - 1] == '\r'))
                        masklen--;
        }
        refarena = malloc(ARENA_SIZE);
        snbr_init();
        printf("E IMB_ERR_JOB_CIPH_DIR %d\n", (int) IMB_ERR_JOB_CIPH_DIR);
        track_shadow = 1;
        install_fault_handlers();
        /* reference outputs of the two neighbour jobs: computed on every manager, must agree */
        {
                uint8_t first[2][256 + 16];
                int have = 0;
                for (int i = 0; i < NMGRS; i++) {
                        mgrs[i].mgr = make_mgr(&mgrs[i]);
                        if (!mgrs[i].mgr) {
                                printf("M %s unavailable\n", mgrs[i].name);
                                continue;
                        }
                        if (nbr_reference(mgrs[i].mgr, &NA) || nbr_reference(mgrs[i].mgr, &NB)) {
                                printf("M %s reference-failed\n", mgrs[i].name);
                                mgrs[i].mgr = NULL;
                                continue;
                        }
                        uint8_t cur[2][256 + 16];
                        memcpy(cur[0], NA.ref_dst, 256);
                        memcpy(cur[0] + 256, NA.ref_tag, 16);
                        memcpy(cur[1], NB.ref_dst, 256);
                        memcpy(cur[1] + 256, NB.ref_tag, 16);
                        if (!have) {
                                memcpy(first, cur, sizeof(first));
                                have = 1;
                        }
                        printf("M %s %s\n", mgrs[i].name, memcmp(first, cur, sizeof(first)) == 0 ? "ok" : "reference-differs");
                }
        }
        static char line[16384];
        struct view v;
        long caseno = -1;
        int clean = 0;
        while (fgets(line, sizeof(line), fp)) {
                if (line[0] == '#' || line[0] == '\n')
                        continue;
                caseno++;
                if (parse_line(line, &v)) {
                        printf("R %ld - parse-error\n", caseno);
                        continue;
                }
                const char sel = mask ? ((size_t) caseno < masklen ? mask[caseno] : '0') : '1';
                const int skind = sync_kind(&v);
                if (sel != '0' && skind == SYNC_NA)
                        printf("R %ld - sync skip-not-applicable\n", caseno);
                for (int mi = 0; mi < NMGRS; mi++) {
                        for (int api = 0; api < 3; api++) {
                                IMB_MGR *m = mgrs[mi].mgr;
                                if (!m)
                                        continue;
                                if (api < 2 && sel == '2')
                                        continue;
                                if (api < 2 && sel == '3')
                                        continue;
                                if (api == 2) {
                                        /* '2': the validation code is one C source compiled per architecture; cases that
                                         * go through the synchronous API only visit a rotating pair of managers */
                                        if (sel != '0' && skind != SYNC_NA && (sel != '2' || mi % 3 == (int) (caseno % 3)))
                                                run_sync(mi, &v, caseno, &clean);
                                        continue;
                                }
                                reset_arena(clean);
                                clean = 0;
                                if (apply_memory_view(&v)) {
                                        printf("R %ld %s %s skip-unsafe-view\n", caseno, mgrs[mi].name, api ? "burst" : "job");
                                        reset_arena(0);
                                        continue;
                                }
                                int status = -1, err = -1, ret = -1, dchg = 0, nbr_bad = 0, ord = 0, rc = 0;
                                fault_sig = 0;
                                if (sigsetjmp(fault_env, 1) == 0) {
                                        fault_armed = 1;
                                        alarm(20);
                                        if (api == 0)
                                                rc = run_case_job(m, &v, &status, &err, &dchg, &nbr_bad, &ord);
                                        else
                                                rc = run_case_burst(m, &v, &status, &err, &ret, &dchg, &nbr_bad, &ord);
                                        alarm(0);
                                        fault_armed = 0;
                                } else {
                                        /* the library faulted while handling this case: manager state is lost */
                                        alarm(0);
                                        fault_armed = 0;
                                        free_mb_mgr(mgrs[mi].mgr); /* plain memory: safe to release even after a fault */
                                        mgrs[mi].mgr = make_mgr(&mgrs[mi]);
                                        m = mgrs[mi].mgr;
                                        if (m) {
                                                nbr_init(m, &NA, 64, 1);
                                                nbr_init(m, &NB, 128, 2);
                                        }
                                }
                                /* leave nothing behind for the next case */
                                if (m && !fault_sig && (uint32_t) v.f[16] == IMB_CIPHER_CUSTOM && status != IMB_STATUS_INVALID_ARGS) {
                                        /* Isolation against a library defect found by this check and repaired by 0ca5676
                                         * (see mode m, "custom cipher + in-flight hash"): flushing a custom-cipher job
                                         * re-submitted it to the hash manager and left a stale lane behind that later wrote
                                         * a digest through a recycled descriptor.  Should it come back, the probe in mode m
                                         * reports it; here it must not poison the following cases: fresh manager. */
                                        free_mb_mgr(mgrs[mi].mgr);
                                        mgrs[mi].mgr = make_mgr(&mgrs[mi]);
                                        m = mgrs[mi].mgr;
                                }
                                if (m && !fault_sig) {
                                        int guard = 0;
                                        while (IMB_FLUSH_JOB(m) != NULL && guard++ < 512)
                                                ;
                                        if (IMB_QUEUE_SIZE(m) != 0) {
                                                free_mb_mgr(mgrs[mi].mgr);
                                                mgrs[mi].mgr = make_mgr(&mgrs[mi]);
                                                rc = rc ? rc : -8;
                                        }
                                }
                                const int achg = memcmp(arena, shadow, ARENA_SIZE) != 0;
                                clean = !achg;
                                printf("R %ld %s %s status=%d errno=%d ret=%d desc=%d arena=%d nbr=%d order=%d fault=%d rc=%d\n",
                                       caseno, mgrs[mi].name, api ? "burst" : "job", status, err, ret, dchg, achg, nbr_bad, ord,
                                       (int) fault_sig, rc);
                        }
                }
        }
        fclose(fp);
        return 0;
}

/* ------------------------------------------------------------------ mode m: misuse of the burst calls */
static void
m_line(const char *mgr, const char *what, int ok, int ret, int err, int exp_err, const char *extra)
{
        printf("U %s %-28s ret=%d errno=%d expected=%d %s %s\n", mgr, what, ret, err, exp_err, extra, ok ? "OK" : "FAIL");
}

/* after every misuse a well-formed burst of the two neighbours must still give reference output */
static int
good_burst(IMB_MGR *m)
{
        IMB_JOB *jobs[4];
        uint32_t n = IMB_GET_NEXT_BURST(m, 2, jobs), got;
        if (n != 2)
                return 0;
        IMB_JOB *pa = jobs[0], *pb = jobs[1];
        nbr_fill(pa, &NA);
        nbr_fill(pb, &NB);
        imb_set_session(m, pa);
        imb_set_session(m, pb);
        got = IMB_SUBMIT_BURST(m, 2, jobs);
        if (imb_get_errno(m) != 0)
                return 0;
        while (got < 2) {
                uint32_t k = IMB_FLUSH_BURST(m, 2 - got, jobs);
                if (!k)
                        break;
                got += k;
        }
        return got == 2 && nbr_ok(pa, &NA) && nbr_ok(pb, &NB);
}

static void
run_m_one(const struct mgrdesc *d, IMB_MGR *m)
{
        IMB_JOB *jobs[IMB_MAX_BURST_SIZE + 2];
        uint32_t n;
        int e, ok;

        nbr_init(m, &NA, 64, 1);
        nbr_init(m, &NB, 128, 2);
        if (nbr_reference(m, &NA) || nbr_reference(m, &NB)) {
                printf("U %s reference-failed FAIL\n", d->name);
                return;
        }
        /* 1. NULL array */
        n = IMB_SUBMIT_BURST(m, 1, NULL);
        e = imb_get_errno(m);
        ok = (n == 0 && e == IMB_ERR_NULL_BURST) && good_burst(m);
        m_line(d->name, "submit_burst(jobs=NULL)", ok, (int) n, e, IMB_ERR_NULL_BURST, "");
        n = IMB_GET_NEXT_BURST(m, 1, NULL);
        e = imb_get_errno(m);
        ok = (n == 0 && e == IMB_ERR_NULL_BURST) && good_burst(m);
        m_line(d->name, "get_next_burst(jobs=NULL)", ok, (int) n, e, IMB_ERR_NULL_BURST, "");
        n = IMB_FLUSH_BURST(m, 1, NULL);
        e = imb_get_errno(m);
        ok = (n == 0 && e == IMB_ERR_NULL_BURST) && good_burst(m);
        m_line(d->name, "flush_burst(jobs=NULL)", ok, (int) n, e, IMB_ERR_NULL_BURST, "");
        /* 2. oversize */
        IMB_GET_NEXT_BURST(m, 2, jobs);
        n = IMB_SUBMIT_BURST(m, IMB_MAX_BURST_SIZE + 1, jobs);
        e = imb_get_errno(m);
        ok = (n == 0 && e == IMB_ERR_BURST_SIZE) && good_burst(m);
        m_line(d->name, "submit_burst(n=MAX+1)", ok, (int) n, e, IMB_ERR_BURST_SIZE, "");
        n = IMB_GET_NEXT_BURST(m, IMB_MAX_BURST_SIZE + 1, jobs);
        e = imb_get_errno(m);
        ok = (n == 0 && e == IMB_ERR_BURST_SIZE) && good_burst(m);
        m_line(d->name, "get_next_burst(n=MAX+1)", ok, (int) n, e, IMB_ERR_BURST_SIZE, "");
        /* 3. NULL job pointer inside the array */
        IMB_GET_NEXT_BURST(m, 2, jobs);
        nbr_fill(jobs[0], &NA);
        imb_set_session(m, jobs[0]);
        jobs[1] = NULL;
        n = IMB_SUBMIT_BURST(m, 2, jobs);
        e = imb_get_errno(m);
        ok = (n == 0 && e == IMB_ERR_NULL_JOB && NA.dst[0] == 0xA5 && NA.dst[63] == 0xA5) && good_burst(m);
        m_line(d->name, "submit_burst(jobs[1]=NULL)", ok, (int) n, e, IMB_ERR_NULL_JOB, "first-job-untouched");
        /* 4. jobs out of order */
        IMB_GET_NEXT_BURST(m, 2, jobs);
        {
                IMB_JOB *t = jobs[0];
                jobs[0] = jobs[1];
                jobs[1] = t;
                nbr_fill(jobs[0], &NA);
                nbr_fill(jobs[1], &NB);
                imb_set_session(m, jobs[0]);
                imb_set_session(m, jobs[1]);
                IMB_JOB *bad = jobs[0];
                n = IMB_SUBMIT_BURST(m, 2, jobs);
                e = imb_get_errno(m);
                ok = (n == 0 && e == IMB_ERR_BURST_OOO && jobs[0] == bad && bad->status == IMB_STATUS_INVALID_ARGS &&
                      NA.dst[0] == 0xA5 && NB.dst[0] == 0xA5) &&
                     good_burst(m);
                m_line(d->name, "submit_burst(out of order)", ok, (int) n, e, IMB_ERR_BURST_OOO, "nothing-processed");
        }
        /* 5. valid job whose suite id was not set (imb_set_session not called) */
        IMB_GET_NEXT_BURST(m, 1, jobs);
        nbr_fill(jobs[0], &NA);
        {
                IMB_JOB *bad = jobs[0];
                n = IMB_SUBMIT_BURST(m, 1, jobs);
                e = imb_get_errno(m);
                ok = (n == 0 && e == IMB_ERR_BURST_SUITE_ID && bad->status == IMB_STATUS_INVALID_ARGS && NA.dst[0] == 0xA5) &&
                     good_burst(m);
                m_line(d->name, "submit_burst(no set_session)", ok, (int) n, e, IMB_ERR_BURST_SUITE_ID, "nothing-processed");
        }
        /* 6. not enough space in the queue: one job that stays in flight (a single HMAC lane does not
         *    complete on its own) followed by NULL/NULL jobs that complete but cannot be returned
         *    before it; then a burst larger than the remaining space */
        {
                IMB_JOB *j = IMB_GET_NEXT_JOB(m);
                int queued = 0, returned = 0;
                nbr_fill(j, &NA);
                j->cipher_mode = IMB_CIPHER_NULL;
                if (IMB_SUBMIT_JOB(m))
                        returned++;
                queued++;
                for (int i = 0; i < 200; i++) {
                        j = IMB_GET_NEXT_JOB(m);
                        memset(j, 0, sizeof(*j));
                        j->cipher_mode = IMB_CIPHER_NULL;
                        j->hash_alg = IMB_AUTH_NULL;
                        j->cipher_direction = IMB_DIR_ENCRYPT;
                        j->chain_order = IMB_ORDER_CIPHER_HASH;
                        if (IMB_SUBMIT_JOB(m))
                                returned++;
                        queued++;
                }
                const uint32_t qs = IMB_QUEUE_SIZE(m);
                n = IMB_GET_NEXT_BURST(m, 128, jobs);
                const uint32_t avail = n;
                uint32_t r2 = IMB_SUBMIT_BURST(m, 128, jobs);
                e = imb_get_errno(m);
                char extra[96];
                snprintf(extra, sizeof(extra), "queue=%u offered=%u returned-early=%d", qs, avail, returned);
                int flushed = 0;
                while (IMB_FLUSH_JOB(m))
                        flushed++;
                ok = (qs > 128 && avail < 128 && r2 == 0 && e == IMB_ERR_QUEUE_SPACE && flushed == (int) qs) && good_burst(m);
                m_line(d->name, "submit_burst(n>space)", ok, (int) r2, e, IMB_ERR_QUEUE_SPACE, extra);
        }
        /* 6b. a VALID custom-cipher job chained with a multi-buffer hash that is still in flight when
         *     the queue is flushed must be processed exactly once: afterwards the manager is empty,
         *     so a single fresh HMAC-SHA-512 job cannot complete at submission time */
        {
                static uint8_t t1[64], t2[64], pad[128], buf[64];
                IMB_JOB *j = IMB_GET_NEXT_JOB(m), *r, *first;
                int nret = 0;
                memset(j, 0, sizeof(*j));
                j->cipher_mode = IMB_CIPHER_CUSTOM;
                j->cipher_func = custom_cipher;
                j->cipher_direction = IMB_DIR_ENCRYPT;
                j->chain_order = IMB_ORDER_CIPHER_HASH;
                j->hash_alg = IMB_AUTH_HMAC_SHA_512;
                j->src = buf;
                j->dst = buf;
                j->msg_len_to_hash_in_bytes = 45;
                j->auth_tag_output = t1;
                j->auth_tag_output_len_in_bytes = 32;
                j->u.HMAC._hashed_auth_key_xor_ipad = pad;
                j->u.HMAC._hashed_auth_key_xor_opad = pad + 64;
                first = j;
                if (IMB_SUBMIT_JOB(m))
                        nret++;
                while (IMB_FLUSH_JOB(m))
                        nret++;
                j = IMB_GET_NEXT_JOB(m);
                *j = *first;
                j->cipher_mode = IMB_CIPHER_NULL;
                j->auth_tag_output = t2;
                r = IMB_SUBMIT_JOB(m);
                ok = (nret == 1 && r == NULL);
                char extra[96];
                snprintf(extra, sizeof(extra), "returned=%d next-submit-returns=%s", nret, r ? (r == j ? "itself" : "ANOTHER-JOB") : "NULL");
                while (IMB_FLUSH_JOB(m))
                        ;
                m_line(d->name, "custom cipher + in-flight hash", ok, nret, 0, 0, extra);
                if (!ok) {
                        /* continue the remaining checks on a clean manager */
                        IMB_MGR *fresh = make_mgr(d);
                        if (fresh)
                                m = fresh;
                }
        }
        /* 7. synchronous cipher burst with an invalid job in the middle / NULL array / bad cipher */
        {
                static IMB_JOB cj[3];
                static uint8_t d0[64], d1[64], d2[64];
                uint8_t *dd[3] = { d0, d1, d2 };
                for (int i = 0; i < 3; i++) {
                        nbr_fill(&cj[i], &NA);
                        cj[i].hash_alg = IMB_AUTH_NULL;
                        memset(dd[i], 0xA5, 64);
                        cj[i].dst = dd[i];
                }
                cj[1].src = NULL;
                n = IMB_SUBMIT_CIPHER_BURST(m, cj, 3, IMB_CIPHER_CBC, IMB_DIR_ENCRYPT, IMB_KEY_128_BYTES);
                e = imb_get_errno(m);
                int untouched = 1;
                for (int i = 0; i < 3; i++)
                        for (int k = 0; k < 64; k++)
                                if (dd[i][k] != 0xA5)
                                        untouched = 0;
                ok = (n == 0 && e == IMB_ERR_JOB_NULL_SRC && cj[1].status == IMB_STATUS_INVALID_ARGS && untouched);
                cj[1].src = NA.src;
                n = IMB_SUBMIT_CIPHER_BURST(m, cj, 3, IMB_CIPHER_CBC, IMB_DIR_ENCRYPT, IMB_KEY_128_BYTES);
                ok = ok && n == 3 && imb_get_errno(m) == 0 && memcmp(d0, NA.ref_dst, 64) == 0 && memcmp(d2, NA.ref_dst, 64) == 0;
                m_line(d->name, "cipher_burst(job[1].src=NULL)", ok, (int) n, e, IMB_ERR_JOB_NULL_SRC, "none-processed-then-ok");
                /* NULL array (rows for all three synchronous entry points): return 0 without faulting, IMB_ERR_NULL_BURST
                 * from imb_get_errno() AND in the manager's own error field, a valid burst works afterwards */
                n = IMB_SUBMIT_CIPHER_BURST(m, NULL, 3, IMB_CIPHER_CBC, IMB_DIR_ENCRYPT, IMB_KEY_128_BYTES);
                e = imb_get_errno(m);
                {
                        char extra[96];
                        const int in_mgr = m->imb_errno;
                        for (int i = 0; i < 3; i++)
                                memset(dd[i], 0xA5, 64);
                        const uint32_t n2 = IMB_SUBMIT_CIPHER_BURST(m, cj, 3, IMB_CIPHER_CBC, IMB_DIR_ENCRYPT, IMB_KEY_128_BYTES);
                        const int after = (n2 == 3 && imb_get_errno(m) == 0 && memcmp(d0, NA.ref_dst, 64) == 0 &&
                                           memcmp(d1, NA.ref_dst, 64) == 0 && memcmp(d2, NA.ref_dst, 64) == 0);
                        snprintf(extra, sizeof(extra), "mgr-errno=%d valid-burst-afterwards=%d", in_mgr, after);
                        m_line(d->name, "cipher_burst(jobs=NULL)", n == 0 && e == IMB_ERR_NULL_BURST && in_mgr == IMB_ERR_NULL_BURST && after,
                               (int) n, e, IMB_ERR_NULL_BURST, extra);
                }
                n = IMB_SUBMIT_CIPHER_BURST(m, cj, 3, IMB_CIPHER_DES, IMB_DIR_ENCRYPT, IMB_KEY_128_BYTES);
                e = imb_get_errno(m);
                m_line(d->name, "cipher_burst(cipher=DES)", n == 0 && e == IMB_ERR_CIPH_MODE, (int) n, e, IMB_ERR_CIPH_MODE, "");
        }
        /* 8. synchronous hash burst with an invalid job / unsupported hash */
        {
                static IMB_JOB hj[3];
                static uint8_t t0[16], t1[16], t2[16];
                uint8_t *tt[3] = { t0, t1, t2 };
                for (int i = 0; i < 3; i++) {
                        nbr_fill(&hj[i], &NA);
                        hj[i].cipher_mode = IMB_CIPHER_NULL;
                        memset(tt[i], 0x5A, 16);
                        hj[i].auth_tag_output = tt[i];
                }
                hj[1].auth_tag_output_len_in_bytes = 13;
                n = IMB_SUBMIT_HASH_BURST(m, hj, 3, IMB_AUTH_HMAC_SHA_1);
                e = imb_get_errno(m);
                int untouched = 1;
                for (int i = 0; i < 3; i++)
                        for (int k = 0; k < 16; k++)
                                if (tt[i][k] != 0x5A)
                                        untouched = 0;
                ok = (n == 0 && e == IMB_ERR_JOB_AUTH_TAG_LEN && hj[1].status == IMB_STATUS_INVALID_ARGS && untouched);
                m_line(d->name, "hash_burst(job[1].tag_len=13)", ok, (int) n, e, IMB_ERR_JOB_AUTH_TAG_LEN, "none-processed");
                n = IMB_SUBMIT_HASH_BURST(m, hj, 3, IMB_AUTH_AES_XCBC);
                e = imb_get_errno(m);
                m_line(d->name, "hash_burst(hash=XCBC)", n == 0 && e == IMB_ERR_HASH_ALGO, (int) n, e, IMB_ERR_HASH_ALGO, "");
                /* NULL array.  On the pinned snapshot this row found a defect: submit_hash_burst_and_check() called
                 * imb_set_errno(NULL, IMB_ERR_NULL_JOB) -- another code than every sibling entry point, stored in the
                 * global error variable only (mgr->imb_errno stayed 0).  Repaired in /repo by 79af205. */
                hj[1].auth_tag_output_len_in_bytes = 12;
                n = IMB_SUBMIT_HASH_BURST(m, NULL, 3, IMB_AUTH_HMAC_SHA_1);
                e = imb_get_errno(m);
                {
                        char extra[96];
                        const int in_mgr = m->imb_errno;
                        const uint32_t n2 = IMB_SUBMIT_HASH_BURST(m, hj, 3, IMB_AUTH_HMAC_SHA_1);
                        const int after = (n2 == 3 && imb_get_errno(m) == 0 && memcmp(t0, NA.ref_tag, 12) == 0 &&
                                           memcmp(t1, NA.ref_tag, 12) == 0 && memcmp(t2, NA.ref_tag, 12) == 0);
                        snprintf(extra, sizeof(extra), "mgr-errno=%d valid-burst-afterwards=%d", in_mgr, after);
                        m_line(d->name, "hash_burst(jobs=NULL)", n == 0 && e == IMB_ERR_NULL_BURST && in_mgr == IMB_ERR_NULL_BURST && after,
                               (int) n, e, IMB_ERR_NULL_BURST, extra);
                }
        }
        /* 9. synchronous AEAD burst: NULL array / unsupported cipher */
        {
                static IMB_JOB aj[2];
                memset(aj, 0, sizeof(aj));
                n = IMB_SUBMIT_AEAD_BURST(m, NULL, 2, IMB_CIPHER_CCM, IMB_DIR_ENCRYPT, IMB_KEY_128_BYTES);
                e = imb_get_errno(m);
                {
                        char extra[96];
                        const int in_mgr = m->imb_errno;
                        struct view vv;
                        memset(&vv, 0, sizeof(vv));
                        vv.f[2] = 16;
                        vv.f[16] = IMB_CIPHER_CCM;
                        vv.f[17] = IMB_DIR_ENCRYPT;
                        vv.f[18] = IMB_AUTH_AES_CCM;
                        snbr_init();
                        int after = (snbr_reference(m, &SN[0], SYNC_AEAD, &vv) == 0 && snbr_reference(m, &SN[1], SYNC_AEAD, &vv) == 0);
                        snbr_fill(&aj[0], &SN[0], SYNC_AEAD, &vv);
                        snbr_fill(&aj[1], &SN[1], SYNC_AEAD, &vv);
                        const uint32_t n2 = IMB_SUBMIT_AEAD_BURST(m, aj, 2, IMB_CIPHER_CCM, IMB_DIR_ENCRYPT, IMB_KEY_128_BYTES);
                        after = after && n2 == 2 && imb_get_errno(m) == 0 && snbr_ok(&aj[0], &SN[0]) && snbr_ok(&aj[1], &SN[1]);
                        snprintf(extra, sizeof(extra), "mgr-errno=%d valid-burst-afterwards=%d", in_mgr, after);
                        m_line(d->name, "aead_burst(jobs=NULL)", n == 0 && e == IMB_ERR_NULL_BURST && in_mgr == IMB_ERR_NULL_BURST && after,
                               (int) n, e, IMB_ERR_NULL_BURST, extra);
                        memset(aj, 0, sizeof(aj));
                }
                n = IMB_SUBMIT_AEAD_BURST(m, aj, 2, IMB_CIPHER_GCM, IMB_DIR_ENCRYPT, IMB_KEY_128_BYTES);
                e = imb_get_errno(m);
                m_line(d->name, "aead_burst(cipher=GCM)", n == 0 && e == IMB_ERR_CIPH_MODE && aj[0].status == 0 && aj[1].status == 0,
                       (int) n, e, IMB_ERR_CIPH_MODE, "jobs-untouched");
        }
}

static int
run_m(void)
{
        install_fault_handlers();
        for (int i = 0; i < NMGRS; i++) {
                IMB_MGR *m = make_mgr(&mgrs[i]);
                if (!m) {
                        printf("M %s unavailable\n", mgrs[i].name);
                        continue;
                }
                fault_sig = 0;
                if (sigsetjmp(fault_env, 1) == 0) {
                        fault_armed = 1;
                        alarm(30);
                        run_m_one(&mgrs[i], m);
                        alarm(0);
                        fault_armed = 0;
                } else {
                        fault_armed = 0;
                        printf("U %s fault signal=%d FAIL\n", mgrs[i].name, (int) fault_sig);
                }
        }
        return 0;
}


/* a well-formed burst of two copies of neighbour A must give reference output */
static int
good_burst_a(IMB_MGR *m)
{
        IMB_JOB *jobs[4];
        uint32_t n = IMB_GET_NEXT_BURST(m, 1, jobs), got;
        if (n != 1)
                return 0;
        IMB_JOB *pa = jobs[0];
        nbr_fill(pa, &NA);
        imb_set_session(m, pa);
        got = IMB_SUBMIT_BURST(m, 1, jobs);
        if (imb_get_errno(m) != 0)
                return 0;
        while (got < 1) {
                uint32_t k = IMB_FLUSH_BURST(m, 1, jobs);
                if (!k)
                        break;
                got += k;
        }
        return got == 1 && nbr_ok(pa, &NA);
}

/* ------------------------------------------------------------------ mode i: suite ids */
static int
run_i(const char *path)
{
        FILE *fp = fopen(path, "r");
        if (!fp) {
                perror(path);
                return 2;
        }
        IMB_MGR *mgr = alloc_mb_mgr(0);
        if (!mgr)
                return 2;
        init_mb_mgr_sse(mgr);
        static char line[16384];
        struct view v;
        IMB_JOB job;
        while (fgets(line, sizeof(line), fp)) {
                if (line[0] == '#' || line[0] == '\n')
                        continue;
                if (parse_line(line, &v)) {
                        printf("parse-error\n");
                        continue;
                }
                job_from_view(&job, &v);
                job.suite_id[0] = job.suite_id[1] = 0xDEADBEEF;
                mgr->set_suite_id(mgr, &job);
                printf("%u %u\n", job.suite_id[0], job.suite_id[1]);
        }
        fclose(fp);
        free_mb_mgr(mgr);
        return 0;
}

/* ------------------------------------------------------------------ mode s: stale suite ids in a checked burst
 * A burst of n valid jobs; the job at position p is a valid job X whose stored suite id is
 *   rr = the one imb_set_session() computed (right,right)
 *   wr / rw / ww = cipher word / hash word / both replaced by the corresponding word of ANOTHER valid suite
 *                  (what is left in a ring slot that was used for a different session before and for
 *                  which imb_set_session() was not called again)
 * Oracle: rr accepted and every job completes with reference output; every other combination is
 * rejected as a whole: return 0, errno IMB_ERR_BURST_SUITE_ID, jobs[0] = X, X.status = INVALID_ARGS and
 * nothing else in X changed, queue size unchanged, no destination/tag byte of any job written; a
 * correct burst works afterwards.
 *   S <mgr> n=<n> pos=<p> x=<suite> stale=<suite> case=<rr|wr|rw|ww> ret=<r> errno=<e> ... OK|FAIL */
struct xsuite {
        const char *name;
        IMB_CIPHER_MODE cipher;
        IMB_CIPHER_DIRECTION dir;
        uint64_t key_len;
        IMB_HASH_ALG hash;
        uint64_t tag_len;
};
static const struct xsuite xsuites[] = {
        { "cbc128-enc+hmac-sha1", IMB_CIPHER_CBC, IMB_DIR_ENCRYPT, 16, IMB_AUTH_HMAC_SHA_1, 12 },
        { "ctr128-enc+hmac-sha256", IMB_CIPHER_CNTR, IMB_DIR_ENCRYPT, 16, IMB_AUTH_HMAC_SHA_256, 16 },
        { "cbc256-dec+sha512", IMB_CIPHER_CBC, IMB_DIR_DECRYPT, 32, IMB_AUTH_SHA_512, 64 },
        { "null+hmac-sha384", IMB_CIPHER_NULL, IMB_DIR_ENCRYPT, 16, IMB_AUTH_HMAC_SHA_384, 24 },
        { "ecb192-enc+null", IMB_CIPHER_ECB, IMB_DIR_ENCRYPT, 24, IMB_AUTH_NULL, 0 },
};
#define NXS ((int) (sizeof(xsuites) / sizeof(xsuites[0])))
static struct {
        DECLARE_ALIGNED(uint8_t keys[2][16 * 15], 16);
        uint8_t src[64], dst[64], tag[64], iv[16], pad[2][128];
} XB;

static void
x_fill(IMB_JOB *j, const struct xsuite *x)
{
        memset(j, 0, sizeof(*j));
        memset(XB.dst, 0xA5, sizeof(XB.dst));
        memset(XB.tag, 0x5A, sizeof(XB.tag));
        j->cipher_mode = x->cipher;
        j->cipher_direction = x->dir;
        j->chain_order = IMB_ORDER_CIPHER_HASH;
        j->hash_alg = x->hash;
        j->enc_keys = XB.keys[0];
        j->dec_keys = XB.keys[1];
        j->key_len_in_bytes = x->key_len;
        j->src = XB.src;
        j->dst = XB.dst;
        j->msg_len_to_cipher_in_bytes = (x->cipher == IMB_CIPHER_NULL) ? 0 : 48;
        j->msg_len_to_hash_in_bytes = 48;
        j->iv = XB.iv;
        j->iv_len_in_bytes = 16;
        j->auth_tag_output = XB.tag;
        j->auth_tag_output_len_in_bytes = x->tag_len;
        j->u.HMAC._hashed_auth_key_xor_ipad = XB.pad[0];
        j->u.HMAC._hashed_auth_key_xor_opad = XB.pad[1];
}
static int
x_untouched(void)
{
        for (unsigned i = 0; i < sizeof(XB.dst); i++)
                if (XB.dst[i] != 0xA5 || XB.tag[i] != 0x5A)
                        return 0;
        for (unsigned i = 0; i < sizeof(NA.dst); i++)
                if (NA.dst[i] != 0xA5)
                        return 0;
        for (unsigned i = 0; i < sizeof(NA.tag); i++)
                if (NA.tag[i] != 0x5A)
                        return 0;
        return 1;
}

static void
run_s_one(const struct mgrdesc *d, IMB_MGR *m)
{
        static const unsigned sizes[] = { 1, 2, 3, 8, 17 };
        static const char *cn[4] = { "rr", "wr", "rw", "ww" };
        IMB_JOB *jobs[IMB_MAX_BURST_SIZE];

        nbr_init(m, &NA, 64, 1);
        if (nbr_reference(m, &NA)) {
                printf("S %s reference-failed FAIL\n", d->name);
                return;
        }
        for (int xi = 0; xi < NXS; xi++) {
                const struct xsuite *x = &xsuites[xi], *st = &xsuites[(xi + 1) % NXS];
                IMB_JOB tmp;
                uint32_t right[2], stale[2];
                x_fill(&tmp, x);
                if (imb_set_session(m, &tmp) == 0) {
                        printf("S %s x=%s set-session-failed errno=%d FAIL\n", d->name, x->name, imb_get_errno(m));
                        continue;
                }
                right[0] = tmp.suite_id[0];
                right[1] = tmp.suite_id[1];
                x_fill(&tmp, st);
                imb_set_session(m, &tmp);
                stale[0] = tmp.suite_id[0];
                stale[1] = tmp.suite_id[1];
                if (stale[0] == right[0] || stale[1] == right[1]) {
                        printf("S %s x=%s stale suite shares a word FAIL\n", d->name, x->name);
                        continue;
                }
                for (unsigned si = 0; si < sizeof(sizes) / sizeof(sizes[0]); si++) {
                        const unsigned n = sizes[si];
                        const unsigned poss[3] = { 0, n / 2, n - 1 };
                        for (int pi = 0; pi < 3; pi++) {
                                const unsigned p = poss[pi];
                                if (pi > 0 && p == poss[pi - 1])
                                        continue;
                                for (int c = 0; c < 4; c++) {
                                        const uint32_t qs0 = IMB_QUEUE_SIZE(m);
                                        if (IMB_GET_NEXT_BURST(m, n, jobs) != n) {
                                                printf("S %s get_next_burst(%u) FAIL\n", d->name, n);
                                                return;
                                        }
                                        IMB_JOB *px = jobs[p], snap;
                                        memset(NA.dst, 0xA5, sizeof(NA.dst));
                                        memset(NA.tag, 0x5A, sizeof(NA.tag));
                                        for (unsigned k = 0; k < n; k++) {
                                                if (k == p) {
                                                        x_fill(jobs[k], x);
                                                        imb_set_session(m, jobs[k]);
                                                        if (c & 1)
                                                                jobs[k]->suite_id[0] = stale[0];
                                                        if (c & 2)
                                                                jobs[k]->suite_id[1] = stale[1];
                                                } else {
                                                        nbr_fill(jobs[k], &NA);
                                                        imb_set_session(m, jobs[k]);
                                                }
                                        }
                                        snap = *px;
                                        uint32_t got = IMB_SUBMIT_BURST(m, n, jobs);
                                        const int e = imb_get_errno(m);
                                        int ok;
                                        char extra[128];
                                        if (c == 0) {
                                                while (got < n) {
                                                        uint32_t k = IMB_FLUSH_BURST(m, n - got, jobs);
                                                        if (!k)
                                                                break;
                                                        got += k;
                                                }
                                                ok = (e == 0 && got == n && px->status == IMB_STATUS_COMPLETED &&
                                                      (n == 1 || memcmp(NA.dst, NA.ref_dst, sizeof(NA.dst)) == 0));
                                                snprintf(extra, sizeof(extra), "completed=%u status=%d", got, px->status);
                                        } else {
                                                const int first = (jobs[0] == px);
                                                const int dchg = desc_changed(px, &snap);
                                                const int unt = x_untouched();
                                                const uint32_t qs1 = IMB_QUEUE_SIZE(m);
                                                ok = (got == 0 && e == IMB_ERR_BURST_SUITE_ID && first &&
                                                      px->status == IMB_STATUS_INVALID_ARGS && !dchg && unt && qs1 == qs0);
                                                snprintf(extra, sizeof(extra), "jobs0-is-x=%d status=%d desc=%d untouched=%d queue=%u->%u",
                                                         first, px->status, dchg, unt, qs0, qs1);
                                                if (got != 0 || e == 0) {
                                                        /* wrongly accepted: drain whatever was dispatched */
                                                        int guard = 0;
                                                        while (IMB_FLUSH_BURST(m, IMB_MAX_BURST_SIZE, jobs) != 0 && guard++ < 64)
                                                                ;
                                                }
                                        }
                                        printf("S %s n=%u pos=%u x=%s stale=%s case=%s ret=%u errno=%d %s %s\n", d->name, n, p, x->name,
                                               st->name, cn[c], got, e, extra, ok ? "OK" : "FAIL");
                                }
                        }
                }
                /* a correct burst afterwards */
                printf("S %s after x=%s good-burst %s\n", d->name, x->name, good_burst_a(m) ? "OK" : "FAIL");
        }
}

static int
run_s(void)
{
        install_fault_handlers();
        for (int i = 0; i < NMGRS; i++) {
                IMB_MGR *m = make_mgr(&mgrs[i]);
                if (!m) {
                        printf("M %s unavailable\n", mgrs[i].name);
                        continue;
                }
                fault_sig = 0;
                if (sigsetjmp(fault_env, 1) == 0) {
                        fault_armed = 1;
                        alarm(60);
                        run_s_one(&mgrs[i], m);
                        alarm(0);
                        fault_armed = 0;
                } else {
                        fault_armed = 0;
                        printf("S %s fault signal=%d FAIL\n", mgrs[i].name, (int) fault_sig);
                }
        }
        return 0;
}

/* ------------------------------------------------------------------ mode d: direct API */
/*
 * mode d: direct-API table (initially produced by a generator script from the reference tables in
 * test/kat-app/direct_api_param_test.c and the SAFE_PARAM blocks of the library; maintained here).
 *
 * Table-driven dynamic check of the intel-ipsec-mb DIRECT API with NULL /
 * over-limit arguments (library built with SAFE_PARAM): each call must return
 * without faulting and leave the documented error in imb_get_errno().
 *
 * Fragment: expects <stdio.h> <stdlib.h> <string.h> <stdint.h> <errno.h>
 * <signal.h> <setjmp.h> <unistd.h> <sys/mman.h> <sys/wait.h> and
 * "intel-ipsec-mb.h" to be included already.  Defines  static int run_d(void).
 *
 * Origin of every expectation (trailing comment on each row function):
 *   T  = explicit table in /repo/test/kat-app/direct_api_param_test.c
 *        (or api_test.c for imb_set_session)
 *   S  = SAFE_PARAM block in the library source (no test-suite table exists
 *        for that argument combination)
 * Rows: 661   functions: 116
 */

#define DTB_BUF 4096
#define DTB_NB 32 /* lanes in every pointer vector (reference test uses 17) */

DECLARE_ALIGNED(static uint8_t dtb_src[DTB_BUF], 64);
DECLARE_ALIGNED(static uint8_t dtb_dst[DTB_BUF], 64);
DECLARE_ALIGNED(static uint8_t dtb_iv[DTB_BUF], 64);
DECLARE_ALIGNED(static uint8_t dtb_aad[DTB_BUF], 64);
DECLARE_ALIGNED(static uint8_t dtb_tag[DTB_BUF], 64);
DECLARE_ALIGNED(static uint8_t dtb_key[DTB_BUF], 64);
DECLARE_ALIGNED(static uint8_t dtb_o1[DTB_BUF], 64);
DECLARE_ALIGNED(static uint8_t dtb_o2[DTB_BUF], 64);
DECLARE_ALIGNED(static uint8_t dtb_o3[DTB_BUF], 64);
DECLARE_ALIGNED(static uint8_t dtb_ek128[DTB_BUF], 64);
DECLARE_ALIGNED(static uint8_t dtb_dk128[DTB_BUF], 64);
DECLARE_ALIGNED(static uint8_t dtb_ek256[DTB_BUF], 64);
DECLARE_ALIGNED(static uint8_t dtb_dk256[DTB_BUF], 64);

DECLARE_ALIGNED(static uint8_t dtb_msrc[DTB_NB][DTB_BUF], 64);
DECLARE_ALIGNED(static uint8_t dtb_mdst[DTB_NB][DTB_BUF], 64);
DECLARE_ALIGNED(static uint8_t dtb_miv[DTB_NB][DTB_BUF], 64);
DECLARE_ALIGNED(static uint8_t dtb_mkey[DTB_NB][DTB_BUF], 64);
DECLARE_ALIGNED(static uint8_t dtb_mtag[DTB_NB][DTB_BUF], 64);
DECLARE_ALIGNED(static uint8_t dtb_maad[DTB_NB][DTB_BUF], 64);

DECLARE_ALIGNED(static struct gcm_key_data dtb_gk128, 64);
DECLARE_ALIGNED(static struct gcm_key_data dtb_gk192, 64);
DECLARE_ALIGNED(static struct gcm_key_data dtb_gk256, 64);
DECLARE_ALIGNED(static struct gcm_key_data dtb_gkout, 64);
DECLARE_ALIGNED(static struct gcm_context_data dtb_gctx128, 64);
DECLARE_ALIGNED(static struct gcm_context_data dtb_gctx192, 64);
DECLARE_ALIGNED(static struct gcm_context_data dtb_gctx256, 64);
DECLARE_ALIGNED(static struct chacha20_poly1305_context_data dtb_cctx, 64);

/* key schedules are padded to a full buffer in case *_KEY_SCHED_SIZE() > sizeof(type) */
union dtb_s3g_u {
        snow3g_key_schedule_t ks;
        uint8_t pad[DTB_BUF];
};
union dtb_kas_u {
        kasumi_key_sched_t ks;
        uint8_t pad[DTB_BUF];
};
DECLARE_ALIGNED(static union dtb_s3g_u dtb_s3g, 64);
DECLARE_ALIGNED(static union dtb_s3g_u dtb_s3gout, 64);
DECLARE_ALIGNED(static union dtb_kas_u dtb_kas8, 64);
DECLARE_ALIGNED(static union dtb_kas_u dtb_kas9, 64);
DECLARE_ALIGNED(static union dtb_kas_u dtb_kasout, 64);

/* pointer vectors: valid / all-NULL / only lane 3 NULL */
static const void *dtb_v_src[DTB_NB], *dtb_v_iv[DTB_NB], *dtb_v_key[DTB_NB], *dtb_v_aad[DTB_NB];
static const void *dtb_v_cnull[DTB_NB];
static const void *dtb_v_src_1n[DTB_NB], *dtb_v_iv_1n[DTB_NB], *dtb_v_key_1n[DTB_NB];
static void *dtb_v_dst[DTB_NB], *dtb_v_tagv[DTB_NB], *dtb_v_null[DTB_NB], *dtb_v_dst_1n[DTB_NB];
static uint32_t *dtb_v_tag[DTB_NB], *dtb_v_tnull[DTB_NB], *dtb_v_tag_1n[DTB_NB];
static const snow3g_key_schedule_t *dtb_v_s3gk[DTB_NB], *dtb_v_s3gk_null[DTB_NB],
        *dtb_v_s3gk_1n[DTB_NB];
static uint64_t dtb_v_iv64[DTB_NB], dtb_v_len64[DTB_NB];
/* length vectors: valid bytes / valid bits / all zero / lane 3 zero / lane 3 over limit */
static uint32_t dtb_v_len[DTB_NB], dtb_v_lenbits[DTB_NB], dtb_v_len_0[DTB_NB],
        dtb_v_len_1z[DTB_NB];
static uint32_t dtb_v_len_s3gbig[DTB_NB], dtb_v_len_kasbig[DTB_NB], dtb_v_len_zucbig[DTB_NB],
        dtb_v_len_zucbitbig[DTB_NB];

static IMB_JOB dtb_job;

static void
dtb_job_fill(const IMB_CIPHER_MODE mode, const IMB_HASH_ALG hash, const IMB_CIPHER_DIRECTION dir,
             const uint64_t key_len)
{
        memset(&dtb_job, 0, sizeof(dtb_job));
        dtb_job.cipher_mode = mode;
        dtb_job.hash_alg = hash;
        dtb_job.cipher_direction = dir;
        dtb_job.chain_order = IMB_ORDER_CIPHER_HASH;
        dtb_job.key_len_in_bytes = key_len;
        dtb_job.enc_keys = dtb_ek128;
        dtb_job.dec_keys = dtb_dk128;
        dtb_job.src = dtb_src;
        dtb_job.dst = dtb_dst;
        dtb_job.iv = dtb_iv;
        dtb_job.iv_len_in_bytes = 16;
        dtb_job.msg_len_to_cipher_in_bytes = 64;
        dtb_job.auth_tag_output = dtb_tag;
        dtb_job.auth_tag_output_len_in_bytes = 16;
}

/* Fill every buffer / key structure with valid content using the library's own
 * init functions of manager \a m (key-structure layout is architecture specific). */
static void
dtb_setup(IMB_MGR *m)
{
        unsigned i;

        for (i = 0; i < DTB_BUF; i++) {
                dtb_src[i] = (uint8_t) (i * 7 + 1);
                dtb_iv[i] = (uint8_t) (i * 3 + 5);
                dtb_aad[i] = (uint8_t) (i * 5 + 9);
                dtb_key[i] = (uint8_t) (i * 11 + 3);
        }
        memset(dtb_dst, 0, sizeof(dtb_dst));
        memset(dtb_tag, 0, sizeof(dtb_tag));
        memset(dtb_o1, 0, sizeof(dtb_o1));
        memset(dtb_o2, 0, sizeof(dtb_o2));
        memset(dtb_o3, 0, sizeof(dtb_o3));

        for (i = 0; i < DTB_NB; i++) {
                memcpy(dtb_msrc[i], dtb_src, DTB_BUF);
                memcpy(dtb_miv[i], dtb_iv, DTB_BUF);
                memcpy(dtb_mkey[i], dtb_key, DTB_BUF);
                memcpy(dtb_maad[i], dtb_aad, DTB_BUF);
                memset(dtb_mdst[i], 0, DTB_BUF);
                memset(dtb_mtag[i], 0, DTB_BUF);

                dtb_v_src[i] = dtb_v_src_1n[i] = dtb_msrc[i];
                dtb_v_iv[i] = dtb_v_iv_1n[i] = dtb_miv[i];
                dtb_v_key[i] = dtb_v_key_1n[i] = dtb_mkey[i];
                dtb_v_aad[i] = dtb_maad[i];
                dtb_v_dst[i] = dtb_v_dst_1n[i] = dtb_mdst[i];
                dtb_v_tagv[i] = dtb_mtag[i];
                dtb_v_tag[i] = dtb_v_tag_1n[i] = (uint32_t *) dtb_mtag[i];
                dtb_v_s3gk[i] = dtb_v_s3gk_1n[i] = &dtb_s3g.ks;
                dtb_v_cnull[i] = NULL;
                dtb_v_null[i] = NULL;
                dtb_v_tnull[i] = NULL;
                dtb_v_s3gk_null[i] = NULL;
                dtb_v_iv64[i] = i + 1;
                dtb_v_len64[i] = 64;
                dtb_v_len[i] = 64;
                dtb_v_lenbits[i] = 512;
                dtb_v_len_0[i] = 0;
                dtb_v_len_1z[i] = 64;
                dtb_v_len_s3gbig[i] = 64;
                dtb_v_len_kasbig[i] = 64;
                dtb_v_len_zucbig[i] = 64;
                dtb_v_len_zucbitbig[i] = 512;
        }
        dtb_v_src_1n[3] = NULL;
        dtb_v_iv_1n[3] = NULL;
        dtb_v_key_1n[3] = NULL;
        dtb_v_dst_1n[3] = NULL;
        dtb_v_tag_1n[3] = NULL;
        dtb_v_s3gk_1n[3] = NULL;
        dtb_v_len_1z[3] = 0;
        dtb_v_len_s3gbig[3] = UINT32_MAX / 8 + 1; /* SNOW3G_MAX_BYTELEN + 1 */
        dtb_v_len_kasbig[3] = 20000 / 8 + 1;      /* KASUMI_MAX_LEN / CHAR_BIT + 1 */
        dtb_v_len_zucbig[3] = 65504 / 8 + 1;      /* ZUC_MAX_BYTELEN + 1 */
        dtb_v_len_zucbitbig[3] = 65504 + 1;       /* ZUC_MAX_BITLEN + 1 */

        IMB_AES_KEYEXP_128(m, dtb_key, dtb_ek128, dtb_dk128);
        IMB_AES_KEYEXP_256(m, dtb_key, dtb_ek256, dtb_dk256);

        IMB_AES128_GCM_PRE(m, dtb_key, &dtb_gk128);
        IMB_AES192_GCM_PRE(m, dtb_key, &dtb_gk192);
        IMB_AES256_GCM_PRE(m, dtb_key, &dtb_gk256);
        memcpy(&dtb_gkout, &dtb_gk128, sizeof(dtb_gkout));
        IMB_AES128_GCM_INIT(m, &dtb_gk128, &dtb_gctx128, dtb_iv, dtb_aad, 16);
        IMB_AES192_GCM_INIT(m, &dtb_gk192, &dtb_gctx192, dtb_iv, dtb_aad, 16);
        IMB_AES256_GCM_INIT(m, &dtb_gk256, &dtb_gctx256, dtb_iv, dtb_aad, 16);

        IMB_CHACHA20_POLY1305_INIT(m, dtb_key, &dtb_cctx, dtb_iv, dtb_aad, 16);

        memset(&dtb_s3g, 0, sizeof(dtb_s3g));
        memset(&dtb_s3gout, 0, sizeof(dtb_s3gout));
        memset(&dtb_kas8, 0, sizeof(dtb_kas8));
        memset(&dtb_kas9, 0, sizeof(dtb_kas9));
        memset(&dtb_kasout, 0, sizeof(dtb_kasout));
        (void) IMB_SNOW3G_INIT_KEY_SCHED(m, dtb_key, &dtb_s3g.ks);
        (void) IMB_KASUMI_INIT_F8_KEY_SCHED(m, dtb_key, &dtb_kas8.ks);
        (void) IMB_KASUMI_INIT_F9_KEY_SCHED(m, dtb_key, &dtb_kas9.ks);
}

struct dtb_row {
        const char *id;    /* stable row id */
        const char *fname; /* function / macro under test */
        const char *desc;  /* which argument is invalid (no blanks) */
        int expected;      /* documented imb_get_errno() value */
        int errno_null;    /* 1: read back with imb_get_errno(NULL) (NULL-manager rows) */
        void (*fn)(IMB_MGR *m);
};

static void
dtb_r0001(IMB_MGR *m) /* T */
{
        (void) m;
        IMB_AES128_GCM_ENC(m, NULL, &dtb_gctx128, dtb_dst, dtb_src, 64, dtb_iv, dtb_aad, 16, dtb_tag, 16);
}
static void
dtb_r0002(IMB_MGR *m) /* T */
{
        (void) m;
        IMB_AES128_GCM_ENC(m, &dtb_gk128, NULL, dtb_dst, dtb_src, 64, dtb_iv, dtb_aad, 16, dtb_tag, 16);
}
static void
dtb_r0003(IMB_MGR *m) /* T */
{
        (void) m;
        IMB_AES128_GCM_ENC(m, &dtb_gk128, &dtb_gctx128, NULL, dtb_src, 64, dtb_iv, dtb_aad, 16, dtb_tag, 16);
}
static void
dtb_r0004(IMB_MGR *m) /* T */
{
        (void) m;
        IMB_AES128_GCM_ENC(m, &dtb_gk128, &dtb_gctx128, dtb_dst, NULL, 64, dtb_iv, dtb_aad, 16, dtb_tag, 16);
}
static void
dtb_r0005(IMB_MGR *m) /* T */
{
        (void) m;
        IMB_AES128_GCM_ENC(m, &dtb_gk128, &dtb_gctx128, dtb_dst, dtb_src, ((1ULL << 39) - 256), dtb_iv, dtb_aad, 16, dtb_tag, 16);
}
static void
dtb_r0006(IMB_MGR *m) /* S */
{
        (void) m;
        IMB_AES128_GCM_ENC(m, &dtb_gk128, &dtb_gctx128, dtb_dst, dtb_src, (IMB_GCM_MAX_LEN + 1), dtb_iv, dtb_aad, 16, dtb_tag, 16);
}
static void
dtb_r0007(IMB_MGR *m) /* T */
{
        (void) m;
        IMB_AES128_GCM_ENC(m, &dtb_gk128, &dtb_gctx128, dtb_dst, dtb_src, 64, NULL, dtb_aad, 16, dtb_tag, 16);
}
static void
dtb_r0008(IMB_MGR *m) /* T */
{
        (void) m;
        IMB_AES128_GCM_ENC(m, &dtb_gk128, &dtb_gctx128, dtb_dst, dtb_src, 64, dtb_iv, NULL, 16, dtb_tag, 16);
}
static void
dtb_r0009(IMB_MGR *m) /* T */
{
        (void) m;
        IMB_AES128_GCM_ENC(m, &dtb_gk128, &dtb_gctx128, dtb_dst, dtb_src, 64, dtb_iv, dtb_aad, 16, NULL, 16);
}
static void
dtb_r0010(IMB_MGR *m) /* T */
{
        (void) m;
        IMB_AES128_GCM_ENC(m, &dtb_gk128, &dtb_gctx128, dtb_dst, dtb_src, 64, dtb_iv, dtb_aad, 16, dtb_tag, ((1ULL << 39) - 256));
}
static void
dtb_r0011(IMB_MGR *m) /* S */
{
        (void) m;
        IMB_AES128_GCM_ENC(m, &dtb_gk128, &dtb_gctx128, dtb_dst, dtb_src, 64, dtb_iv, dtb_aad, 16, dtb_tag, 0);
}
static void
dtb_r0012(IMB_MGR *m) /* S */
{
        (void) m;
        IMB_AES128_GCM_ENC(m, &dtb_gk128, &dtb_gctx128, dtb_dst, dtb_src, 64, dtb_iv, dtb_aad, 16, dtb_tag, 17);
}
static void
dtb_r0013(IMB_MGR *m) /* T */
{
        (void) m;
        IMB_AES128_GCM_DEC(m, NULL, &dtb_gctx128, dtb_dst, dtb_src, 64, dtb_iv, dtb_aad, 16, dtb_tag, 16);
}
static void
dtb_r0014(IMB_MGR *m) /* T */
{
        (void) m;
        IMB_AES128_GCM_DEC(m, &dtb_gk128, NULL, dtb_dst, dtb_src, 64, dtb_iv, dtb_aad, 16, dtb_tag, 16);
}
static void
dtb_r0015(IMB_MGR *m) /* T */
{
        (void) m;
        IMB_AES128_GCM_DEC(m, &dtb_gk128, &dtb_gctx128, NULL, dtb_src, 64, dtb_iv, dtb_aad, 16, dtb_tag, 16);
}
static void
dtb_r0016(IMB_MGR *m) /* T */
{
        (void) m;
        IMB_AES128_GCM_DEC(m, &dtb_gk128, &dtb_gctx128, dtb_dst, NULL, 64, dtb_iv, dtb_aad, 16, dtb_tag, 16);
}
static void
dtb_r0017(IMB_MGR *m) /* T */
{
        (void) m;
        IMB_AES128_GCM_DEC(m, &dtb_gk128, &dtb_gctx128, dtb_dst, dtb_src, ((1ULL << 39) - 256), dtb_iv, dtb_aad, 16, dtb_tag, 16);
}
static void
dtb_r0018(IMB_MGR *m) /* S */
{
        (void) m;
        IMB_AES128_GCM_DEC(m, &dtb_gk128, &dtb_gctx128, dtb_dst, dtb_src, (IMB_GCM_MAX_LEN + 1), dtb_iv, dtb_aad, 16, dtb_tag, 16);
}
static void
dtb_r0019(IMB_MGR *m) /* T */
{
        (void) m;
        IMB_AES128_GCM_DEC(m, &dtb_gk128, &dtb_gctx128, dtb_dst, dtb_src, 64, NULL, dtb_aad, 16, dtb_tag, 16);
}
static void
dtb_r0020(IMB_MGR *m) /* T */
{
        (void) m;
        IMB_AES128_GCM_DEC(m, &dtb_gk128, &dtb_gctx128, dtb_dst, dtb_src, 64, dtb_iv, NULL, 16, dtb_tag, 16);
}
static void
dtb_r0021(IMB_MGR *m) /* T */
{
        (void) m;
        IMB_AES128_GCM_DEC(m, &dtb_gk128, &dtb_gctx128, dtb_dst, dtb_src, 64, dtb_iv, dtb_aad, 16, NULL, 16);
}
static void
dtb_r0022(IMB_MGR *m) /* T */
{
        (void) m;
        IMB_AES128_GCM_DEC(m, &dtb_gk128, &dtb_gctx128, dtb_dst, dtb_src, 64, dtb_iv, dtb_aad, 16, dtb_tag, ((1ULL << 39) - 256));
}
static void
dtb_r0023(IMB_MGR *m) /* S */
{
        (void) m;
        IMB_AES128_GCM_DEC(m, &dtb_gk128, &dtb_gctx128, dtb_dst, dtb_src, 64, dtb_iv, dtb_aad, 16, dtb_tag, 0);
}
static void
dtb_r0024(IMB_MGR *m) /* S */
{
        (void) m;
        IMB_AES128_GCM_DEC(m, &dtb_gk128, &dtb_gctx128, dtb_dst, dtb_src, 64, dtb_iv, dtb_aad, 16, dtb_tag, 17);
}
static void
dtb_r0025(IMB_MGR *m) /* T */
{
        (void) m;
        IMB_AES128_GCM_INIT(m, NULL, &dtb_gctx128, dtb_iv, dtb_aad, 16);
}
static void
dtb_r0026(IMB_MGR *m) /* T */
{
        (void) m;
        IMB_AES128_GCM_INIT(m, &dtb_gk128, NULL, dtb_iv, dtb_aad, 16);
}
static void
dtb_r0027(IMB_MGR *m) /* T */
{
        (void) m;
        IMB_AES128_GCM_INIT(m, &dtb_gk128, &dtb_gctx128, NULL, dtb_aad, 16);
}
static void
dtb_r0028(IMB_MGR *m) /* T */
{
        (void) m;
        IMB_AES128_GCM_INIT(m, &dtb_gk128, &dtb_gctx128, dtb_iv, NULL, 16);
}
static void
dtb_r0029(IMB_MGR *m) /* T */
{
        (void) m;
        IMB_AES128_GCM_INIT_VAR_IV(m, NULL, &dtb_gctx128, dtb_iv, 12, dtb_aad, 16);
}
static void
dtb_r0030(IMB_MGR *m) /* T */
{
        (void) m;
        IMB_AES128_GCM_INIT_VAR_IV(m, &dtb_gk128, NULL, dtb_iv, 12, dtb_aad, 16);
}
static void
dtb_r0031(IMB_MGR *m) /* T */
{
        (void) m;
        IMB_AES128_GCM_INIT_VAR_IV(m, &dtb_gk128, &dtb_gctx128, NULL, 12, dtb_aad, 16);
}
static void
dtb_r0032(IMB_MGR *m) /* T */
{
        (void) m;
        IMB_AES128_GCM_INIT_VAR_IV(m, &dtb_gk128, &dtb_gctx128, dtb_iv, 0, dtb_aad, 16);
}
static void
dtb_r0033(IMB_MGR *m) /* T */
{
        (void) m;
        IMB_AES128_GCM_INIT_VAR_IV(m, &dtb_gk128, &dtb_gctx128, dtb_iv, 12, NULL, 16);
}
static void
dtb_r0034(IMB_MGR *m) /* T */
{
        (void) m;
        IMB_AES128_GCM_ENC_UPDATE(m, NULL, &dtb_gctx128, dtb_dst, dtb_src, 64);
}
static void
dtb_r0035(IMB_MGR *m) /* T */
{
        (void) m;
        IMB_AES128_GCM_ENC_UPDATE(m, &dtb_gk128, NULL, dtb_dst, dtb_src, 64);
}
static void
dtb_r0036(IMB_MGR *m) /* T */
{
        (void) m;
        IMB_AES128_GCM_ENC_UPDATE(m, &dtb_gk128, &dtb_gctx128, NULL, dtb_src, 64);
}
static void
dtb_r0037(IMB_MGR *m) /* T */
{
        (void) m;
        IMB_AES128_GCM_ENC_UPDATE(m, &dtb_gk128, &dtb_gctx128, dtb_dst, NULL, 64);
}
static void
dtb_r0038(IMB_MGR *m) /* T */
{
        (void) m;
        IMB_AES128_GCM_ENC_UPDATE(m, &dtb_gk128, &dtb_gctx128, dtb_dst, dtb_src, ((1ULL << 39) - 256));
}
static void
dtb_r0039(IMB_MGR *m) /* S */
{
        (void) m;
        IMB_AES128_GCM_ENC_UPDATE(m, &dtb_gk128, &dtb_gctx128, dtb_dst, dtb_src, (IMB_GCM_MAX_LEN + 1));
}
static void
dtb_r0040(IMB_MGR *m) /* T */
{
        (void) m;
        IMB_AES128_GCM_DEC_UPDATE(m, NULL, &dtb_gctx128, dtb_dst, dtb_src, 64);
}
static void
dtb_r0041(IMB_MGR *m) /* T */
{
        (void) m;
        IMB_AES128_GCM_DEC_UPDATE(m, &dtb_gk128, NULL, dtb_dst, dtb_src, 64);
}
static void
dtb_r0042(IMB_MGR *m) /* T */
{
        (void) m;
        IMB_AES128_GCM_DEC_UPDATE(m, &dtb_gk128, &dtb_gctx128, NULL, dtb_src, 64);
}
static void
dtb_r0043(IMB_MGR *m) /* T */
{
        (void) m;
        IMB_AES128_GCM_DEC_UPDATE(m, &dtb_gk128, &dtb_gctx128, dtb_dst, NULL, 64);
}
static void
dtb_r0044(IMB_MGR *m) /* T */
{
        (void) m;
        IMB_AES128_GCM_DEC_UPDATE(m, &dtb_gk128, &dtb_gctx128, dtb_dst, dtb_src, ((1ULL << 39) - 256));
}
static void
dtb_r0045(IMB_MGR *m) /* S */
{
        (void) m;
        IMB_AES128_GCM_DEC_UPDATE(m, &dtb_gk128, &dtb_gctx128, dtb_dst, dtb_src, (IMB_GCM_MAX_LEN + 1));
}
static void
dtb_r0046(IMB_MGR *m) /* T */
{
        (void) m;
        IMB_AES128_GCM_ENC_FINALIZE(m, NULL, &dtb_gctx128, dtb_tag, 16);
}
static void
dtb_r0047(IMB_MGR *m) /* T */
{
        (void) m;
        IMB_AES128_GCM_ENC_FINALIZE(m, &dtb_gk128, NULL, dtb_tag, 16);
}
static void
dtb_r0048(IMB_MGR *m) /* T */
{
        (void) m;
        IMB_AES128_GCM_ENC_FINALIZE(m, &dtb_gk128, &dtb_gctx128, NULL, 16);
}
static void
dtb_r0049(IMB_MGR *m) /* T */
{
        (void) m;
        IMB_AES128_GCM_ENC_FINALIZE(m, &dtb_gk128, &dtb_gctx128, dtb_tag, 0);
}
static void
dtb_r0050(IMB_MGR *m) /* S */
{
        (void) m;
        IMB_AES128_GCM_ENC_FINALIZE(m, &dtb_gk128, &dtb_gctx128, dtb_tag, 17);
}
static void
dtb_r0051(IMB_MGR *m) /* T */
{
        (void) m;
        IMB_AES128_GCM_DEC_FINALIZE(m, NULL, &dtb_gctx128, dtb_tag, 16);
}
static void
dtb_r0052(IMB_MGR *m) /* T */
{
        (void) m;
        IMB_AES128_GCM_DEC_FINALIZE(m, &dtb_gk128, NULL, dtb_tag, 16);
}
static void
dtb_r0053(IMB_MGR *m) /* T */
{
        (void) m;
        IMB_AES128_GCM_DEC_FINALIZE(m, &dtb_gk128, &dtb_gctx128, NULL, 16);
}
static void
dtb_r0054(IMB_MGR *m) /* T */
{
        (void) m;
        IMB_AES128_GCM_DEC_FINALIZE(m, &dtb_gk128, &dtb_gctx128, dtb_tag, 0);
}
static void
dtb_r0055(IMB_MGR *m) /* S */
{
        (void) m;
        IMB_AES128_GCM_DEC_FINALIZE(m, &dtb_gk128, &dtb_gctx128, dtb_tag, 17);
}
static void
dtb_r0056(IMB_MGR *m) /* T */
{
        (void) m;
        IMB_AES128_GCM_PRE(m, NULL, &dtb_gkout);
}
static void
dtb_r0057(IMB_MGR *m) /* T */
{
        (void) m;
        IMB_AES128_GCM_PRE(m, dtb_key, NULL);
}
static void
dtb_r0058(IMB_MGR *m) /* S */
{
        (void) m;
        IMB_AES128_GCM_PRECOMP(m, NULL);
}
static void
dtb_r0059(IMB_MGR *m) /* T */
{
        (void) m;
        IMB_AES128_GMAC_INIT(m, NULL, &dtb_gctx128, dtb_iv, 12);
}
static void
dtb_r0060(IMB_MGR *m) /* T */
{
        (void) m;
        IMB_AES128_GMAC_INIT(m, &dtb_gk128, NULL, dtb_iv, 12);
}
static void
dtb_r0061(IMB_MGR *m) /* T */
{
        (void) m;
        IMB_AES128_GMAC_INIT(m, &dtb_gk128, &dtb_gctx128, NULL, 12);
}
static void
dtb_r0062(IMB_MGR *m) /* T */
{
        (void) m;
        IMB_AES128_GMAC_INIT(m, &dtb_gk128, &dtb_gctx128, dtb_iv, 0);
}
static void
dtb_r0063(IMB_MGR *m) /* T */
{
        (void) m;
        IMB_AES128_GMAC_UPDATE(m, NULL, &dtb_gctx128, dtb_src, 64);
}
static void
dtb_r0064(IMB_MGR *m) /* T */
{
        (void) m;
        IMB_AES128_GMAC_UPDATE(m, &dtb_gk128, NULL, dtb_src, 64);
}
static void
dtb_r0065(IMB_MGR *m) /* T */
{
        (void) m;
        IMB_AES128_GMAC_UPDATE(m, &dtb_gk128, &dtb_gctx128, NULL, 64);
}
static void
dtb_r0066(IMB_MGR *m) /* T */
{
        (void) m;
        IMB_AES128_GMAC_FINALIZE(m, NULL, &dtb_gctx128, dtb_tag, 16);
}
static void
dtb_r0067(IMB_MGR *m) /* T */
{
        (void) m;
        IMB_AES128_GMAC_FINALIZE(m, &dtb_gk128, NULL, dtb_tag, 16);
}
static void
dtb_r0068(IMB_MGR *m) /* T */
{
        (void) m;
        IMB_AES128_GMAC_FINALIZE(m, &dtb_gk128, &dtb_gctx128, NULL, 16);
}
static void
dtb_r0069(IMB_MGR *m) /* T */
{
        (void) m;
        IMB_AES128_GMAC_FINALIZE(m, &dtb_gk128, &dtb_gctx128, dtb_tag, 0);
}
static void
dtb_r0070(IMB_MGR *m) /* S */
{
        (void) m;
        IMB_AES128_GMAC_FINALIZE(m, &dtb_gk128, &dtb_gctx128, dtb_tag, 17);
}
static void
dtb_r0071(IMB_MGR *m) /* T */
{
        (void) m;
        IMB_AES192_GCM_ENC(m, NULL, &dtb_gctx192, dtb_dst, dtb_src, 64, dtb_iv, dtb_aad, 16, dtb_tag, 16);
}
static void
dtb_r0072(IMB_MGR *m) /* T */
{
        (void) m;
        IMB_AES192_GCM_ENC(m, &dtb_gk192, NULL, dtb_dst, dtb_src, 64, dtb_iv, dtb_aad, 16, dtb_tag, 16);
}
static void
dtb_r0073(IMB_MGR *m) /* T */
{
        (void) m;
        IMB_AES192_GCM_ENC(m, &dtb_gk192, &dtb_gctx192, NULL, dtb_src, 64, dtb_iv, dtb_aad, 16, dtb_tag, 16);
}
static void
dtb_r0074(IMB_MGR *m) /* T */
{
        (void) m;
        IMB_AES192_GCM_ENC(m, &dtb_gk192, &dtb_gctx192, dtb_dst, NULL, 64, dtb_iv, dtb_aad, 16, dtb_tag, 16);
}
static void
dtb_r0075(IMB_MGR *m) /* T */
{
        (void) m;
        IMB_AES192_GCM_ENC(m, &dtb_gk192, &dtb_gctx192, dtb_dst, dtb_src, ((1ULL << 39) - 256), dtb_iv, dtb_aad, 16, dtb_tag, 16);
}
static void
dtb_r0076(IMB_MGR *m) /* S */
{
        (void) m;
        IMB_AES192_GCM_ENC(m, &dtb_gk192, &dtb_gctx192, dtb_dst, dtb_src, (IMB_GCM_MAX_LEN + 1), dtb_iv, dtb_aad, 16, dtb_tag, 16);
}
static void
dtb_r0077(IMB_MGR *m) /* T */
{
        (void) m;
        IMB_AES192_GCM_ENC(m, &dtb_gk192, &dtb_gctx192, dtb_dst, dtb_src, 64, NULL, dtb_aad, 16, dtb_tag, 16);
}
static void
dtb_r0078(IMB_MGR *m) /* T */
{
        (void) m;
        IMB_AES192_GCM_ENC(m, &dtb_gk192, &dtb_gctx192, dtb_dst, dtb_src, 64, dtb_iv, NULL, 16, dtb_tag, 16);
}
static void
dtb_r0079(IMB_MGR *m) /* T */
{
        (void) m;
        IMB_AES192_GCM_ENC(m, &dtb_gk192, &dtb_gctx192, dtb_dst, dtb_src, 64, dtb_iv, dtb_aad, 16, NULL, 16);
}
static void
dtb_r0080(IMB_MGR *m) /* T */
{
        (void) m;
        IMB_AES192_GCM_ENC(m, &dtb_gk192, &dtb_gctx192, dtb_dst, dtb_src, 64, dtb_iv, dtb_aad, 16, dtb_tag, ((1ULL << 39) - 256));
}
static void
dtb_r0081(IMB_MGR *m) /* S */
{
        (void) m;
        IMB_AES192_GCM_ENC(m, &dtb_gk192, &dtb_gctx192, dtb_dst, dtb_src, 64, dtb_iv, dtb_aad, 16, dtb_tag, 0);
}
static void
dtb_r0082(IMB_MGR *m) /* S */
{
        (void) m;
        IMB_AES192_GCM_ENC(m, &dtb_gk192, &dtb_gctx192, dtb_dst, dtb_src, 64, dtb_iv, dtb_aad, 16, dtb_tag, 17);
}
static void
dtb_r0083(IMB_MGR *m) /* T */
{
        (void) m;
        IMB_AES192_GCM_DEC(m, NULL, &dtb_gctx192, dtb_dst, dtb_src, 64, dtb_iv, dtb_aad, 16, dtb_tag, 16);
}
static void
dtb_r0084(IMB_MGR *m) /* T */
{
        (void) m;
        IMB_AES192_GCM_DEC(m, &dtb_gk192, NULL, dtb_dst, dtb_src, 64, dtb_iv, dtb_aad, 16, dtb_tag, 16);
}
static void
dtb_r0085(IMB_MGR *m) /* T */
{
        (void) m;
        IMB_AES192_GCM_DEC(m, &dtb_gk192, &dtb_gctx192, NULL, dtb_src, 64, dtb_iv, dtb_aad, 16, dtb_tag, 16);
}
static void
dtb_r0086(IMB_MGR *m) /* T */
{
        (void) m;
        IMB_AES192_GCM_DEC(m, &dtb_gk192, &dtb_gctx192, dtb_dst, NULL, 64, dtb_iv, dtb_aad, 16, dtb_tag, 16);
}
static void
dtb_r0087(IMB_MGR *m) /* T */
{
        (void) m;
        IMB_AES192_GCM_DEC(m, &dtb_gk192, &dtb_gctx192, dtb_dst, dtb_src, ((1ULL << 39) - 256), dtb_iv, dtb_aad, 16, dtb_tag, 16);
}
static void
dtb_r0088(IMB_MGR *m) /* S */
{
        (void) m;
        IMB_AES192_GCM_DEC(m, &dtb_gk192, &dtb_gctx192, dtb_dst, dtb_src, (IMB_GCM_MAX_LEN + 1), dtb_iv, dtb_aad, 16, dtb_tag, 16);
}
static void
dtb_r0089(IMB_MGR *m) /* T */
{
        (void) m;
        IMB_AES192_GCM_DEC(m, &dtb_gk192, &dtb_gctx192, dtb_dst, dtb_src, 64, NULL, dtb_aad, 16, dtb_tag, 16);
}
static void
dtb_r0090(IMB_MGR *m) /* T */
{
        (void) m;
        IMB_AES192_GCM_DEC(m, &dtb_gk192, &dtb_gctx192, dtb_dst, dtb_src, 64, dtb_iv, NULL, 16, dtb_tag, 16);
}
static void
dtb_r0091(IMB_MGR *m) /* T */
{
        (void) m;
        IMB_AES192_GCM_DEC(m, &dtb_gk192, &dtb_gctx192, dtb_dst, dtb_src, 64, dtb_iv, dtb_aad, 16, NULL, 16);
}
static void
dtb_r0092(IMB_MGR *m) /* T */
{
        (void) m;
        IMB_AES192_GCM_DEC(m, &dtb_gk192, &dtb_gctx192, dtb_dst, dtb_src, 64, dtb_iv, dtb_aad, 16, dtb_tag, ((1ULL << 39) - 256));
}
static void
dtb_r0093(IMB_MGR *m) /* S */
{
        (void) m;
        IMB_AES192_GCM_DEC(m, &dtb_gk192, &dtb_gctx192, dtb_dst, dtb_src, 64, dtb_iv, dtb_aad, 16, dtb_tag, 0);
}
static void
dtb_r0094(IMB_MGR *m) /* S */
{
        (void) m;
        IMB_AES192_GCM_DEC(m, &dtb_gk192, &dtb_gctx192, dtb_dst, dtb_src, 64, dtb_iv, dtb_aad, 16, dtb_tag, 17);
}
static void
dtb_r0095(IMB_MGR *m) /* T */
{
        (void) m;
        IMB_AES192_GCM_INIT(m, NULL, &dtb_gctx192, dtb_iv, dtb_aad, 16);
}
static void
dtb_r0096(IMB_MGR *m) /* T */
{
        (void) m;
        IMB_AES192_GCM_INIT(m, &dtb_gk192, NULL, dtb_iv, dtb_aad, 16);
}
static void
dtb_r0097(IMB_MGR *m) /* T */
{
        (void) m;
        IMB_AES192_GCM_INIT(m, &dtb_gk192, &dtb_gctx192, NULL, dtb_aad, 16);
}
static void
dtb_r0098(IMB_MGR *m) /* T */
{
        (void) m;
        IMB_AES192_GCM_INIT(m, &dtb_gk192, &dtb_gctx192, dtb_iv, NULL, 16);
}
static void
dtb_r0099(IMB_MGR *m) /* T */
{
        (void) m;
        IMB_AES192_GCM_INIT_VAR_IV(m, NULL, &dtb_gctx192, dtb_iv, 12, dtb_aad, 16);
}
static void
dtb_r0100(IMB_MGR *m) /* T */
{
        (void) m;
        IMB_AES192_GCM_INIT_VAR_IV(m, &dtb_gk192, NULL, dtb_iv, 12, dtb_aad, 16);
}
static void
dtb_r0101(IMB_MGR *m) /* T */
{
        (void) m;
        IMB_AES192_GCM_INIT_VAR_IV(m, &dtb_gk192, &dtb_gctx192, NULL, 12, dtb_aad, 16);
}
static void
dtb_r0102(IMB_MGR *m) /* T */
{
        (void) m;
        IMB_AES192_GCM_INIT_VAR_IV(m, &dtb_gk192, &dtb_gctx192, dtb_iv, 0, dtb_aad, 16);
}
static void
dtb_r0103(IMB_MGR *m) /* T */
{
        (void) m;
        IMB_AES192_GCM_INIT_VAR_IV(m, &dtb_gk192, &dtb_gctx192, dtb_iv, 12, NULL, 16);
}
static void
dtb_r0104(IMB_MGR *m) /* T */
{
        (void) m;
        IMB_AES192_GCM_ENC_UPDATE(m, NULL, &dtb_gctx192, dtb_dst, dtb_src, 64);
}
static void
dtb_r0105(IMB_MGR *m) /* T */
{
        (void) m;
        IMB_AES192_GCM_ENC_UPDATE(m, &dtb_gk192, NULL, dtb_dst, dtb_src, 64);
}
static void
dtb_r0106(IMB_MGR *m) /* T */
{
        (void) m;
        IMB_AES192_GCM_ENC_UPDATE(m, &dtb_gk192, &dtb_gctx192, NULL, dtb_src, 64);
}
static void
dtb_r0107(IMB_MGR *m) /* T */
{
        (void) m;
        IMB_AES192_GCM_ENC_UPDATE(m, &dtb_gk192, &dtb_gctx192, dtb_dst, NULL, 64);
}
static void
dtb_r0108(IMB_MGR *m) /* T */
{
        (void) m;
        IMB_AES192_GCM_ENC_UPDATE(m, &dtb_gk192, &dtb_gctx192, dtb_dst, dtb_src, ((1ULL << 39) - 256));
}
static void
dtb_r0109(IMB_MGR *m) /* S */
{
        (void) m;
        IMB_AES192_GCM_ENC_UPDATE(m, &dtb_gk192, &dtb_gctx192, dtb_dst, dtb_src, (IMB_GCM_MAX_LEN + 1));
}
static void
dtb_r0110(IMB_MGR *m) /* T */
{
        (void) m;
        IMB_AES192_GCM_DEC_UPDATE(m, NULL, &dtb_gctx192, dtb_dst, dtb_src, 64);
}
static void
dtb_r0111(IMB_MGR *m) /* T */
{
        (void) m;
        IMB_AES192_GCM_DEC_UPDATE(m, &dtb_gk192, NULL, dtb_dst, dtb_src, 64);
}
static void
dtb_r0112(IMB_MGR *m) /* T */
{
        (void) m;
        IMB_AES192_GCM_DEC_UPDATE(m, &dtb_gk192, &dtb_gctx192, NULL, dtb_src, 64);
}
static void
dtb_r0113(IMB_MGR *m) /* T */
{
        (void) m;
        IMB_AES192_GCM_DEC_UPDATE(m, &dtb_gk192, &dtb_gctx192, dtb_dst, NULL, 64);
}
static void
dtb_r0114(IMB_MGR *m) /* T */
{
        (void) m;
        IMB_AES192_GCM_DEC_UPDATE(m, &dtb_gk192, &dtb_gctx192, dtb_dst, dtb_src, ((1ULL << 39) - 256));
}
static void
dtb_r0115(IMB_MGR *m) /* S */
{
        (void) m;
        IMB_AES192_GCM_DEC_UPDATE(m, &dtb_gk192, &dtb_gctx192, dtb_dst, dtb_src, (IMB_GCM_MAX_LEN + 1));
}
static void
dtb_r0116(IMB_MGR *m) /* T */
{
        (void) m;
        IMB_AES192_GCM_ENC_FINALIZE(m, NULL, &dtb_gctx192, dtb_tag, 16);
}
static void
dtb_r0117(IMB_MGR *m) /* T */
{
        (void) m;
        IMB_AES192_GCM_ENC_FINALIZE(m, &dtb_gk192, NULL, dtb_tag, 16);
}
static void
dtb_r0118(IMB_MGR *m) /* T */
{
        (void) m;
        IMB_AES192_GCM_ENC_FINALIZE(m, &dtb_gk192, &dtb_gctx192, NULL, 16);
}
static void
dtb_r0119(IMB_MGR *m) /* T */
{
        (void) m;
        IMB_AES192_GCM_ENC_FINALIZE(m, &dtb_gk192, &dtb_gctx192, dtb_tag, 0);
}
static void
dtb_r0120(IMB_MGR *m) /* S */
{
        (void) m;
        IMB_AES192_GCM_ENC_FINALIZE(m, &dtb_gk192, &dtb_gctx192, dtb_tag, 17);
}
static void
dtb_r0121(IMB_MGR *m) /* T */
{
        (void) m;
        IMB_AES192_GCM_DEC_FINALIZE(m, NULL, &dtb_gctx192, dtb_tag, 16);
}
static void
dtb_r0122(IMB_MGR *m) /* T */
{
        (void) m;
        IMB_AES192_GCM_DEC_FINALIZE(m, &dtb_gk192, NULL, dtb_tag, 16);
}
static void
dtb_r0123(IMB_MGR *m) /* T */
{
        (void) m;
        IMB_AES192_GCM_DEC_FINALIZE(m, &dtb_gk192, &dtb_gctx192, NULL, 16);
}
static void
dtb_r0124(IMB_MGR *m) /* T */
{
        (void) m;
        IMB_AES192_GCM_DEC_FINALIZE(m, &dtb_gk192, &dtb_gctx192, dtb_tag, 0);
}
static void
dtb_r0125(IMB_MGR *m) /* S */
{
        (void) m;
        IMB_AES192_GCM_DEC_FINALIZE(m, &dtb_gk192, &dtb_gctx192, dtb_tag, 17);
}
static void
dtb_r0126(IMB_MGR *m) /* T */
{
        (void) m;
        IMB_AES192_GCM_PRE(m, NULL, &dtb_gkout);
}
static void
dtb_r0127(IMB_MGR *m) /* T */
{
        (void) m;
        IMB_AES192_GCM_PRE(m, dtb_key, NULL);
}
static void
dtb_r0128(IMB_MGR *m) /* S */
{
        (void) m;
        IMB_AES192_GCM_PRECOMP(m, NULL);
}
static void
dtb_r0129(IMB_MGR *m) /* T */
{
        (void) m;
        IMB_AES192_GMAC_INIT(m, NULL, &dtb_gctx192, dtb_iv, 12);
}
static void
dtb_r0130(IMB_MGR *m) /* T */
{
        (void) m;
        IMB_AES192_GMAC_INIT(m, &dtb_gk192, NULL, dtb_iv, 12);
}
static void
dtb_r0131(IMB_MGR *m) /* T */
{
        (void) m;
        IMB_AES192_GMAC_INIT(m, &dtb_gk192, &dtb_gctx192, NULL, 12);
}
static void
dtb_r0132(IMB_MGR *m) /* T */
{
        (void) m;
        IMB_AES192_GMAC_INIT(m, &dtb_gk192, &dtb_gctx192, dtb_iv, 0);
}
static void
dtb_r0133(IMB_MGR *m) /* T */
{
        (void) m;
        IMB_AES192_GMAC_UPDATE(m, NULL, &dtb_gctx192, dtb_src, 64);
}
static void
dtb_r0134(IMB_MGR *m) /* T */
{
        (void) m;
        IMB_AES192_GMAC_UPDATE(m, &dtb_gk192, NULL, dtb_src, 64);
}
static void
dtb_r0135(IMB_MGR *m) /* T */
{
        (void) m;
        IMB_AES192_GMAC_UPDATE(m, &dtb_gk192, &dtb_gctx192, NULL, 64);
}
static void
dtb_r0136(IMB_MGR *m) /* T */
{
        (void) m;
        IMB_AES192_GMAC_FINALIZE(m, NULL, &dtb_gctx192, dtb_tag, 16);
}
static void
dtb_r0137(IMB_MGR *m) /* T */
{
        (void) m;
        IMB_AES192_GMAC_FINALIZE(m, &dtb_gk192, NULL, dtb_tag, 16);
}
static void
dtb_r0138(IMB_MGR *m) /* T */
{
        (void) m;
        IMB_AES192_GMAC_FINALIZE(m, &dtb_gk192, &dtb_gctx192, NULL, 16);
}
static void
dtb_r0139(IMB_MGR *m) /* T */
{
        (void) m;
        IMB_AES192_GMAC_FINALIZE(m, &dtb_gk192, &dtb_gctx192, dtb_tag, 0);
}
static void
dtb_r0140(IMB_MGR *m) /* S */
{
        (void) m;
        IMB_AES192_GMAC_FINALIZE(m, &dtb_gk192, &dtb_gctx192, dtb_tag, 17);
}
static void
dtb_r0141(IMB_MGR *m) /* T */
{
        (void) m;
        IMB_AES256_GCM_ENC(m, NULL, &dtb_gctx256, dtb_dst, dtb_src, 64, dtb_iv, dtb_aad, 16, dtb_tag, 16);
}
static void
dtb_r0142(IMB_MGR *m) /* T */
{
        (void) m;
        IMB_AES256_GCM_ENC(m, &dtb_gk256, NULL, dtb_dst, dtb_src, 64, dtb_iv, dtb_aad, 16, dtb_tag, 16);
}
static void
dtb_r0143(IMB_MGR *m) /* T */
{
        (void) m;
        IMB_AES256_GCM_ENC(m, &dtb_gk256, &dtb_gctx256, NULL, dtb_src, 64, dtb_iv, dtb_aad, 16, dtb_tag, 16);
}
static void
dtb_r0144(IMB_MGR *m) /* T */
{
        (void) m;
        IMB_AES256_GCM_ENC(m, &dtb_gk256, &dtb_gctx256, dtb_dst, NULL, 64, dtb_iv, dtb_aad, 16, dtb_tag, 16);
}
static void
dtb_r0145(IMB_MGR *m) /* T */
{
        (void) m;
        IMB_AES256_GCM_ENC(m, &dtb_gk256, &dtb_gctx256, dtb_dst, dtb_src, ((1ULL << 39) - 256), dtb_iv, dtb_aad, 16, dtb_tag, 16);
}
static void
dtb_r0146(IMB_MGR *m) /* S */
{
        (void) m;
        IMB_AES256_GCM_ENC(m, &dtb_gk256, &dtb_gctx256, dtb_dst, dtb_src, (IMB_GCM_MAX_LEN + 1), dtb_iv, dtb_aad, 16, dtb_tag, 16);
}
static void
dtb_r0147(IMB_MGR *m) /* T */
{
        (void) m;
        IMB_AES256_GCM_ENC(m, &dtb_gk256, &dtb_gctx256, dtb_dst, dtb_src, 64, NULL, dtb_aad, 16, dtb_tag, 16);
}
static void
dtb_r0148(IMB_MGR *m) /* T */
{
        (void) m;
        IMB_AES256_GCM_ENC(m, &dtb_gk256, &dtb_gctx256, dtb_dst, dtb_src, 64, dtb_iv, NULL, 16, dtb_tag, 16);
}
static void
dtb_r0149(IMB_MGR *m) /* T */
{
        (void) m;
        IMB_AES256_GCM_ENC(m, &dtb_gk256, &dtb_gctx256, dtb_dst, dtb_src, 64, dtb_iv, dtb_aad, 16, NULL, 16);
}
static void
dtb_r0150(IMB_MGR *m) /* T */
{
        (void) m;
        IMB_AES256_GCM_ENC(m, &dtb_gk256, &dtb_gctx256, dtb_dst, dtb_src, 64, dtb_iv, dtb_aad, 16, dtb_tag, ((1ULL << 39) - 256));
}
static void
dtb_r0151(IMB_MGR *m) /* S */
{
        (void) m;
        IMB_AES256_GCM_ENC(m, &dtb_gk256, &dtb_gctx256, dtb_dst, dtb_src, 64, dtb_iv, dtb_aad, 16, dtb_tag, 0);
}
static void
dtb_r0152(IMB_MGR *m) /* S */
{
        (void) m;
        IMB_AES256_GCM_ENC(m, &dtb_gk256, &dtb_gctx256, dtb_dst, dtb_src, 64, dtb_iv, dtb_aad, 16, dtb_tag, 17);
}
static void
dtb_r0153(IMB_MGR *m) /* T */
{
        (void) m;
        IMB_AES256_GCM_DEC(m, NULL, &dtb_gctx256, dtb_dst, dtb_src, 64, dtb_iv, dtb_aad, 16, dtb_tag, 16);
}
static void
dtb_r0154(IMB_MGR *m) /* T */
{
        (void) m;
        IMB_AES256_GCM_DEC(m, &dtb_gk256, NULL, dtb_dst, dtb_src, 64, dtb_iv, dtb_aad, 16, dtb_tag, 16);
}
static void
dtb_r0155(IMB_MGR *m) /* T */
{
        (void) m;
        IMB_AES256_GCM_DEC(m, &dtb_gk256, &dtb_gctx256, NULL, dtb_src, 64, dtb_iv, dtb_aad, 16, dtb_tag, 16);
}
static void
dtb_r0156(IMB_MGR *m) /* T */
{
        (void) m;
        IMB_AES256_GCM_DEC(m, &dtb_gk256, &dtb_gctx256, dtb_dst, NULL, 64, dtb_iv, dtb_aad, 16, dtb_tag, 16);
}
static void
dtb_r0157(IMB_MGR *m) /* T */
{
        (void) m;
        IMB_AES256_GCM_DEC(m, &dtb_gk256, &dtb_gctx256, dtb_dst, dtb_src, ((1ULL << 39) - 256), dtb_iv, dtb_aad, 16, dtb_tag, 16);
}
static void
dtb_r0158(IMB_MGR *m) /* S */
{
        (void) m;
        IMB_AES256_GCM_DEC(m, &dtb_gk256, &dtb_gctx256, dtb_dst, dtb_src, (IMB_GCM_MAX_LEN + 1), dtb_iv, dtb_aad, 16, dtb_tag, 16);
}
static void
dtb_r0159(IMB_MGR *m) /* T */
{
        (void) m;
        IMB_AES256_GCM_DEC(m, &dtb_gk256, &dtb_gctx256, dtb_dst, dtb_src, 64, NULL, dtb_aad, 16, dtb_tag, 16);
}
static void
dtb_r0160(IMB_MGR *m) /* T */
{
        (void) m;
        IMB_AES256_GCM_DEC(m, &dtb_gk256, &dtb_gctx256, dtb_dst, dtb_src, 64, dtb_iv, NULL, 16, dtb_tag, 16);
}
static void
dtb_r0161(IMB_MGR *m) /* T */
{
        (void) m;
        IMB_AES256_GCM_DEC(m, &dtb_gk256, &dtb_gctx256, dtb_dst, dtb_src, 64, dtb_iv, dtb_aad, 16, NULL, 16);
}
static void
dtb_r0162(IMB_MGR *m) /* T */
{
        (void) m;
        IMB_AES256_GCM_DEC(m, &dtb_gk256, &dtb_gctx256, dtb_dst, dtb_src, 64, dtb_iv, dtb_aad, 16, dtb_tag, ((1ULL << 39) - 256));
}
static void
dtb_r0163(IMB_MGR *m) /* S */
{
        (void) m;
        IMB_AES256_GCM_DEC(m, &dtb_gk256, &dtb_gctx256, dtb_dst, dtb_src, 64, dtb_iv, dtb_aad, 16, dtb_tag, 0);
}
static void
dtb_r0164(IMB_MGR *m) /* S */
{
        (void) m;
        IMB_AES256_GCM_DEC(m, &dtb_gk256, &dtb_gctx256, dtb_dst, dtb_src, 64, dtb_iv, dtb_aad, 16, dtb_tag, 17);
}
static void
dtb_r0165(IMB_MGR *m) /* T */
{
        (void) m;
        IMB_AES256_GCM_INIT(m, NULL, &dtb_gctx256, dtb_iv, dtb_aad, 16);
}
static void
dtb_r0166(IMB_MGR *m) /* T */
{
        (void) m;
        IMB_AES256_GCM_INIT(m, &dtb_gk256, NULL, dtb_iv, dtb_aad, 16);
}
static void
dtb_r0167(IMB_MGR *m) /* T */
{
        (void) m;
        IMB_AES256_GCM_INIT(m, &dtb_gk256, &dtb_gctx256, NULL, dtb_aad, 16);
}
static void
dtb_r0168(IMB_MGR *m) /* T */
{
        (void) m;
        IMB_AES256_GCM_INIT(m, &dtb_gk256, &dtb_gctx256, dtb_iv, NULL, 16);
}
static void
dtb_r0169(IMB_MGR *m) /* T */
{
        (void) m;
        IMB_AES256_GCM_INIT_VAR_IV(m, NULL, &dtb_gctx256, dtb_iv, 12, dtb_aad, 16);
}
static void
dtb_r0170(IMB_MGR *m) /* T */
{
        (void) m;
        IMB_AES256_GCM_INIT_VAR_IV(m, &dtb_gk256, NULL, dtb_iv, 12, dtb_aad, 16);
}
static void
dtb_r0171(IMB_MGR *m) /* T */
{
        (void) m;
        IMB_AES256_GCM_INIT_VAR_IV(m, &dtb_gk256, &dtb_gctx256, NULL, 12, dtb_aad, 16);
}
static void
dtb_r0172(IMB_MGR *m) /* T */
{
        (void) m;
        IMB_AES256_GCM_INIT_VAR_IV(m, &dtb_gk256, &dtb_gctx256, dtb_iv, 0, dtb_aad, 16);
}
static void
dtb_r0173(IMB_MGR *m) /* T */
{
        (void) m;
        IMB_AES256_GCM_INIT_VAR_IV(m, &dtb_gk256, &dtb_gctx256, dtb_iv, 12, NULL, 16);
}
static void
dtb_r0174(IMB_MGR *m) /* T */
{
        (void) m;
        IMB_AES256_GCM_ENC_UPDATE(m, NULL, &dtb_gctx256, dtb_dst, dtb_src, 64);
}
static void
dtb_r0175(IMB_MGR *m) /* T */
{
        (void) m;
        IMB_AES256_GCM_ENC_UPDATE(m, &dtb_gk256, NULL, dtb_dst, dtb_src, 64);
}
static void
dtb_r0176(IMB_MGR *m) /* T */
{
        (void) m;
        IMB_AES256_GCM_ENC_UPDATE(m, &dtb_gk256, &dtb_gctx256, NULL, dtb_src, 64);
}
static void
dtb_r0177(IMB_MGR *m) /* T */
{
        (void) m;
        IMB_AES256_GCM_ENC_UPDATE(m, &dtb_gk256, &dtb_gctx256, dtb_dst, NULL, 64);
}
static void
dtb_r0178(IMB_MGR *m) /* T */
{
        (void) m;
        IMB_AES256_GCM_ENC_UPDATE(m, &dtb_gk256, &dtb_gctx256, dtb_dst, dtb_src, ((1ULL << 39) - 256));
}
static void
dtb_r0179(IMB_MGR *m) /* S */
{
        (void) m;
        IMB_AES256_GCM_ENC_UPDATE(m, &dtb_gk256, &dtb_gctx256, dtb_dst, dtb_src, (IMB_GCM_MAX_LEN + 1));
}
static void
dtb_r0180(IMB_MGR *m) /* T */
{
        (void) m;
        IMB_AES256_GCM_DEC_UPDATE(m, NULL, &dtb_gctx256, dtb_dst, dtb_src, 64);
}
static void
dtb_r0181(IMB_MGR *m) /* T */
{
        (void) m;
        IMB_AES256_GCM_DEC_UPDATE(m, &dtb_gk256, NULL, dtb_dst, dtb_src, 64);
}
static void
dtb_r0182(IMB_MGR *m) /* T */
{
        (void) m;
        IMB_AES256_GCM_DEC_UPDATE(m, &dtb_gk256, &dtb_gctx256, NULL, dtb_src, 64);
}
static void
dtb_r0183(IMB_MGR *m) /* T */
{
        (void) m;
        IMB_AES256_GCM_DEC_UPDATE(m, &dtb_gk256, &dtb_gctx256, dtb_dst, NULL, 64);
}
static void
dtb_r0184(IMB_MGR *m) /* T */
{
        (void) m;
        IMB_AES256_GCM_DEC_UPDATE(m, &dtb_gk256, &dtb_gctx256, dtb_dst, dtb_src, ((1ULL << 39) - 256));
}
static void
dtb_r0185(IMB_MGR *m) /* S */
{
        (void) m;
        IMB_AES256_GCM_DEC_UPDATE(m, &dtb_gk256, &dtb_gctx256, dtb_dst, dtb_src, (IMB_GCM_MAX_LEN + 1));
}
static void
dtb_r0186(IMB_MGR *m) /* T */
{
        (void) m;
        IMB_AES256_GCM_ENC_FINALIZE(m, NULL, &dtb_gctx256, dtb_tag, 16);
}
static void
dtb_r0187(IMB_MGR *m) /* T */
{
        (void) m;
        IMB_AES256_GCM_ENC_FINALIZE(m, &dtb_gk256, NULL, dtb_tag, 16);
}
static void
dtb_r0188(IMB_MGR *m) /* T */
{
        (void) m;
        IMB_AES256_GCM_ENC_FINALIZE(m, &dtb_gk256, &dtb_gctx256, NULL, 16);
}
static void
dtb_r0189(IMB_MGR *m) /* T */
{
        (void) m;
        IMB_AES256_GCM_ENC_FINALIZE(m, &dtb_gk256, &dtb_gctx256, dtb_tag, 0);
}
static void
dtb_r0190(IMB_MGR *m) /* S */
{
        (void) m;
        IMB_AES256_GCM_ENC_FINALIZE(m, &dtb_gk256, &dtb_gctx256, dtb_tag, 17);
}
static void
dtb_r0191(IMB_MGR *m) /* T */
{
        (void) m;
        IMB_AES256_GCM_DEC_FINALIZE(m, NULL, &dtb_gctx256, dtb_tag, 16);
}
static void
dtb_r0192(IMB_MGR *m) /* T */
{
        (void) m;
        IMB_AES256_GCM_DEC_FINALIZE(m, &dtb_gk256, NULL, dtb_tag, 16);
}
static void
dtb_r0193(IMB_MGR *m) /* T */
{
        (void) m;
        IMB_AES256_GCM_DEC_FINALIZE(m, &dtb_gk256, &dtb_gctx256, NULL, 16);
}
static void
dtb_r0194(IMB_MGR *m) /* T */
{
        (void) m;
        IMB_AES256_GCM_DEC_FINALIZE(m, &dtb_gk256, &dtb_gctx256, dtb_tag, 0);
}
static void
dtb_r0195(IMB_MGR *m) /* S */
{
        (void) m;
        IMB_AES256_GCM_DEC_FINALIZE(m, &dtb_gk256, &dtb_gctx256, dtb_tag, 17);
}
static void
dtb_r0196(IMB_MGR *m) /* T */
{
        (void) m;
        IMB_AES256_GCM_PRE(m, NULL, &dtb_gkout);
}
static void
dtb_r0197(IMB_MGR *m) /* T */
{
        (void) m;
        IMB_AES256_GCM_PRE(m, dtb_key, NULL);
}
static void
dtb_r0198(IMB_MGR *m) /* S */
{
        (void) m;
        IMB_AES256_GCM_PRECOMP(m, NULL);
}
static void
dtb_r0199(IMB_MGR *m) /* T */
{
        (void) m;
        IMB_AES256_GMAC_INIT(m, NULL, &dtb_gctx256, dtb_iv, 12);
}
static void
dtb_r0200(IMB_MGR *m) /* T */
{
        (void) m;
        IMB_AES256_GMAC_INIT(m, &dtb_gk256, NULL, dtb_iv, 12);
}
static void
dtb_r0201(IMB_MGR *m) /* T */
{
        (void) m;
        IMB_AES256_GMAC_INIT(m, &dtb_gk256, &dtb_gctx256, NULL, 12);
}
static void
dtb_r0202(IMB_MGR *m) /* T */
{
        (void) m;
        IMB_AES256_GMAC_INIT(m, &dtb_gk256, &dtb_gctx256, dtb_iv, 0);
}
static void
dtb_r0203(IMB_MGR *m) /* T */
{
        (void) m;
        IMB_AES256_GMAC_UPDATE(m, NULL, &dtb_gctx256, dtb_src, 64);
}
static void
dtb_r0204(IMB_MGR *m) /* T */
{
        (void) m;
        IMB_AES256_GMAC_UPDATE(m, &dtb_gk256, NULL, dtb_src, 64);
}
static void
dtb_r0205(IMB_MGR *m) /* T */
{
        (void) m;
        IMB_AES256_GMAC_UPDATE(m, &dtb_gk256, &dtb_gctx256, NULL, 64);
}
static void
dtb_r0206(IMB_MGR *m) /* T */
{
        (void) m;
        IMB_AES256_GMAC_FINALIZE(m, NULL, &dtb_gctx256, dtb_tag, 16);
}
static void
dtb_r0207(IMB_MGR *m) /* T */
{
        (void) m;
        IMB_AES256_GMAC_FINALIZE(m, &dtb_gk256, NULL, dtb_tag, 16);
}
static void
dtb_r0208(IMB_MGR *m) /* T */
{
        (void) m;
        IMB_AES256_GMAC_FINALIZE(m, &dtb_gk256, &dtb_gctx256, NULL, 16);
}
static void
dtb_r0209(IMB_MGR *m) /* T */
{
        (void) m;
        IMB_AES256_GMAC_FINALIZE(m, &dtb_gk256, &dtb_gctx256, dtb_tag, 0);
}
static void
dtb_r0210(IMB_MGR *m) /* S */
{
        (void) m;
        IMB_AES256_GMAC_FINALIZE(m, &dtb_gk256, &dtb_gctx256, dtb_tag, 17);
}
static void
dtb_r0211(IMB_MGR *m) /* T */
{
        (void) m;
        IMB_GHASH_PRE(m, NULL, &dtb_gkout);
}
static void
dtb_r0212(IMB_MGR *m) /* T */
{
        (void) m;
        IMB_GHASH_PRE(m, dtb_key, NULL);
}
static void
dtb_r0213(IMB_MGR *m) /* T */
{
        (void) m;
        IMB_GHASH(m, NULL, dtb_src, 64, dtb_tag, 16);
}
static void
dtb_r0214(IMB_MGR *m) /* T */
{
        (void) m;
        IMB_GHASH(m, &dtb_gk128, NULL, 64, dtb_tag, 16);
}
static void
dtb_r0215(IMB_MGR *m) /* T */
{
        (void) m;
        IMB_GHASH(m, &dtb_gk128, dtb_src, 0, dtb_tag, 16);
}
static void
dtb_r0216(IMB_MGR *m) /* T */
{
        (void) m;
        IMB_GHASH(m, &dtb_gk128, dtb_src, 64, NULL, 16);
}
static void
dtb_r0217(IMB_MGR *m) /* T */
{
        (void) m;
        IMB_GHASH(m, &dtb_gk128, dtb_src, 64, dtb_tag, 0);
}
static void
dtb_r0218(IMB_MGR *m) /* T */
{
        (void) m;
        IMB_CHACHA20_POLY1305_INIT(m, NULL, &dtb_cctx, dtb_iv, dtb_aad, 16);
}
static void
dtb_r0219(IMB_MGR *m) /* T */
{
        (void) m;
        IMB_CHACHA20_POLY1305_INIT(m, dtb_key, NULL, dtb_iv, dtb_aad, 16);
}
static void
dtb_r0220(IMB_MGR *m) /* T */
{
        (void) m;
        IMB_CHACHA20_POLY1305_INIT(m, dtb_key, &dtb_cctx, NULL, dtb_aad, 16);
}
static void
dtb_r0221(IMB_MGR *m) /* T */
{
        (void) m;
        IMB_CHACHA20_POLY1305_INIT(m, dtb_key, &dtb_cctx, dtb_iv, NULL, 16);
}
static void
dtb_r0222(IMB_MGR *m) /* T */
{
        (void) m;
        IMB_CHACHA20_POLY1305_ENC_UPDATE(m, NULL, &dtb_cctx, dtb_dst, dtb_src, 64);
}
static void
dtb_r0223(IMB_MGR *m) /* T */
{
        (void) m;
        IMB_CHACHA20_POLY1305_ENC_UPDATE(m, dtb_key, NULL, dtb_dst, dtb_src, 64);
}
static void
dtb_r0224(IMB_MGR *m) /* T */
{
        (void) m;
        IMB_CHACHA20_POLY1305_ENC_UPDATE(m, dtb_key, &dtb_cctx, NULL, dtb_src, 64);
}
static void
dtb_r0225(IMB_MGR *m) /* T */
{
        (void) m;
        IMB_CHACHA20_POLY1305_ENC_UPDATE(m, dtb_key, &dtb_cctx, dtb_dst, NULL, 64);
}
static void
dtb_r0226(IMB_MGR *m) /* T */
{
        (void) m;
        IMB_CHACHA20_POLY1305_DEC_UPDATE(m, NULL, &dtb_cctx, dtb_dst, dtb_src, 64);
}
static void
dtb_r0227(IMB_MGR *m) /* T */
{
        (void) m;
        IMB_CHACHA20_POLY1305_DEC_UPDATE(m, dtb_key, NULL, dtb_dst, dtb_src, 64);
}
static void
dtb_r0228(IMB_MGR *m) /* T */
{
        (void) m;
        IMB_CHACHA20_POLY1305_DEC_UPDATE(m, dtb_key, &dtb_cctx, NULL, dtb_src, 64);
}
static void
dtb_r0229(IMB_MGR *m) /* T */
{
        (void) m;
        IMB_CHACHA20_POLY1305_DEC_UPDATE(m, dtb_key, &dtb_cctx, dtb_dst, NULL, 64);
}
static void
dtb_r0230(IMB_MGR *m) /* S */
{
        (void) m;
        IMB_CHACHA20_POLY1305_ENC_FINALIZE(m, NULL, dtb_tag, 16);
}
static void
dtb_r0231(IMB_MGR *m) /* S */
{
        (void) m;
        IMB_CHACHA20_POLY1305_ENC_FINALIZE(m, &dtb_cctx, NULL, 16);
}
static void
dtb_r0232(IMB_MGR *m) /* S */
{
        (void) m;
        IMB_CHACHA20_POLY1305_ENC_FINALIZE(m, &dtb_cctx, dtb_tag, 0);
}
static void
dtb_r0233(IMB_MGR *m) /* S */
{
        (void) m;
        IMB_CHACHA20_POLY1305_ENC_FINALIZE(m, &dtb_cctx, dtb_tag, 17);
}
static void
dtb_r0234(IMB_MGR *m) /* T */
{
        (void) m;
        IMB_CHACHA20_POLY1305_DEC_FINALIZE(m, NULL, dtb_tag, 16);
}
static void
dtb_r0235(IMB_MGR *m) /* T */
{
        (void) m;
        IMB_CHACHA20_POLY1305_DEC_FINALIZE(m, &dtb_cctx, NULL, 16);
}
static void
dtb_r0236(IMB_MGR *m) /* T */
{
        (void) m;
        IMB_CHACHA20_POLY1305_DEC_FINALIZE(m, &dtb_cctx, dtb_tag, 0);
}
static void
dtb_r0237(IMB_MGR *m) /* S */
{
        (void) m;
        IMB_CHACHA20_POLY1305_DEC_FINALIZE(m, &dtb_cctx, dtb_tag, 17);
}
static void
dtb_r0238(IMB_MGR *m) /* T */
{
        (void) m;
        IMB_SNOW3G_F8_1_BUFFER(m, NULL, dtb_iv, dtb_src, dtb_dst, 64);
}
static void
dtb_r0239(IMB_MGR *m) /* T */
{
        (void) m;
        IMB_SNOW3G_F8_1_BUFFER(m, &dtb_s3g.ks, NULL, dtb_src, dtb_dst, 64);
}
static void
dtb_r0240(IMB_MGR *m) /* T */
{
        (void) m;
        IMB_SNOW3G_F8_1_BUFFER(m, &dtb_s3g.ks, dtb_iv, NULL, dtb_dst, 64);
}
static void
dtb_r0241(IMB_MGR *m) /* T */
{
        (void) m;
        IMB_SNOW3G_F8_1_BUFFER(m, &dtb_s3g.ks, dtb_iv, dtb_src, NULL, 64);
}
static void
dtb_r0242(IMB_MGR *m) /* T */
{
        (void) m;
        IMB_SNOW3G_F8_1_BUFFER(m, &dtb_s3g.ks, dtb_iv, dtb_src, dtb_dst, 0);
}
static void
dtb_r0243(IMB_MGR *m) /* S */
{
        (void) m;
        IMB_SNOW3G_F8_1_BUFFER(m, &dtb_s3g.ks, dtb_iv, dtb_src, dtb_dst, (UINT32_MAX / 8 + 1));
}
static void
dtb_r0244(IMB_MGR *m) /* T */
{
        (void) m;
        IMB_SNOW3G_F8_1_BUFFER_BIT(m, NULL, dtb_iv, dtb_src, dtb_dst, 512, 0);
}
static void
dtb_r0245(IMB_MGR *m) /* T */
{
        (void) m;
        IMB_SNOW3G_F8_1_BUFFER_BIT(m, &dtb_s3g.ks, NULL, dtb_src, dtb_dst, 512, 0);
}
static void
dtb_r0246(IMB_MGR *m) /* T */
{
        (void) m;
        IMB_SNOW3G_F8_1_BUFFER_BIT(m, &dtb_s3g.ks, dtb_iv, NULL, dtb_dst, 512, 0);
}
static void
dtb_r0247(IMB_MGR *m) /* T */
{
        (void) m;
        IMB_SNOW3G_F8_1_BUFFER_BIT(m, &dtb_s3g.ks, dtb_iv, dtb_src, NULL, 512, 0);
}
static void
dtb_r0248(IMB_MGR *m) /* T */
{
        (void) m;
        IMB_SNOW3G_F8_1_BUFFER_BIT(m, &dtb_s3g.ks, dtb_iv, dtb_src, dtb_dst, 0, 0);
}
static void
dtb_r0249(IMB_MGR *m) /* T */
{
        (void) m;
        IMB_SNOW3G_F8_2_BUFFER(m, NULL, dtb_miv[0], dtb_miv[1], dtb_msrc[0], dtb_mdst[0], 64, dtb_msrc[1], dtb_mdst[1], 64);
}
static void
dtb_r0250(IMB_MGR *m) /* T */
{
        (void) m;
        IMB_SNOW3G_F8_2_BUFFER(m, &dtb_s3g.ks, NULL, dtb_miv[1], dtb_msrc[0], dtb_mdst[0], 64, dtb_msrc[1], dtb_mdst[1], 64);
}
static void
dtb_r0251(IMB_MGR *m) /* T */
{
        (void) m;
        IMB_SNOW3G_F8_2_BUFFER(m, &dtb_s3g.ks, dtb_miv[0], NULL, dtb_msrc[0], dtb_mdst[0], 64, dtb_msrc[1], dtb_mdst[1], 64);
}
static void
dtb_r0252(IMB_MGR *m) /* T */
{
        (void) m;
        IMB_SNOW3G_F8_2_BUFFER(m, &dtb_s3g.ks, dtb_miv[0], dtb_miv[1], NULL, dtb_mdst[0], 64, dtb_msrc[1], dtb_mdst[1], 64);
}
static void
dtb_r0253(IMB_MGR *m) /* T */
{
        (void) m;
        IMB_SNOW3G_F8_2_BUFFER(m, &dtb_s3g.ks, dtb_miv[0], dtb_miv[1], dtb_msrc[0], NULL, 64, dtb_msrc[1], dtb_mdst[1], 64);
}
static void
dtb_r0254(IMB_MGR *m) /* T */
{
        (void) m;
        IMB_SNOW3G_F8_2_BUFFER(m, &dtb_s3g.ks, dtb_miv[0], dtb_miv[1], dtb_msrc[0], dtb_mdst[0], 0, dtb_msrc[1], dtb_mdst[1], 64);
}
static void
dtb_r0255(IMB_MGR *m) /* S */
{
        (void) m;
        IMB_SNOW3G_F8_2_BUFFER(m, &dtb_s3g.ks, dtb_miv[0], dtb_miv[1], dtb_msrc[0], dtb_mdst[0], (UINT32_MAX / 8 + 1), dtb_msrc[1], dtb_mdst[1], 64);
}
static void
dtb_r0256(IMB_MGR *m) /* T */
{
        (void) m;
        IMB_SNOW3G_F8_2_BUFFER(m, &dtb_s3g.ks, dtb_miv[0], dtb_miv[1], dtb_msrc[0], dtb_mdst[0], 64, NULL, dtb_mdst[1], 64);
}
static void
dtb_r0257(IMB_MGR *m) /* T */
{
        (void) m;
        IMB_SNOW3G_F8_2_BUFFER(m, &dtb_s3g.ks, dtb_miv[0], dtb_miv[1], dtb_msrc[0], dtb_mdst[0], 64, dtb_msrc[1], NULL, 64);
}
static void
dtb_r0258(IMB_MGR *m) /* T */
{
        (void) m;
        IMB_SNOW3G_F8_2_BUFFER(m, &dtb_s3g.ks, dtb_miv[0], dtb_miv[1], dtb_msrc[0], dtb_mdst[0], 64, dtb_msrc[1], dtb_mdst[1], 0);
}
static void
dtb_r0259(IMB_MGR *m) /* S */
{
        (void) m;
        IMB_SNOW3G_F8_2_BUFFER(m, &dtb_s3g.ks, dtb_miv[0], dtb_miv[1], dtb_msrc[0], dtb_mdst[0], 64, dtb_msrc[1], dtb_mdst[1], (UINT32_MAX / 8 + 1));
}
static void
dtb_r0260(IMB_MGR *m) /* T */
{
        (void) m;
        IMB_SNOW3G_F8_4_BUFFER(m, NULL, dtb_miv[0], dtb_miv[1], dtb_miv[2], dtb_miv[3], dtb_msrc[0], dtb_mdst[0], 64, dtb_msrc[1], dtb_mdst[1], 64, dtb_msrc[2], dtb_mdst[2], 64, dtb_msrc[3], dtb_mdst[3], 64);
}
static void
dtb_r0261(IMB_MGR *m) /* T */
{
        (void) m;
        IMB_SNOW3G_F8_4_BUFFER(m, &dtb_s3g.ks, NULL, dtb_miv[1], dtb_miv[2], dtb_miv[3], dtb_msrc[0], dtb_mdst[0], 64, dtb_msrc[1], dtb_mdst[1], 64, dtb_msrc[2], dtb_mdst[2], 64, dtb_msrc[3], dtb_mdst[3], 64);
}
static void
dtb_r0262(IMB_MGR *m) /* T */
{
        (void) m;
        IMB_SNOW3G_F8_4_BUFFER(m, &dtb_s3g.ks, dtb_miv[0], NULL, dtb_miv[2], dtb_miv[3], dtb_msrc[0], dtb_mdst[0], 64, dtb_msrc[1], dtb_mdst[1], 64, dtb_msrc[2], dtb_mdst[2], 64, dtb_msrc[3], dtb_mdst[3], 64);
}
static void
dtb_r0263(IMB_MGR *m) /* T */
{
        (void) m;
        IMB_SNOW3G_F8_4_BUFFER(m, &dtb_s3g.ks, dtb_miv[0], dtb_miv[1], NULL, dtb_miv[3], dtb_msrc[0], dtb_mdst[0], 64, dtb_msrc[1], dtb_mdst[1], 64, dtb_msrc[2], dtb_mdst[2], 64, dtb_msrc[3], dtb_mdst[3], 64);
}
static void
dtb_r0264(IMB_MGR *m) /* T */
{
        (void) m;
        IMB_SNOW3G_F8_4_BUFFER(m, &dtb_s3g.ks, dtb_miv[0], dtb_miv[1], dtb_miv[2], NULL, dtb_msrc[0], dtb_mdst[0], 64, dtb_msrc[1], dtb_mdst[1], 64, dtb_msrc[2], dtb_mdst[2], 64, dtb_msrc[3], dtb_mdst[3], 64);
}
static void
dtb_r0265(IMB_MGR *m) /* T */
{
        (void) m;
        IMB_SNOW3G_F8_4_BUFFER(m, &dtb_s3g.ks, dtb_miv[0], dtb_miv[1], dtb_miv[2], dtb_miv[3], NULL, dtb_mdst[0], 64, dtb_msrc[1], dtb_mdst[1], 64, dtb_msrc[2], dtb_mdst[2], 64, dtb_msrc[3], dtb_mdst[3], 64);
}
static void
dtb_r0266(IMB_MGR *m) /* T */
{
        (void) m;
        IMB_SNOW3G_F8_4_BUFFER(m, &dtb_s3g.ks, dtb_miv[0], dtb_miv[1], dtb_miv[2], dtb_miv[3], dtb_msrc[0], NULL, 64, dtb_msrc[1], dtb_mdst[1], 64, dtb_msrc[2], dtb_mdst[2], 64, dtb_msrc[3], dtb_mdst[3], 64);
}
static void
dtb_r0267(IMB_MGR *m) /* T */
{
        (void) m;
        IMB_SNOW3G_F8_4_BUFFER(m, &dtb_s3g.ks, dtb_miv[0], dtb_miv[1], dtb_miv[2], dtb_miv[3], dtb_msrc[0], dtb_mdst[0], 0, dtb_msrc[1], dtb_mdst[1], 64, dtb_msrc[2], dtb_mdst[2], 64, dtb_msrc[3], dtb_mdst[3], 64);
}
static void
dtb_r0268(IMB_MGR *m) /* S */
{
        (void) m;
        IMB_SNOW3G_F8_4_BUFFER(m, &dtb_s3g.ks, dtb_miv[0], dtb_miv[1], dtb_miv[2], dtb_miv[3], dtb_msrc[0], dtb_mdst[0], (UINT32_MAX / 8 + 1), dtb_msrc[1], dtb_mdst[1], 64, dtb_msrc[2], dtb_mdst[2], 64, dtb_msrc[3], dtb_mdst[3], 64);
}
static void
dtb_r0269(IMB_MGR *m) /* T */
{
        (void) m;
        IMB_SNOW3G_F8_4_BUFFER(m, &dtb_s3g.ks, dtb_miv[0], dtb_miv[1], dtb_miv[2], dtb_miv[3], dtb_msrc[0], dtb_mdst[0], 64, NULL, dtb_mdst[1], 64, dtb_msrc[2], dtb_mdst[2], 64, dtb_msrc[3], dtb_mdst[3], 64);
}
static void
dtb_r0270(IMB_MGR *m) /* T */
{
        (void) m;
        IMB_SNOW3G_F8_4_BUFFER(m, &dtb_s3g.ks, dtb_miv[0], dtb_miv[1], dtb_miv[2], dtb_miv[3], dtb_msrc[0], dtb_mdst[0], 64, dtb_msrc[1], NULL, 64, dtb_msrc[2], dtb_mdst[2], 64, dtb_msrc[3], dtb_mdst[3], 64);
}
static void
dtb_r0271(IMB_MGR *m) /* T */
{
        (void) m;
        IMB_SNOW3G_F8_4_BUFFER(m, &dtb_s3g.ks, dtb_miv[0], dtb_miv[1], dtb_miv[2], dtb_miv[3], dtb_msrc[0], dtb_mdst[0], 64, dtb_msrc[1], dtb_mdst[1], 0, dtb_msrc[2], dtb_mdst[2], 64, dtb_msrc[3], dtb_mdst[3], 64);
}
static void
dtb_r0272(IMB_MGR *m) /* S */
{
        (void) m;
        IMB_SNOW3G_F8_4_BUFFER(m, &dtb_s3g.ks, dtb_miv[0], dtb_miv[1], dtb_miv[2], dtb_miv[3], dtb_msrc[0], dtb_mdst[0], 64, dtb_msrc[1], dtb_mdst[1], (UINT32_MAX / 8 + 1), dtb_msrc[2], dtb_mdst[2], 64, dtb_msrc[3], dtb_mdst[3], 64);
}
static void
dtb_r0273(IMB_MGR *m) /* T */
{
        (void) m;
        IMB_SNOW3G_F8_4_BUFFER(m, &dtb_s3g.ks, dtb_miv[0], dtb_miv[1], dtb_miv[2], dtb_miv[3], dtb_msrc[0], dtb_mdst[0], 64, dtb_msrc[1], dtb_mdst[1], 64, NULL, dtb_mdst[2], 64, dtb_msrc[3], dtb_mdst[3], 64);
}
static void
dtb_r0274(IMB_MGR *m) /* T */
{
        (void) m;
        IMB_SNOW3G_F8_4_BUFFER(m, &dtb_s3g.ks, dtb_miv[0], dtb_miv[1], dtb_miv[2], dtb_miv[3], dtb_msrc[0], dtb_mdst[0], 64, dtb_msrc[1], dtb_mdst[1], 64, dtb_msrc[2], NULL, 64, dtb_msrc[3], dtb_mdst[3], 64);
}
static void
dtb_r0275(IMB_MGR *m) /* T */
{
        (void) m;
        IMB_SNOW3G_F8_4_BUFFER(m, &dtb_s3g.ks, dtb_miv[0], dtb_miv[1], dtb_miv[2], dtb_miv[3], dtb_msrc[0], dtb_mdst[0], 64, dtb_msrc[1], dtb_mdst[1], 64, dtb_msrc[2], dtb_mdst[2], 0, dtb_msrc[3], dtb_mdst[3], 64);
}
static void
dtb_r0276(IMB_MGR *m) /* S */
{
        (void) m;
        IMB_SNOW3G_F8_4_BUFFER(m, &dtb_s3g.ks, dtb_miv[0], dtb_miv[1], dtb_miv[2], dtb_miv[3], dtb_msrc[0], dtb_mdst[0], 64, dtb_msrc[1], dtb_mdst[1], 64, dtb_msrc[2], dtb_mdst[2], (UINT32_MAX / 8 + 1), dtb_msrc[3], dtb_mdst[3], 64);
}
static void
dtb_r0277(IMB_MGR *m) /* T */
{
        (void) m;
        IMB_SNOW3G_F8_4_BUFFER(m, &dtb_s3g.ks, dtb_miv[0], dtb_miv[1], dtb_miv[2], dtb_miv[3], dtb_msrc[0], dtb_mdst[0], 64, dtb_msrc[1], dtb_mdst[1], 64, dtb_msrc[2], dtb_mdst[2], 64, NULL, dtb_mdst[3], 64);
}
static void
dtb_r0278(IMB_MGR *m) /* T */
{
        (void) m;
        IMB_SNOW3G_F8_4_BUFFER(m, &dtb_s3g.ks, dtb_miv[0], dtb_miv[1], dtb_miv[2], dtb_miv[3], dtb_msrc[0], dtb_mdst[0], 64, dtb_msrc[1], dtb_mdst[1], 64, dtb_msrc[2], dtb_mdst[2], 64, dtb_msrc[3], NULL, 64);
}
static void
dtb_r0279(IMB_MGR *m) /* T */
{
        (void) m;
        IMB_SNOW3G_F8_4_BUFFER(m, &dtb_s3g.ks, dtb_miv[0], dtb_miv[1], dtb_miv[2], dtb_miv[3], dtb_msrc[0], dtb_mdst[0], 64, dtb_msrc[1], dtb_mdst[1], 64, dtb_msrc[2], dtb_mdst[2], 64, dtb_msrc[3], dtb_mdst[3], 0);
}
static void
dtb_r0280(IMB_MGR *m) /* S */
{
        (void) m;
        IMB_SNOW3G_F8_4_BUFFER(m, &dtb_s3g.ks, dtb_miv[0], dtb_miv[1], dtb_miv[2], dtb_miv[3], dtb_msrc[0], dtb_mdst[0], 64, dtb_msrc[1], dtb_mdst[1], 64, dtb_msrc[2], dtb_mdst[2], 64, dtb_msrc[3], dtb_mdst[3], (UINT32_MAX / 8 + 1));
}
static void
dtb_r0281(IMB_MGR *m) /* T */
{
        (void) m;
        IMB_SNOW3G_F8_8_BUFFER(m, NULL, dtb_miv[0], dtb_miv[1], dtb_miv[2], dtb_miv[3], dtb_miv[4], dtb_miv[5], dtb_miv[6], dtb_miv[7], dtb_msrc[0], dtb_mdst[0], 64, dtb_msrc[1], dtb_mdst[1], 64, dtb_msrc[2], dtb_mdst[2], 64, dtb_msrc[3], dtb_mdst[3], 64, dtb_msrc[4], dtb_mdst[4], 64, dtb_msrc[5], dtb_mdst[5], 64, dtb_msrc[6], dtb_mdst[6], 64, dtb_msrc[7], dtb_mdst[7], 64);
}
static void
dtb_r0282(IMB_MGR *m) /* T */
{
        (void) m;
        IMB_SNOW3G_F8_8_BUFFER(m, &dtb_s3g.ks, NULL, dtb_miv[1], dtb_miv[2], dtb_miv[3], dtb_miv[4], dtb_miv[5], dtb_miv[6], dtb_miv[7], dtb_msrc[0], dtb_mdst[0], 64, dtb_msrc[1], dtb_mdst[1], 64, dtb_msrc[2], dtb_mdst[2], 64, dtb_msrc[3], dtb_mdst[3], 64, dtb_msrc[4], dtb_mdst[4], 64, dtb_msrc[5], dtb_mdst[5], 64, dtb_msrc[6], dtb_mdst[6], 64, dtb_msrc[7], dtb_mdst[7], 64);
}
static void
dtb_r0283(IMB_MGR *m) /* T */
{
        (void) m;
        IMB_SNOW3G_F8_8_BUFFER(m, &dtb_s3g.ks, dtb_miv[0], NULL, dtb_miv[2], dtb_miv[3], dtb_miv[4], dtb_miv[5], dtb_miv[6], dtb_miv[7], dtb_msrc[0], dtb_mdst[0], 64, dtb_msrc[1], dtb_mdst[1], 64, dtb_msrc[2], dtb_mdst[2], 64, dtb_msrc[3], dtb_mdst[3], 64, dtb_msrc[4], dtb_mdst[4], 64, dtb_msrc[5], dtb_mdst[5], 64, dtb_msrc[6], dtb_mdst[6], 64, dtb_msrc[7], dtb_mdst[7], 64);
}
static void
dtb_r0284(IMB_MGR *m) /* T */
{
        (void) m;
        IMB_SNOW3G_F8_8_BUFFER(m, &dtb_s3g.ks, dtb_miv[0], dtb_miv[1], NULL, dtb_miv[3], dtb_miv[4], dtb_miv[5], dtb_miv[6], dtb_miv[7], dtb_msrc[0], dtb_mdst[0], 64, dtb_msrc[1], dtb_mdst[1], 64, dtb_msrc[2], dtb_mdst[2], 64, dtb_msrc[3], dtb_mdst[3], 64, dtb_msrc[4], dtb_mdst[4], 64, dtb_msrc[5], dtb_mdst[5], 64, dtb_msrc[6], dtb_mdst[6], 64, dtb_msrc[7], dtb_mdst[7], 64);
}
static void
dtb_r0285(IMB_MGR *m) /* T */
{
        (void) m;
        IMB_SNOW3G_F8_8_BUFFER(m, &dtb_s3g.ks, dtb_miv[0], dtb_miv[1], dtb_miv[2], NULL, dtb_miv[4], dtb_miv[5], dtb_miv[6], dtb_miv[7], dtb_msrc[0], dtb_mdst[0], 64, dtb_msrc[1], dtb_mdst[1], 64, dtb_msrc[2], dtb_mdst[2], 64, dtb_msrc[3], dtb_mdst[3], 64, dtb_msrc[4], dtb_mdst[4], 64, dtb_msrc[5], dtb_mdst[5], 64, dtb_msrc[6], dtb_mdst[6], 64, dtb_msrc[7], dtb_mdst[7], 64);
}
static void
dtb_r0286(IMB_MGR *m) /* T */
{
        (void) m;
        IMB_SNOW3G_F8_8_BUFFER(m, &dtb_s3g.ks, dtb_miv[0], dtb_miv[1], dtb_miv[2], dtb_miv[3], NULL, dtb_miv[5], dtb_miv[6], dtb_miv[7], dtb_msrc[0], dtb_mdst[0], 64, dtb_msrc[1], dtb_mdst[1], 64, dtb_msrc[2], dtb_mdst[2], 64, dtb_msrc[3], dtb_mdst[3], 64, dtb_msrc[4], dtb_mdst[4], 64, dtb_msrc[5], dtb_mdst[5], 64, dtb_msrc[6], dtb_mdst[6], 64, dtb_msrc[7], dtb_mdst[7], 64);
}
static void
dtb_r0287(IMB_MGR *m) /* T */
{
        (void) m;
        IMB_SNOW3G_F8_8_BUFFER(m, &dtb_s3g.ks, dtb_miv[0], dtb_miv[1], dtb_miv[2], dtb_miv[3], dtb_miv[4], NULL, dtb_miv[6], dtb_miv[7], dtb_msrc[0], dtb_mdst[0], 64, dtb_msrc[1], dtb_mdst[1], 64, dtb_msrc[2], dtb_mdst[2], 64, dtb_msrc[3], dtb_mdst[3], 64, dtb_msrc[4], dtb_mdst[4], 64, dtb_msrc[5], dtb_mdst[5], 64, dtb_msrc[6], dtb_mdst[6], 64, dtb_msrc[7], dtb_mdst[7], 64);
}
static void
dtb_r0288(IMB_MGR *m) /* T */
{
        (void) m;
        IMB_SNOW3G_F8_8_BUFFER(m, &dtb_s3g.ks, dtb_miv[0], dtb_miv[1], dtb_miv[2], dtb_miv[3], dtb_miv[4], dtb_miv[5], NULL, dtb_miv[7], dtb_msrc[0], dtb_mdst[0], 64, dtb_msrc[1], dtb_mdst[1], 64, dtb_msrc[2], dtb_mdst[2], 64, dtb_msrc[3], dtb_mdst[3], 64, dtb_msrc[4], dtb_mdst[4], 64, dtb_msrc[5], dtb_mdst[5], 64, dtb_msrc[6], dtb_mdst[6], 64, dtb_msrc[7], dtb_mdst[7], 64);
}
static void
dtb_r0289(IMB_MGR *m) /* T */
{
        (void) m;
        IMB_SNOW3G_F8_8_BUFFER(m, &dtb_s3g.ks, dtb_miv[0], dtb_miv[1], dtb_miv[2], dtb_miv[3], dtb_miv[4], dtb_miv[5], dtb_miv[6], NULL, dtb_msrc[0], dtb_mdst[0], 64, dtb_msrc[1], dtb_mdst[1], 64, dtb_msrc[2], dtb_mdst[2], 64, dtb_msrc[3], dtb_mdst[3], 64, dtb_msrc[4], dtb_mdst[4], 64, dtb_msrc[5], dtb_mdst[5], 64, dtb_msrc[6], dtb_mdst[6], 64, dtb_msrc[7], dtb_mdst[7], 64);
}
static void
dtb_r0290(IMB_MGR *m) /* T */
{
        (void) m;
        IMB_SNOW3G_F8_8_BUFFER(m, &dtb_s3g.ks, dtb_miv[0], dtb_miv[1], dtb_miv[2], dtb_miv[3], dtb_miv[4], dtb_miv[5], dtb_miv[6], dtb_miv[7], NULL, dtb_mdst[0], 64, dtb_msrc[1], dtb_mdst[1], 64, dtb_msrc[2], dtb_mdst[2], 64, dtb_msrc[3], dtb_mdst[3], 64, dtb_msrc[4], dtb_mdst[4], 64, dtb_msrc[5], dtb_mdst[5], 64, dtb_msrc[6], dtb_mdst[6], 64, dtb_msrc[7], dtb_mdst[7], 64);
}
static void
dtb_r0291(IMB_MGR *m) /* T */
{
        (void) m;
        IMB_SNOW3G_F8_8_BUFFER(m, &dtb_s3g.ks, dtb_miv[0], dtb_miv[1], dtb_miv[2], dtb_miv[3], dtb_miv[4], dtb_miv[5], dtb_miv[6], dtb_miv[7], dtb_msrc[0], NULL, 64, dtb_msrc[1], dtb_mdst[1], 64, dtb_msrc[2], dtb_mdst[2], 64, dtb_msrc[3], dtb_mdst[3], 64, dtb_msrc[4], dtb_mdst[4], 64, dtb_msrc[5], dtb_mdst[5], 64, dtb_msrc[6], dtb_mdst[6], 64, dtb_msrc[7], dtb_mdst[7], 64);
}
static void
dtb_r0292(IMB_MGR *m) /* T */
{
        (void) m;
        IMB_SNOW3G_F8_8_BUFFER(m, &dtb_s3g.ks, dtb_miv[0], dtb_miv[1], dtb_miv[2], dtb_miv[3], dtb_miv[4], dtb_miv[5], dtb_miv[6], dtb_miv[7], dtb_msrc[0], dtb_mdst[0], 0, dtb_msrc[1], dtb_mdst[1], 64, dtb_msrc[2], dtb_mdst[2], 64, dtb_msrc[3], dtb_mdst[3], 64, dtb_msrc[4], dtb_mdst[4], 64, dtb_msrc[5], dtb_mdst[5], 64, dtb_msrc[6], dtb_mdst[6], 64, dtb_msrc[7], dtb_mdst[7], 64);
}
static void
dtb_r0293(IMB_MGR *m) /* S */
{
        (void) m;
        IMB_SNOW3G_F8_8_BUFFER(m, &dtb_s3g.ks, dtb_miv[0], dtb_miv[1], dtb_miv[2], dtb_miv[3], dtb_miv[4], dtb_miv[5], dtb_miv[6], dtb_miv[7], dtb_msrc[0], dtb_mdst[0], (UINT32_MAX / 8 + 1), dtb_msrc[1], dtb_mdst[1], 64, dtb_msrc[2], dtb_mdst[2], 64, dtb_msrc[3], dtb_mdst[3], 64, dtb_msrc[4], dtb_mdst[4], 64, dtb_msrc[5], dtb_mdst[5], 64, dtb_msrc[6], dtb_mdst[6], 64, dtb_msrc[7], dtb_mdst[7], 64);
}
static void
dtb_r0294(IMB_MGR *m) /* T */
{
        (void) m;
        IMB_SNOW3G_F8_8_BUFFER(m, &dtb_s3g.ks, dtb_miv[0], dtb_miv[1], dtb_miv[2], dtb_miv[3], dtb_miv[4], dtb_miv[5], dtb_miv[6], dtb_miv[7], dtb_msrc[0], dtb_mdst[0], 64, NULL, dtb_mdst[1], 64, dtb_msrc[2], dtb_mdst[2], 64, dtb_msrc[3], dtb_mdst[3], 64, dtb_msrc[4], dtb_mdst[4], 64, dtb_msrc[5], dtb_mdst[5], 64, dtb_msrc[6], dtb_mdst[6], 64, dtb_msrc[7], dtb_mdst[7], 64);
}
static void
dtb_r0295(IMB_MGR *m) /* T */
{
        (void) m;
        IMB_SNOW3G_F8_8_BUFFER(m, &dtb_s3g.ks, dtb_miv[0], dtb_miv[1], dtb_miv[2], dtb_miv[3], dtb_miv[4], dtb_miv[5], dtb_miv[6], dtb_miv[7], dtb_msrc[0], dtb_mdst[0], 64, dtb_msrc[1], NULL, 64, dtb_msrc[2], dtb_mdst[2], 64, dtb_msrc[3], dtb_mdst[3], 64, dtb_msrc[4], dtb_mdst[4], 64, dtb_msrc[5], dtb_mdst[5], 64, dtb_msrc[6], dtb_mdst[6], 64, dtb_msrc[7], dtb_mdst[7], 64);
}
static void
dtb_r0296(IMB_MGR *m) /* T */
{
        (void) m;
        IMB_SNOW3G_F8_8_BUFFER(m, &dtb_s3g.ks, dtb_miv[0], dtb_miv[1], dtb_miv[2], dtb_miv[3], dtb_miv[4], dtb_miv[5], dtb_miv[6], dtb_miv[7], dtb_msrc[0], dtb_mdst[0], 64, dtb_msrc[1], dtb_mdst[1], 0, dtb_msrc[2], dtb_mdst[2], 64, dtb_msrc[3], dtb_mdst[3], 64, dtb_msrc[4], dtb_mdst[4], 64, dtb_msrc[5], dtb_mdst[5], 64, dtb_msrc[6], dtb_mdst[6], 64, dtb_msrc[7], dtb_mdst[7], 64);
}
static void
dtb_r0297(IMB_MGR *m) /* S */
{
        (void) m;
        IMB_SNOW3G_F8_8_BUFFER(m, &dtb_s3g.ks, dtb_miv[0], dtb_miv[1], dtb_miv[2], dtb_miv[3], dtb_miv[4], dtb_miv[5], dtb_miv[6], dtb_miv[7], dtb_msrc[0], dtb_mdst[0], 64, dtb_msrc[1], dtb_mdst[1], (UINT32_MAX / 8 + 1), dtb_msrc[2], dtb_mdst[2], 64, dtb_msrc[3], dtb_mdst[3], 64, dtb_msrc[4], dtb_mdst[4], 64, dtb_msrc[5], dtb_mdst[5], 64, dtb_msrc[6], dtb_mdst[6], 64, dtb_msrc[7], dtb_mdst[7], 64);
}
static void
dtb_r0298(IMB_MGR *m) /* T */
{
        (void) m;
        IMB_SNOW3G_F8_8_BUFFER(m, &dtb_s3g.ks, dtb_miv[0], dtb_miv[1], dtb_miv[2], dtb_miv[3], dtb_miv[4], dtb_miv[5], dtb_miv[6], dtb_miv[7], dtb_msrc[0], dtb_mdst[0], 64, dtb_msrc[1], dtb_mdst[1], 64, NULL, dtb_mdst[2], 64, dtb_msrc[3], dtb_mdst[3], 64, dtb_msrc[4], dtb_mdst[4], 64, dtb_msrc[5], dtb_mdst[5], 64, dtb_msrc[6], dtb_mdst[6], 64, dtb_msrc[7], dtb_mdst[7], 64);
}
static void
dtb_r0299(IMB_MGR *m) /* T */
{
        (void) m;
        IMB_SNOW3G_F8_8_BUFFER(m, &dtb_s3g.ks, dtb_miv[0], dtb_miv[1], dtb_miv[2], dtb_miv[3], dtb_miv[4], dtb_miv[5], dtb_miv[6], dtb_miv[7], dtb_msrc[0], dtb_mdst[0], 64, dtb_msrc[1], dtb_mdst[1], 64, dtb_msrc[2], NULL, 64, dtb_msrc[3], dtb_mdst[3], 64, dtb_msrc[4], dtb_mdst[4], 64, dtb_msrc[5], dtb_mdst[5], 64, dtb_msrc[6], dtb_mdst[6], 64, dtb_msrc[7], dtb_mdst[7], 64);
}
static void
dtb_r0300(IMB_MGR *m) /* T */
{
        (void) m;
        IMB_SNOW3G_F8_8_BUFFER(m, &dtb_s3g.ks, dtb_miv[0], dtb_miv[1], dtb_miv[2], dtb_miv[3], dtb_miv[4], dtb_miv[5], dtb_miv[6], dtb_miv[7], dtb_msrc[0], dtb_mdst[0], 64, dtb_msrc[1], dtb_mdst[1], 64, dtb_msrc[2], dtb_mdst[2], 0, dtb_msrc[3], dtb_mdst[3], 64, dtb_msrc[4], dtb_mdst[4], 64, dtb_msrc[5], dtb_mdst[5], 64, dtb_msrc[6], dtb_mdst[6], 64, dtb_msrc[7], dtb_mdst[7], 64);
}
static void
dtb_r0301(IMB_MGR *m) /* S */
{
        (void) m;
        IMB_SNOW3G_F8_8_BUFFER(m, &dtb_s3g.ks, dtb_miv[0], dtb_miv[1], dtb_miv[2], dtb_miv[3], dtb_miv[4], dtb_miv[5], dtb_miv[6], dtb_miv[7], dtb_msrc[0], dtb_mdst[0], 64, dtb_msrc[1], dtb_mdst[1], 64, dtb_msrc[2], dtb_mdst[2], (UINT32_MAX / 8 + 1), dtb_msrc[3], dtb_mdst[3], 64, dtb_msrc[4], dtb_mdst[4], 64, dtb_msrc[5], dtb_mdst[5], 64, dtb_msrc[6], dtb_mdst[6], 64, dtb_msrc[7], dtb_mdst[7], 64);
}
static void
dtb_r0302(IMB_MGR *m) /* T */
{
        (void) m;
        IMB_SNOW3G_F8_8_BUFFER(m, &dtb_s3g.ks, dtb_miv[0], dtb_miv[1], dtb_miv[2], dtb_miv[3], dtb_miv[4], dtb_miv[5], dtb_miv[6], dtb_miv[7], dtb_msrc[0], dtb_mdst[0], 64, dtb_msrc[1], dtb_mdst[1], 64, dtb_msrc[2], dtb_mdst[2], 64, NULL, dtb_mdst[3], 64, dtb_msrc[4], dtb_mdst[4], 64, dtb_msrc[5], dtb_mdst[5], 64, dtb_msrc[6], dtb_mdst[6], 64, dtb_msrc[7], dtb_mdst[7], 64);
}
static void
dtb_r0303(IMB_MGR *m) /* T */
{
        (void) m;
        IMB_SNOW3G_F8_8_BUFFER(m, &dtb_s3g.ks, dtb_miv[0], dtb_miv[1], dtb_miv[2], dtb_miv[3], dtb_miv[4], dtb_miv[5], dtb_miv[6], dtb_miv[7], dtb_msrc[0], dtb_mdst[0], 64, dtb_msrc[1], dtb_mdst[1], 64, dtb_msrc[2], dtb_mdst[2], 64, dtb_msrc[3], NULL, 64, dtb_msrc[4], dtb_mdst[4], 64, dtb_msrc[5], dtb_mdst[5], 64, dtb_msrc[6], dtb_mdst[6], 64, dtb_msrc[7], dtb_mdst[7], 64);
}
static void
dtb_r0304(IMB_MGR *m) /* T */
{
        (void) m;
        IMB_SNOW3G_F8_8_BUFFER(m, &dtb_s3g.ks, dtb_miv[0], dtb_miv[1], dtb_miv[2], dtb_miv[3], dtb_miv[4], dtb_miv[5], dtb_miv[6], dtb_miv[7], dtb_msrc[0], dtb_mdst[0], 64, dtb_msrc[1], dtb_mdst[1], 64, dtb_msrc[2], dtb_mdst[2], 64, dtb_msrc[3], dtb_mdst[3], 0, dtb_msrc[4], dtb_mdst[4], 64, dtb_msrc[5], dtb_mdst[5], 64, dtb_msrc[6], dtb_mdst[6], 64, dtb_msrc[7], dtb_mdst[7], 64);
}
static void
dtb_r0305(IMB_MGR *m) /* S */
{
        (void) m;
        IMB_SNOW3G_F8_8_BUFFER(m, &dtb_s3g.ks, dtb_miv[0], dtb_miv[1], dtb_miv[2], dtb_miv[3], dtb_miv[4], dtb_miv[5], dtb_miv[6], dtb_miv[7], dtb_msrc[0], dtb_mdst[0], 64, dtb_msrc[1], dtb_mdst[1], 64, dtb_msrc[2], dtb_mdst[2], 64, dtb_msrc[3], dtb_mdst[3], (UINT32_MAX / 8 + 1), dtb_msrc[4], dtb_mdst[4], 64, dtb_msrc[5], dtb_mdst[5], 64, dtb_msrc[6], dtb_mdst[6], 64, dtb_msrc[7], dtb_mdst[7], 64);
}
static void
dtb_r0306(IMB_MGR *m) /* T */
{
        (void) m;
        IMB_SNOW3G_F8_8_BUFFER(m, &dtb_s3g.ks, dtb_miv[0], dtb_miv[1], dtb_miv[2], dtb_miv[3], dtb_miv[4], dtb_miv[5], dtb_miv[6], dtb_miv[7], dtb_msrc[0], dtb_mdst[0], 64, dtb_msrc[1], dtb_mdst[1], 64, dtb_msrc[2], dtb_mdst[2], 64, dtb_msrc[3], dtb_mdst[3], 64, NULL, dtb_mdst[4], 64, dtb_msrc[5], dtb_mdst[5], 64, dtb_msrc[6], dtb_mdst[6], 64, dtb_msrc[7], dtb_mdst[7], 64);
}
static void
dtb_r0307(IMB_MGR *m) /* T */
{
        (void) m;
        IMB_SNOW3G_F8_8_BUFFER(m, &dtb_s3g.ks, dtb_miv[0], dtb_miv[1], dtb_miv[2], dtb_miv[3], dtb_miv[4], dtb_miv[5], dtb_miv[6], dtb_miv[7], dtb_msrc[0], dtb_mdst[0], 64, dtb_msrc[1], dtb_mdst[1], 64, dtb_msrc[2], dtb_mdst[2], 64, dtb_msrc[3], dtb_mdst[3], 64, dtb_msrc[4], NULL, 64, dtb_msrc[5], dtb_mdst[5], 64, dtb_msrc[6], dtb_mdst[6], 64, dtb_msrc[7], dtb_mdst[7], 64);
}
static void
dtb_r0308(IMB_MGR *m) /* T */
{
        (void) m;
        IMB_SNOW3G_F8_8_BUFFER(m, &dtb_s3g.ks, dtb_miv[0], dtb_miv[1], dtb_miv[2], dtb_miv[3], dtb_miv[4], dtb_miv[5], dtb_miv[6], dtb_miv[7], dtb_msrc[0], dtb_mdst[0], 64, dtb_msrc[1], dtb_mdst[1], 64, dtb_msrc[2], dtb_mdst[2], 64, dtb_msrc[3], dtb_mdst[3], 64, dtb_msrc[4], dtb_mdst[4], 0, dtb_msrc[5], dtb_mdst[5], 64, dtb_msrc[6], dtb_mdst[6], 64, dtb_msrc[7], dtb_mdst[7], 64);
}
static void
dtb_r0309(IMB_MGR *m) /* S */
{
        (void) m;
        IMB_SNOW3G_F8_8_BUFFER(m, &dtb_s3g.ks, dtb_miv[0], dtb_miv[1], dtb_miv[2], dtb_miv[3], dtb_miv[4], dtb_miv[5], dtb_miv[6], dtb_miv[7], dtb_msrc[0], dtb_mdst[0], 64, dtb_msrc[1], dtb_mdst[1], 64, dtb_msrc[2], dtb_mdst[2], 64, dtb_msrc[3], dtb_mdst[3], 64, dtb_msrc[4], dtb_mdst[4], (UINT32_MAX / 8 + 1), dtb_msrc[5], dtb_mdst[5], 64, dtb_msrc[6], dtb_mdst[6], 64, dtb_msrc[7], dtb_mdst[7], 64);
}
static void
dtb_r0310(IMB_MGR *m) /* T */
{
        (void) m;
        IMB_SNOW3G_F8_8_BUFFER(m, &dtb_s3g.ks, dtb_miv[0], dtb_miv[1], dtb_miv[2], dtb_miv[3], dtb_miv[4], dtb_miv[5], dtb_miv[6], dtb_miv[7], dtb_msrc[0], dtb_mdst[0], 64, dtb_msrc[1], dtb_mdst[1], 64, dtb_msrc[2], dtb_mdst[2], 64, dtb_msrc[3], dtb_mdst[3], 64, dtb_msrc[4], dtb_mdst[4], 64, NULL, dtb_mdst[5], 64, dtb_msrc[6], dtb_mdst[6], 64, dtb_msrc[7], dtb_mdst[7], 64);
}
static void
dtb_r0311(IMB_MGR *m) /* T */
{
        (void) m;
        IMB_SNOW3G_F8_8_BUFFER(m, &dtb_s3g.ks, dtb_miv[0], dtb_miv[1], dtb_miv[2], dtb_miv[3], dtb_miv[4], dtb_miv[5], dtb_miv[6], dtb_miv[7], dtb_msrc[0], dtb_mdst[0], 64, dtb_msrc[1], dtb_mdst[1], 64, dtb_msrc[2], dtb_mdst[2], 64, dtb_msrc[3], dtb_mdst[3], 64, dtb_msrc[4], dtb_mdst[4], 64, dtb_msrc[5], NULL, 64, dtb_msrc[6], dtb_mdst[6], 64, dtb_msrc[7], dtb_mdst[7], 64);
}
static void
dtb_r0312(IMB_MGR *m) /* T */
{
        (void) m;
        IMB_SNOW3G_F8_8_BUFFER(m, &dtb_s3g.ks, dtb_miv[0], dtb_miv[1], dtb_miv[2], dtb_miv[3], dtb_miv[4], dtb_miv[5], dtb_miv[6], dtb_miv[7], dtb_msrc[0], dtb_mdst[0], 64, dtb_msrc[1], dtb_mdst[1], 64, dtb_msrc[2], dtb_mdst[2], 64, dtb_msrc[3], dtb_mdst[3], 64, dtb_msrc[4], dtb_mdst[4], 64, dtb_msrc[5], dtb_mdst[5], 0, dtb_msrc[6], dtb_mdst[6], 64, dtb_msrc[7], dtb_mdst[7], 64);
}
static void
dtb_r0313(IMB_MGR *m) /* S */
{
        (void) m;
        IMB_SNOW3G_F8_8_BUFFER(m, &dtb_s3g.ks, dtb_miv[0], dtb_miv[1], dtb_miv[2], dtb_miv[3], dtb_miv[4], dtb_miv[5], dtb_miv[6], dtb_miv[7], dtb_msrc[0], dtb_mdst[0], 64, dtb_msrc[1], dtb_mdst[1], 64, dtb_msrc[2], dtb_mdst[2], 64, dtb_msrc[3], dtb_mdst[3], 64, dtb_msrc[4], dtb_mdst[4], 64, dtb_msrc[5], dtb_mdst[5], (UINT32_MAX / 8 + 1), dtb_msrc[6], dtb_mdst[6], 64, dtb_msrc[7], dtb_mdst[7], 64);
}
static void
dtb_r0314(IMB_MGR *m) /* T */
{
        (void) m;
        IMB_SNOW3G_F8_8_BUFFER(m, &dtb_s3g.ks, dtb_miv[0], dtb_miv[1], dtb_miv[2], dtb_miv[3], dtb_miv[4], dtb_miv[5], dtb_miv[6], dtb_miv[7], dtb_msrc[0], dtb_mdst[0], 64, dtb_msrc[1], dtb_mdst[1], 64, dtb_msrc[2], dtb_mdst[2], 64, dtb_msrc[3], dtb_mdst[3], 64, dtb_msrc[4], dtb_mdst[4], 64, dtb_msrc[5], dtb_mdst[5], 64, NULL, dtb_mdst[6], 64, dtb_msrc[7], dtb_mdst[7], 64);
}
static void
dtb_r0315(IMB_MGR *m) /* T */
{
        (void) m;
        IMB_SNOW3G_F8_8_BUFFER(m, &dtb_s3g.ks, dtb_miv[0], dtb_miv[1], dtb_miv[2], dtb_miv[3], dtb_miv[4], dtb_miv[5], dtb_miv[6], dtb_miv[7], dtb_msrc[0], dtb_mdst[0], 64, dtb_msrc[1], dtb_mdst[1], 64, dtb_msrc[2], dtb_mdst[2], 64, dtb_msrc[3], dtb_mdst[3], 64, dtb_msrc[4], dtb_mdst[4], 64, dtb_msrc[5], dtb_mdst[5], 64, dtb_msrc[6], NULL, 64, dtb_msrc[7], dtb_mdst[7], 64);
}
static void
dtb_r0316(IMB_MGR *m) /* T */
{
        (void) m;
        IMB_SNOW3G_F8_8_BUFFER(m, &dtb_s3g.ks, dtb_miv[0], dtb_miv[1], dtb_miv[2], dtb_miv[3], dtb_miv[4], dtb_miv[5], dtb_miv[6], dtb_miv[7], dtb_msrc[0], dtb_mdst[0], 64, dtb_msrc[1], dtb_mdst[1], 64, dtb_msrc[2], dtb_mdst[2], 64, dtb_msrc[3], dtb_mdst[3], 64, dtb_msrc[4], dtb_mdst[4], 64, dtb_msrc[5], dtb_mdst[5], 64, dtb_msrc[6], dtb_mdst[6], 0, dtb_msrc[7], dtb_mdst[7], 64);
}
static void
dtb_r0317(IMB_MGR *m) /* S */
{
        (void) m;
        IMB_SNOW3G_F8_8_BUFFER(m, &dtb_s3g.ks, dtb_miv[0], dtb_miv[1], dtb_miv[2], dtb_miv[3], dtb_miv[4], dtb_miv[5], dtb_miv[6], dtb_miv[7], dtb_msrc[0], dtb_mdst[0], 64, dtb_msrc[1], dtb_mdst[1], 64, dtb_msrc[2], dtb_mdst[2], 64, dtb_msrc[3], dtb_mdst[3], 64, dtb_msrc[4], dtb_mdst[4], 64, dtb_msrc[5], dtb_mdst[5], 64, dtb_msrc[6], dtb_mdst[6], (UINT32_MAX / 8 + 1), dtb_msrc[7], dtb_mdst[7], 64);
}
static void
dtb_r0318(IMB_MGR *m) /* T */
{
        (void) m;
        IMB_SNOW3G_F8_8_BUFFER(m, &dtb_s3g.ks, dtb_miv[0], dtb_miv[1], dtb_miv[2], dtb_miv[3], dtb_miv[4], dtb_miv[5], dtb_miv[6], dtb_miv[7], dtb_msrc[0], dtb_mdst[0], 64, dtb_msrc[1], dtb_mdst[1], 64, dtb_msrc[2], dtb_mdst[2], 64, dtb_msrc[3], dtb_mdst[3], 64, dtb_msrc[4], dtb_mdst[4], 64, dtb_msrc[5], dtb_mdst[5], 64, dtb_msrc[6], dtb_mdst[6], 64, NULL, dtb_mdst[7], 64);
}
static void
dtb_r0319(IMB_MGR *m) /* T */
{
        (void) m;
        IMB_SNOW3G_F8_8_BUFFER(m, &dtb_s3g.ks, dtb_miv[0], dtb_miv[1], dtb_miv[2], dtb_miv[3], dtb_miv[4], dtb_miv[5], dtb_miv[6], dtb_miv[7], dtb_msrc[0], dtb_mdst[0], 64, dtb_msrc[1], dtb_mdst[1], 64, dtb_msrc[2], dtb_mdst[2], 64, dtb_msrc[3], dtb_mdst[3], 64, dtb_msrc[4], dtb_mdst[4], 64, dtb_msrc[5], dtb_mdst[5], 64, dtb_msrc[6], dtb_mdst[6], 64, dtb_msrc[7], NULL, 64);
}
static void
dtb_r0320(IMB_MGR *m) /* T */
{
        (void) m;
        IMB_SNOW3G_F8_8_BUFFER(m, &dtb_s3g.ks, dtb_miv[0], dtb_miv[1], dtb_miv[2], dtb_miv[3], dtb_miv[4], dtb_miv[5], dtb_miv[6], dtb_miv[7], dtb_msrc[0], dtb_mdst[0], 64, dtb_msrc[1], dtb_mdst[1], 64, dtb_msrc[2], dtb_mdst[2], 64, dtb_msrc[3], dtb_mdst[3], 64, dtb_msrc[4], dtb_mdst[4], 64, dtb_msrc[5], dtb_mdst[5], 64, dtb_msrc[6], dtb_mdst[6], 64, dtb_msrc[7], dtb_mdst[7], 0);
}
static void
dtb_r0321(IMB_MGR *m) /* S */
{
        (void) m;
        IMB_SNOW3G_F8_8_BUFFER(m, &dtb_s3g.ks, dtb_miv[0], dtb_miv[1], dtb_miv[2], dtb_miv[3], dtb_miv[4], dtb_miv[5], dtb_miv[6], dtb_miv[7], dtb_msrc[0], dtb_mdst[0], 64, dtb_msrc[1], dtb_mdst[1], 64, dtb_msrc[2], dtb_mdst[2], 64, dtb_msrc[3], dtb_mdst[3], 64, dtb_msrc[4], dtb_mdst[4], 64, dtb_msrc[5], dtb_mdst[5], 64, dtb_msrc[6], dtb_mdst[6], 64, dtb_msrc[7], dtb_mdst[7], (UINT32_MAX / 8 + 1));
}
static void
dtb_r0322(IMB_MGR *m) /* T */
{
        (void) m;
        IMB_SNOW3G_F8_8_BUFFER_MULTIKEY(m, dtb_v_s3gk_null, dtb_v_iv, dtb_v_src, dtb_v_dst, dtb_v_len);
}
static void
dtb_r0323(IMB_MGR *m) /* T */
{
        (void) m;
        IMB_SNOW3G_F8_8_BUFFER_MULTIKEY(m, NULL, dtb_v_iv, dtb_v_src, dtb_v_dst, dtb_v_len);
}
static void
dtb_r0324(IMB_MGR *m) /* S */
{
        (void) m;
        IMB_SNOW3G_F8_8_BUFFER_MULTIKEY(m, dtb_v_s3gk_1n, dtb_v_iv, dtb_v_src, dtb_v_dst, dtb_v_len);
}
static void
dtb_r0325(IMB_MGR *m) /* T */
{
        (void) m;
        IMB_SNOW3G_F8_8_BUFFER_MULTIKEY(m, dtb_v_s3gk, dtb_v_cnull, dtb_v_src, dtb_v_dst, dtb_v_len);
}
static void
dtb_r0326(IMB_MGR *m) /* T */
{
        (void) m;
        IMB_SNOW3G_F8_8_BUFFER_MULTIKEY(m, dtb_v_s3gk, NULL, dtb_v_src, dtb_v_dst, dtb_v_len);
}
static void
dtb_r0327(IMB_MGR *m) /* S */
{
        (void) m;
        IMB_SNOW3G_F8_8_BUFFER_MULTIKEY(m, dtb_v_s3gk, dtb_v_iv_1n, dtb_v_src, dtb_v_dst, dtb_v_len);
}
static void
dtb_r0328(IMB_MGR *m) /* T */
{
        (void) m;
        IMB_SNOW3G_F8_8_BUFFER_MULTIKEY(m, dtb_v_s3gk, dtb_v_iv, dtb_v_cnull, dtb_v_dst, dtb_v_len);
}
static void
dtb_r0329(IMB_MGR *m) /* T */
{
        (void) m;
        IMB_SNOW3G_F8_8_BUFFER_MULTIKEY(m, dtb_v_s3gk, dtb_v_iv, NULL, dtb_v_dst, dtb_v_len);
}
static void
dtb_r0330(IMB_MGR *m) /* S */
{
        (void) m;
        IMB_SNOW3G_F8_8_BUFFER_MULTIKEY(m, dtb_v_s3gk, dtb_v_iv, dtb_v_src_1n, dtb_v_dst, dtb_v_len);
}
static void
dtb_r0331(IMB_MGR *m) /* T */
{
        (void) m;
        IMB_SNOW3G_F8_8_BUFFER_MULTIKEY(m, dtb_v_s3gk, dtb_v_iv, dtb_v_src, dtb_v_null, dtb_v_len);
}
static void
dtb_r0332(IMB_MGR *m) /* T */
{
        (void) m;
        IMB_SNOW3G_F8_8_BUFFER_MULTIKEY(m, dtb_v_s3gk, dtb_v_iv, dtb_v_src, NULL, dtb_v_len);
}
static void
dtb_r0333(IMB_MGR *m) /* S */
{
        (void) m;
        IMB_SNOW3G_F8_8_BUFFER_MULTIKEY(m, dtb_v_s3gk, dtb_v_iv, dtb_v_src, dtb_v_dst_1n, dtb_v_len);
}
static void
dtb_r0334(IMB_MGR *m) /* T */
{
        (void) m;
        IMB_SNOW3G_F8_8_BUFFER_MULTIKEY(m, dtb_v_s3gk, dtb_v_iv, dtb_v_src, dtb_v_dst, NULL);
}
static void
dtb_r0335(IMB_MGR *m) /* S */
{
        (void) m;
        IMB_SNOW3G_F8_8_BUFFER_MULTIKEY(m, dtb_v_s3gk, dtb_v_iv, dtb_v_src, dtb_v_dst, dtb_v_len_0);
}
static void
dtb_r0336(IMB_MGR *m) /* S */
{
        (void) m;
        IMB_SNOW3G_F8_8_BUFFER_MULTIKEY(m, dtb_v_s3gk, dtb_v_iv, dtb_v_src, dtb_v_dst, dtb_v_len_1z);
}
static void
dtb_r0337(IMB_MGR *m) /* S */
{
        (void) m;
        IMB_SNOW3G_F8_8_BUFFER_MULTIKEY(m, dtb_v_s3gk, dtb_v_iv, dtb_v_src, dtb_v_dst, dtb_v_len_s3gbig);
}
static void
dtb_r0338(IMB_MGR *m) /* T */
{
        (void) m;
        IMB_SNOW3G_F8_N_BUFFER(m, NULL, dtb_v_iv, dtb_v_src, dtb_v_dst, dtb_v_len, 17);
}
static void
dtb_r0339(IMB_MGR *m) /* T */
{
        (void) m;
        IMB_SNOW3G_F8_N_BUFFER(m, &dtb_s3g.ks, dtb_v_cnull, dtb_v_src, dtb_v_dst, dtb_v_len, 17);
}
static void
dtb_r0340(IMB_MGR *m) /* T */
{
        (void) m;
        IMB_SNOW3G_F8_N_BUFFER(m, &dtb_s3g.ks, NULL, dtb_v_src, dtb_v_dst, dtb_v_len, 17);
}
static void
dtb_r0341(IMB_MGR *m) /* S */
{
        (void) m;
        IMB_SNOW3G_F8_N_BUFFER(m, &dtb_s3g.ks, dtb_v_iv_1n, dtb_v_src, dtb_v_dst, dtb_v_len, 17);
}
static void
dtb_r0342(IMB_MGR *m) /* T */
{
        (void) m;
        IMB_SNOW3G_F8_N_BUFFER(m, &dtb_s3g.ks, dtb_v_iv, dtb_v_cnull, dtb_v_dst, dtb_v_len, 17);
}
static void
dtb_r0343(IMB_MGR *m) /* T */
{
        (void) m;
        IMB_SNOW3G_F8_N_BUFFER(m, &dtb_s3g.ks, dtb_v_iv, NULL, dtb_v_dst, dtb_v_len, 17);
}
static void
dtb_r0344(IMB_MGR *m) /* S */
{
        (void) m;
        IMB_SNOW3G_F8_N_BUFFER(m, &dtb_s3g.ks, dtb_v_iv, dtb_v_src_1n, dtb_v_dst, dtb_v_len, 17);
}
static void
dtb_r0345(IMB_MGR *m) /* T */
{
        (void) m;
        IMB_SNOW3G_F8_N_BUFFER(m, &dtb_s3g.ks, dtb_v_iv, dtb_v_src, dtb_v_null, dtb_v_len, 17);
}
static void
dtb_r0346(IMB_MGR *m) /* T */
{
        (void) m;
        IMB_SNOW3G_F8_N_BUFFER(m, &dtb_s3g.ks, dtb_v_iv, dtb_v_src, NULL, dtb_v_len, 17);
}
static void
dtb_r0347(IMB_MGR *m) /* S */
{
        (void) m;
        IMB_SNOW3G_F8_N_BUFFER(m, &dtb_s3g.ks, dtb_v_iv, dtb_v_src, dtb_v_dst_1n, dtb_v_len, 17);
}
static void
dtb_r0348(IMB_MGR *m) /* T */
{
        (void) m;
        IMB_SNOW3G_F8_N_BUFFER(m, &dtb_s3g.ks, dtb_v_iv, dtb_v_src, dtb_v_dst, NULL, 17);
}
static void
dtb_r0349(IMB_MGR *m) /* S */
{
        (void) m;
        IMB_SNOW3G_F8_N_BUFFER(m, &dtb_s3g.ks, dtb_v_iv, dtb_v_src, dtb_v_dst, dtb_v_len_0, 17);
}
static void
dtb_r0350(IMB_MGR *m) /* S */
{
        (void) m;
        IMB_SNOW3G_F8_N_BUFFER(m, &dtb_s3g.ks, dtb_v_iv, dtb_v_src, dtb_v_dst, dtb_v_len_1z, 17);
}
static void
dtb_r0351(IMB_MGR *m) /* S */
{
        (void) m;
        IMB_SNOW3G_F8_N_BUFFER(m, &dtb_s3g.ks, dtb_v_iv, dtb_v_src, dtb_v_dst, dtb_v_len_s3gbig, 17);
}
static void
dtb_r0352(IMB_MGR *m) /* T */
{
        (void) m;
        IMB_SNOW3G_F8_N_BUFFER_MULTIKEY(m, dtb_v_s3gk_null, dtb_v_iv, dtb_v_src, dtb_v_dst, dtb_v_len, 17);
}
static void
dtb_r0353(IMB_MGR *m) /* T */
{
        (void) m;
        IMB_SNOW3G_F8_N_BUFFER_MULTIKEY(m, NULL, dtb_v_iv, dtb_v_src, dtb_v_dst, dtb_v_len, 17);
}
static void
dtb_r0354(IMB_MGR *m) /* S */
{
        (void) m;
        IMB_SNOW3G_F8_N_BUFFER_MULTIKEY(m, dtb_v_s3gk_1n, dtb_v_iv, dtb_v_src, dtb_v_dst, dtb_v_len, 17);
}
static void
dtb_r0355(IMB_MGR *m) /* T */
{
        (void) m;
        IMB_SNOW3G_F8_N_BUFFER_MULTIKEY(m, dtb_v_s3gk, dtb_v_cnull, dtb_v_src, dtb_v_dst, dtb_v_len, 17);
}
static void
dtb_r0356(IMB_MGR *m) /* T */
{
        (void) m;
        IMB_SNOW3G_F8_N_BUFFER_MULTIKEY(m, dtb_v_s3gk, NULL, dtb_v_src, dtb_v_dst, dtb_v_len, 17);
}
static void
dtb_r0357(IMB_MGR *m) /* S */
{
        (void) m;
        IMB_SNOW3G_F8_N_BUFFER_MULTIKEY(m, dtb_v_s3gk, dtb_v_iv_1n, dtb_v_src, dtb_v_dst, dtb_v_len, 17);
}
static void
dtb_r0358(IMB_MGR *m) /* T */
{
        (void) m;
        IMB_SNOW3G_F8_N_BUFFER_MULTIKEY(m, dtb_v_s3gk, dtb_v_iv, dtb_v_cnull, dtb_v_dst, dtb_v_len, 17);
}
static void
dtb_r0359(IMB_MGR *m) /* T */
{
        (void) m;
        IMB_SNOW3G_F8_N_BUFFER_MULTIKEY(m, dtb_v_s3gk, dtb_v_iv, NULL, dtb_v_dst, dtb_v_len, 17);
}
static void
dtb_r0360(IMB_MGR *m) /* S */
{
        (void) m;
        IMB_SNOW3G_F8_N_BUFFER_MULTIKEY(m, dtb_v_s3gk, dtb_v_iv, dtb_v_src_1n, dtb_v_dst, dtb_v_len, 17);
}
static void
dtb_r0361(IMB_MGR *m) /* T */
{
        (void) m;
        IMB_SNOW3G_F8_N_BUFFER_MULTIKEY(m, dtb_v_s3gk, dtb_v_iv, dtb_v_src, dtb_v_null, dtb_v_len, 17);
}
static void
dtb_r0362(IMB_MGR *m) /* T */
{
        (void) m;
        IMB_SNOW3G_F8_N_BUFFER_MULTIKEY(m, dtb_v_s3gk, dtb_v_iv, dtb_v_src, NULL, dtb_v_len, 17);
}
static void
dtb_r0363(IMB_MGR *m) /* S */
{
        (void) m;
        IMB_SNOW3G_F8_N_BUFFER_MULTIKEY(m, dtb_v_s3gk, dtb_v_iv, dtb_v_src, dtb_v_dst_1n, dtb_v_len, 17);
}
static void
dtb_r0364(IMB_MGR *m) /* T */
{
        (void) m;
        IMB_SNOW3G_F8_N_BUFFER_MULTIKEY(m, dtb_v_s3gk, dtb_v_iv, dtb_v_src, dtb_v_dst, NULL, 17);
}
static void
dtb_r0365(IMB_MGR *m) /* S */
{
        (void) m;
        IMB_SNOW3G_F8_N_BUFFER_MULTIKEY(m, dtb_v_s3gk, dtb_v_iv, dtb_v_src, dtb_v_dst, dtb_v_len_0, 17);
}
static void
dtb_r0366(IMB_MGR *m) /* S */
{
        (void) m;
        IMB_SNOW3G_F8_N_BUFFER_MULTIKEY(m, dtb_v_s3gk, dtb_v_iv, dtb_v_src, dtb_v_dst, dtb_v_len_1z, 17);
}
static void
dtb_r0367(IMB_MGR *m) /* S */
{
        (void) m;
        IMB_SNOW3G_F8_N_BUFFER_MULTIKEY(m, dtb_v_s3gk, dtb_v_iv, dtb_v_src, dtb_v_dst, dtb_v_len_s3gbig, 17);
}
static void
dtb_r0368(IMB_MGR *m) /* T */
{
        (void) m;
        IMB_SNOW3G_F9_1_BUFFER(m, NULL, dtb_iv, dtb_src, 512, dtb_tag);
}
static void
dtb_r0369(IMB_MGR *m) /* T */
{
        (void) m;
        IMB_SNOW3G_F9_1_BUFFER(m, &dtb_s3g.ks, NULL, dtb_src, 512, dtb_tag);
}
static void
dtb_r0370(IMB_MGR *m) /* T */
{
        (void) m;
        IMB_SNOW3G_F9_1_BUFFER(m, &dtb_s3g.ks, dtb_iv, NULL, 512, dtb_tag);
}
static void
dtb_r0371(IMB_MGR *m) /* T */
{
        (void) m;
        IMB_SNOW3G_F9_1_BUFFER(m, &dtb_s3g.ks, dtb_iv, dtb_src, 0, dtb_tag);
}
static void
dtb_r0372(IMB_MGR *m) /* S */
{
        (void) m;
        IMB_SNOW3G_F9_1_BUFFER(m, &dtb_s3g.ks, dtb_iv, dtb_src, (1ULL << 32), dtb_tag);
}
static void
dtb_r0373(IMB_MGR *m) /* T */
{
        (void) m;
        IMB_SNOW3G_F9_1_BUFFER(m, &dtb_s3g.ks, dtb_iv, dtb_src, 512, NULL);
}
static void
dtb_r0374(IMB_MGR *m) /* T */
{
        (void) m;
        IMB_SNOW3G_INIT_KEY_SCHED(m, NULL, &dtb_s3gout.ks);
}
static void
dtb_r0375(IMB_MGR *m) /* T */
{
        (void) m;
        IMB_SNOW3G_INIT_KEY_SCHED(m, dtb_key, NULL);
}
static void
dtb_r0376(IMB_MGR *m) /* T */
{
        (void) m;
        IMB_KASUMI_F8_1_BUFFER(m, NULL, 1, dtb_src, dtb_dst, 64);
}
static void
dtb_r0377(IMB_MGR *m) /* T */
{
        (void) m;
        IMB_KASUMI_F8_1_BUFFER(m, &dtb_kas8.ks, 1, NULL, dtb_dst, 64);
}
static void
dtb_r0378(IMB_MGR *m) /* T */
{
        (void) m;
        IMB_KASUMI_F8_1_BUFFER(m, &dtb_kas8.ks, 1, dtb_src, NULL, 64);
}
static void
dtb_r0379(IMB_MGR *m) /* T */
{
        (void) m;
        IMB_KASUMI_F8_1_BUFFER(m, &dtb_kas8.ks, 1, dtb_src, dtb_dst, 0);
}
static void
dtb_r0380(IMB_MGR *m) /* S */
{
        (void) m;
        IMB_KASUMI_F8_1_BUFFER(m, &dtb_kas8.ks, 1, dtb_src, dtb_dst, 2501);
}
static void
dtb_r0381(IMB_MGR *m) /* T */
{
        (void) m;
        IMB_KASUMI_F8_1_BUFFER_BIT(m, NULL, 1, dtb_src, dtb_dst, 512, 0);
}
static void
dtb_r0382(IMB_MGR *m) /* T */
{
        (void) m;
        IMB_KASUMI_F8_1_BUFFER_BIT(m, &dtb_kas8.ks, 1, NULL, dtb_dst, 512, 0);
}
static void
dtb_r0383(IMB_MGR *m) /* T */
{
        (void) m;
        IMB_KASUMI_F8_1_BUFFER_BIT(m, &dtb_kas8.ks, 1, dtb_src, NULL, 512, 0);
}
static void
dtb_r0384(IMB_MGR *m) /* T */
{
        (void) m;
        IMB_KASUMI_F8_1_BUFFER_BIT(m, &dtb_kas8.ks, 1, dtb_src, dtb_dst, 0, 0);
}
static void
dtb_r0385(IMB_MGR *m) /* S */
{
        (void) m;
        IMB_KASUMI_F8_1_BUFFER_BIT(m, &dtb_kas8.ks, 1, dtb_src, dtb_dst, 20001, 0);
}
static void
dtb_r0386(IMB_MGR *m) /* T */
{
        (void) m;
        IMB_KASUMI_F8_2_BUFFER(m, NULL, 1, 2, dtb_msrc[0], dtb_mdst[0], 64, dtb_msrc[1], dtb_mdst[1], 64);
}
static void
dtb_r0387(IMB_MGR *m) /* T */
{
        (void) m;
        IMB_KASUMI_F8_2_BUFFER(m, &dtb_kas8.ks, 1, 2, NULL, dtb_mdst[0], 64, dtb_msrc[1], dtb_mdst[1], 64);
}
static void
dtb_r0388(IMB_MGR *m) /* T */
{
        (void) m;
        IMB_KASUMI_F8_2_BUFFER(m, &dtb_kas8.ks, 1, 2, dtb_msrc[0], NULL, 64, dtb_msrc[1], dtb_mdst[1], 64);
}
static void
dtb_r0389(IMB_MGR *m) /* T */
{
        (void) m;
        IMB_KASUMI_F8_2_BUFFER(m, &dtb_kas8.ks, 1, 2, dtb_msrc[0], dtb_mdst[0], 0, dtb_msrc[1], dtb_mdst[1], 64);
}
static void
dtb_r0390(IMB_MGR *m) /* S */
{
        (void) m;
        IMB_KASUMI_F8_2_BUFFER(m, &dtb_kas8.ks, 1, 2, dtb_msrc[0], dtb_mdst[0], 2501, dtb_msrc[1], dtb_mdst[1], 64);
}
static void
dtb_r0391(IMB_MGR *m) /* T */
{
        (void) m;
        IMB_KASUMI_F8_2_BUFFER(m, &dtb_kas8.ks, 1, 2, dtb_msrc[0], dtb_mdst[0], 64, NULL, dtb_mdst[1], 64);
}
static void
dtb_r0392(IMB_MGR *m) /* T */
{
        (void) m;
        IMB_KASUMI_F8_2_BUFFER(m, &dtb_kas8.ks, 1, 2, dtb_msrc[0], dtb_mdst[0], 64, dtb_msrc[1], NULL, 64);
}
static void
dtb_r0393(IMB_MGR *m) /* T */
{
        (void) m;
        IMB_KASUMI_F8_2_BUFFER(m, &dtb_kas8.ks, 1, 2, dtb_msrc[0], dtb_mdst[0], 64, dtb_msrc[1], dtb_mdst[1], 0);
}
static void
dtb_r0394(IMB_MGR *m) /* S */
{
        (void) m;
        IMB_KASUMI_F8_2_BUFFER(m, &dtb_kas8.ks, 1, 2, dtb_msrc[0], dtb_mdst[0], 64, dtb_msrc[1], dtb_mdst[1], 2501);
}
static void
dtb_r0395(IMB_MGR *m) /* T */
{
        (void) m;
        IMB_KASUMI_F8_3_BUFFER(m, NULL, 1, 2, 3, dtb_msrc[0], dtb_mdst[0], dtb_msrc[1], dtb_mdst[1], dtb_msrc[2], dtb_mdst[2], 64);
}
static void
dtb_r0396(IMB_MGR *m) /* T */
{
        (void) m;
        IMB_KASUMI_F8_3_BUFFER(m, &dtb_kas8.ks, 1, 2, 3, NULL, dtb_mdst[0], dtb_msrc[1], dtb_mdst[1], dtb_msrc[2], dtb_mdst[2], 64);
}
static void
dtb_r0397(IMB_MGR *m) /* T */
{
        (void) m;
        IMB_KASUMI_F8_3_BUFFER(m, &dtb_kas8.ks, 1, 2, 3, dtb_msrc[0], NULL, dtb_msrc[1], dtb_mdst[1], dtb_msrc[2], dtb_mdst[2], 64);
}
static void
dtb_r0398(IMB_MGR *m) /* T */
{
        (void) m;
        IMB_KASUMI_F8_3_BUFFER(m, &dtb_kas8.ks, 1, 2, 3, dtb_msrc[0], dtb_mdst[0], NULL, dtb_mdst[1], dtb_msrc[2], dtb_mdst[2], 64);
}
static void
dtb_r0399(IMB_MGR *m) /* T */
{
        (void) m;
        IMB_KASUMI_F8_3_BUFFER(m, &dtb_kas8.ks, 1, 2, 3, dtb_msrc[0], dtb_mdst[0], dtb_msrc[1], NULL, dtb_msrc[2], dtb_mdst[2], 64);
}
static void
dtb_r0400(IMB_MGR *m) /* T */
{
        (void) m;
        IMB_KASUMI_F8_3_BUFFER(m, &dtb_kas8.ks, 1, 2, 3, dtb_msrc[0], dtb_mdst[0], dtb_msrc[1], dtb_mdst[1], NULL, dtb_mdst[2], 64);
}
static void
dtb_r0401(IMB_MGR *m) /* T */
{
        (void) m;
        IMB_KASUMI_F8_3_BUFFER(m, &dtb_kas8.ks, 1, 2, 3, dtb_msrc[0], dtb_mdst[0], dtb_msrc[1], dtb_mdst[1], dtb_msrc[2], NULL, 64);
}
static void
dtb_r0402(IMB_MGR *m) /* T */
{
        (void) m;
        IMB_KASUMI_F8_3_BUFFER(m, &dtb_kas8.ks, 1, 2, 3, dtb_msrc[0], dtb_mdst[0], dtb_msrc[1], dtb_mdst[1], dtb_msrc[2], dtb_mdst[2], 0);
}
static void
dtb_r0403(IMB_MGR *m) /* S */
{
        (void) m;
        IMB_KASUMI_F8_3_BUFFER(m, &dtb_kas8.ks, 1, 2, 3, dtb_msrc[0], dtb_mdst[0], dtb_msrc[1], dtb_mdst[1], dtb_msrc[2], dtb_mdst[2], 2501);
}
static void
dtb_r0404(IMB_MGR *m) /* T */
{
        (void) m;
        IMB_KASUMI_F8_4_BUFFER(m, NULL, 1, 2, 3, 4, dtb_msrc[0], dtb_mdst[0], dtb_msrc[1], dtb_mdst[1], dtb_msrc[2], dtb_mdst[2], dtb_msrc[3], dtb_mdst[3], 64);
}
static void
dtb_r0405(IMB_MGR *m) /* T */
{
        (void) m;
        IMB_KASUMI_F8_4_BUFFER(m, &dtb_kas8.ks, 1, 2, 3, 4, NULL, dtb_mdst[0], dtb_msrc[1], dtb_mdst[1], dtb_msrc[2], dtb_mdst[2], dtb_msrc[3], dtb_mdst[3], 64);
}
static void
dtb_r0406(IMB_MGR *m) /* T */
{
        (void) m;
        IMB_KASUMI_F8_4_BUFFER(m, &dtb_kas8.ks, 1, 2, 3, 4, dtb_msrc[0], NULL, dtb_msrc[1], dtb_mdst[1], dtb_msrc[2], dtb_mdst[2], dtb_msrc[3], dtb_mdst[3], 64);
}
static void
dtb_r0407(IMB_MGR *m) /* T */
{
        (void) m;
        IMB_KASUMI_F8_4_BUFFER(m, &dtb_kas8.ks, 1, 2, 3, 4, dtb_msrc[0], dtb_mdst[0], NULL, dtb_mdst[1], dtb_msrc[2], dtb_mdst[2], dtb_msrc[3], dtb_mdst[3], 64);
}
static void
dtb_r0408(IMB_MGR *m) /* T */
{
        (void) m;
        IMB_KASUMI_F8_4_BUFFER(m, &dtb_kas8.ks, 1, 2, 3, 4, dtb_msrc[0], dtb_mdst[0], dtb_msrc[1], NULL, dtb_msrc[2], dtb_mdst[2], dtb_msrc[3], dtb_mdst[3], 64);
}
static void
dtb_r0409(IMB_MGR *m) /* T */
{
        (void) m;
        IMB_KASUMI_F8_4_BUFFER(m, &dtb_kas8.ks, 1, 2, 3, 4, dtb_msrc[0], dtb_mdst[0], dtb_msrc[1], dtb_mdst[1], NULL, dtb_mdst[2], dtb_msrc[3], dtb_mdst[3], 64);
}
static void
dtb_r0410(IMB_MGR *m) /* T */
{
        (void) m;
        IMB_KASUMI_F8_4_BUFFER(m, &dtb_kas8.ks, 1, 2, 3, 4, dtb_msrc[0], dtb_mdst[0], dtb_msrc[1], dtb_mdst[1], dtb_msrc[2], NULL, dtb_msrc[3], dtb_mdst[3], 64);
}
static void
dtb_r0411(IMB_MGR *m) /* T */
{
        (void) m;
        IMB_KASUMI_F8_4_BUFFER(m, &dtb_kas8.ks, 1, 2, 3, 4, dtb_msrc[0], dtb_mdst[0], dtb_msrc[1], dtb_mdst[1], dtb_msrc[2], dtb_mdst[2], NULL, dtb_mdst[3], 64);
}
static void
dtb_r0412(IMB_MGR *m) /* T */
{
        (void) m;
        IMB_KASUMI_F8_4_BUFFER(m, &dtb_kas8.ks, 1, 2, 3, 4, dtb_msrc[0], dtb_mdst[0], dtb_msrc[1], dtb_mdst[1], dtb_msrc[2], dtb_mdst[2], dtb_msrc[3], NULL, 64);
}
static void
dtb_r0413(IMB_MGR *m) /* T */
{
        (void) m;
        IMB_KASUMI_F8_4_BUFFER(m, &dtb_kas8.ks, 1, 2, 3, 4, dtb_msrc[0], dtb_mdst[0], dtb_msrc[1], dtb_mdst[1], dtb_msrc[2], dtb_mdst[2], dtb_msrc[3], dtb_mdst[3], 0);
}
static void
dtb_r0414(IMB_MGR *m) /* S */
{
        (void) m;
        IMB_KASUMI_F8_4_BUFFER(m, &dtb_kas8.ks, 1, 2, 3, 4, dtb_msrc[0], dtb_mdst[0], dtb_msrc[1], dtb_mdst[1], dtb_msrc[2], dtb_mdst[2], dtb_msrc[3], dtb_mdst[3], 2501);
}
static void
dtb_r0415(IMB_MGR *m) /* T */
{
        (void) m;
        IMB_KASUMI_F8_N_BUFFER(m, NULL, dtb_v_iv64, dtb_v_src, dtb_v_dst, dtb_v_len, 17);
}
static void
dtb_r0416(IMB_MGR *m) /* S */
{
        (void) m;
        IMB_KASUMI_F8_N_BUFFER(m, &dtb_kas8.ks, NULL, dtb_v_src, dtb_v_dst, dtb_v_len, 17);
}
static void
dtb_r0417(IMB_MGR *m) /* T */
{
        (void) m;
        IMB_KASUMI_F8_N_BUFFER(m, &dtb_kas8.ks, dtb_v_iv64, dtb_v_cnull, dtb_v_dst, dtb_v_len, 17);
}
static void
dtb_r0418(IMB_MGR *m) /* T */
{
        (void) m;
        IMB_KASUMI_F8_N_BUFFER(m, &dtb_kas8.ks, dtb_v_iv64, NULL, dtb_v_dst, dtb_v_len, 17);
}
static void
dtb_r0419(IMB_MGR *m) /* S */
{
        (void) m;
        IMB_KASUMI_F8_N_BUFFER(m, &dtb_kas8.ks, dtb_v_iv64, dtb_v_src_1n, dtb_v_dst, dtb_v_len, 17);
}
static void
dtb_r0420(IMB_MGR *m) /* T */
{
        (void) m;
        IMB_KASUMI_F8_N_BUFFER(m, &dtb_kas8.ks, dtb_v_iv64, dtb_v_src, dtb_v_null, dtb_v_len, 17);
}
static void
dtb_r0421(IMB_MGR *m) /* T */
{
        (void) m;
        IMB_KASUMI_F8_N_BUFFER(m, &dtb_kas8.ks, dtb_v_iv64, dtb_v_src, NULL, dtb_v_len, 17);
}
static void
dtb_r0422(IMB_MGR *m) /* S */
{
        (void) m;
        IMB_KASUMI_F8_N_BUFFER(m, &dtb_kas8.ks, dtb_v_iv64, dtb_v_src, dtb_v_dst_1n, dtb_v_len, 17);
}
static void
dtb_r0423(IMB_MGR *m) /* T */
{
        (void) m;
        IMB_KASUMI_F8_N_BUFFER(m, &dtb_kas8.ks, dtb_v_iv64, dtb_v_src, dtb_v_dst, dtb_v_len_0, 17);
}
static void
dtb_r0424(IMB_MGR *m) /* S */
{
        (void) m;
        IMB_KASUMI_F8_N_BUFFER(m, &dtb_kas8.ks, dtb_v_iv64, dtb_v_src, dtb_v_dst, NULL, 17);
}
static void
dtb_r0425(IMB_MGR *m) /* S */
{
        (void) m;
        IMB_KASUMI_F8_N_BUFFER(m, &dtb_kas8.ks, dtb_v_iv64, dtb_v_src, dtb_v_dst, dtb_v_len_1z, 17);
}
static void
dtb_r0426(IMB_MGR *m) /* S */
{
        (void) m;
        IMB_KASUMI_F8_N_BUFFER(m, &dtb_kas8.ks, dtb_v_iv64, dtb_v_src, dtb_v_dst, dtb_v_len_kasbig, 17);
}
static void
dtb_r0427(IMB_MGR *m) /* T */
{
        (void) m;
        IMB_KASUMI_F9_1_BUFFER(m, NULL, dtb_src, 64, dtb_tag);
}
static void
dtb_r0428(IMB_MGR *m) /* T */
{
        (void) m;
        IMB_KASUMI_F9_1_BUFFER(m, &dtb_kas9.ks, NULL, 64, dtb_tag);
}
static void
dtb_r0429(IMB_MGR *m) /* T */
{
        (void) m;
        IMB_KASUMI_F9_1_BUFFER(m, &dtb_kas9.ks, dtb_src, 0, dtb_tag);
}
static void
dtb_r0430(IMB_MGR *m) /* S */
{
        (void) m;
        IMB_KASUMI_F9_1_BUFFER(m, &dtb_kas9.ks, dtb_src, 2501, dtb_tag);
}
static void
dtb_r0431(IMB_MGR *m) /* T */
{
        (void) m;
        IMB_KASUMI_F9_1_BUFFER(m, &dtb_kas9.ks, dtb_src, 64, NULL);
}
static void
dtb_r0432(IMB_MGR *m) /* T */
{
        (void) m;
        IMB_KASUMI_F9_1_BUFFER_USER(m, NULL, 1, dtb_src, 512, dtb_tag, 1);
}
static void
dtb_r0433(IMB_MGR *m) /* T */
{
        (void) m;
        IMB_KASUMI_F9_1_BUFFER_USER(m, &dtb_kas9.ks, 1, NULL, 512, dtb_tag, 1);
}
static void
dtb_r0434(IMB_MGR *m) /* T */
{
        (void) m;
        IMB_KASUMI_F9_1_BUFFER_USER(m, &dtb_kas9.ks, 1, dtb_src, 0, dtb_tag, 1);
}
static void
dtb_r0435(IMB_MGR *m) /* S */
{
        (void) m;
        IMB_KASUMI_F9_1_BUFFER_USER(m, &dtb_kas9.ks, 1, dtb_src, 20001, dtb_tag, 1);
}
static void
dtb_r0436(IMB_MGR *m) /* T */
{
        (void) m;
        IMB_KASUMI_F9_1_BUFFER_USER(m, &dtb_kas9.ks, 1, dtb_src, 512, NULL, 1);
}
static void
dtb_r0437(IMB_MGR *m) /* T */
{
        (void) m;
        IMB_KASUMI_INIT_F8_KEY_SCHED(m, NULL, &dtb_kasout.ks);
}
static void
dtb_r0438(IMB_MGR *m) /* T */
{
        (void) m;
        IMB_KASUMI_INIT_F8_KEY_SCHED(m, dtb_key, NULL);
}
static void
dtb_r0439(IMB_MGR *m) /* T */
{
        (void) m;
        IMB_KASUMI_INIT_F9_KEY_SCHED(m, NULL, &dtb_kasout.ks);
}
static void
dtb_r0440(IMB_MGR *m) /* T */
{
        (void) m;
        IMB_KASUMI_INIT_F9_KEY_SCHED(m, dtb_key, NULL);
}
static void
dtb_r0441(IMB_MGR *m) /* T */
{
        (void) m;
        IMB_ZUC_EEA3_1_BUFFER(m, NULL, dtb_iv, dtb_src, dtb_dst, 64);
}
static void
dtb_r0442(IMB_MGR *m) /* T */
{
        (void) m;
        IMB_ZUC_EEA3_1_BUFFER(m, dtb_key, NULL, dtb_src, dtb_dst, 64);
}
static void
dtb_r0443(IMB_MGR *m) /* T */
{
        (void) m;
        IMB_ZUC_EEA3_1_BUFFER(m, dtb_key, dtb_iv, NULL, dtb_dst, 64);
}
static void
dtb_r0444(IMB_MGR *m) /* T */
{
        (void) m;
        IMB_ZUC_EEA3_1_BUFFER(m, dtb_key, dtb_iv, dtb_src, NULL, 64);
}
static void
dtb_r0445(IMB_MGR *m) /* T */
{
        (void) m;
        IMB_ZUC_EEA3_1_BUFFER(m, dtb_key, dtb_iv, dtb_src, dtb_dst, 0);
}
static void
dtb_r0446(IMB_MGR *m) /* S */
{
        (void) m;
        IMB_ZUC_EEA3_1_BUFFER(m, dtb_key, dtb_iv, dtb_src, dtb_dst, 8189);
}
static void
dtb_r0447(IMB_MGR *m) /* T */
{
        (void) m;
        IMB_ZUC_EEA3_4_BUFFER(m, dtb_v_cnull, dtb_v_iv, dtb_v_src, dtb_v_dst, dtb_v_len);
}
static void
dtb_r0448(IMB_MGR *m) /* T */
{
        (void) m;
        IMB_ZUC_EEA3_4_BUFFER(m, NULL, dtb_v_iv, dtb_v_src, dtb_v_dst, dtb_v_len);
}
static void
dtb_r0449(IMB_MGR *m) /* S */
{
        (void) m;
        IMB_ZUC_EEA3_4_BUFFER(m, dtb_v_key_1n, dtb_v_iv, dtb_v_src, dtb_v_dst, dtb_v_len);
}
static void
dtb_r0450(IMB_MGR *m) /* T */
{
        (void) m;
        IMB_ZUC_EEA3_4_BUFFER(m, dtb_v_key, dtb_v_cnull, dtb_v_src, dtb_v_dst, dtb_v_len);
}
static void
dtb_r0451(IMB_MGR *m) /* T */
{
        (void) m;
        IMB_ZUC_EEA3_4_BUFFER(m, dtb_v_key, NULL, dtb_v_src, dtb_v_dst, dtb_v_len);
}
static void
dtb_r0452(IMB_MGR *m) /* S */
{
        (void) m;
        IMB_ZUC_EEA3_4_BUFFER(m, dtb_v_key, dtb_v_iv_1n, dtb_v_src, dtb_v_dst, dtb_v_len);
}
static void
dtb_r0453(IMB_MGR *m) /* T */
{
        (void) m;
        IMB_ZUC_EEA3_4_BUFFER(m, dtb_v_key, dtb_v_iv, dtb_v_cnull, dtb_v_dst, dtb_v_len);
}
static void
dtb_r0454(IMB_MGR *m) /* T */
{
        (void) m;
        IMB_ZUC_EEA3_4_BUFFER(m, dtb_v_key, dtb_v_iv, NULL, dtb_v_dst, dtb_v_len);
}
static void
dtb_r0455(IMB_MGR *m) /* S */
{
        (void) m;
        IMB_ZUC_EEA3_4_BUFFER(m, dtb_v_key, dtb_v_iv, dtb_v_src_1n, dtb_v_dst, dtb_v_len);
}
static void
dtb_r0456(IMB_MGR *m) /* T */
{
        (void) m;
        IMB_ZUC_EEA3_4_BUFFER(m, dtb_v_key, dtb_v_iv, dtb_v_src, dtb_v_null, dtb_v_len);
}
static void
dtb_r0457(IMB_MGR *m) /* T */
{
        (void) m;
        IMB_ZUC_EEA3_4_BUFFER(m, dtb_v_key, dtb_v_iv, dtb_v_src, NULL, dtb_v_len);
}
static void
dtb_r0458(IMB_MGR *m) /* S */
{
        (void) m;
        IMB_ZUC_EEA3_4_BUFFER(m, dtb_v_key, dtb_v_iv, dtb_v_src, dtb_v_dst_1n, dtb_v_len);
}
static void
dtb_r0459(IMB_MGR *m) /* T */
{
        (void) m;
        IMB_ZUC_EEA3_4_BUFFER(m, dtb_v_key, dtb_v_iv, dtb_v_src, dtb_v_dst, dtb_v_len_0);
}
static void
dtb_r0460(IMB_MGR *m) /* S */
{
        (void) m;
        IMB_ZUC_EEA3_4_BUFFER(m, dtb_v_key, dtb_v_iv, dtb_v_src, dtb_v_dst, NULL);
}
static void
dtb_r0461(IMB_MGR *m) /* S */
{
        (void) m;
        IMB_ZUC_EEA3_4_BUFFER(m, dtb_v_key, dtb_v_iv, dtb_v_src, dtb_v_dst, dtb_v_len_1z);
}
static void
dtb_r0462(IMB_MGR *m) /* S */
{
        (void) m;
        IMB_ZUC_EEA3_4_BUFFER(m, dtb_v_key, dtb_v_iv, dtb_v_src, dtb_v_dst, dtb_v_len_zucbig);
}
static void
dtb_r0463(IMB_MGR *m) /* T */
{
        (void) m;
        IMB_ZUC_EEA3_N_BUFFER(m, dtb_v_cnull, dtb_v_iv, dtb_v_src, dtb_v_dst, dtb_v_len, 17);
}
static void
dtb_r0464(IMB_MGR *m) /* T */
{
        (void) m;
        IMB_ZUC_EEA3_N_BUFFER(m, NULL, dtb_v_iv, dtb_v_src, dtb_v_dst, dtb_v_len, 17);
}
static void
dtb_r0465(IMB_MGR *m) /* S */
{
        (void) m;
        IMB_ZUC_EEA3_N_BUFFER(m, dtb_v_key_1n, dtb_v_iv, dtb_v_src, dtb_v_dst, dtb_v_len, 17);
}
static void
dtb_r0466(IMB_MGR *m) /* T */
{
        (void) m;
        IMB_ZUC_EEA3_N_BUFFER(m, dtb_v_key, dtb_v_cnull, dtb_v_src, dtb_v_dst, dtb_v_len, 17);
}
static void
dtb_r0467(IMB_MGR *m) /* T */
{
        (void) m;
        IMB_ZUC_EEA3_N_BUFFER(m, dtb_v_key, NULL, dtb_v_src, dtb_v_dst, dtb_v_len, 17);
}
static void
dtb_r0468(IMB_MGR *m) /* S */
{
        (void) m;
        IMB_ZUC_EEA3_N_BUFFER(m, dtb_v_key, dtb_v_iv_1n, dtb_v_src, dtb_v_dst, dtb_v_len, 17);
}
static void
dtb_r0469(IMB_MGR *m) /* T */
{
        (void) m;
        IMB_ZUC_EEA3_N_BUFFER(m, dtb_v_key, dtb_v_iv, dtb_v_cnull, dtb_v_dst, dtb_v_len, 17);
}
static void
dtb_r0470(IMB_MGR *m) /* T */
{
        (void) m;
        IMB_ZUC_EEA3_N_BUFFER(m, dtb_v_key, dtb_v_iv, NULL, dtb_v_dst, dtb_v_len, 17);
}
static void
dtb_r0471(IMB_MGR *m) /* S */
{
        (void) m;
        IMB_ZUC_EEA3_N_BUFFER(m, dtb_v_key, dtb_v_iv, dtb_v_src_1n, dtb_v_dst, dtb_v_len, 17);
}
static void
dtb_r0472(IMB_MGR *m) /* T */
{
        (void) m;
        IMB_ZUC_EEA3_N_BUFFER(m, dtb_v_key, dtb_v_iv, dtb_v_src, dtb_v_null, dtb_v_len, 17);
}
static void
dtb_r0473(IMB_MGR *m) /* T */
{
        (void) m;
        IMB_ZUC_EEA3_N_BUFFER(m, dtb_v_key, dtb_v_iv, dtb_v_src, NULL, dtb_v_len, 17);
}
static void
dtb_r0474(IMB_MGR *m) /* S */
{
        (void) m;
        IMB_ZUC_EEA3_N_BUFFER(m, dtb_v_key, dtb_v_iv, dtb_v_src, dtb_v_dst_1n, dtb_v_len, 17);
}
static void
dtb_r0475(IMB_MGR *m) /* T */
{
        (void) m;
        IMB_ZUC_EEA3_N_BUFFER(m, dtb_v_key, dtb_v_iv, dtb_v_src, dtb_v_dst, dtb_v_len_0, 17);
}
static void
dtb_r0476(IMB_MGR *m) /* S */
{
        (void) m;
        IMB_ZUC_EEA3_N_BUFFER(m, dtb_v_key, dtb_v_iv, dtb_v_src, dtb_v_dst, NULL, 17);
}
static void
dtb_r0477(IMB_MGR *m) /* S */
{
        (void) m;
        IMB_ZUC_EEA3_N_BUFFER(m, dtb_v_key, dtb_v_iv, dtb_v_src, dtb_v_dst, dtb_v_len_1z, 17);
}
static void
dtb_r0478(IMB_MGR *m) /* S */
{
        (void) m;
        IMB_ZUC_EEA3_N_BUFFER(m, dtb_v_key, dtb_v_iv, dtb_v_src, dtb_v_dst, dtb_v_len_zucbig, 17);
}
static void
dtb_r0479(IMB_MGR *m) /* T */
{
        (void) m;
        IMB_ZUC_EIA3_1_BUFFER(m, NULL, dtb_iv, dtb_src, 512, (uint32_t *) dtb_tag);
}
static void
dtb_r0480(IMB_MGR *m) /* T */
{
        (void) m;
        IMB_ZUC_EIA3_1_BUFFER(m, dtb_key, NULL, dtb_src, 512, (uint32_t *) dtb_tag);
}
static void
dtb_r0481(IMB_MGR *m) /* T */
{
        (void) m;
        IMB_ZUC_EIA3_1_BUFFER(m, dtb_key, dtb_iv, NULL, 512, (uint32_t *) dtb_tag);
}
static void
dtb_r0482(IMB_MGR *m) /* T */
{
        (void) m;
        IMB_ZUC_EIA3_1_BUFFER(m, dtb_key, dtb_iv, dtb_src, 0, (uint32_t *) dtb_tag);
}
static void
dtb_r0483(IMB_MGR *m) /* S */
{
        (void) m;
        IMB_ZUC_EIA3_1_BUFFER(m, dtb_key, dtb_iv, dtb_src, 65505, (uint32_t *) dtb_tag);
}
static void
dtb_r0484(IMB_MGR *m) /* T */
{
        (void) m;
        IMB_ZUC_EIA3_1_BUFFER(m, dtb_key, dtb_iv, dtb_src, 512, NULL);
}
static void
dtb_r0485(IMB_MGR *m) /* T */
{
        (void) m;
        IMB_ZUC_EIA3_N_BUFFER(m, dtb_v_cnull, dtb_v_iv, dtb_v_src, dtb_v_lenbits, dtb_v_tag, 17);
}
static void
dtb_r0486(IMB_MGR *m) /* T */
{
        (void) m;
        IMB_ZUC_EIA3_N_BUFFER(m, NULL, dtb_v_iv, dtb_v_src, dtb_v_lenbits, dtb_v_tag, 17);
}
static void
dtb_r0487(IMB_MGR *m) /* S */
{
        (void) m;
        IMB_ZUC_EIA3_N_BUFFER(m, dtb_v_key_1n, dtb_v_iv, dtb_v_src, dtb_v_lenbits, dtb_v_tag, 17);
}
static void
dtb_r0488(IMB_MGR *m) /* T */
{
        (void) m;
        IMB_ZUC_EIA3_N_BUFFER(m, dtb_v_key, dtb_v_cnull, dtb_v_src, dtb_v_lenbits, dtb_v_tag, 17);
}
static void
dtb_r0489(IMB_MGR *m) /* T */
{
        (void) m;
        IMB_ZUC_EIA3_N_BUFFER(m, dtb_v_key, NULL, dtb_v_src, dtb_v_lenbits, dtb_v_tag, 17);
}
static void
dtb_r0490(IMB_MGR *m) /* S */
{
        (void) m;
        IMB_ZUC_EIA3_N_BUFFER(m, dtb_v_key, dtb_v_iv_1n, dtb_v_src, dtb_v_lenbits, dtb_v_tag, 17);
}
static void
dtb_r0491(IMB_MGR *m) /* T */
{
        (void) m;
        IMB_ZUC_EIA3_N_BUFFER(m, dtb_v_key, dtb_v_iv, dtb_v_cnull, dtb_v_lenbits, dtb_v_tag, 17);
}
static void
dtb_r0492(IMB_MGR *m) /* T */
{
        (void) m;
        IMB_ZUC_EIA3_N_BUFFER(m, dtb_v_key, dtb_v_iv, NULL, dtb_v_lenbits, dtb_v_tag, 17);
}
static void
dtb_r0493(IMB_MGR *m) /* S */
{
        (void) m;
        IMB_ZUC_EIA3_N_BUFFER(m, dtb_v_key, dtb_v_iv, dtb_v_src_1n, dtb_v_lenbits, dtb_v_tag, 17);
}
static void
dtb_r0494(IMB_MGR *m) /* T */
{
        (void) m;
        IMB_ZUC_EIA3_N_BUFFER(m, dtb_v_key, dtb_v_iv, dtb_v_src, dtb_v_len_0, dtb_v_tag, 17);
}
static void
dtb_r0495(IMB_MGR *m) /* S */
{
        (void) m;
        IMB_ZUC_EIA3_N_BUFFER(m, dtb_v_key, dtb_v_iv, dtb_v_src, NULL, dtb_v_tag, 17);
}
static void
dtb_r0496(IMB_MGR *m) /* S */
{
        (void) m;
        IMB_ZUC_EIA3_N_BUFFER(m, dtb_v_key, dtb_v_iv, dtb_v_src, dtb_v_len_1z, dtb_v_tag, 17);
}
static void
dtb_r0497(IMB_MGR *m) /* S */
{
        (void) m;
        IMB_ZUC_EIA3_N_BUFFER(m, dtb_v_key, dtb_v_iv, dtb_v_src, dtb_v_len_zucbitbig, dtb_v_tag, 17);
}
static void
dtb_r0498(IMB_MGR *m) /* T */
{
        (void) m;
        IMB_ZUC_EIA3_N_BUFFER(m, dtb_v_key, dtb_v_iv, dtb_v_src, dtb_v_lenbits, dtb_v_tnull, 17);
}
static void
dtb_r0499(IMB_MGR *m) /* T */
{
        (void) m;
        IMB_ZUC_EIA3_N_BUFFER(m, dtb_v_key, dtb_v_iv, dtb_v_src, dtb_v_lenbits, NULL, 17);
}
static void
dtb_r0500(IMB_MGR *m) /* S */
{
        (void) m;
        IMB_ZUC_EIA3_N_BUFFER(m, dtb_v_key, dtb_v_iv, dtb_v_src, dtb_v_lenbits, dtb_v_tag_1n, 17);
}
static void
dtb_r0501(IMB_MGR *m) /* T */
{
        (void) m;
        IMB_CRC32_ETHERNET_FCS(m, NULL, 64);
}
static void
dtb_r0502(IMB_MGR *m) /* T */
{
        (void) m;
        IMB_CRC32_ETHERNET_FCS(m, NULL, 1);
}
static void
dtb_r0503(IMB_MGR *m) /* T */
{
        (void) m;
        IMB_CRC16_X25(m, NULL, 64);
}
static void
dtb_r0504(IMB_MGR *m) /* T */
{
        (void) m;
        IMB_CRC16_X25(m, NULL, 1);
}
static void
dtb_r0505(IMB_MGR *m) /* T */
{
        (void) m;
        IMB_CRC32_SCTP(m, NULL, 64);
}
static void
dtb_r0506(IMB_MGR *m) /* T */
{
        (void) m;
        IMB_CRC32_SCTP(m, NULL, 1);
}
static void
dtb_r0507(IMB_MGR *m) /* T */
{
        (void) m;
        IMB_CRC24_LTE_A(m, NULL, 64);
}
static void
dtb_r0508(IMB_MGR *m) /* T */
{
        (void) m;
        IMB_CRC24_LTE_A(m, NULL, 1);
}
static void
dtb_r0509(IMB_MGR *m) /* T */
{
        (void) m;
        IMB_CRC24_LTE_B(m, NULL, 64);
}
static void
dtb_r0510(IMB_MGR *m) /* T */
{
        (void) m;
        IMB_CRC24_LTE_B(m, NULL, 1);
}
static void
dtb_r0511(IMB_MGR *m) /* T */
{
        (void) m;
        IMB_CRC16_FP_DATA(m, NULL, 64);
}
static void
dtb_r0512(IMB_MGR *m) /* T */
{
        (void) m;
        IMB_CRC16_FP_DATA(m, NULL, 1);
}
static void
dtb_r0513(IMB_MGR *m) /* T */
{
        (void) m;
        IMB_CRC11_FP_HEADER(m, NULL, 64);
}
static void
dtb_r0514(IMB_MGR *m) /* T */
{
        (void) m;
        IMB_CRC11_FP_HEADER(m, NULL, 1);
}
static void
dtb_r0515(IMB_MGR *m) /* T */
{
        (void) m;
        IMB_CRC7_FP_HEADER(m, NULL, 64);
}
static void
dtb_r0516(IMB_MGR *m) /* T */
{
        (void) m;
        IMB_CRC7_FP_HEADER(m, NULL, 1);
}
static void
dtb_r0517(IMB_MGR *m) /* T */
{
        (void) m;
        IMB_CRC10_IUUP_DATA(m, NULL, 64);
}
static void
dtb_r0518(IMB_MGR *m) /* T */
{
        (void) m;
        IMB_CRC10_IUUP_DATA(m, NULL, 1);
}
static void
dtb_r0519(IMB_MGR *m) /* T */
{
        (void) m;
        IMB_CRC6_IUUP_HEADER(m, NULL, 64);
}
static void
dtb_r0520(IMB_MGR *m) /* T */
{
        (void) m;
        IMB_CRC6_IUUP_HEADER(m, NULL, 1);
}
static void
dtb_r0521(IMB_MGR *m) /* T */
{
        (void) m;
        IMB_CRC32_WIMAX_OFDMA_DATA(m, NULL, 64);
}
static void
dtb_r0522(IMB_MGR *m) /* T */
{
        (void) m;
        IMB_CRC32_WIMAX_OFDMA_DATA(m, NULL, 1);
}
static void
dtb_r0523(IMB_MGR *m) /* T */
{
        (void) m;
        IMB_CRC8_WIMAX_OFDMA_HCS(m, NULL, 64);
}
static void
dtb_r0524(IMB_MGR *m) /* T */
{
        (void) m;
        IMB_CRC8_WIMAX_OFDMA_HCS(m, NULL, 1);
}
static void
dtb_r0525(IMB_MGR *m) /* S */
{
        (void) m;
        IMB_HEC_32(m, NULL);
}
static void
dtb_r0526(IMB_MGR *m) /* S */
{
        (void) m;
        IMB_HEC_64(m, NULL);
}
static void
dtb_r0527(IMB_MGR *m) /* T */
{
        (void) m;
        IMB_SHA1_ONE_BLOCK(m, NULL, dtb_tag);
}
static void
dtb_r0528(IMB_MGR *m) /* T */
{
        (void) m;
        IMB_SHA1_ONE_BLOCK(m, dtb_src, NULL);
}
static void
dtb_r0529(IMB_MGR *m) /* T */
{
        (void) m;
        IMB_SHA224_ONE_BLOCK(m, NULL, dtb_tag);
}
static void
dtb_r0530(IMB_MGR *m) /* T */
{
        (void) m;
        IMB_SHA224_ONE_BLOCK(m, dtb_src, NULL);
}
static void
dtb_r0531(IMB_MGR *m) /* T */
{
        (void) m;
        IMB_SHA256_ONE_BLOCK(m, NULL, dtb_tag);
}
static void
dtb_r0532(IMB_MGR *m) /* T */
{
        (void) m;
        IMB_SHA256_ONE_BLOCK(m, dtb_src, NULL);
}
static void
dtb_r0533(IMB_MGR *m) /* T */
{
        (void) m;
        IMB_SHA384_ONE_BLOCK(m, NULL, dtb_tag);
}
static void
dtb_r0534(IMB_MGR *m) /* T */
{
        (void) m;
        IMB_SHA384_ONE_BLOCK(m, dtb_src, NULL);
}
static void
dtb_r0535(IMB_MGR *m) /* T */
{
        (void) m;
        IMB_SHA512_ONE_BLOCK(m, NULL, dtb_tag);
}
static void
dtb_r0536(IMB_MGR *m) /* T */
{
        (void) m;
        IMB_SHA512_ONE_BLOCK(m, dtb_src, NULL);
}
static void
dtb_r0537(IMB_MGR *m) /* T */
{
        (void) m;
        IMB_MD5_ONE_BLOCK(m, NULL, dtb_tag);
}
static void
dtb_r0538(IMB_MGR *m) /* T */
{
        (void) m;
        IMB_MD5_ONE_BLOCK(m, dtb_src, NULL);
}
static void
dtb_r0539(IMB_MGR *m) /* T */
{
        (void) m;
        IMB_SHA1(m, NULL, 64, dtb_tag);
}
static void
dtb_r0540(IMB_MGR *m) /* T */
{
        (void) m;
        IMB_SHA1(m, dtb_src, 64, NULL);
}
static void
dtb_r0541(IMB_MGR *m) /* T */
{
        (void) m;
        IMB_SHA224(m, NULL, 64, dtb_tag);
}
static void
dtb_r0542(IMB_MGR *m) /* T */
{
        (void) m;
        IMB_SHA224(m, dtb_src, 64, NULL);
}
static void
dtb_r0543(IMB_MGR *m) /* T */
{
        (void) m;
        IMB_SHA256(m, NULL, 64, dtb_tag);
}
static void
dtb_r0544(IMB_MGR *m) /* T */
{
        (void) m;
        IMB_SHA256(m, dtb_src, 64, NULL);
}
static void
dtb_r0545(IMB_MGR *m) /* T */
{
        (void) m;
        IMB_SHA384(m, NULL, 64, dtb_tag);
}
static void
dtb_r0546(IMB_MGR *m) /* T */
{
        (void) m;
        IMB_SHA384(m, dtb_src, 64, NULL);
}
static void
dtb_r0547(IMB_MGR *m) /* T */
{
        (void) m;
        IMB_SHA512(m, NULL, 64, dtb_tag);
}
static void
dtb_r0548(IMB_MGR *m) /* T */
{
        (void) m;
        IMB_SHA512(m, dtb_src, 64, NULL);
}
static void
dtb_r0549(IMB_MGR *m) /* T */
{
        (void) m;
        IMB_AES_KEYEXP_128(m, NULL, dtb_o1, dtb_o2);
}
static void
dtb_r0550(IMB_MGR *m) /* T */
{
        (void) m;
        IMB_AES_KEYEXP_128(m, dtb_key, NULL, dtb_o2);
}
static void
dtb_r0551(IMB_MGR *m) /* T */
{
        (void) m;
        IMB_AES_KEYEXP_128(m, dtb_key, dtb_o1, NULL);
}
static void
dtb_r0552(IMB_MGR *m) /* T */
{
        (void) m;
        IMB_AES_KEYEXP_192(m, NULL, dtb_o1, dtb_o2);
}
static void
dtb_r0553(IMB_MGR *m) /* T */
{
        (void) m;
        IMB_AES_KEYEXP_192(m, dtb_key, NULL, dtb_o2);
}
static void
dtb_r0554(IMB_MGR *m) /* T */
{
        (void) m;
        IMB_AES_KEYEXP_192(m, dtb_key, dtb_o1, NULL);
}
static void
dtb_r0555(IMB_MGR *m) /* T */
{
        (void) m;
        IMB_AES_KEYEXP_256(m, NULL, dtb_o1, dtb_o2);
}
static void
dtb_r0556(IMB_MGR *m) /* T */
{
        (void) m;
        IMB_AES_KEYEXP_256(m, dtb_key, NULL, dtb_o2);
}
static void
dtb_r0557(IMB_MGR *m) /* T */
{
        (void) m;
        IMB_AES_KEYEXP_256(m, dtb_key, dtb_o1, NULL);
}
static void
dtb_r0558(IMB_MGR *m) /* T */
{
        (void) m;
        IMB_AES_CMAC_SUBKEY_GEN_128(m, NULL, dtb_o1, dtb_o2);
}
static void
dtb_r0559(IMB_MGR *m) /* T */
{
        (void) m;
        IMB_AES_CMAC_SUBKEY_GEN_128(m, dtb_ek128, NULL, dtb_o2);
}
static void
dtb_r0560(IMB_MGR *m) /* T */
{
        (void) m;
        IMB_AES_CMAC_SUBKEY_GEN_128(m, dtb_ek128, dtb_o1, NULL);
}
static void
dtb_r0561(IMB_MGR *m) /* T */
{
        (void) m;
        IMB_AES_CMAC_SUBKEY_GEN_256(m, NULL, dtb_o1, dtb_o2);
}
static void
dtb_r0562(IMB_MGR *m) /* T */
{
        (void) m;
        IMB_AES_CMAC_SUBKEY_GEN_256(m, dtb_ek256, NULL, dtb_o2);
}
static void
dtb_r0563(IMB_MGR *m) /* T */
{
        (void) m;
        IMB_AES_CMAC_SUBKEY_GEN_256(m, dtb_ek256, dtb_o1, NULL);
}
static void
dtb_r0564(IMB_MGR *m) /* T */
{
        (void) m;
        IMB_AES_XCBC_KEYEXP(m, NULL, dtb_o1, dtb_o2, dtb_o3);
}
static void
dtb_r0565(IMB_MGR *m) /* T */
{
        (void) m;
        IMB_AES_XCBC_KEYEXP(m, dtb_key, NULL, dtb_o2, dtb_o3);
}
static void
dtb_r0566(IMB_MGR *m) /* T */
{
        (void) m;
        IMB_AES_XCBC_KEYEXP(m, dtb_key, dtb_o1, NULL, dtb_o3);
}
static void
dtb_r0567(IMB_MGR *m) /* T */
{
        (void) m;
        IMB_AES_XCBC_KEYEXP(m, dtb_key, dtb_o1, dtb_o2, NULL);
}
static void
dtb_r0568(IMB_MGR *m) /* T */
{
        (void) m;
        IMB_DES_KEYSCHED(m, NULL, dtb_key);
}
static void
dtb_r0569(IMB_MGR *m) /* T */
{
        (void) m;
        IMB_DES_KEYSCHED(m, (uint64_t *) dtb_o1, NULL);
}
static void
dtb_r0570(IMB_MGR *m) /* S */
{
        (void) m;
        des_key_schedule(NULL, dtb_key);
}
static void
dtb_r0571(IMB_MGR *m) /* S */
{
        (void) m;
        des_key_schedule((uint64_t *) dtb_o1, NULL);
}
static void
dtb_r0572(IMB_MGR *m) /* S */
{
        (void) m;
        IMB_SM4_KEYEXP(m, NULL, (uint32_t *) dtb_o1, (uint32_t *) dtb_o2);
}
static void
dtb_r0573(IMB_MGR *m) /* S */
{
        (void) m;
        IMB_SM4_KEYEXP(m, dtb_key, NULL, (uint32_t *) dtb_o2);
}
static void
dtb_r0574(IMB_MGR *m) /* S */
{
        (void) m;
        IMB_SM4_KEYEXP(m, dtb_key, (uint32_t *) dtb_o1, NULL);
}
static void
dtb_r0575(IMB_MGR *m) /* T */
{
        (void) m;
        IMB_AES128_CFB_ONE(m, NULL, dtb_src, dtb_iv, dtb_ek128, 8);
}
static void
dtb_r0576(IMB_MGR *m) /* T */
{
        (void) m;
        IMB_AES128_CFB_ONE(m, dtb_dst, NULL, dtb_iv, dtb_ek128, 8);
}
static void
dtb_r0577(IMB_MGR *m) /* T */
{
        (void) m;
        IMB_AES128_CFB_ONE(m, dtb_dst, dtb_src, NULL, dtb_ek128, 8);
}
static void
dtb_r0578(IMB_MGR *m) /* T */
{
        (void) m;
        IMB_AES128_CFB_ONE(m, dtb_dst, dtb_src, dtb_iv, NULL, 8);
}
static void
dtb_r0579(IMB_MGR *m) /* S */
{
        (void) m;
        IMB_AES256_CFB_ONE(m, NULL, dtb_src, dtb_iv, dtb_ek256, 8);
}
static void
dtb_r0580(IMB_MGR *m) /* S */
{
        (void) m;
        IMB_AES256_CFB_ONE(m, dtb_dst, NULL, dtb_iv, dtb_ek256, 8);
}
static void
dtb_r0581(IMB_MGR *m) /* S */
{
        (void) m;
        IMB_AES256_CFB_ONE(m, dtb_dst, dtb_src, NULL, dtb_ek256, 8);
}
static void
dtb_r0582(IMB_MGR *m) /* S */
{
        (void) m;
        IMB_AES256_CFB_ONE(m, dtb_dst, dtb_src, dtb_iv, NULL, 8);
}
static void
dtb_r0583(IMB_MGR *m) /* S */
{
        (void) m;
        imb_sm4_gcm_pre(NULL, dtb_key, &dtb_gkout);
}
static void
dtb_r0584(IMB_MGR *m) /* S */
{
        (void) m;
        imb_sm4_gcm_pre(m, NULL, &dtb_gkout);
}
static void
dtb_r0585(IMB_MGR *m) /* S */
{
        (void) m;
        imb_sm4_gcm_pre(m, dtb_key, NULL);
}
static void
dtb_r0586(IMB_MGR *m) /* S */
{
        (void) m;
        imb_hmac_ipad_opad(NULL, IMB_AUTH_HMAC_SHA_1, dtb_key, 32, dtb_o1, dtb_o2);
}
static void
dtb_r0587(IMB_MGR *m) /* S */
{
        (void) m;
        imb_hmac_ipad_opad(m, IMB_AUTH_HMAC_SHA_1, NULL, 32, dtb_o1, dtb_o2);
}
static void
dtb_r0588(IMB_MGR *m) /* S */
{
        (void) m;
        imb_hmac_ipad_opad(m, IMB_AUTH_HMAC_SHA_512, NULL, 200, dtb_o1, dtb_o2);
}
static void
dtb_r0589(IMB_MGR *m) /* S */
{
        (void) m;
        imb_hmac_ipad_opad(m, IMB_AUTH_AES_XCBC, dtb_key, 32, dtb_o1, dtb_o2);
}
static void
dtb_r0590(IMB_MGR *m) /* S */
{
        (void) m;
        imb_hmac_ipad_opad(m, IMB_AUTH_NULL, dtb_key, 32, dtb_o1, dtb_o2);
}
static void
dtb_r0591(IMB_MGR *m) /* S */
{
        (void) m;
        imb_hmac_ipad_opad(m, IMB_AUTH_SHA_256, dtb_key, 32, dtb_o1, dtb_o2);
}
static void
dtb_r0592(IMB_MGR *m) /* S */
{
        (void) m;
        imb_hmac_ipad_opad(m, (IMB_HASH_ALG) 0, dtb_key, 32, dtb_o1, dtb_o2);
}
static void
dtb_r0593(IMB_MGR *m) /* S */
{
        (void) m;
        imb_hmac_ipad_opad(m, IMB_AUTH_NUM, dtb_key, 32, dtb_o1, dtb_o2);
}
static void
dtb_r0594(IMB_MGR *m) /* S */
{
        (void) m;
        imb_hmac_ipad_opad(m, IMB_AUTH_MD5, dtb_key, 65, dtb_o1, dtb_o2);
}
static void
dtb_r0595(IMB_MGR *m) /* T */
{
        (void) m;
        dtb_job_fill(IMB_CIPHER_CBC, IMB_AUTH_NULL, IMB_DIR_ENCRYPT, 16); imb_set_session(NULL, &dtb_job);
}
static void
dtb_r0596(IMB_MGR *m) /* T */
{
        (void) m;
        imb_set_session(m, NULL);
}
static void
dtb_r0597(IMB_MGR *m) /* S */
{
        (void) m;
        dtb_job_fill((IMB_CIPHER_MODE) 0, IMB_AUTH_NULL, IMB_DIR_ENCRYPT, 16); imb_set_session(m, &dtb_job);
}
static void
dtb_r0598(IMB_MGR *m) /* S */
{
        (void) m;
        dtb_job_fill(IMB_CIPHER_NUM, IMB_AUTH_NULL, IMB_DIR_ENCRYPT, 16); imb_set_session(m, &dtb_job);
}
static void
dtb_r0599(IMB_MGR *m) /* S */
{
        (void) m;
        dtb_job_fill(IMB_CIPHER_CBC, (IMB_HASH_ALG) 0, IMB_DIR_ENCRYPT, 16); imb_set_session(m, &dtb_job);
}
static void
dtb_r0600(IMB_MGR *m) /* S */
{
        (void) m;
        dtb_job_fill(IMB_CIPHER_CBC, IMB_AUTH_NUM, IMB_DIR_ENCRYPT, 16); imb_set_session(m, &dtb_job);
}
static void
dtb_r0601(IMB_MGR *m) /* S */
{
        (void) m;
        dtb_job_fill(IMB_CIPHER_CBC, IMB_AUTH_NULL, (IMB_CIPHER_DIRECTION) 0, 16); imb_set_session(m, &dtb_job);
}
static void
dtb_r0602(IMB_MGR *m) /* S */
{
        (void) m;
        dtb_job_fill(IMB_CIPHER_CBC, IMB_AUTH_NULL, (IMB_CIPHER_DIRECTION) 3, 16); imb_set_session(m, &dtb_job);
}
static void
dtb_r0603(IMB_MGR *m) /* S */
{
        (void) m;
        dtb_job_fill(IMB_CIPHER_CBC, IMB_AUTH_NULL, IMB_DIR_ENCRYPT, 17); imb_set_session(m, &dtb_job);
}
static void
dtb_r0604(IMB_MGR *m) /* S */
{
        (void) m;
        dtb_job_fill(IMB_CIPHER_CBC, IMB_AUTH_NULL, IMB_DIR_ENCRYPT, 0); imb_set_session(m, &dtb_job);
}
static void
dtb_r0605(IMB_MGR *m) /* S */
{
        (void) m;
        dtb_job_fill(IMB_CIPHER_DES, IMB_AUTH_NULL, IMB_DIR_ENCRYPT, 16); imb_set_session(m, &dtb_job);
}
static void
dtb_r0606(IMB_MGR *m) /* S */
{
        (void) m;
        dtb_job_fill(IMB_CIPHER_DES3, IMB_AUTH_NULL, IMB_DIR_ENCRYPT, 8); imb_set_session(m, &dtb_job);
}
static void
dtb_r0607(IMB_MGR *m) /* S */
{
        (void) m;
        dtb_job_fill(IMB_CIPHER_DOCSIS_SEC_BPI, IMB_AUTH_NULL, IMB_DIR_ENCRYPT, 24); imb_set_session(m, &dtb_job);
}
static void
dtb_r0608(IMB_MGR *m) /* S */
{
        (void) m;
        dtb_job_fill(IMB_CIPHER_CHACHA20, IMB_AUTH_NULL, IMB_DIR_ENCRYPT, 16); imb_set_session(m, &dtb_job);
}
static void
dtb_r0609(IMB_MGR *m) /* S */
{
        (void) m;
        dtb_job_fill(IMB_CIPHER_CCM, IMB_AUTH_AES_CCM, IMB_DIR_ENCRYPT, 24); imb_set_session(m, &dtb_job);
}
static void
dtb_r0610(IMB_MGR *m) /* S */
{
        (void) m;
        dtb_job_fill(IMB_CIPHER_GCM, IMB_AUTH_AES_GMAC, IMB_DIR_ENCRYPT, 20); imb_set_session(m, &dtb_job);
}
static void
dtb_r0611(IMB_MGR *m) /* S */
{
        (void) m;
        dtb_job_fill(IMB_CIPHER_GCM, IMB_AUTH_HMAC_SHA_1, IMB_DIR_ENCRYPT, 16); imb_set_session(m, &dtb_job);
}
static void
dtb_r0612(IMB_MGR *m) /* S */
{
        (void) m;
        dtb_job_fill(IMB_CIPHER_CCM, IMB_AUTH_NULL, IMB_DIR_ENCRYPT, 16); imb_set_session(m, &dtb_job);
}
static void
dtb_r0613(IMB_MGR *m) /* S */
{
        (void) m;
        dtb_job_fill(IMB_CIPHER_PON_AES_CNTR, IMB_AUTH_NULL, IMB_DIR_ENCRYPT, 16); imb_set_session(m, &dtb_job);
}
static void
dtb_r0614(IMB_MGR *m) /* S */
{
        (void) m;
        dtb_job_fill(IMB_CIPHER_CBC, IMB_AUTH_AES_GMAC, IMB_DIR_ENCRYPT, 16); imb_set_session(m, &dtb_job);
}
static void
dtb_r0615(IMB_MGR *m) /* S */
{
        (void) m;
        dtb_job_fill(IMB_CIPHER_CBC, IMB_AUTH_AES_CCM, IMB_DIR_ENCRYPT, 16); imb_set_session(m, &dtb_job);
}
static void
dtb_r0616(IMB_MGR *m) /* S */
{
        (void) m;
        dtb_job_fill(IMB_CIPHER_CBC, IMB_AUTH_DOCSIS_CRC32, IMB_DIR_ENCRYPT, 16); imb_set_session(m, &dtb_job);
}
static void
dtb_r0617(IMB_MGR *m) /* S */
{
        (void) m;
        dtb_job_fill(IMB_CIPHER_CBC, IMB_AUTH_CHACHA20_POLY1305, IMB_DIR_ENCRYPT, 16); imb_set_session(m, &dtb_job);
}
static void
dtb_r0618(IMB_MGR *m) /* S */
{
        (void) m;
        (void) imb_set_pointers_mb_mgr(NULL, 0, 1);
}
static void
dtb_r0619(IMB_MGR *m) /* S */
{
        (void) m;
        init_mb_mgr_auto(NULL, NULL);
}
static void
dtb_r0620(IMB_MGR *m) /* S */
{
        (void) m;
        imb_quic_aes_gcm(m, NULL, IMB_KEY_128_BYTES, IMB_DIR_ENCRYPT, dtb_v_dst, dtb_v_src, dtb_v_len64, dtb_v_iv, dtb_v_aad, 16, dtb_v_tagv, 16, 8);
}
static void
dtb_r0621(IMB_MGR *m) /* S */
{
        (void) m;
        imb_quic_aes_gcm(m, &dtb_gk128, IMB_KEY_128_BYTES, IMB_DIR_ENCRYPT, NULL, dtb_v_src, dtb_v_len64, dtb_v_iv, dtb_v_aad, 16, dtb_v_tagv, 16, 8);
}
static void
dtb_r0622(IMB_MGR *m) /* S */
{
        (void) m;
        imb_quic_aes_gcm(m, &dtb_gk128, IMB_KEY_128_BYTES, IMB_DIR_ENCRYPT, dtb_v_dst_1n, dtb_v_src, dtb_v_len64, dtb_v_iv, dtb_v_aad, 16, dtb_v_tagv, 16, 8);
}
static void
dtb_r0623(IMB_MGR *m) /* S */
{
        (void) m;
        imb_quic_aes_gcm(m, &dtb_gk128, IMB_KEY_128_BYTES, IMB_DIR_ENCRYPT, dtb_v_dst, NULL, dtb_v_len64, dtb_v_iv, dtb_v_aad, 16, dtb_v_tagv, 16, 8);
}
static void
dtb_r0624(IMB_MGR *m) /* S */
{
        (void) m;
        imb_quic_aes_gcm(m, &dtb_gk128, IMB_KEY_128_BYTES, IMB_DIR_ENCRYPT, dtb_v_dst, dtb_v_src_1n, dtb_v_len64, dtb_v_iv, dtb_v_aad, 16, dtb_v_tagv, 16, 8);
}
static void
dtb_r0625(IMB_MGR *m) /* S */
{
        (void) m;
        imb_quic_aes_gcm(m, &dtb_gk128, IMB_KEY_128_BYTES, IMB_DIR_ENCRYPT, dtb_v_dst, dtb_v_src, dtb_v_len64, NULL, dtb_v_aad, 16, dtb_v_tagv, 16, 8);
}
static void
dtb_r0626(IMB_MGR *m) /* S */
{
        (void) m;
        imb_quic_aes_gcm(m, &dtb_gk128, IMB_KEY_128_BYTES, IMB_DIR_ENCRYPT, dtb_v_dst, dtb_v_src, dtb_v_len64, dtb_v_iv_1n, dtb_v_aad, 16, dtb_v_tagv, 16, 8);
}
static void
dtb_r0627(IMB_MGR *m) /* S */
{
        (void) m;
        imb_quic_aes_gcm(m, &dtb_gk128, IMB_KEY_128_BYTES, IMB_DIR_ENCRYPT, dtb_v_dst, dtb_v_src, dtb_v_len64, dtb_v_iv, NULL, 16, dtb_v_tagv, 16, 8);
}
static void
dtb_r0628(IMB_MGR *m) /* S */
{
        (void) m;
        imb_quic_aes_gcm(m, &dtb_gk128, IMB_KEY_128_BYTES, IMB_DIR_ENCRYPT, dtb_v_dst, dtb_v_src, dtb_v_len64, dtb_v_iv, dtb_v_src_1n, 16, dtb_v_tagv, 16, 8);
}
static void
dtb_r0629(IMB_MGR *m) /* S */
{
        (void) m;
        imb_quic_aes_gcm(m, &dtb_gk128, IMB_KEY_128_BYTES, IMB_DIR_ENCRYPT, dtb_v_dst, dtb_v_src, dtb_v_len64, dtb_v_iv, dtb_v_aad, 16, NULL, 16, 8);
}
static void
dtb_r0630(IMB_MGR *m) /* S */
{
        (void) m;
        imb_quic_aes_gcm(m, &dtb_gk128, IMB_KEY_128_BYTES, IMB_DIR_ENCRYPT, dtb_v_dst, dtb_v_src, dtb_v_len64, dtb_v_iv, dtb_v_aad, 16, dtb_v_dst_1n, 16, 8);
}
static void
dtb_r0631(IMB_MGR *m) /* S */
{
        (void) m;
        imb_quic_aes_gcm(m, &dtb_gk128, IMB_KEY_192_BYTES, IMB_DIR_ENCRYPT, dtb_v_dst, dtb_v_src, dtb_v_len64, dtb_v_iv, dtb_v_aad, 16, dtb_v_tagv, 16, 8);
}
static void
dtb_r0632(IMB_MGR *m) /* S */
{
        (void) m;
        imb_quic_aes_gcm(m, &dtb_gk128, (IMB_KEY_SIZE_BYTES) 0, IMB_DIR_ENCRYPT, dtb_v_dst, dtb_v_src, dtb_v_len64, dtb_v_iv, dtb_v_aad, 16, dtb_v_tagv, 16, 8);
}
static void
dtb_r0633(IMB_MGR *m) /* S */
{
        (void) m;
        imb_quic_aes_gcm(m, &dtb_gk128, IMB_KEY_128_BYTES, (IMB_CIPHER_DIRECTION) 0, dtb_v_dst, dtb_v_src, dtb_v_len64, dtb_v_iv, dtb_v_aad, 16, dtb_v_tagv, 16, 8);
}
static void
dtb_r0634(IMB_MGR *m) /* S */
{
        (void) m;
        imb_quic_aes_gcm(NULL, &dtb_gk128, IMB_KEY_128_BYTES, IMB_DIR_ENCRYPT, dtb_v_dst, dtb_v_src, dtb_v_len64, dtb_v_iv, dtb_v_aad, 16, dtb_v_tagv, 16, 8);
}
static void
dtb_r0635(IMB_MGR *m) /* S */
{
        (void) m;
        imb_quic_hp_aes_ecb(m, NULL, dtb_v_dst, dtb_v_src, 8, IMB_KEY_128_BYTES);
}
static void
dtb_r0636(IMB_MGR *m) /* S */
{
        (void) m;
        imb_quic_hp_aes_ecb(m, dtb_ek128, NULL, dtb_v_src, 8, IMB_KEY_128_BYTES);
}
static void
dtb_r0637(IMB_MGR *m) /* S */
{
        (void) m;
        imb_quic_hp_aes_ecb(m, dtb_ek128, dtb_v_dst_1n, dtb_v_src, 8, IMB_KEY_128_BYTES);
}
static void
dtb_r0638(IMB_MGR *m) /* S */
{
        (void) m;
        imb_quic_hp_aes_ecb(m, dtb_ek128, dtb_v_dst, NULL, 8, IMB_KEY_128_BYTES);
}
static void
dtb_r0639(IMB_MGR *m) /* S */
{
        (void) m;
        imb_quic_hp_aes_ecb(m, dtb_ek128, dtb_v_dst, dtb_v_src_1n, 8, IMB_KEY_128_BYTES);
}
static void
dtb_r0640(IMB_MGR *m) /* S */
{
        (void) m;
        imb_quic_hp_aes_ecb(m, dtb_ek128, dtb_v_dst, dtb_v_src, 8, IMB_KEY_192_BYTES);
}
static void
dtb_r0641(IMB_MGR *m) /* S */
{
        (void) m;
        imb_quic_hp_aes_ecb(m, dtb_ek128, dtb_v_dst, dtb_v_src, 8, (IMB_KEY_SIZE_BYTES) 0);
}
static void
dtb_r0642(IMB_MGR *m) /* S */
{
        (void) m;
        imb_quic_hp_aes_ecb(NULL, dtb_ek128, dtb_v_dst, dtb_v_src, 8, IMB_KEY_128_BYTES);
}
static void
dtb_r0643(IMB_MGR *m) /* S */
{
        (void) m;
        imb_quic_chacha20_poly1305(m, NULL, IMB_DIR_ENCRYPT, dtb_v_dst, dtb_v_src, dtb_v_len64, dtb_v_iv, dtb_v_aad, 16, dtb_v_tagv, 8);
}
static void
dtb_r0644(IMB_MGR *m) /* S */
{
        (void) m;
        imb_quic_chacha20_poly1305(m, dtb_key, IMB_DIR_ENCRYPT, NULL, dtb_v_src, dtb_v_len64, dtb_v_iv, dtb_v_aad, 16, dtb_v_tagv, 8);
}
static void
dtb_r0645(IMB_MGR *m) /* S */
{
        (void) m;
        imb_quic_chacha20_poly1305(m, dtb_key, IMB_DIR_ENCRYPT, dtb_v_dst_1n, dtb_v_src, dtb_v_len64, dtb_v_iv, dtb_v_aad, 16, dtb_v_tagv, 8);
}
static void
dtb_r0646(IMB_MGR *m) /* S */
{
        (void) m;
        imb_quic_chacha20_poly1305(m, dtb_key, IMB_DIR_ENCRYPT, dtb_v_dst, NULL, dtb_v_len64, dtb_v_iv, dtb_v_aad, 16, dtb_v_tagv, 8);
}
static void
dtb_r0647(IMB_MGR *m) /* S */
{
        (void) m;
        imb_quic_chacha20_poly1305(m, dtb_key, IMB_DIR_ENCRYPT, dtb_v_dst, dtb_v_src_1n, dtb_v_len64, dtb_v_iv, dtb_v_aad, 16, dtb_v_tagv, 8);
}
static void
dtb_r0648(IMB_MGR *m) /* S */
{
        (void) m;
        imb_quic_chacha20_poly1305(m, dtb_key, IMB_DIR_ENCRYPT, dtb_v_dst, dtb_v_src, dtb_v_len64, NULL, dtb_v_aad, 16, dtb_v_tagv, 8);
}
static void
dtb_r0649(IMB_MGR *m) /* S */
{
        (void) m;
        imb_quic_chacha20_poly1305(m, dtb_key, IMB_DIR_ENCRYPT, dtb_v_dst, dtb_v_src, dtb_v_len64, dtb_v_iv_1n, dtb_v_aad, 16, dtb_v_tagv, 8);
}
static void
dtb_r0650(IMB_MGR *m) /* S */
{
        (void) m;
        imb_quic_chacha20_poly1305(m, dtb_key, IMB_DIR_ENCRYPT, dtb_v_dst, dtb_v_src, dtb_v_len64, dtb_v_iv, NULL, 16, dtb_v_tagv, 8);
}
static void
dtb_r0651(IMB_MGR *m) /* S */
{
        (void) m;
        imb_quic_chacha20_poly1305(m, dtb_key, IMB_DIR_ENCRYPT, dtb_v_dst, dtb_v_src, dtb_v_len64, dtb_v_iv, dtb_v_src_1n, 16, dtb_v_tagv, 8);
}
static void
dtb_r0652(IMB_MGR *m) /* S */
{
        (void) m;
        imb_quic_chacha20_poly1305(m, dtb_key, IMB_DIR_ENCRYPT, dtb_v_dst, dtb_v_src, dtb_v_len64, dtb_v_iv, dtb_v_aad, 16, NULL, 8);
}
static void
dtb_r0653(IMB_MGR *m) /* S */
{
        (void) m;
        imb_quic_chacha20_poly1305(m, dtb_key, IMB_DIR_ENCRYPT, dtb_v_dst, dtb_v_src, dtb_v_len64, dtb_v_iv, dtb_v_aad, 16, dtb_v_dst_1n, 8);
}
static void
dtb_r0654(IMB_MGR *m) /* S */
{
        (void) m;
        imb_quic_chacha20_poly1305(m, dtb_key, (IMB_CIPHER_DIRECTION) 0, dtb_v_dst, dtb_v_src, dtb_v_len64, dtb_v_iv, dtb_v_aad, 16, dtb_v_tagv, 8);
}
static void
dtb_r0655(IMB_MGR *m) /* S */
{
        (void) m;
        imb_quic_chacha20_poly1305(NULL, dtb_key, IMB_DIR_ENCRYPT, dtb_v_dst, dtb_v_src, dtb_v_len64, dtb_v_iv, dtb_v_aad, 16, dtb_v_tagv, 8);
}
static void
dtb_r0656(IMB_MGR *m) /* S */
{
        (void) m;
        imb_quic_hp_chacha20(m, NULL, dtb_v_dst, dtb_v_src, 8);
}
static void
dtb_r0657(IMB_MGR *m) /* S */
{
        (void) m;
        imb_quic_hp_chacha20(m, dtb_key, NULL, dtb_v_src, 8);
}
static void
dtb_r0658(IMB_MGR *m) /* S */
{
        (void) m;
        imb_quic_hp_chacha20(m, dtb_key, dtb_v_dst_1n, dtb_v_src, 8);
}
static void
dtb_r0659(IMB_MGR *m) /* S */
{
        (void) m;
        imb_quic_hp_chacha20(m, dtb_key, dtb_v_dst, NULL, 8);
}
static void
dtb_r0660(IMB_MGR *m) /* S */
{
        (void) m;
        imb_quic_hp_chacha20(m, dtb_key, dtb_v_dst, dtb_v_src_1n, 8);
}
static void
dtb_r0661(IMB_MGR *m) /* S */
{
        (void) m;
        imb_quic_hp_chacha20(NULL, dtb_key, dtb_v_dst, dtb_v_src, 8);
}

static const struct dtb_row dtb_table[] = {
        { "r0001", "IMB_AES128_GCM_ENC", "exp_key=NULL", IMB_ERR_NULL_EXP_KEY, 0, dtb_r0001 },
        { "r0002", "IMB_AES128_GCM_ENC", "ctx=NULL", IMB_ERR_NULL_CTX, 0, dtb_r0002 },
        { "r0003", "IMB_AES128_GCM_ENC", "dst=NULL", IMB_ERR_NULL_DST, 0, dtb_r0003 },
        { "r0004", "IMB_AES128_GCM_ENC", "src=NULL", IMB_ERR_NULL_SRC, 0, dtb_r0004 },
        { "r0005", "IMB_AES128_GCM_ENC", "len=(1<<39)-256", IMB_ERR_CIPH_LEN, 0, dtb_r0005 },
        { "r0006", "IMB_AES128_GCM_ENC", "len=IMB_GCM_MAX_LEN+1", IMB_ERR_CIPH_LEN, 0, dtb_r0006 },
        { "r0007", "IMB_AES128_GCM_ENC", "iv=NULL", IMB_ERR_NULL_IV, 0, dtb_r0007 },
        { "r0008", "IMB_AES128_GCM_ENC", "aad=NULL,aadl=16", IMB_ERR_NULL_AAD, 0, dtb_r0008 },
        { "r0009", "IMB_AES128_GCM_ENC", "tag=NULL", IMB_ERR_NULL_AUTH, 0, dtb_r0009 },
        { "r0010", "IMB_AES128_GCM_ENC", "tagl=(1<<39)-256", IMB_ERR_AUTH_TAG_LEN, 0, dtb_r0010 },
        { "r0011", "IMB_AES128_GCM_ENC", "tagl=0", IMB_ERR_AUTH_TAG_LEN, 0, dtb_r0011 },
        { "r0012", "IMB_AES128_GCM_ENC", "tagl=17", IMB_ERR_AUTH_TAG_LEN, 0, dtb_r0012 },
        { "r0013", "IMB_AES128_GCM_DEC", "exp_key=NULL", IMB_ERR_NULL_EXP_KEY, 0, dtb_r0013 },
        { "r0014", "IMB_AES128_GCM_DEC", "ctx=NULL", IMB_ERR_NULL_CTX, 0, dtb_r0014 },
        { "r0015", "IMB_AES128_GCM_DEC", "dst=NULL", IMB_ERR_NULL_DST, 0, dtb_r0015 },
        { "r0016", "IMB_AES128_GCM_DEC", "src=NULL", IMB_ERR_NULL_SRC, 0, dtb_r0016 },
        { "r0017", "IMB_AES128_GCM_DEC", "len=(1<<39)-256", IMB_ERR_CIPH_LEN, 0, dtb_r0017 },
        { "r0018", "IMB_AES128_GCM_DEC", "len=IMB_GCM_MAX_LEN+1", IMB_ERR_CIPH_LEN, 0, dtb_r0018 },
        { "r0019", "IMB_AES128_GCM_DEC", "iv=NULL", IMB_ERR_NULL_IV, 0, dtb_r0019 },
        { "r0020", "IMB_AES128_GCM_DEC", "aad=NULL,aadl=16", IMB_ERR_NULL_AAD, 0, dtb_r0020 },
        { "r0021", "IMB_AES128_GCM_DEC", "tag=NULL", IMB_ERR_NULL_AUTH, 0, dtb_r0021 },
        { "r0022", "IMB_AES128_GCM_DEC", "tagl=(1<<39)-256", IMB_ERR_AUTH_TAG_LEN, 0, dtb_r0022 },
        { "r0023", "IMB_AES128_GCM_DEC", "tagl=0", IMB_ERR_AUTH_TAG_LEN, 0, dtb_r0023 },
        { "r0024", "IMB_AES128_GCM_DEC", "tagl=17", IMB_ERR_AUTH_TAG_LEN, 0, dtb_r0024 },
        { "r0025", "IMB_AES128_GCM_INIT", "exp_key=NULL", IMB_ERR_NULL_EXP_KEY, 0, dtb_r0025 },
        { "r0026", "IMB_AES128_GCM_INIT", "ctx=NULL", IMB_ERR_NULL_CTX, 0, dtb_r0026 },
        { "r0027", "IMB_AES128_GCM_INIT", "iv=NULL", IMB_ERR_NULL_IV, 0, dtb_r0027 },
        { "r0028", "IMB_AES128_GCM_INIT", "aad=NULL,aadl=16", IMB_ERR_NULL_AAD, 0, dtb_r0028 },
        { "r0029", "IMB_AES128_GCM_INIT_VAR_IV", "exp_key=NULL", IMB_ERR_NULL_EXP_KEY, 0, dtb_r0029 },
        { "r0030", "IMB_AES128_GCM_INIT_VAR_IV", "ctx=NULL", IMB_ERR_NULL_CTX, 0, dtb_r0030 },
        { "r0031", "IMB_AES128_GCM_INIT_VAR_IV", "iv=NULL", IMB_ERR_NULL_IV, 0, dtb_r0031 },
        { "r0032", "IMB_AES128_GCM_INIT_VAR_IV", "ivl=0", IMB_ERR_IV_LEN, 0, dtb_r0032 },
        { "r0033", "IMB_AES128_GCM_INIT_VAR_IV", "aad=NULL,aadl=16", IMB_ERR_NULL_AAD, 0, dtb_r0033 },
        { "r0034", "IMB_AES128_GCM_ENC_UPDATE", "exp_key=NULL", IMB_ERR_NULL_EXP_KEY, 0, dtb_r0034 },
        { "r0035", "IMB_AES128_GCM_ENC_UPDATE", "ctx=NULL", IMB_ERR_NULL_CTX, 0, dtb_r0035 },
        { "r0036", "IMB_AES128_GCM_ENC_UPDATE", "dst=NULL", IMB_ERR_NULL_DST, 0, dtb_r0036 },
        { "r0037", "IMB_AES128_GCM_ENC_UPDATE", "src=NULL", IMB_ERR_NULL_SRC, 0, dtb_r0037 },
        { "r0038", "IMB_AES128_GCM_ENC_UPDATE", "len=(1<<39)-256", IMB_ERR_CIPH_LEN, 0, dtb_r0038 },
        { "r0039", "IMB_AES128_GCM_ENC_UPDATE", "len=IMB_GCM_MAX_LEN+1", IMB_ERR_CIPH_LEN, 0, dtb_r0039 },
        { "r0040", "IMB_AES128_GCM_DEC_UPDATE", "exp_key=NULL", IMB_ERR_NULL_EXP_KEY, 0, dtb_r0040 },
        { "r0041", "IMB_AES128_GCM_DEC_UPDATE", "ctx=NULL", IMB_ERR_NULL_CTX, 0, dtb_r0041 },
        { "r0042", "IMB_AES128_GCM_DEC_UPDATE", "dst=NULL", IMB_ERR_NULL_DST, 0, dtb_r0042 },
        { "r0043", "IMB_AES128_GCM_DEC_UPDATE", "src=NULL", IMB_ERR_NULL_SRC, 0, dtb_r0043 },
        { "r0044", "IMB_AES128_GCM_DEC_UPDATE", "len=(1<<39)-256", IMB_ERR_CIPH_LEN, 0, dtb_r0044 },
        { "r0045", "IMB_AES128_GCM_DEC_UPDATE", "len=IMB_GCM_MAX_LEN+1", IMB_ERR_CIPH_LEN, 0, dtb_r0045 },
        { "r0046", "IMB_AES128_GCM_ENC_FINALIZE", "exp_key=NULL", IMB_ERR_NULL_EXP_KEY, 0, dtb_r0046 },
        { "r0047", "IMB_AES128_GCM_ENC_FINALIZE", "ctx=NULL", IMB_ERR_NULL_CTX, 0, dtb_r0047 },
        { "r0048", "IMB_AES128_GCM_ENC_FINALIZE", "tag=NULL", IMB_ERR_NULL_AUTH, 0, dtb_r0048 },
        { "r0049", "IMB_AES128_GCM_ENC_FINALIZE", "tagl=0", IMB_ERR_AUTH_TAG_LEN, 0, dtb_r0049 },
        { "r0050", "IMB_AES128_GCM_ENC_FINALIZE", "tagl=17", IMB_ERR_AUTH_TAG_LEN, 0, dtb_r0050 },
        { "r0051", "IMB_AES128_GCM_DEC_FINALIZE", "exp_key=NULL", IMB_ERR_NULL_EXP_KEY, 0, dtb_r0051 },
        { "r0052", "IMB_AES128_GCM_DEC_FINALIZE", "ctx=NULL", IMB_ERR_NULL_CTX, 0, dtb_r0052 },
        { "r0053", "IMB_AES128_GCM_DEC_FINALIZE", "tag=NULL", IMB_ERR_NULL_AUTH, 0, dtb_r0053 },
        { "r0054", "IMB_AES128_GCM_DEC_FINALIZE", "tagl=0", IMB_ERR_AUTH_TAG_LEN, 0, dtb_r0054 },
        { "r0055", "IMB_AES128_GCM_DEC_FINALIZE", "tagl=17", IMB_ERR_AUTH_TAG_LEN, 0, dtb_r0055 },
        { "r0056", "IMB_AES128_GCM_PRE", "key=NULL", IMB_ERR_NULL_KEY, 0, dtb_r0056 },
        { "r0057", "IMB_AES128_GCM_PRE", "exp_key=NULL", IMB_ERR_NULL_EXP_KEY, 0, dtb_r0057 },
        { "r0058", "IMB_AES128_GCM_PRECOMP", "exp_key=NULL", IMB_ERR_NULL_EXP_KEY, 0, dtb_r0058 },
        { "r0059", "IMB_AES128_GMAC_INIT", "exp_key=NULL", IMB_ERR_NULL_EXP_KEY, 0, dtb_r0059 },
        { "r0060", "IMB_AES128_GMAC_INIT", "ctx=NULL", IMB_ERR_NULL_CTX, 0, dtb_r0060 },
        { "r0061", "IMB_AES128_GMAC_INIT", "iv=NULL", IMB_ERR_NULL_IV, 0, dtb_r0061 },
        { "r0062", "IMB_AES128_GMAC_INIT", "ivl=0", IMB_ERR_IV_LEN, 0, dtb_r0062 },
        { "r0063", "IMB_AES128_GMAC_UPDATE", "exp_key=NULL", IMB_ERR_NULL_EXP_KEY, 0, dtb_r0063 },
        { "r0064", "IMB_AES128_GMAC_UPDATE", "ctx=NULL", IMB_ERR_NULL_CTX, 0, dtb_r0064 },
        { "r0065", "IMB_AES128_GMAC_UPDATE", "src=NULL,len=64", IMB_ERR_NULL_SRC, 0, dtb_r0065 },
        { "r0066", "IMB_AES128_GMAC_FINALIZE", "exp_key=NULL", IMB_ERR_NULL_EXP_KEY, 0, dtb_r0066 },
        { "r0067", "IMB_AES128_GMAC_FINALIZE", "ctx=NULL", IMB_ERR_NULL_CTX, 0, dtb_r0067 },
        { "r0068", "IMB_AES128_GMAC_FINALIZE", "tag=NULL", IMB_ERR_NULL_AUTH, 0, dtb_r0068 },
        { "r0069", "IMB_AES128_GMAC_FINALIZE", "tagl=0", IMB_ERR_AUTH_TAG_LEN, 0, dtb_r0069 },
        { "r0070", "IMB_AES128_GMAC_FINALIZE", "tagl=17", IMB_ERR_AUTH_TAG_LEN, 0, dtb_r0070 },
        { "r0071", "IMB_AES192_GCM_ENC", "exp_key=NULL", IMB_ERR_NULL_EXP_KEY, 0, dtb_r0071 },
        { "r0072", "IMB_AES192_GCM_ENC", "ctx=NULL", IMB_ERR_NULL_CTX, 0, dtb_r0072 },
        { "r0073", "IMB_AES192_GCM_ENC", "dst=NULL", IMB_ERR_NULL_DST, 0, dtb_r0073 },
        { "r0074", "IMB_AES192_GCM_ENC", "src=NULL", IMB_ERR_NULL_SRC, 0, dtb_r0074 },
        { "r0075", "IMB_AES192_GCM_ENC", "len=(1<<39)-256", IMB_ERR_CIPH_LEN, 0, dtb_r0075 },
        { "r0076", "IMB_AES192_GCM_ENC", "len=IMB_GCM_MAX_LEN+1", IMB_ERR_CIPH_LEN, 0, dtb_r0076 },
        { "r0077", "IMB_AES192_GCM_ENC", "iv=NULL", IMB_ERR_NULL_IV, 0, dtb_r0077 },
        { "r0078", "IMB_AES192_GCM_ENC", "aad=NULL,aadl=16", IMB_ERR_NULL_AAD, 0, dtb_r0078 },
        { "r0079", "IMB_AES192_GCM_ENC", "tag=NULL", IMB_ERR_NULL_AUTH, 0, dtb_r0079 },
        { "r0080", "IMB_AES192_GCM_ENC", "tagl=(1<<39)-256", IMB_ERR_AUTH_TAG_LEN, 0, dtb_r0080 },
        { "r0081", "IMB_AES192_GCM_ENC", "tagl=0", IMB_ERR_AUTH_TAG_LEN, 0, dtb_r0081 },
        { "r0082", "IMB_AES192_GCM_ENC", "tagl=17", IMB_ERR_AUTH_TAG_LEN, 0, dtb_r0082 },
        { "r0083", "IMB_AES192_GCM_DEC", "exp_key=NULL", IMB_ERR_NULL_EXP_KEY, 0, dtb_r0083 },
        { "r0084", "IMB_AES192_GCM_DEC", "ctx=NULL", IMB_ERR_NULL_CTX, 0, dtb_r0084 },
        { "r0085", "IMB_AES192_GCM_DEC", "dst=NULL", IMB_ERR_NULL_DST, 0, dtb_r0085 },
        { "r0086", "IMB_AES192_GCM_DEC", "src=NULL", IMB_ERR_NULL_SRC, 0, dtb_r0086 },
        { "r0087", "IMB_AES192_GCM_DEC", "len=(1<<39)-256", IMB_ERR_CIPH_LEN, 0, dtb_r0087 },
        { "r0088", "IMB_AES192_GCM_DEC", "len=IMB_GCM_MAX_LEN+1", IMB_ERR_CIPH_LEN, 0, dtb_r0088 },
        { "r0089", "IMB_AES192_GCM_DEC", "iv=NULL", IMB_ERR_NULL_IV, 0, dtb_r0089 },
        { "r0090", "IMB_AES192_GCM_DEC", "aad=NULL,aadl=16", IMB_ERR_NULL_AAD, 0, dtb_r0090 },
        { "r0091", "IMB_AES192_GCM_DEC", "tag=NULL", IMB_ERR_NULL_AUTH, 0, dtb_r0091 },
        { "r0092", "IMB_AES192_GCM_DEC", "tagl=(1<<39)-256", IMB_ERR_AUTH_TAG_LEN, 0, dtb_r0092 },
        { "r0093", "IMB_AES192_GCM_DEC", "tagl=0", IMB_ERR_AUTH_TAG_LEN, 0, dtb_r0093 },
        { "r0094", "IMB_AES192_GCM_DEC", "tagl=17", IMB_ERR_AUTH_TAG_LEN, 0, dtb_r0094 },
        { "r0095", "IMB_AES192_GCM_INIT", "exp_key=NULL", IMB_ERR_NULL_EXP_KEY, 0, dtb_r0095 },
        { "r0096", "IMB_AES192_GCM_INIT", "ctx=NULL", IMB_ERR_NULL_CTX, 0, dtb_r0096 },
        { "r0097", "IMB_AES192_GCM_INIT", "iv=NULL", IMB_ERR_NULL_IV, 0, dtb_r0097 },
        { "r0098", "IMB_AES192_GCM_INIT", "aad=NULL,aadl=16", IMB_ERR_NULL_AAD, 0, dtb_r0098 },
        { "r0099", "IMB_AES192_GCM_INIT_VAR_IV", "exp_key=NULL", IMB_ERR_NULL_EXP_KEY, 0, dtb_r0099 },
        { "r0100", "IMB_AES192_GCM_INIT_VAR_IV", "ctx=NULL", IMB_ERR_NULL_CTX, 0, dtb_r0100 },
        { "r0101", "IMB_AES192_GCM_INIT_VAR_IV", "iv=NULL", IMB_ERR_NULL_IV, 0, dtb_r0101 },
        { "r0102", "IMB_AES192_GCM_INIT_VAR_IV", "ivl=0", IMB_ERR_IV_LEN, 0, dtb_r0102 },
        { "r0103", "IMB_AES192_GCM_INIT_VAR_IV", "aad=NULL,aadl=16", IMB_ERR_NULL_AAD, 0, dtb_r0103 },
        { "r0104", "IMB_AES192_GCM_ENC_UPDATE", "exp_key=NULL", IMB_ERR_NULL_EXP_KEY, 0, dtb_r0104 },
        { "r0105", "IMB_AES192_GCM_ENC_UPDATE", "ctx=NULL", IMB_ERR_NULL_CTX, 0, dtb_r0105 },
        { "r0106", "IMB_AES192_GCM_ENC_UPDATE", "dst=NULL", IMB_ERR_NULL_DST, 0, dtb_r0106 },
        { "r0107", "IMB_AES192_GCM_ENC_UPDATE", "src=NULL", IMB_ERR_NULL_SRC, 0, dtb_r0107 },
        { "r0108", "IMB_AES192_GCM_ENC_UPDATE", "len=(1<<39)-256", IMB_ERR_CIPH_LEN, 0, dtb_r0108 },
        { "r0109", "IMB_AES192_GCM_ENC_UPDATE", "len=IMB_GCM_MAX_LEN+1", IMB_ERR_CIPH_LEN, 0, dtb_r0109 },
        { "r0110", "IMB_AES192_GCM_DEC_UPDATE", "exp_key=NULL", IMB_ERR_NULL_EXP_KEY, 0, dtb_r0110 },
        { "r0111", "IMB_AES192_GCM_DEC_UPDATE", "ctx=NULL", IMB_ERR_NULL_CTX, 0, dtb_r0111 },
        { "r0112", "IMB_AES192_GCM_DEC_UPDATE", "dst=NULL", IMB_ERR_NULL_DST, 0, dtb_r0112 },
        { "r0113", "IMB_AES192_GCM_DEC_UPDATE", "src=NULL", IMB_ERR_NULL_SRC, 0, dtb_r0113 },
        { "r0114", "IMB_AES192_GCM_DEC_UPDATE", "len=(1<<39)-256", IMB_ERR_CIPH_LEN, 0, dtb_r0114 },
        { "r0115", "IMB_AES192_GCM_DEC_UPDATE", "len=IMB_GCM_MAX_LEN+1", IMB_ERR_CIPH_LEN, 0, dtb_r0115 },
        { "r0116", "IMB_AES192_GCM_ENC_FINALIZE", "exp_key=NULL", IMB_ERR_NULL_EXP_KEY, 0, dtb_r0116 },
        { "r0117", "IMB_AES192_GCM_ENC_FINALIZE", "ctx=NULL", IMB_ERR_NULL_CTX, 0, dtb_r0117 },
        { "r0118", "IMB_AES192_GCM_ENC_FINALIZE", "tag=NULL", IMB_ERR_NULL_AUTH, 0, dtb_r0118 },
        { "r0119", "IMB_AES192_GCM_ENC_FINALIZE", "tagl=0", IMB_ERR_AUTH_TAG_LEN, 0, dtb_r0119 },
        { "r0120", "IMB_AES192_GCM_ENC_FINALIZE", "tagl=17", IMB_ERR_AUTH_TAG_LEN, 0, dtb_r0120 },
        { "r0121", "IMB_AES192_GCM_DEC_FINALIZE", "exp_key=NULL", IMB_ERR_NULL_EXP_KEY, 0, dtb_r0121 },
        { "r0122", "IMB_AES192_GCM_DEC_FINALIZE", "ctx=NULL", IMB_ERR_NULL_CTX, 0, dtb_r0122 },
        { "r0123", "IMB_AES192_GCM_DEC_FINALIZE", "tag=NULL", IMB_ERR_NULL_AUTH, 0, dtb_r0123 },
        { "r0124", "IMB_AES192_GCM_DEC_FINALIZE", "tagl=0", IMB_ERR_AUTH_TAG_LEN, 0, dtb_r0124 },
        { "r0125", "IMB_AES192_GCM_DEC_FINALIZE", "tagl=17", IMB_ERR_AUTH_TAG_LEN, 0, dtb_r0125 },
        { "r0126", "IMB_AES192_GCM_PRE", "key=NULL", IMB_ERR_NULL_KEY, 0, dtb_r0126 },
        { "r0127", "IMB_AES192_GCM_PRE", "exp_key=NULL", IMB_ERR_NULL_EXP_KEY, 0, dtb_r0127 },
        { "r0128", "IMB_AES192_GCM_PRECOMP", "exp_key=NULL", IMB_ERR_NULL_EXP_KEY, 0, dtb_r0128 },
        { "r0129", "IMB_AES192_GMAC_INIT", "exp_key=NULL", IMB_ERR_NULL_EXP_KEY, 0, dtb_r0129 },
        { "r0130", "IMB_AES192_GMAC_INIT", "ctx=NULL", IMB_ERR_NULL_CTX, 0, dtb_r0130 },
        { "r0131", "IMB_AES192_GMAC_INIT", "iv=NULL", IMB_ERR_NULL_IV, 0, dtb_r0131 },
        { "r0132", "IMB_AES192_GMAC_INIT", "ivl=0", IMB_ERR_IV_LEN, 0, dtb_r0132 },
        { "r0133", "IMB_AES192_GMAC_UPDATE", "exp_key=NULL", IMB_ERR_NULL_EXP_KEY, 0, dtb_r0133 },
        { "r0134", "IMB_AES192_GMAC_UPDATE", "ctx=NULL", IMB_ERR_NULL_CTX, 0, dtb_r0134 },
        { "r0135", "IMB_AES192_GMAC_UPDATE", "src=NULL,len=64", IMB_ERR_NULL_SRC, 0, dtb_r0135 },
        { "r0136", "IMB_AES192_GMAC_FINALIZE", "exp_key=NULL", IMB_ERR_NULL_EXP_KEY, 0, dtb_r0136 },
        { "r0137", "IMB_AES192_GMAC_FINALIZE", "ctx=NULL", IMB_ERR_NULL_CTX, 0, dtb_r0137 },
        { "r0138", "IMB_AES192_GMAC_FINALIZE", "tag=NULL", IMB_ERR_NULL_AUTH, 0, dtb_r0138 },
        { "r0139", "IMB_AES192_GMAC_FINALIZE", "tagl=0", IMB_ERR_AUTH_TAG_LEN, 0, dtb_r0139 },
        { "r0140", "IMB_AES192_GMAC_FINALIZE", "tagl=17", IMB_ERR_AUTH_TAG_LEN, 0, dtb_r0140 },
        { "r0141", "IMB_AES256_GCM_ENC", "exp_key=NULL", IMB_ERR_NULL_EXP_KEY, 0, dtb_r0141 },
        { "r0142", "IMB_AES256_GCM_ENC", "ctx=NULL", IMB_ERR_NULL_CTX, 0, dtb_r0142 },
        { "r0143", "IMB_AES256_GCM_ENC", "dst=NULL", IMB_ERR_NULL_DST, 0, dtb_r0143 },
        { "r0144", "IMB_AES256_GCM_ENC", "src=NULL", IMB_ERR_NULL_SRC, 0, dtb_r0144 },
        { "r0145", "IMB_AES256_GCM_ENC", "len=(1<<39)-256", IMB_ERR_CIPH_LEN, 0, dtb_r0145 },
        { "r0146", "IMB_AES256_GCM_ENC", "len=IMB_GCM_MAX_LEN+1", IMB_ERR_CIPH_LEN, 0, dtb_r0146 },
        { "r0147", "IMB_AES256_GCM_ENC", "iv=NULL", IMB_ERR_NULL_IV, 0, dtb_r0147 },
        { "r0148", "IMB_AES256_GCM_ENC", "aad=NULL,aadl=16", IMB_ERR_NULL_AAD, 0, dtb_r0148 },
        { "r0149", "IMB_AES256_GCM_ENC", "tag=NULL", IMB_ERR_NULL_AUTH, 0, dtb_r0149 },
        { "r0150", "IMB_AES256_GCM_ENC", "tagl=(1<<39)-256", IMB_ERR_AUTH_TAG_LEN, 0, dtb_r0150 },
        { "r0151", "IMB_AES256_GCM_ENC", "tagl=0", IMB_ERR_AUTH_TAG_LEN, 0, dtb_r0151 },
        { "r0152", "IMB_AES256_GCM_ENC", "tagl=17", IMB_ERR_AUTH_TAG_LEN, 0, dtb_r0152 },
        { "r0153", "IMB_AES256_GCM_DEC", "exp_key=NULL", IMB_ERR_NULL_EXP_KEY, 0, dtb_r0153 },
        { "r0154", "IMB_AES256_GCM_DEC", "ctx=NULL", IMB_ERR_NULL_CTX, 0, dtb_r0154 },
        { "r0155", "IMB_AES256_GCM_DEC", "dst=NULL", IMB_ERR_NULL_DST, 0, dtb_r0155 },
        { "r0156", "IMB_AES256_GCM_DEC", "src=NULL", IMB_ERR_NULL_SRC, 0, dtb_r0156 },
        { "r0157", "IMB_AES256_GCM_DEC", "len=(1<<39)-256", IMB_ERR_CIPH_LEN, 0, dtb_r0157 },
        { "r0158", "IMB_AES256_GCM_DEC", "len=IMB_GCM_MAX_LEN+1", IMB_ERR_CIPH_LEN, 0, dtb_r0158 },
        { "r0159", "IMB_AES256_GCM_DEC", "iv=NULL", IMB_ERR_NULL_IV, 0, dtb_r0159 },
        { "r0160", "IMB_AES256_GCM_DEC", "aad=NULL,aadl=16", IMB_ERR_NULL_AAD, 0, dtb_r0160 },
        { "r0161", "IMB_AES256_GCM_DEC", "tag=NULL", IMB_ERR_NULL_AUTH, 0, dtb_r0161 },
        { "r0162", "IMB_AES256_GCM_DEC", "tagl=(1<<39)-256", IMB_ERR_AUTH_TAG_LEN, 0, dtb_r0162 },
        { "r0163", "IMB_AES256_GCM_DEC", "tagl=0", IMB_ERR_AUTH_TAG_LEN, 0, dtb_r0163 },
        { "r0164", "IMB_AES256_GCM_DEC", "tagl=17", IMB_ERR_AUTH_TAG_LEN, 0, dtb_r0164 },
        { "r0165", "IMB_AES256_GCM_INIT", "exp_key=NULL", IMB_ERR_NULL_EXP_KEY, 0, dtb_r0165 },
        { "r0166", "IMB_AES256_GCM_INIT", "ctx=NULL", IMB_ERR_NULL_CTX, 0, dtb_r0166 },
        { "r0167", "IMB_AES256_GCM_INIT", "iv=NULL", IMB_ERR_NULL_IV, 0, dtb_r0167 },
        { "r0168", "IMB_AES256_GCM_INIT", "aad=NULL,aadl=16", IMB_ERR_NULL_AAD, 0, dtb_r0168 },
        { "r0169", "IMB_AES256_GCM_INIT_VAR_IV", "exp_key=NULL", IMB_ERR_NULL_EXP_KEY, 0, dtb_r0169 },
        { "r0170", "IMB_AES256_GCM_INIT_VAR_IV", "ctx=NULL", IMB_ERR_NULL_CTX, 0, dtb_r0170 },
        { "r0171", "IMB_AES256_GCM_INIT_VAR_IV", "iv=NULL", IMB_ERR_NULL_IV, 0, dtb_r0171 },
        { "r0172", "IMB_AES256_GCM_INIT_VAR_IV", "ivl=0", IMB_ERR_IV_LEN, 0, dtb_r0172 },
        { "r0173", "IMB_AES256_GCM_INIT_VAR_IV", "aad=NULL,aadl=16", IMB_ERR_NULL_AAD, 0, dtb_r0173 },
        { "r0174", "IMB_AES256_GCM_ENC_UPDATE", "exp_key=NULL", IMB_ERR_NULL_EXP_KEY, 0, dtb_r0174 },
        { "r0175", "IMB_AES256_GCM_ENC_UPDATE", "ctx=NULL", IMB_ERR_NULL_CTX, 0, dtb_r0175 },
        { "r0176", "IMB_AES256_GCM_ENC_UPDATE", "dst=NULL", IMB_ERR_NULL_DST, 0, dtb_r0176 },
        { "r0177", "IMB_AES256_GCM_ENC_UPDATE", "src=NULL", IMB_ERR_NULL_SRC, 0, dtb_r0177 },
        { "r0178", "IMB_AES256_GCM_ENC_UPDATE", "len=(1<<39)-256", IMB_ERR_CIPH_LEN, 0, dtb_r0178 },
        { "r0179", "IMB_AES256_GCM_ENC_UPDATE", "len=IMB_GCM_MAX_LEN+1", IMB_ERR_CIPH_LEN, 0, dtb_r0179 },
        { "r0180", "IMB_AES256_GCM_DEC_UPDATE", "exp_key=NULL", IMB_ERR_NULL_EXP_KEY, 0, dtb_r0180 },
        { "r0181", "IMB_AES256_GCM_DEC_UPDATE", "ctx=NULL", IMB_ERR_NULL_CTX, 0, dtb_r0181 },
        { "r0182", "IMB_AES256_GCM_DEC_UPDATE", "dst=NULL", IMB_ERR_NULL_DST, 0, dtb_r0182 },
        { "r0183", "IMB_AES256_GCM_DEC_UPDATE", "src=NULL", IMB_ERR_NULL_SRC, 0, dtb_r0183 },
        { "r0184", "IMB_AES256_GCM_DEC_UPDATE", "len=(1<<39)-256", IMB_ERR_CIPH_LEN, 0, dtb_r0184 },
        { "r0185", "IMB_AES256_GCM_DEC_UPDATE", "len=IMB_GCM_MAX_LEN+1", IMB_ERR_CIPH_LEN, 0, dtb_r0185 },
        { "r0186", "IMB_AES256_GCM_ENC_FINALIZE", "exp_key=NULL", IMB_ERR_NULL_EXP_KEY, 0, dtb_r0186 },
        { "r0187", "IMB_AES256_GCM_ENC_FINALIZE", "ctx=NULL", IMB_ERR_NULL_CTX, 0, dtb_r0187 },
        { "r0188", "IMB_AES256_GCM_ENC_FINALIZE", "tag=NULL", IMB_ERR_NULL_AUTH, 0, dtb_r0188 },
        { "r0189", "IMB_AES256_GCM_ENC_FINALIZE", "tagl=0", IMB_ERR_AUTH_TAG_LEN, 0, dtb_r0189 },
        { "r0190", "IMB_AES256_GCM_ENC_FINALIZE", "tagl=17", IMB_ERR_AUTH_TAG_LEN, 0, dtb_r0190 },
        { "r0191", "IMB_AES256_GCM_DEC_FINALIZE", "exp_key=NULL", IMB_ERR_NULL_EXP_KEY, 0, dtb_r0191 },
        { "r0192", "IMB_AES256_GCM_DEC_FINALIZE", "ctx=NULL", IMB_ERR_NULL_CTX, 0, dtb_r0192 },
        { "r0193", "IMB_AES256_GCM_DEC_FINALIZE", "tag=NULL", IMB_ERR_NULL_AUTH, 0, dtb_r0193 },
        { "r0194", "IMB_AES256_GCM_DEC_FINALIZE", "tagl=0", IMB_ERR_AUTH_TAG_LEN, 0, dtb_r0194 },
        { "r0195", "IMB_AES256_GCM_DEC_FINALIZE", "tagl=17", IMB_ERR_AUTH_TAG_LEN, 0, dtb_r0195 },
        { "r0196", "IMB_AES256_GCM_PRE", "key=NULL", IMB_ERR_NULL_KEY, 0, dtb_r0196 },
        { "r0197", "IMB_AES256_GCM_PRE", "exp_key=NULL", IMB_ERR_NULL_EXP_KEY, 0, dtb_r0197 },
        { "r0198", "IMB_AES256_GCM_PRECOMP", "exp_key=NULL", IMB_ERR_NULL_EXP_KEY, 0, dtb_r0198 },
        { "r0199", "IMB_AES256_GMAC_INIT", "exp_key=NULL", IMB_ERR_NULL_EXP_KEY, 0, dtb_r0199 },
        { "r0200", "IMB_AES256_GMAC_INIT", "ctx=NULL", IMB_ERR_NULL_CTX, 0, dtb_r0200 },
        { "r0201", "IMB_AES256_GMAC_INIT", "iv=NULL", IMB_ERR_NULL_IV, 0, dtb_r0201 },
        { "r0202", "IMB_AES256_GMAC_INIT", "ivl=0", IMB_ERR_IV_LEN, 0, dtb_r0202 },
        { "r0203", "IMB_AES256_GMAC_UPDATE", "exp_key=NULL", IMB_ERR_NULL_EXP_KEY, 0, dtb_r0203 },
        { "r0204", "IMB_AES256_GMAC_UPDATE", "ctx=NULL", IMB_ERR_NULL_CTX, 0, dtb_r0204 },
        { "r0205", "IMB_AES256_GMAC_UPDATE", "src=NULL,len=64", IMB_ERR_NULL_SRC, 0, dtb_r0205 },
        { "r0206", "IMB_AES256_GMAC_FINALIZE", "exp_key=NULL", IMB_ERR_NULL_EXP_KEY, 0, dtb_r0206 },
        { "r0207", "IMB_AES256_GMAC_FINALIZE", "ctx=NULL", IMB_ERR_NULL_CTX, 0, dtb_r0207 },
        { "r0208", "IMB_AES256_GMAC_FINALIZE", "tag=NULL", IMB_ERR_NULL_AUTH, 0, dtb_r0208 },
        { "r0209", "IMB_AES256_GMAC_FINALIZE", "tagl=0", IMB_ERR_AUTH_TAG_LEN, 0, dtb_r0209 },
        { "r0210", "IMB_AES256_GMAC_FINALIZE", "tagl=17", IMB_ERR_AUTH_TAG_LEN, 0, dtb_r0210 },
        { "r0211", "IMB_GHASH_PRE", "key=NULL", IMB_ERR_NULL_KEY, 0, dtb_r0211 },
        { "r0212", "IMB_GHASH_PRE", "exp_key=NULL", IMB_ERR_NULL_EXP_KEY, 0, dtb_r0212 },
        { "r0213", "IMB_GHASH", "exp_key=NULL", IMB_ERR_NULL_EXP_KEY, 0, dtb_r0213 },
        { "r0214", "IMB_GHASH", "src=NULL", IMB_ERR_NULL_SRC, 0, dtb_r0214 },
        { "r0215", "IMB_GHASH", "len=0", IMB_ERR_AUTH_LEN, 0, dtb_r0215 },
        { "r0216", "IMB_GHASH", "tag=NULL", IMB_ERR_NULL_AUTH, 0, dtb_r0216 },
        { "r0217", "IMB_GHASH", "tagl=0", IMB_ERR_AUTH_TAG_LEN, 0, dtb_r0217 },
        { "r0218", "IMB_CHACHA20_POLY1305_INIT", "key=NULL", IMB_ERR_NULL_KEY, 0, dtb_r0218 },
        { "r0219", "IMB_CHACHA20_POLY1305_INIT", "ctx=NULL", IMB_ERR_NULL_CTX, 0, dtb_r0219 },
        { "r0220", "IMB_CHACHA20_POLY1305_INIT", "iv=NULL", IMB_ERR_NULL_IV, 0, dtb_r0220 },
        { "r0221", "IMB_CHACHA20_POLY1305_INIT", "aad=NULL,aadl=16", IMB_ERR_NULL_AAD, 0, dtb_r0221 },
        { "r0222", "IMB_CHACHA20_POLY1305_ENC_UPDATE", "key=NULL", IMB_ERR_NULL_KEY, 0, dtb_r0222 },
        { "r0223", "IMB_CHACHA20_POLY1305_ENC_UPDATE", "ctx=NULL", IMB_ERR_NULL_CTX, 0, dtb_r0223 },
        { "r0224", "IMB_CHACHA20_POLY1305_ENC_UPDATE", "dst=NULL,len=64", IMB_ERR_NULL_DST, 0, dtb_r0224 },
        { "r0225", "IMB_CHACHA20_POLY1305_ENC_UPDATE", "src=NULL,len=64", IMB_ERR_NULL_SRC, 0, dtb_r0225 },
        { "r0226", "IMB_CHACHA20_POLY1305_DEC_UPDATE", "key=NULL", IMB_ERR_NULL_KEY, 0, dtb_r0226 },
        { "r0227", "IMB_CHACHA20_POLY1305_DEC_UPDATE", "ctx=NULL", IMB_ERR_NULL_CTX, 0, dtb_r0227 },
        { "r0228", "IMB_CHACHA20_POLY1305_DEC_UPDATE", "dst=NULL,len=64", IMB_ERR_NULL_DST, 0, dtb_r0228 },
        { "r0229", "IMB_CHACHA20_POLY1305_DEC_UPDATE", "src=NULL,len=64", IMB_ERR_NULL_SRC, 0, dtb_r0229 },
        { "r0230", "IMB_CHACHA20_POLY1305_ENC_FINALIZE", "ctx=NULL", IMB_ERR_NULL_CTX, 0, dtb_r0230 },
        { "r0231", "IMB_CHACHA20_POLY1305_ENC_FINALIZE", "tag=NULL", IMB_ERR_NULL_AUTH, 0, dtb_r0231 },
        { "r0232", "IMB_CHACHA20_POLY1305_ENC_FINALIZE", "tagl=0", IMB_ERR_AUTH_TAG_LEN, 0, dtb_r0232 },
        { "r0233", "IMB_CHACHA20_POLY1305_ENC_FINALIZE", "tagl=17", IMB_ERR_AUTH_TAG_LEN, 0, dtb_r0233 },
        { "r0234", "IMB_CHACHA20_POLY1305_DEC_FINALIZE", "ctx=NULL", IMB_ERR_NULL_CTX, 0, dtb_r0234 },
        { "r0235", "IMB_CHACHA20_POLY1305_DEC_FINALIZE", "tag=NULL", IMB_ERR_NULL_AUTH, 0, dtb_r0235 },
        { "r0236", "IMB_CHACHA20_POLY1305_DEC_FINALIZE", "tagl=0", IMB_ERR_AUTH_TAG_LEN, 0, dtb_r0236 },
        { "r0237", "IMB_CHACHA20_POLY1305_DEC_FINALIZE", "tagl=17", IMB_ERR_AUTH_TAG_LEN, 0, dtb_r0237 },
        { "r0238", "IMB_SNOW3G_F8_1_BUFFER", "exp_key=NULL", IMB_ERR_NULL_EXP_KEY, 0, dtb_r0238 },
        { "r0239", "IMB_SNOW3G_F8_1_BUFFER", "iv=NULL", IMB_ERR_NULL_IV, 0, dtb_r0239 },
        { "r0240", "IMB_SNOW3G_F8_1_BUFFER", "src=NULL", IMB_ERR_NULL_SRC, 0, dtb_r0240 },
        { "r0241", "IMB_SNOW3G_F8_1_BUFFER", "dst=NULL", IMB_ERR_NULL_DST, 0, dtb_r0241 },
        { "r0242", "IMB_SNOW3G_F8_1_BUFFER", "len=0", IMB_ERR_CIPH_LEN, 0, dtb_r0242 },
        { "r0243", "IMB_SNOW3G_F8_1_BUFFER", "len=UINT32_MAX/8+1", IMB_ERR_CIPH_LEN, 0, dtb_r0243 },
        { "r0244", "IMB_SNOW3G_F8_1_BUFFER_BIT", "exp_key=NULL", IMB_ERR_NULL_EXP_KEY, 0, dtb_r0244 },
        { "r0245", "IMB_SNOW3G_F8_1_BUFFER_BIT", "iv=NULL", IMB_ERR_NULL_IV, 0, dtb_r0245 },
        { "r0246", "IMB_SNOW3G_F8_1_BUFFER_BIT", "src=NULL", IMB_ERR_NULL_SRC, 0, dtb_r0246 },
        { "r0247", "IMB_SNOW3G_F8_1_BUFFER_BIT", "dst=NULL", IMB_ERR_NULL_DST, 0, dtb_r0247 },
        { "r0248", "IMB_SNOW3G_F8_1_BUFFER_BIT", "len=0", IMB_ERR_CIPH_LEN, 0, dtb_r0248 },
        { "r0249", "IMB_SNOW3G_F8_2_BUFFER", "exp_key=NULL", IMB_ERR_NULL_EXP_KEY, 0, dtb_r0249 },
        { "r0250", "IMB_SNOW3G_F8_2_BUFFER", "iv1=NULL", IMB_ERR_NULL_IV, 0, dtb_r0250 },
        { "r0251", "IMB_SNOW3G_F8_2_BUFFER", "iv2=NULL", IMB_ERR_NULL_IV, 0, dtb_r0251 },
        { "r0252", "IMB_SNOW3G_F8_2_BUFFER", "src1=NULL", IMB_ERR_NULL_SRC, 0, dtb_r0252 },
        { "r0253", "IMB_SNOW3G_F8_2_BUFFER", "dst1=NULL", IMB_ERR_NULL_DST, 0, dtb_r0253 },
        { "r0254", "IMB_SNOW3G_F8_2_BUFFER", "len1=0", IMB_ERR_CIPH_LEN, 0, dtb_r0254 },
        { "r0255", "IMB_SNOW3G_F8_2_BUFFER", "len1=UINT32_MAX/8+1", IMB_ERR_CIPH_LEN, 0, dtb_r0255 },
        { "r0256", "IMB_SNOW3G_F8_2_BUFFER", "src2=NULL", IMB_ERR_NULL_SRC, 0, dtb_r0256 },
        { "r0257", "IMB_SNOW3G_F8_2_BUFFER", "dst2=NULL", IMB_ERR_NULL_DST, 0, dtb_r0257 },
        { "r0258", "IMB_SNOW3G_F8_2_BUFFER", "len2=0", IMB_ERR_CIPH_LEN, 0, dtb_r0258 },
        { "r0259", "IMB_SNOW3G_F8_2_BUFFER", "len2=UINT32_MAX/8+1", IMB_ERR_CIPH_LEN, 0, dtb_r0259 },
        { "r0260", "IMB_SNOW3G_F8_4_BUFFER", "exp_key=NULL", IMB_ERR_NULL_EXP_KEY, 0, dtb_r0260 },
        { "r0261", "IMB_SNOW3G_F8_4_BUFFER", "iv1=NULL", IMB_ERR_NULL_IV, 0, dtb_r0261 },
        { "r0262", "IMB_SNOW3G_F8_4_BUFFER", "iv2=NULL", IMB_ERR_NULL_IV, 0, dtb_r0262 },
        { "r0263", "IMB_SNOW3G_F8_4_BUFFER", "iv3=NULL", IMB_ERR_NULL_IV, 0, dtb_r0263 },
        { "r0264", "IMB_SNOW3G_F8_4_BUFFER", "iv4=NULL", IMB_ERR_NULL_IV, 0, dtb_r0264 },
        { "r0265", "IMB_SNOW3G_F8_4_BUFFER", "src1=NULL", IMB_ERR_NULL_SRC, 0, dtb_r0265 },
        { "r0266", "IMB_SNOW3G_F8_4_BUFFER", "dst1=NULL", IMB_ERR_NULL_DST, 0, dtb_r0266 },
        { "r0267", "IMB_SNOW3G_F8_4_BUFFER", "len1=0", IMB_ERR_CIPH_LEN, 0, dtb_r0267 },
        { "r0268", "IMB_SNOW3G_F8_4_BUFFER", "len1=UINT32_MAX/8+1", IMB_ERR_CIPH_LEN, 0, dtb_r0268 },
        { "r0269", "IMB_SNOW3G_F8_4_BUFFER", "src2=NULL", IMB_ERR_NULL_SRC, 0, dtb_r0269 },
        { "r0270", "IMB_SNOW3G_F8_4_BUFFER", "dst2=NULL", IMB_ERR_NULL_DST, 0, dtb_r0270 },
        { "r0271", "IMB_SNOW3G_F8_4_BUFFER", "len2=0", IMB_ERR_CIPH_LEN, 0, dtb_r0271 },
        { "r0272", "IMB_SNOW3G_F8_4_BUFFER", "len2=UINT32_MAX/8+1", IMB_ERR_CIPH_LEN, 0, dtb_r0272 },
        { "r0273", "IMB_SNOW3G_F8_4_BUFFER", "src3=NULL", IMB_ERR_NULL_SRC, 0, dtb_r0273 },
        { "r0274", "IMB_SNOW3G_F8_4_BUFFER", "dst3=NULL", IMB_ERR_NULL_DST, 0, dtb_r0274 },
        { "r0275", "IMB_SNOW3G_F8_4_BUFFER", "len3=0", IMB_ERR_CIPH_LEN, 0, dtb_r0275 },
        { "r0276", "IMB_SNOW3G_F8_4_BUFFER", "len3=UINT32_MAX/8+1", IMB_ERR_CIPH_LEN, 0, dtb_r0276 },
        { "r0277", "IMB_SNOW3G_F8_4_BUFFER", "src4=NULL", IMB_ERR_NULL_SRC, 0, dtb_r0277 },
        { "r0278", "IMB_SNOW3G_F8_4_BUFFER", "dst4=NULL", IMB_ERR_NULL_DST, 0, dtb_r0278 },
        { "r0279", "IMB_SNOW3G_F8_4_BUFFER", "len4=0", IMB_ERR_CIPH_LEN, 0, dtb_r0279 },
        { "r0280", "IMB_SNOW3G_F8_4_BUFFER", "len4=UINT32_MAX/8+1", IMB_ERR_CIPH_LEN, 0, dtb_r0280 },
        { "r0281", "IMB_SNOW3G_F8_8_BUFFER", "exp_key=NULL", IMB_ERR_NULL_EXP_KEY, 0, dtb_r0281 },
        { "r0282", "IMB_SNOW3G_F8_8_BUFFER", "iv1=NULL", IMB_ERR_NULL_IV, 0, dtb_r0282 },
        { "r0283", "IMB_SNOW3G_F8_8_BUFFER", "iv2=NULL", IMB_ERR_NULL_IV, 0, dtb_r0283 },
        { "r0284", "IMB_SNOW3G_F8_8_BUFFER", "iv3=NULL", IMB_ERR_NULL_IV, 0, dtb_r0284 },
        { "r0285", "IMB_SNOW3G_F8_8_BUFFER", "iv4=NULL", IMB_ERR_NULL_IV, 0, dtb_r0285 },
        { "r0286", "IMB_SNOW3G_F8_8_BUFFER", "iv5=NULL", IMB_ERR_NULL_IV, 0, dtb_r0286 },
        { "r0287", "IMB_SNOW3G_F8_8_BUFFER", "iv6=NULL", IMB_ERR_NULL_IV, 0, dtb_r0287 },
        { "r0288", "IMB_SNOW3G_F8_8_BUFFER", "iv7=NULL", IMB_ERR_NULL_IV, 0, dtb_r0288 },
        { "r0289", "IMB_SNOW3G_F8_8_BUFFER", "iv8=NULL", IMB_ERR_NULL_IV, 0, dtb_r0289 },
        { "r0290", "IMB_SNOW3G_F8_8_BUFFER", "src1=NULL", IMB_ERR_NULL_SRC, 0, dtb_r0290 },
        { "r0291", "IMB_SNOW3G_F8_8_BUFFER", "dst1=NULL", IMB_ERR_NULL_DST, 0, dtb_r0291 },
        { "r0292", "IMB_SNOW3G_F8_8_BUFFER", "len1=0", IMB_ERR_CIPH_LEN, 0, dtb_r0292 },
        { "r0293", "IMB_SNOW3G_F8_8_BUFFER", "len1=UINT32_MAX/8+1", IMB_ERR_CIPH_LEN, 0, dtb_r0293 },
        { "r0294", "IMB_SNOW3G_F8_8_BUFFER", "src2=NULL", IMB_ERR_NULL_SRC, 0, dtb_r0294 },
        { "r0295", "IMB_SNOW3G_F8_8_BUFFER", "dst2=NULL", IMB_ERR_NULL_DST, 0, dtb_r0295 },
        { "r0296", "IMB_SNOW3G_F8_8_BUFFER", "len2=0", IMB_ERR_CIPH_LEN, 0, dtb_r0296 },
        { "r0297", "IMB_SNOW3G_F8_8_BUFFER", "len2=UINT32_MAX/8+1", IMB_ERR_CIPH_LEN, 0, dtb_r0297 },
        { "r0298", "IMB_SNOW3G_F8_8_BUFFER", "src3=NULL", IMB_ERR_NULL_SRC, 0, dtb_r0298 },
        { "r0299", "IMB_SNOW3G_F8_8_BUFFER", "dst3=NULL", IMB_ERR_NULL_DST, 0, dtb_r0299 },
        { "r0300", "IMB_SNOW3G_F8_8_BUFFER", "len3=0", IMB_ERR_CIPH_LEN, 0, dtb_r0300 },
        { "r0301", "IMB_SNOW3G_F8_8_BUFFER", "len3=UINT32_MAX/8+1", IMB_ERR_CIPH_LEN, 0, dtb_r0301 },
        { "r0302", "IMB_SNOW3G_F8_8_BUFFER", "src4=NULL", IMB_ERR_NULL_SRC, 0, dtb_r0302 },
        { "r0303", "IMB_SNOW3G_F8_8_BUFFER", "dst4=NULL", IMB_ERR_NULL_DST, 0, dtb_r0303 },
        { "r0304", "IMB_SNOW3G_F8_8_BUFFER", "len4=0", IMB_ERR_CIPH_LEN, 0, dtb_r0304 },
        { "r0305", "IMB_SNOW3G_F8_8_BUFFER", "len4=UINT32_MAX/8+1", IMB_ERR_CIPH_LEN, 0, dtb_r0305 },
        { "r0306", "IMB_SNOW3G_F8_8_BUFFER", "src5=NULL", IMB_ERR_NULL_SRC, 0, dtb_r0306 },
        { "r0307", "IMB_SNOW3G_F8_8_BUFFER", "dst5=NULL", IMB_ERR_NULL_DST, 0, dtb_r0307 },
        { "r0308", "IMB_SNOW3G_F8_8_BUFFER", "len5=0", IMB_ERR_CIPH_LEN, 0, dtb_r0308 },
        { "r0309", "IMB_SNOW3G_F8_8_BUFFER", "len5=UINT32_MAX/8+1", IMB_ERR_CIPH_LEN, 0, dtb_r0309 },
        { "r0310", "IMB_SNOW3G_F8_8_BUFFER", "src6=NULL", IMB_ERR_NULL_SRC, 0, dtb_r0310 },
        { "r0311", "IMB_SNOW3G_F8_8_BUFFER", "dst6=NULL", IMB_ERR_NULL_DST, 0, dtb_r0311 },
        { "r0312", "IMB_SNOW3G_F8_8_BUFFER", "len6=0", IMB_ERR_CIPH_LEN, 0, dtb_r0312 },
        { "r0313", "IMB_SNOW3G_F8_8_BUFFER", "len6=UINT32_MAX/8+1", IMB_ERR_CIPH_LEN, 0, dtb_r0313 },
        { "r0314", "IMB_SNOW3G_F8_8_BUFFER", "src7=NULL", IMB_ERR_NULL_SRC, 0, dtb_r0314 },
        { "r0315", "IMB_SNOW3G_F8_8_BUFFER", "dst7=NULL", IMB_ERR_NULL_DST, 0, dtb_r0315 },
        { "r0316", "IMB_SNOW3G_F8_8_BUFFER", "len7=0", IMB_ERR_CIPH_LEN, 0, dtb_r0316 },
        { "r0317", "IMB_SNOW3G_F8_8_BUFFER", "len7=UINT32_MAX/8+1", IMB_ERR_CIPH_LEN, 0, dtb_r0317 },
        { "r0318", "IMB_SNOW3G_F8_8_BUFFER", "src8=NULL", IMB_ERR_NULL_SRC, 0, dtb_r0318 },
        { "r0319", "IMB_SNOW3G_F8_8_BUFFER", "dst8=NULL", IMB_ERR_NULL_DST, 0, dtb_r0319 },
        { "r0320", "IMB_SNOW3G_F8_8_BUFFER", "len8=0", IMB_ERR_CIPH_LEN, 0, dtb_r0320 },
        { "r0321", "IMB_SNOW3G_F8_8_BUFFER", "len8=UINT32_MAX/8+1", IMB_ERR_CIPH_LEN, 0, dtb_r0321 },
        { "r0322", "IMB_SNOW3G_F8_8_BUFFER_MULTIKEY", "exp_key[*]=NULL", IMB_ERR_NULL_EXP_KEY, 0, dtb_r0322 },
        { "r0323", "IMB_SNOW3G_F8_8_BUFFER_MULTIKEY", "exp_key=NULL", IMB_ERR_NULL_EXP_KEY, 0, dtb_r0323 },
        { "r0324", "IMB_SNOW3G_F8_8_BUFFER_MULTIKEY", "exp_key[3]=NULL", IMB_ERR_NULL_EXP_KEY, 0, dtb_r0324 },
        { "r0325", "IMB_SNOW3G_F8_8_BUFFER_MULTIKEY", "iv[*]=NULL", IMB_ERR_NULL_IV, 0, dtb_r0325 },
        { "r0326", "IMB_SNOW3G_F8_8_BUFFER_MULTIKEY", "iv=NULL", IMB_ERR_NULL_IV, 0, dtb_r0326 },
        { "r0327", "IMB_SNOW3G_F8_8_BUFFER_MULTIKEY", "iv[3]=NULL", IMB_ERR_NULL_IV, 0, dtb_r0327 },
        { "r0328", "IMB_SNOW3G_F8_8_BUFFER_MULTIKEY", "src[*]=NULL", IMB_ERR_NULL_SRC, 0, dtb_r0328 },
        { "r0329", "IMB_SNOW3G_F8_8_BUFFER_MULTIKEY", "src=NULL", IMB_ERR_NULL_SRC, 0, dtb_r0329 },
        { "r0330", "IMB_SNOW3G_F8_8_BUFFER_MULTIKEY", "src[3]=NULL", IMB_ERR_NULL_SRC, 0, dtb_r0330 },
        { "r0331", "IMB_SNOW3G_F8_8_BUFFER_MULTIKEY", "dst[*]=NULL", IMB_ERR_NULL_DST, 0, dtb_r0331 },
        { "r0332", "IMB_SNOW3G_F8_8_BUFFER_MULTIKEY", "dst=NULL", IMB_ERR_NULL_DST, 0, dtb_r0332 },
        { "r0333", "IMB_SNOW3G_F8_8_BUFFER_MULTIKEY", "dst[3]=NULL", IMB_ERR_NULL_DST, 0, dtb_r0333 },
        { "r0334", "IMB_SNOW3G_F8_8_BUFFER_MULTIKEY", "len=NULL", IMB_ERR_CIPH_LEN, 0, dtb_r0334 },
        { "r0335", "IMB_SNOW3G_F8_8_BUFFER_MULTIKEY", "len[*]=0", IMB_ERR_CIPH_LEN, 0, dtb_r0335 },
        { "r0336", "IMB_SNOW3G_F8_8_BUFFER_MULTIKEY", "len[3]=0", IMB_ERR_CIPH_LEN, 0, dtb_r0336 },
        { "r0337", "IMB_SNOW3G_F8_8_BUFFER_MULTIKEY", "len[3]=UINT32_MAX/8+1", IMB_ERR_CIPH_LEN, 0, dtb_r0337 },
        { "r0338", "IMB_SNOW3G_F8_N_BUFFER", "exp_key=NULL", IMB_ERR_NULL_EXP_KEY, 0, dtb_r0338 },
        { "r0339", "IMB_SNOW3G_F8_N_BUFFER", "iv[*]=NULL", IMB_ERR_NULL_IV, 0, dtb_r0339 },
        { "r0340", "IMB_SNOW3G_F8_N_BUFFER", "iv=NULL", IMB_ERR_NULL_IV, 0, dtb_r0340 },
        { "r0341", "IMB_SNOW3G_F8_N_BUFFER", "iv[3]=NULL", IMB_ERR_NULL_IV, 0, dtb_r0341 },
        { "r0342", "IMB_SNOW3G_F8_N_BUFFER", "src[*]=NULL", IMB_ERR_NULL_SRC, 0, dtb_r0342 },
        { "r0343", "IMB_SNOW3G_F8_N_BUFFER", "src=NULL", IMB_ERR_NULL_SRC, 0, dtb_r0343 },
        { "r0344", "IMB_SNOW3G_F8_N_BUFFER", "src[3]=NULL", IMB_ERR_NULL_SRC, 0, dtb_r0344 },
        { "r0345", "IMB_SNOW3G_F8_N_BUFFER", "dst[*]=NULL", IMB_ERR_NULL_DST, 0, dtb_r0345 },
        { "r0346", "IMB_SNOW3G_F8_N_BUFFER", "dst=NULL", IMB_ERR_NULL_DST, 0, dtb_r0346 },
        { "r0347", "IMB_SNOW3G_F8_N_BUFFER", "dst[3]=NULL", IMB_ERR_NULL_DST, 0, dtb_r0347 },
        { "r0348", "IMB_SNOW3G_F8_N_BUFFER", "len=NULL", IMB_ERR_CIPH_LEN, 0, dtb_r0348 },
        { "r0349", "IMB_SNOW3G_F8_N_BUFFER", "len[*]=0", IMB_ERR_CIPH_LEN, 0, dtb_r0349 },
        { "r0350", "IMB_SNOW3G_F8_N_BUFFER", "len[3]=0", IMB_ERR_CIPH_LEN, 0, dtb_r0350 },
        { "r0351", "IMB_SNOW3G_F8_N_BUFFER", "len[3]=UINT32_MAX/8+1", IMB_ERR_CIPH_LEN, 0, dtb_r0351 },
        { "r0352", "IMB_SNOW3G_F8_N_BUFFER_MULTIKEY", "exp_key[*]=NULL", IMB_ERR_NULL_EXP_KEY, 0, dtb_r0352 },
        { "r0353", "IMB_SNOW3G_F8_N_BUFFER_MULTIKEY", "exp_key=NULL", IMB_ERR_NULL_EXP_KEY, 0, dtb_r0353 },
        { "r0354", "IMB_SNOW3G_F8_N_BUFFER_MULTIKEY", "exp_key[3]=NULL", IMB_ERR_NULL_EXP_KEY, 0, dtb_r0354 },
        { "r0355", "IMB_SNOW3G_F8_N_BUFFER_MULTIKEY", "iv[*]=NULL", IMB_ERR_NULL_IV, 0, dtb_r0355 },
        { "r0356", "IMB_SNOW3G_F8_N_BUFFER_MULTIKEY", "iv=NULL", IMB_ERR_NULL_IV, 0, dtb_r0356 },
        { "r0357", "IMB_SNOW3G_F8_N_BUFFER_MULTIKEY", "iv[3]=NULL", IMB_ERR_NULL_IV, 0, dtb_r0357 },
        { "r0358", "IMB_SNOW3G_F8_N_BUFFER_MULTIKEY", "src[*]=NULL", IMB_ERR_NULL_SRC, 0, dtb_r0358 },
        { "r0359", "IMB_SNOW3G_F8_N_BUFFER_MULTIKEY", "src=NULL", IMB_ERR_NULL_SRC, 0, dtb_r0359 },
        { "r0360", "IMB_SNOW3G_F8_N_BUFFER_MULTIKEY", "src[3]=NULL", IMB_ERR_NULL_SRC, 0, dtb_r0360 },
        { "r0361", "IMB_SNOW3G_F8_N_BUFFER_MULTIKEY", "dst[*]=NULL", IMB_ERR_NULL_DST, 0, dtb_r0361 },
        { "r0362", "IMB_SNOW3G_F8_N_BUFFER_MULTIKEY", "dst=NULL", IMB_ERR_NULL_DST, 0, dtb_r0362 },
        { "r0363", "IMB_SNOW3G_F8_N_BUFFER_MULTIKEY", "dst[3]=NULL", IMB_ERR_NULL_DST, 0, dtb_r0363 },
        { "r0364", "IMB_SNOW3G_F8_N_BUFFER_MULTIKEY", "len=NULL", IMB_ERR_CIPH_LEN, 0, dtb_r0364 },
        { "r0365", "IMB_SNOW3G_F8_N_BUFFER_MULTIKEY", "len[*]=0", IMB_ERR_CIPH_LEN, 0, dtb_r0365 },
        { "r0366", "IMB_SNOW3G_F8_N_BUFFER_MULTIKEY", "len[3]=0", IMB_ERR_CIPH_LEN, 0, dtb_r0366 },
        { "r0367", "IMB_SNOW3G_F8_N_BUFFER_MULTIKEY", "len[3]=UINT32_MAX/8+1", IMB_ERR_CIPH_LEN, 0, dtb_r0367 },
        { "r0368", "IMB_SNOW3G_F9_1_BUFFER", "exp_key=NULL", IMB_ERR_NULL_EXP_KEY, 0, dtb_r0368 },
        { "r0369", "IMB_SNOW3G_F9_1_BUFFER", "iv=NULL", IMB_ERR_NULL_IV, 0, dtb_r0369 },
        { "r0370", "IMB_SNOW3G_F9_1_BUFFER", "src=NULL", IMB_ERR_NULL_SRC, 0, dtb_r0370 },
        { "r0371", "IMB_SNOW3G_F9_1_BUFFER", "len_bits=0", IMB_ERR_AUTH_LEN, 0, dtb_r0371 },
        { "r0372", "IMB_SNOW3G_F9_1_BUFFER", "len_bits=UINT32_MAX+1", IMB_ERR_AUTH_LEN, 0, dtb_r0372 },
        { "r0373", "IMB_SNOW3G_F9_1_BUFFER", "tag=NULL", IMB_ERR_NULL_AUTH, 0, dtb_r0373 },
        { "r0374", "IMB_SNOW3G_INIT_KEY_SCHED", "key=NULL", IMB_ERR_NULL_KEY, 0, dtb_r0374 },
        { "r0375", "IMB_SNOW3G_INIT_KEY_SCHED", "exp_key=NULL", IMB_ERR_NULL_EXP_KEY, 0, dtb_r0375 },
        { "r0376", "IMB_KASUMI_F8_1_BUFFER", "exp_key=NULL", IMB_ERR_NULL_EXP_KEY, 0, dtb_r0376 },
        { "r0377", "IMB_KASUMI_F8_1_BUFFER", "src=NULL", IMB_ERR_NULL_SRC, 0, dtb_r0377 },
        { "r0378", "IMB_KASUMI_F8_1_BUFFER", "dst=NULL", IMB_ERR_NULL_DST, 0, dtb_r0378 },
        { "r0379", "IMB_KASUMI_F8_1_BUFFER", "len=0", IMB_ERR_CIPH_LEN, 0, dtb_r0379 },
        { "r0380", "IMB_KASUMI_F8_1_BUFFER", "len=KASUMI_MAX_LEN/8+1", IMB_ERR_CIPH_LEN, 0, dtb_r0380 },
        { "r0381", "IMB_KASUMI_F8_1_BUFFER_BIT", "exp_key=NULL", IMB_ERR_NULL_EXP_KEY, 0, dtb_r0381 },
        { "r0382", "IMB_KASUMI_F8_1_BUFFER_BIT", "src=NULL", IMB_ERR_NULL_SRC, 0, dtb_r0382 },
        { "r0383", "IMB_KASUMI_F8_1_BUFFER_BIT", "dst=NULL", IMB_ERR_NULL_DST, 0, dtb_r0383 },
        { "r0384", "IMB_KASUMI_F8_1_BUFFER_BIT", "len_bits=0", IMB_ERR_CIPH_LEN, 0, dtb_r0384 },
        { "r0385", "IMB_KASUMI_F8_1_BUFFER_BIT", "len_bits=KASUMI_MAX_LEN+1", IMB_ERR_CIPH_LEN, 0, dtb_r0385 },
        { "r0386", "IMB_KASUMI_F8_2_BUFFER", "exp_key=NULL", IMB_ERR_NULL_EXP_KEY, 0, dtb_r0386 },
        { "r0387", "IMB_KASUMI_F8_2_BUFFER", "src1=NULL", IMB_ERR_NULL_SRC, 0, dtb_r0387 },
        { "r0388", "IMB_KASUMI_F8_2_BUFFER", "dst1=NULL", IMB_ERR_NULL_DST, 0, dtb_r0388 },
        { "r0389", "IMB_KASUMI_F8_2_BUFFER", "len1=0", IMB_ERR_CIPH_LEN, 0, dtb_r0389 },
        { "r0390", "IMB_KASUMI_F8_2_BUFFER", "len1=KASUMI_MAX_LEN/8+1", IMB_ERR_CIPH_LEN, 0, dtb_r0390 },
        { "r0391", "IMB_KASUMI_F8_2_BUFFER", "src2=NULL", IMB_ERR_NULL_SRC, 0, dtb_r0391 },
        { "r0392", "IMB_KASUMI_F8_2_BUFFER", "dst2=NULL", IMB_ERR_NULL_DST, 0, dtb_r0392 },
        { "r0393", "IMB_KASUMI_F8_2_BUFFER", "len2=0", IMB_ERR_CIPH_LEN, 0, dtb_r0393 },
        { "r0394", "IMB_KASUMI_F8_2_BUFFER", "len2=KASUMI_MAX_LEN/8+1", IMB_ERR_CIPH_LEN, 0, dtb_r0394 },
        { "r0395", "IMB_KASUMI_F8_3_BUFFER", "exp_key=NULL", IMB_ERR_NULL_EXP_KEY, 0, dtb_r0395 },
        { "r0396", "IMB_KASUMI_F8_3_BUFFER", "src1=NULL", IMB_ERR_NULL_SRC, 0, dtb_r0396 },
        { "r0397", "IMB_KASUMI_F8_3_BUFFER", "dst1=NULL", IMB_ERR_NULL_DST, 0, dtb_r0397 },
        { "r0398", "IMB_KASUMI_F8_3_BUFFER", "src2=NULL", IMB_ERR_NULL_SRC, 0, dtb_r0398 },
        { "r0399", "IMB_KASUMI_F8_3_BUFFER", "dst2=NULL", IMB_ERR_NULL_DST, 0, dtb_r0399 },
        { "r0400", "IMB_KASUMI_F8_3_BUFFER", "src3=NULL", IMB_ERR_NULL_SRC, 0, dtb_r0400 },
        { "r0401", "IMB_KASUMI_F8_3_BUFFER", "dst3=NULL", IMB_ERR_NULL_DST, 0, dtb_r0401 },
        { "r0402", "IMB_KASUMI_F8_3_BUFFER", "len=0", IMB_ERR_CIPH_LEN, 0, dtb_r0402 },
        { "r0403", "IMB_KASUMI_F8_3_BUFFER", "len=KASUMI_MAX_LEN/8+1", IMB_ERR_CIPH_LEN, 0, dtb_r0403 },
        { "r0404", "IMB_KASUMI_F8_4_BUFFER", "exp_key=NULL", IMB_ERR_NULL_EXP_KEY, 0, dtb_r0404 },
        { "r0405", "IMB_KASUMI_F8_4_BUFFER", "src1=NULL", IMB_ERR_NULL_SRC, 0, dtb_r0405 },
        { "r0406", "IMB_KASUMI_F8_4_BUFFER", "dst1=NULL", IMB_ERR_NULL_DST, 0, dtb_r0406 },
        { "r0407", "IMB_KASUMI_F8_4_BUFFER", "src2=NULL", IMB_ERR_NULL_SRC, 0, dtb_r0407 },
        { "r0408", "IMB_KASUMI_F8_4_BUFFER", "dst2=NULL", IMB_ERR_NULL_DST, 0, dtb_r0408 },
        { "r0409", "IMB_KASUMI_F8_4_BUFFER", "src3=NULL", IMB_ERR_NULL_SRC, 0, dtb_r0409 },
        { "r0410", "IMB_KASUMI_F8_4_BUFFER", "dst3=NULL", IMB_ERR_NULL_DST, 0, dtb_r0410 },
        { "r0411", "IMB_KASUMI_F8_4_BUFFER", "src4=NULL", IMB_ERR_NULL_SRC, 0, dtb_r0411 },
        { "r0412", "IMB_KASUMI_F8_4_BUFFER", "dst4=NULL", IMB_ERR_NULL_DST, 0, dtb_r0412 },
        { "r0413", "IMB_KASUMI_F8_4_BUFFER", "len=0", IMB_ERR_CIPH_LEN, 0, dtb_r0413 },
        { "r0414", "IMB_KASUMI_F8_4_BUFFER", "len=KASUMI_MAX_LEN/8+1", IMB_ERR_CIPH_LEN, 0, dtb_r0414 },
        { "r0415", "IMB_KASUMI_F8_N_BUFFER", "exp_key=NULL", IMB_ERR_NULL_EXP_KEY, 0, dtb_r0415 },
        { "r0416", "IMB_KASUMI_F8_N_BUFFER", "iv=NULL", IMB_ERR_NULL_IV, 0, dtb_r0416 },
        { "r0417", "IMB_KASUMI_F8_N_BUFFER", "src[*]=NULL", IMB_ERR_NULL_SRC, 0, dtb_r0417 },
        { "r0418", "IMB_KASUMI_F8_N_BUFFER", "src=NULL", IMB_ERR_NULL_SRC, 0, dtb_r0418 },
        { "r0419", "IMB_KASUMI_F8_N_BUFFER", "src[3]=NULL", IMB_ERR_NULL_SRC, 0, dtb_r0419 },
        { "r0420", "IMB_KASUMI_F8_N_BUFFER", "dst[*]=NULL", IMB_ERR_NULL_DST, 0, dtb_r0420 },
        { "r0421", "IMB_KASUMI_F8_N_BUFFER", "dst=NULL", IMB_ERR_NULL_DST, 0, dtb_r0421 },
        { "r0422", "IMB_KASUMI_F8_N_BUFFER", "dst[3]=NULL", IMB_ERR_NULL_DST, 0, dtb_r0422 },
        { "r0423", "IMB_KASUMI_F8_N_BUFFER", "len[*]=0", IMB_ERR_CIPH_LEN, 0, dtb_r0423 },
        { "r0424", "IMB_KASUMI_F8_N_BUFFER", "len=NULL", IMB_ERR_CIPH_LEN, 0, dtb_r0424 },
        { "r0425", "IMB_KASUMI_F8_N_BUFFER", "len[3]=0", IMB_ERR_CIPH_LEN, 0, dtb_r0425 },
        { "r0426", "IMB_KASUMI_F8_N_BUFFER", "len[3]=KASUMI_MAX_LEN/8+1", IMB_ERR_CIPH_LEN, 0, dtb_r0426 },
        { "r0427", "IMB_KASUMI_F9_1_BUFFER", "exp_key=NULL", IMB_ERR_NULL_EXP_KEY, 0, dtb_r0427 },
        { "r0428", "IMB_KASUMI_F9_1_BUFFER", "src=NULL", IMB_ERR_NULL_SRC, 0, dtb_r0428 },
        { "r0429", "IMB_KASUMI_F9_1_BUFFER", "len=0", IMB_ERR_AUTH_LEN, 0, dtb_r0429 },
        { "r0430", "IMB_KASUMI_F9_1_BUFFER", "len=KASUMI_MAX_LEN/8+1", IMB_ERR_AUTH_LEN, 0, dtb_r0430 },
        { "r0431", "IMB_KASUMI_F9_1_BUFFER", "tag=NULL", IMB_ERR_NULL_AUTH, 0, dtb_r0431 },
        { "r0432", "IMB_KASUMI_F9_1_BUFFER_USER", "exp_key=NULL", IMB_ERR_NULL_EXP_KEY, 0, dtb_r0432 },
        { "r0433", "IMB_KASUMI_F9_1_BUFFER_USER", "src=NULL", IMB_ERR_NULL_SRC, 0, dtb_r0433 },
        { "r0434", "IMB_KASUMI_F9_1_BUFFER_USER", "len_bits=0", IMB_ERR_AUTH_LEN, 0, dtb_r0434 },
        { "r0435", "IMB_KASUMI_F9_1_BUFFER_USER", "len_bits=KASUMI_MAX_LEN+1", IMB_ERR_AUTH_LEN, 0, dtb_r0435 },
        { "r0436", "IMB_KASUMI_F9_1_BUFFER_USER", "tag=NULL", IMB_ERR_NULL_AUTH, 0, dtb_r0436 },
        { "r0437", "IMB_KASUMI_INIT_F8_KEY_SCHED", "key=NULL", IMB_ERR_NULL_KEY, 0, dtb_r0437 },
        { "r0438", "IMB_KASUMI_INIT_F8_KEY_SCHED", "exp_key=NULL", IMB_ERR_NULL_EXP_KEY, 0, dtb_r0438 },
        { "r0439", "IMB_KASUMI_INIT_F9_KEY_SCHED", "key=NULL", IMB_ERR_NULL_KEY, 0, dtb_r0439 },
        { "r0440", "IMB_KASUMI_INIT_F9_KEY_SCHED", "exp_key=NULL", IMB_ERR_NULL_EXP_KEY, 0, dtb_r0440 },
        { "r0441", "IMB_ZUC_EEA3_1_BUFFER", "key=NULL", IMB_ERR_NULL_KEY, 0, dtb_r0441 },
        { "r0442", "IMB_ZUC_EEA3_1_BUFFER", "iv=NULL", IMB_ERR_NULL_IV, 0, dtb_r0442 },
        { "r0443", "IMB_ZUC_EEA3_1_BUFFER", "src=NULL", IMB_ERR_NULL_SRC, 0, dtb_r0443 },
        { "r0444", "IMB_ZUC_EEA3_1_BUFFER", "dst=NULL", IMB_ERR_NULL_DST, 0, dtb_r0444 },
        { "r0445", "IMB_ZUC_EEA3_1_BUFFER", "len=0", IMB_ERR_CIPH_LEN, 0, dtb_r0445 },
        { "r0446", "IMB_ZUC_EEA3_1_BUFFER", "len=ZUC_MAX_BYTELEN+1", IMB_ERR_CIPH_LEN, 0, dtb_r0446 },
        { "r0447", "IMB_ZUC_EEA3_4_BUFFER", "key[*]=NULL", IMB_ERR_NULL_KEY, 0, dtb_r0447 },
        { "r0448", "IMB_ZUC_EEA3_4_BUFFER", "key=NULL", IMB_ERR_NULL_KEY, 0, dtb_r0448 },
        { "r0449", "IMB_ZUC_EEA3_4_BUFFER", "key[3]=NULL", IMB_ERR_NULL_KEY, 0, dtb_r0449 },
        { "r0450", "IMB_ZUC_EEA3_4_BUFFER", "iv[*]=NULL", IMB_ERR_NULL_IV, 0, dtb_r0450 },
        { "r0451", "IMB_ZUC_EEA3_4_BUFFER", "iv=NULL", IMB_ERR_NULL_IV, 0, dtb_r0451 },
        { "r0452", "IMB_ZUC_EEA3_4_BUFFER", "iv[3]=NULL", IMB_ERR_NULL_IV, 0, dtb_r0452 },
        { "r0453", "IMB_ZUC_EEA3_4_BUFFER", "src[*]=NULL", IMB_ERR_NULL_SRC, 0, dtb_r0453 },
        { "r0454", "IMB_ZUC_EEA3_4_BUFFER", "src=NULL", IMB_ERR_NULL_SRC, 0, dtb_r0454 },
        { "r0455", "IMB_ZUC_EEA3_4_BUFFER", "src[3]=NULL", IMB_ERR_NULL_SRC, 0, dtb_r0455 },
        { "r0456", "IMB_ZUC_EEA3_4_BUFFER", "dst[*]=NULL", IMB_ERR_NULL_DST, 0, dtb_r0456 },
        { "r0457", "IMB_ZUC_EEA3_4_BUFFER", "dst=NULL", IMB_ERR_NULL_DST, 0, dtb_r0457 },
        { "r0458", "IMB_ZUC_EEA3_4_BUFFER", "dst[3]=NULL", IMB_ERR_NULL_DST, 0, dtb_r0458 },
        { "r0459", "IMB_ZUC_EEA3_4_BUFFER", "len[*]=0", IMB_ERR_CIPH_LEN, 0, dtb_r0459 },
        { "r0460", "IMB_ZUC_EEA3_4_BUFFER", "len=NULL", IMB_ERR_CIPH_LEN, 0, dtb_r0460 },
        { "r0461", "IMB_ZUC_EEA3_4_BUFFER", "len[3]=0", IMB_ERR_CIPH_LEN, 0, dtb_r0461 },
        { "r0462", "IMB_ZUC_EEA3_4_BUFFER", "len[3]=ZUC_MAX_BYTELEN+1", IMB_ERR_CIPH_LEN, 0, dtb_r0462 },
        { "r0463", "IMB_ZUC_EEA3_N_BUFFER", "key[*]=NULL", IMB_ERR_NULL_KEY, 0, dtb_r0463 },
        { "r0464", "IMB_ZUC_EEA3_N_BUFFER", "key=NULL", IMB_ERR_NULL_KEY, 0, dtb_r0464 },
        { "r0465", "IMB_ZUC_EEA3_N_BUFFER", "key[3]=NULL", IMB_ERR_NULL_KEY, 0, dtb_r0465 },
        { "r0466", "IMB_ZUC_EEA3_N_BUFFER", "iv[*]=NULL", IMB_ERR_NULL_IV, 0, dtb_r0466 },
        { "r0467", "IMB_ZUC_EEA3_N_BUFFER", "iv=NULL", IMB_ERR_NULL_IV, 0, dtb_r0467 },
        { "r0468", "IMB_ZUC_EEA3_N_BUFFER", "iv[3]=NULL", IMB_ERR_NULL_IV, 0, dtb_r0468 },
        { "r0469", "IMB_ZUC_EEA3_N_BUFFER", "src[*]=NULL", IMB_ERR_NULL_SRC, 0, dtb_r0469 },
        { "r0470", "IMB_ZUC_EEA3_N_BUFFER", "src=NULL", IMB_ERR_NULL_SRC, 0, dtb_r0470 },
        { "r0471", "IMB_ZUC_EEA3_N_BUFFER", "src[3]=NULL", IMB_ERR_NULL_SRC, 0, dtb_r0471 },
        { "r0472", "IMB_ZUC_EEA3_N_BUFFER", "dst[*]=NULL", IMB_ERR_NULL_DST, 0, dtb_r0472 },
        { "r0473", "IMB_ZUC_EEA3_N_BUFFER", "dst=NULL", IMB_ERR_NULL_DST, 0, dtb_r0473 },
        { "r0474", "IMB_ZUC_EEA3_N_BUFFER", "dst[3]=NULL", IMB_ERR_NULL_DST, 0, dtb_r0474 },
        { "r0475", "IMB_ZUC_EEA3_N_BUFFER", "len[*]=0", IMB_ERR_CIPH_LEN, 0, dtb_r0475 },
        { "r0476", "IMB_ZUC_EEA3_N_BUFFER", "len=NULL", IMB_ERR_CIPH_LEN, 0, dtb_r0476 },
        { "r0477", "IMB_ZUC_EEA3_N_BUFFER", "len[3]=0", IMB_ERR_CIPH_LEN, 0, dtb_r0477 },
        { "r0478", "IMB_ZUC_EEA3_N_BUFFER", "len[3]=ZUC_MAX_BYTELEN+1", IMB_ERR_CIPH_LEN, 0, dtb_r0478 },
        { "r0479", "IMB_ZUC_EIA3_1_BUFFER", "key=NULL", IMB_ERR_NULL_KEY, 0, dtb_r0479 },
        { "r0480", "IMB_ZUC_EIA3_1_BUFFER", "iv=NULL", IMB_ERR_NULL_IV, 0, dtb_r0480 },
        { "r0481", "IMB_ZUC_EIA3_1_BUFFER", "src=NULL", IMB_ERR_NULL_SRC, 0, dtb_r0481 },
        { "r0482", "IMB_ZUC_EIA3_1_BUFFER", "len_bits=0", IMB_ERR_AUTH_LEN, 0, dtb_r0482 },
        { "r0483", "IMB_ZUC_EIA3_1_BUFFER", "len_bits=ZUC_MAX_BITLEN+1", IMB_ERR_AUTH_LEN, 0, dtb_r0483 },
        { "r0484", "IMB_ZUC_EIA3_1_BUFFER", "tag=NULL", IMB_ERR_NULL_AUTH, 0, dtb_r0484 },
        { "r0485", "IMB_ZUC_EIA3_N_BUFFER", "key[*]=NULL", IMB_ERR_NULL_KEY, 0, dtb_r0485 },
        { "r0486", "IMB_ZUC_EIA3_N_BUFFER", "key=NULL", IMB_ERR_NULL_KEY, 0, dtb_r0486 },
        { "r0487", "IMB_ZUC_EIA3_N_BUFFER", "key[3]=NULL", IMB_ERR_NULL_KEY, 0, dtb_r0487 },
        { "r0488", "IMB_ZUC_EIA3_N_BUFFER", "iv[*]=NULL", IMB_ERR_NULL_IV, 0, dtb_r0488 },
        { "r0489", "IMB_ZUC_EIA3_N_BUFFER", "iv=NULL", IMB_ERR_NULL_IV, 0, dtb_r0489 },
        { "r0490", "IMB_ZUC_EIA3_N_BUFFER", "iv[3]=NULL", IMB_ERR_NULL_IV, 0, dtb_r0490 },
        { "r0491", "IMB_ZUC_EIA3_N_BUFFER", "src[*]=NULL", IMB_ERR_NULL_SRC, 0, dtb_r0491 },
        { "r0492", "IMB_ZUC_EIA3_N_BUFFER", "src=NULL", IMB_ERR_NULL_SRC, 0, dtb_r0492 },
        { "r0493", "IMB_ZUC_EIA3_N_BUFFER", "src[3]=NULL", IMB_ERR_NULL_SRC, 0, dtb_r0493 },
        { "r0494", "IMB_ZUC_EIA3_N_BUFFER", "len_bits[*]=0", IMB_ERR_AUTH_LEN, 0, dtb_r0494 },
        { "r0495", "IMB_ZUC_EIA3_N_BUFFER", "len_bits=NULL", IMB_ERR_AUTH_LEN, 0, dtb_r0495 },
        { "r0496", "IMB_ZUC_EIA3_N_BUFFER", "len_bits[3]=0", IMB_ERR_AUTH_LEN, 0, dtb_r0496 },
        { "r0497", "IMB_ZUC_EIA3_N_BUFFER", "len_bits[3]=ZUC_MAX_BITLEN+1", IMB_ERR_AUTH_LEN, 0, dtb_r0497 },
        { "r0498", "IMB_ZUC_EIA3_N_BUFFER", "tag[*]=NULL", IMB_ERR_NULL_AUTH, 0, dtb_r0498 },
        { "r0499", "IMB_ZUC_EIA3_N_BUFFER", "tag=NULL", IMB_ERR_NULL_AUTH, 0, dtb_r0499 },
        { "r0500", "IMB_ZUC_EIA3_N_BUFFER", "tag[3]=NULL", IMB_ERR_NULL_AUTH, 0, dtb_r0500 },
        { "r0501", "IMB_CRC32_ETHERNET_FCS", "src=NULL,len=64", IMB_ERR_NULL_SRC, 0, dtb_r0501 },
        { "r0502", "IMB_CRC32_ETHERNET_FCS", "src=NULL,len=1", IMB_ERR_NULL_SRC, 0, dtb_r0502 },
        { "r0503", "IMB_CRC16_X25", "src=NULL,len=64", IMB_ERR_NULL_SRC, 0, dtb_r0503 },
        { "r0504", "IMB_CRC16_X25", "src=NULL,len=1", IMB_ERR_NULL_SRC, 0, dtb_r0504 },
        { "r0505", "IMB_CRC32_SCTP", "src=NULL,len=64", IMB_ERR_NULL_SRC, 0, dtb_r0505 },
        { "r0506", "IMB_CRC32_SCTP", "src=NULL,len=1", IMB_ERR_NULL_SRC, 0, dtb_r0506 },
        { "r0507", "IMB_CRC24_LTE_A", "src=NULL,len=64", IMB_ERR_NULL_SRC, 0, dtb_r0507 },
        { "r0508", "IMB_CRC24_LTE_A", "src=NULL,len=1", IMB_ERR_NULL_SRC, 0, dtb_r0508 },
        { "r0509", "IMB_CRC24_LTE_B", "src=NULL,len=64", IMB_ERR_NULL_SRC, 0, dtb_r0509 },
        { "r0510", "IMB_CRC24_LTE_B", "src=NULL,len=1", IMB_ERR_NULL_SRC, 0, dtb_r0510 },
        { "r0511", "IMB_CRC16_FP_DATA", "src=NULL,len=64", IMB_ERR_NULL_SRC, 0, dtb_r0511 },
        { "r0512", "IMB_CRC16_FP_DATA", "src=NULL,len=1", IMB_ERR_NULL_SRC, 0, dtb_r0512 },
        { "r0513", "IMB_CRC11_FP_HEADER", "src=NULL,len=64", IMB_ERR_NULL_SRC, 0, dtb_r0513 },
        { "r0514", "IMB_CRC11_FP_HEADER", "src=NULL,len=1", IMB_ERR_NULL_SRC, 0, dtb_r0514 },
        { "r0515", "IMB_CRC7_FP_HEADER", "src=NULL,len=64", IMB_ERR_NULL_SRC, 0, dtb_r0515 },
        { "r0516", "IMB_CRC7_FP_HEADER", "src=NULL,len=1", IMB_ERR_NULL_SRC, 0, dtb_r0516 },
        { "r0517", "IMB_CRC10_IUUP_DATA", "src=NULL,len=64", IMB_ERR_NULL_SRC, 0, dtb_r0517 },
        { "r0518", "IMB_CRC10_IUUP_DATA", "src=NULL,len=1", IMB_ERR_NULL_SRC, 0, dtb_r0518 },
        { "r0519", "IMB_CRC6_IUUP_HEADER", "src=NULL,len=64", IMB_ERR_NULL_SRC, 0, dtb_r0519 },
        { "r0520", "IMB_CRC6_IUUP_HEADER", "src=NULL,len=1", IMB_ERR_NULL_SRC, 0, dtb_r0520 },
        { "r0521", "IMB_CRC32_WIMAX_OFDMA_DATA", "src=NULL,len=64", IMB_ERR_NULL_SRC, 0, dtb_r0521 },
        { "r0522", "IMB_CRC32_WIMAX_OFDMA_DATA", "src=NULL,len=1", IMB_ERR_NULL_SRC, 0, dtb_r0522 },
        { "r0523", "IMB_CRC8_WIMAX_OFDMA_HCS", "src=NULL,len=64", IMB_ERR_NULL_SRC, 0, dtb_r0523 },
        { "r0524", "IMB_CRC8_WIMAX_OFDMA_HCS", "src=NULL,len=1", IMB_ERR_NULL_SRC, 0, dtb_r0524 },
        { "r0525", "IMB_HEC_32", "src=NULL", IMB_ERR_NULL_SRC, 0, dtb_r0525 },
        { "r0526", "IMB_HEC_64", "src=NULL", IMB_ERR_NULL_SRC, 0, dtb_r0526 },
        { "r0527", "IMB_SHA1_ONE_BLOCK", "src=NULL", IMB_ERR_NULL_SRC, 0, dtb_r0527 },
        { "r0528", "IMB_SHA1_ONE_BLOCK", "tag=NULL", IMB_ERR_NULL_AUTH, 0, dtb_r0528 },
        { "r0529", "IMB_SHA224_ONE_BLOCK", "src=NULL", IMB_ERR_NULL_SRC, 0, dtb_r0529 },
        { "r0530", "IMB_SHA224_ONE_BLOCK", "tag=NULL", IMB_ERR_NULL_AUTH, 0, dtb_r0530 },
        { "r0531", "IMB_SHA256_ONE_BLOCK", "src=NULL", IMB_ERR_NULL_SRC, 0, dtb_r0531 },
        { "r0532", "IMB_SHA256_ONE_BLOCK", "tag=NULL", IMB_ERR_NULL_AUTH, 0, dtb_r0532 },
        { "r0533", "IMB_SHA384_ONE_BLOCK", "src=NULL", IMB_ERR_NULL_SRC, 0, dtb_r0533 },
        { "r0534", "IMB_SHA384_ONE_BLOCK", "tag=NULL", IMB_ERR_NULL_AUTH, 0, dtb_r0534 },
        { "r0535", "IMB_SHA512_ONE_BLOCK", "src=NULL", IMB_ERR_NULL_SRC, 0, dtb_r0535 },
        { "r0536", "IMB_SHA512_ONE_BLOCK", "tag=NULL", IMB_ERR_NULL_AUTH, 0, dtb_r0536 },
        { "r0537", "IMB_MD5_ONE_BLOCK", "src=NULL", IMB_ERR_NULL_SRC, 0, dtb_r0537 },
        { "r0538", "IMB_MD5_ONE_BLOCK", "tag=NULL", IMB_ERR_NULL_AUTH, 0, dtb_r0538 },
        { "r0539", "IMB_SHA1", "src=NULL,len=64", IMB_ERR_NULL_SRC, 0, dtb_r0539 },
        { "r0540", "IMB_SHA1", "tag=NULL", IMB_ERR_NULL_AUTH, 0, dtb_r0540 },
        { "r0541", "IMB_SHA224", "src=NULL,len=64", IMB_ERR_NULL_SRC, 0, dtb_r0541 },
        { "r0542", "IMB_SHA224", "tag=NULL", IMB_ERR_NULL_AUTH, 0, dtb_r0542 },
        { "r0543", "IMB_SHA256", "src=NULL,len=64", IMB_ERR_NULL_SRC, 0, dtb_r0543 },
        { "r0544", "IMB_SHA256", "tag=NULL", IMB_ERR_NULL_AUTH, 0, dtb_r0544 },
        { "r0545", "IMB_SHA384", "src=NULL,len=64", IMB_ERR_NULL_SRC, 0, dtb_r0545 },
        { "r0546", "IMB_SHA384", "tag=NULL", IMB_ERR_NULL_AUTH, 0, dtb_r0546 },
        { "r0547", "IMB_SHA512", "src=NULL,len=64", IMB_ERR_NULL_SRC, 0, dtb_r0547 },
        { "r0548", "IMB_SHA512", "tag=NULL", IMB_ERR_NULL_AUTH, 0, dtb_r0548 },
        { "r0549", "IMB_AES_KEYEXP_128", "key=NULL", IMB_ERR_NULL_KEY, 0, dtb_r0549 },
        { "r0550", "IMB_AES_KEYEXP_128", "enc_exp_key=NULL", IMB_ERR_NULL_EXP_KEY, 0, dtb_r0550 },
        { "r0551", "IMB_AES_KEYEXP_128", "dec_exp_key=NULL", IMB_ERR_NULL_EXP_KEY, 0, dtb_r0551 },
        { "r0552", "IMB_AES_KEYEXP_192", "key=NULL", IMB_ERR_NULL_KEY, 0, dtb_r0552 },
        { "r0553", "IMB_AES_KEYEXP_192", "enc_exp_key=NULL", IMB_ERR_NULL_EXP_KEY, 0, dtb_r0553 },
        { "r0554", "IMB_AES_KEYEXP_192", "dec_exp_key=NULL", IMB_ERR_NULL_EXP_KEY, 0, dtb_r0554 },
        { "r0555", "IMB_AES_KEYEXP_256", "key=NULL", IMB_ERR_NULL_KEY, 0, dtb_r0555 },
        { "r0556", "IMB_AES_KEYEXP_256", "enc_exp_key=NULL", IMB_ERR_NULL_EXP_KEY, 0, dtb_r0556 },
        { "r0557", "IMB_AES_KEYEXP_256", "dec_exp_key=NULL", IMB_ERR_NULL_EXP_KEY, 0, dtb_r0557 },
        { "r0558", "IMB_AES_CMAC_SUBKEY_GEN_128", "exp_key=NULL", IMB_ERR_NULL_EXP_KEY, 0, dtb_r0558 },
        { "r0559", "IMB_AES_CMAC_SUBKEY_GEN_128", "key1=NULL", IMB_ERR_NULL_KEY, 0, dtb_r0559 },
        { "r0560", "IMB_AES_CMAC_SUBKEY_GEN_128", "key2=NULL", IMB_ERR_NULL_KEY, 0, dtb_r0560 },
        { "r0561", "IMB_AES_CMAC_SUBKEY_GEN_256", "exp_key=NULL", IMB_ERR_NULL_EXP_KEY, 0, dtb_r0561 },
        { "r0562", "IMB_AES_CMAC_SUBKEY_GEN_256", "key1=NULL", IMB_ERR_NULL_KEY, 0, dtb_r0562 },
        { "r0563", "IMB_AES_CMAC_SUBKEY_GEN_256", "key2=NULL", IMB_ERR_NULL_KEY, 0, dtb_r0563 },
        { "r0564", "IMB_AES_XCBC_KEYEXP", "key=NULL", IMB_ERR_NULL_KEY, 0, dtb_r0564 },
        { "r0565", "IMB_AES_XCBC_KEYEXP", "k1_exp=NULL", IMB_ERR_NULL_EXP_KEY, 0, dtb_r0565 },
        { "r0566", "IMB_AES_XCBC_KEYEXP", "k2=NULL", IMB_ERR_NULL_EXP_KEY, 0, dtb_r0566 },
        { "r0567", "IMB_AES_XCBC_KEYEXP", "k3=NULL", IMB_ERR_NULL_EXP_KEY, 0, dtb_r0567 },
        { "r0568", "IMB_DES_KEYSCHED", "exp_key=NULL", IMB_ERR_NULL_EXP_KEY, 0, dtb_r0568 },
        { "r0569", "IMB_DES_KEYSCHED", "key=NULL", IMB_ERR_NULL_KEY, 0, dtb_r0569 },
        { "r0570", "des_key_schedule", "ks=NULL", IMB_ERR_NULL_EXP_KEY, 0, dtb_r0570 },
        { "r0571", "des_key_schedule", "key=NULL", IMB_ERR_NULL_KEY, 0, dtb_r0571 },
        { "r0572", "IMB_SM4_KEYEXP", "key=NULL", IMB_ERR_NULL_KEY, 0, dtb_r0572 },
        { "r0573", "IMB_SM4_KEYEXP", "enc_exp_key=NULL", IMB_ERR_NULL_EXP_KEY, 0, dtb_r0573 },
        { "r0574", "IMB_SM4_KEYEXP", "dec_exp_key=NULL", IMB_ERR_NULL_EXP_KEY, 0, dtb_r0574 },
        { "r0575", "IMB_AES128_CFB_ONE", "dst=NULL", IMB_ERR_NULL_DST, 0, dtb_r0575 },
        { "r0576", "IMB_AES128_CFB_ONE", "src=NULL", IMB_ERR_NULL_SRC, 0, dtb_r0576 },
        { "r0577", "IMB_AES128_CFB_ONE", "iv=NULL", IMB_ERR_NULL_IV, 0, dtb_r0577 },
        { "r0578", "IMB_AES128_CFB_ONE", "exp_key=NULL", IMB_ERR_NULL_EXP_KEY, 0, dtb_r0578 },
        { "r0579", "IMB_AES256_CFB_ONE", "dst=NULL", IMB_ERR_NULL_DST, 0, dtb_r0579 },
        { "r0580", "IMB_AES256_CFB_ONE", "src=NULL", IMB_ERR_NULL_SRC, 0, dtb_r0580 },
        { "r0581", "IMB_AES256_CFB_ONE", "iv=NULL", IMB_ERR_NULL_IV, 0, dtb_r0581 },
        { "r0582", "IMB_AES256_CFB_ONE", "exp_key=NULL", IMB_ERR_NULL_EXP_KEY, 0, dtb_r0582 },
        { "r0583", "imb_sm4_gcm_pre", "mgr=NULL", IMB_ERR_NULL_MBMGR, 1, dtb_r0583 },
        { "r0584", "imb_sm4_gcm_pre", "key=NULL", IMB_ERR_NULL_KEY, 0, dtb_r0584 },
        { "r0585", "imb_sm4_gcm_pre", "key_data=NULL", IMB_ERR_NULL_EXP_KEY, 0, dtb_r0585 },
        { "r0586", "imb_hmac_ipad_opad", "mgr=NULL", IMB_ERR_NULL_MBMGR, 1, dtb_r0586 },
        { "r0587", "imb_hmac_ipad_opad", "pkey=NULL,key_len=32", IMB_ERR_NULL_KEY, 0, dtb_r0587 },
        { "r0588", "imb_hmac_ipad_opad", "pkey=NULL,key_len=200,sha512", IMB_ERR_NULL_KEY, 0, dtb_r0588 },
        { "r0589", "imb_hmac_ipad_opad", "sha_type=IMB_AUTH_AES_XCBC", IMB_ERR_HASH_ALGO, 0, dtb_r0589 },
        { "r0590", "imb_hmac_ipad_opad", "sha_type=IMB_AUTH_NULL", IMB_ERR_HASH_ALGO, 0, dtb_r0590 },
        { "r0591", "imb_hmac_ipad_opad", "sha_type=IMB_AUTH_SHA_256", IMB_ERR_HASH_ALGO, 0, dtb_r0591 },
        { "r0592", "imb_hmac_ipad_opad", "sha_type=0", IMB_ERR_HASH_ALGO, 0, dtb_r0592 },
        { "r0593", "imb_hmac_ipad_opad", "sha_type=IMB_AUTH_NUM", IMB_ERR_HASH_ALGO, 0, dtb_r0593 },
        { "r0594", "imb_hmac_ipad_opad", "md5,key_len=65", IMB_ERR_KEY_LEN, 0, dtb_r0594 },
        { "r0595", "imb_set_session", "mgr=NULL", IMB_ERR_NULL_MBMGR, 1, dtb_r0595 },
        { "r0596", "imb_set_session", "job=NULL", IMB_ERR_NULL_JOB, 0, dtb_r0596 },
        { "r0597", "imb_set_session", "cipher_mode=0", IMB_ERR_CIPH_MODE, 0, dtb_r0597 },
        { "r0598", "imb_set_session", "cipher_mode=IMB_CIPHER_NUM", IMB_ERR_CIPH_MODE, 0, dtb_r0598 },
        { "r0599", "imb_set_session", "hash_alg=0", IMB_ERR_HASH_ALGO, 0, dtb_r0599 },
        { "r0600", "imb_set_session", "hash_alg=IMB_AUTH_NUM", IMB_ERR_HASH_ALGO, 0, dtb_r0600 },
        { "r0601", "imb_set_session", "cipher_direction=0", IMB_ERR_JOB_CIPH_DIR, 0, dtb_r0601 },
        { "r0602", "imb_set_session", "cipher_direction=3", IMB_ERR_JOB_CIPH_DIR, 0, dtb_r0602 },
        { "r0603", "imb_set_session", "cbc,key_len=17", IMB_ERR_JOB_KEY_LEN, 0, dtb_r0603 },
        { "r0604", "imb_set_session", "cbc,key_len=0", IMB_ERR_JOB_KEY_LEN, 0, dtb_r0604 },
        { "r0605", "imb_set_session", "des,key_len=16", IMB_ERR_JOB_KEY_LEN, 0, dtb_r0605 },
        { "r0606", "imb_set_session", "des3,key_len=8", IMB_ERR_JOB_KEY_LEN, 0, dtb_r0606 },
        { "r0607", "imb_set_session", "docsis_sec_bpi,key_len=24", IMB_ERR_JOB_KEY_LEN, 0, dtb_r0607 },
        { "r0608", "imb_set_session", "chacha20,key_len=16", IMB_ERR_JOB_KEY_LEN, 0, dtb_r0608 },
        { "r0609", "imb_set_session", "ccm,key_len=24", IMB_ERR_JOB_KEY_LEN, 0, dtb_r0609 },
        { "r0610", "imb_set_session", "gcm,key_len=20", IMB_ERR_JOB_KEY_LEN, 0, dtb_r0610 },
        { "r0611", "imb_set_session", "gcm,hash_alg=HMAC_SHA_1", IMB_ERR_HASH_ALGO, 0, dtb_r0611 },
        { "r0612", "imb_set_session", "ccm,hash_alg=NULL", IMB_ERR_HASH_ALGO, 0, dtb_r0612 },
        { "r0613", "imb_set_session", "pon,hash_alg=NULL", IMB_ERR_HASH_ALGO, 0, dtb_r0613 },
        { "r0614", "imb_set_session", "cbc,hash_alg=AES_GMAC", IMB_ERR_CIPH_MODE, 0, dtb_r0614 },
        { "r0615", "imb_set_session", "cbc,hash_alg=AES_CCM", IMB_ERR_CIPH_MODE, 0, dtb_r0615 },
        { "r0616", "imb_set_session", "cbc,hash_alg=DOCSIS_CRC32", IMB_ERR_CIPH_MODE, 0, dtb_r0616 },
        { "r0617", "imb_set_session", "cbc,hash_alg=CHACHA20_POLY1305", IMB_ERR_CIPH_MODE, 0, dtb_r0617 },
        { "r0618", "imb_set_pointers_mb_mgr", "ptr=NULL", ENOMEM, 1, dtb_r0618 },
        { "r0619", "init_mb_mgr_auto", "state=NULL", IMB_ERR_NULL_MBMGR, 1, dtb_r0619 },
        { "r0620", "imb_quic_aes_gcm", "key_data=NULL", IMB_ERR_NULL_EXP_KEY, 0, dtb_r0620 },
        { "r0621", "imb_quic_aes_gcm", "dst=NULL", IMB_ERR_NULL_DST, 0, dtb_r0621 },
        { "r0622", "imb_quic_aes_gcm", "dst[3]=NULL", IMB_ERR_NULL_DST, 0, dtb_r0622 },
        { "r0623", "imb_quic_aes_gcm", "src=NULL", IMB_ERR_NULL_SRC, 0, dtb_r0623 },
        { "r0624", "imb_quic_aes_gcm", "src[3]=NULL", IMB_ERR_NULL_SRC, 0, dtb_r0624 },
        { "r0625", "imb_quic_aes_gcm", "iv=NULL", IMB_ERR_NULL_IV, 0, dtb_r0625 },
        { "r0626", "imb_quic_aes_gcm", "iv[3]=NULL", IMB_ERR_NULL_IV, 0, dtb_r0626 },
        { "r0627", "imb_quic_aes_gcm", "aad=NULL", IMB_ERR_NULL_AAD, 0, dtb_r0627 },
        { "r0628", "imb_quic_aes_gcm", "aad[3]=NULL,aadl=16", IMB_ERR_NULL_AAD, 0, dtb_r0628 },
        { "r0629", "imb_quic_aes_gcm", "tag=NULL", IMB_ERR_NULL_AUTH, 0, dtb_r0629 },
        { "r0630", "imb_quic_aes_gcm", "tag[3]=NULL", IMB_ERR_NULL_AUTH, 0, dtb_r0630 },
        { "r0631", "imb_quic_aes_gcm", "key_size=24", IMB_ERR_KEY_LEN, 0, dtb_r0631 },
        { "r0632", "imb_quic_aes_gcm", "key_size=0", IMB_ERR_KEY_LEN, 0, dtb_r0632 },
        { "r0633", "imb_quic_aes_gcm", "cipher_dir=0", IMB_ERR_JOB_CIPH_DIR, 0, dtb_r0633 },
        { "r0634", "imb_quic_aes_gcm", "mgr=NULL", IMB_ERR_NULL_MBMGR, 1, dtb_r0634 },
        { "r0635", "imb_quic_hp_aes_ecb", "exp_key=NULL", IMB_ERR_NULL_EXP_KEY, 0, dtb_r0635 },
        { "r0636", "imb_quic_hp_aes_ecb", "dst=NULL", IMB_ERR_NULL_DST, 0, dtb_r0636 },
        { "r0637", "imb_quic_hp_aes_ecb", "dst[3]=NULL", IMB_ERR_NULL_DST, 0, dtb_r0637 },
        { "r0638", "imb_quic_hp_aes_ecb", "src=NULL", IMB_ERR_NULL_SRC, 0, dtb_r0638 },
        { "r0639", "imb_quic_hp_aes_ecb", "src[3]=NULL", IMB_ERR_NULL_SRC, 0, dtb_r0639 },
        { "r0640", "imb_quic_hp_aes_ecb", "key_size=24", IMB_ERR_KEY_LEN, 0, dtb_r0640 },
        { "r0641", "imb_quic_hp_aes_ecb", "key_size=0", IMB_ERR_KEY_LEN, 0, dtb_r0641 },
        { "r0642", "imb_quic_hp_aes_ecb", "mgr=NULL", IMB_ERR_NULL_MBMGR, 1, dtb_r0642 },
        { "r0643", "imb_quic_chacha20_poly1305", "key=NULL", IMB_ERR_NULL_KEY, 0, dtb_r0643 },
        { "r0644", "imb_quic_chacha20_poly1305", "dst=NULL", IMB_ERR_NULL_DST, 0, dtb_r0644 },
        { "r0645", "imb_quic_chacha20_poly1305", "dst[3]=NULL", IMB_ERR_NULL_DST, 0, dtb_r0645 },
        { "r0646", "imb_quic_chacha20_poly1305", "src=NULL", IMB_ERR_NULL_SRC, 0, dtb_r0646 },
        { "r0647", "imb_quic_chacha20_poly1305", "src[3]=NULL", IMB_ERR_NULL_SRC, 0, dtb_r0647 },
        { "r0648", "imb_quic_chacha20_poly1305", "iv=NULL", IMB_ERR_NULL_IV, 0, dtb_r0648 },
        { "r0649", "imb_quic_chacha20_poly1305", "iv[3]=NULL", IMB_ERR_NULL_IV, 0, dtb_r0649 },
        { "r0650", "imb_quic_chacha20_poly1305", "aad=NULL", IMB_ERR_NULL_AAD, 0, dtb_r0650 },
        { "r0651", "imb_quic_chacha20_poly1305", "aad[3]=NULL,aadl=16", IMB_ERR_NULL_AAD, 0, dtb_r0651 },
        { "r0652", "imb_quic_chacha20_poly1305", "tag=NULL", IMB_ERR_NULL_AUTH, 0, dtb_r0652 },
        { "r0653", "imb_quic_chacha20_poly1305", "tag[3]=NULL", IMB_ERR_NULL_AUTH, 0, dtb_r0653 },
        { "r0654", "imb_quic_chacha20_poly1305", "cipher_dir=0", IMB_ERR_JOB_CIPH_DIR, 0, dtb_r0654 },
        { "r0655", "imb_quic_chacha20_poly1305", "mgr=NULL", IMB_ERR_NULL_MBMGR, 1, dtb_r0655 },
        { "r0656", "imb_quic_hp_chacha20", "key=NULL", IMB_ERR_NULL_EXP_KEY, 0, dtb_r0656 },
        { "r0657", "imb_quic_hp_chacha20", "dst=NULL", IMB_ERR_NULL_DST, 0, dtb_r0657 },
        { "r0658", "imb_quic_hp_chacha20", "dst[3]=NULL", IMB_ERR_NULL_DST, 0, dtb_r0658 },
        { "r0659", "imb_quic_hp_chacha20", "src=NULL", IMB_ERR_NULL_SRC, 0, dtb_r0659 },
        { "r0660", "imb_quic_hp_chacha20", "src[3]=NULL", IMB_ERR_NULL_SRC, 0, dtb_r0660 },
        { "r0661", "imb_quic_hp_chacha20", "mgr=NULL", IMB_ERR_NULL_MBMGR, 1, dtb_r0661 },
};

#define DTB_NUM_ROWS (sizeof(dtb_table) / sizeof(dtb_table[0]))

#ifdef K12_EXTRA
#include "k12_direct_extra.inc"
#endif

/* run one row in a forked child; returns 0 = OK, 1 = wrong errno, 2 = crash.
 * Rows with expected == -1 (generated second-order rows) only have to return without faulting. */
static int
dtb_run_row(IMB_MGR *m, const char *arch, const struct dtb_row *r)
{
        int pfd[2];
        pid_t pid;
        int status = 0, got = -1;
        ssize_t n = 0;
        char gotbuf[32];
        int res;

        fflush(stdout);
        fflush(stderr);
        if (pipe(pfd) != 0) {
                printf("D %s %s %s %s expected=%d got=EPIPE FAIL\n", arch, r->id, r->fname,
                       r->desc, r->expected);
                return 1;
        }
        pid = fork();
        if (pid < 0) {
                close(pfd[0]);
                close(pfd[1]);
                printf("D %s %s %s %s expected=%d got=EFORK FAIL\n", arch, r->id, r->fname,
                       r->desc, r->expected);
                return 1;
        }
        if (pid == 0) {
                int e;

                close(pfd[0]);
                signal(SIGSEGV, SIG_DFL);
                signal(SIGBUS, SIG_DFL);
                signal(SIGILL, SIG_DFL);
                signal(SIGFPE, SIG_DFL);
                signal(SIGABRT, SIG_DFL);
                signal(SIGALRM, SIG_DFL);
                alarm(10);
                r->fn(m);
                e = imb_get_errno(r->errno_null ? NULL : m);
                if (write(pfd[1], &e, sizeof(e)) != (ssize_t) sizeof(e))
                        _exit(3);
                _exit(0);
        }
        close(pfd[1]);
        while (waitpid(pid, &status, 0) < 0) {
                if (errno != EINTR)
                        break;
        }
        n = read(pfd[0], &got, sizeof(got));
        close(pfd[0]);

        if (WIFSIGNALED(status)) {
                snprintf(gotbuf, sizeof(gotbuf), "SIG%d", WTERMSIG(status));
                res = 2;
        } else if (!WIFEXITED(status) || WEXITSTATUS(status) != 0 || n != (ssize_t) sizeof(got)) {
                snprintf(gotbuf, sizeof(gotbuf), "EXIT%d",
                         WIFEXITED(status) ? WEXITSTATUS(status) : -1);
                res = 1;
        } else {
                snprintf(gotbuf, sizeof(gotbuf), "%d", got);
                res = (got == r->expected || r->expected == -1) ? 0 : 1;
        }
        printf("%s %s %s %s %s expected=%d got=%s %s\n", r->expected == -1 ? "DX" : "D", arch, r->id, r->fname, r->desc,
               r->expected, gotbuf, res == 0 ? "OK" : "FAIL");
        return res;
}

static int
run_d(void)
{
        static const struct {
                const char *name;
                void (*init)(IMB_MGR *);
                uint64_t feat;
        } archs[] = { { "sse", init_mb_mgr_sse, IMB_CPUFLAGS_SSE },
                      { "avx2", init_mb_mgr_avx2, IMB_CPUFLAGS_AVX2 },
                      { "avx512", init_mb_mgr_avx512, IMB_CPUFLAGS_AVX512 } };
        unsigned long rows = 0, ok = 0, fail = 0, crash = 0;
        unsigned a;
        size_t i;

        for (a = 0; a < sizeof(archs) / sizeof(archs[0]); a++) {
                IMB_MGR *m = alloc_mb_mgr(0);

                if (m == NULL)
                        continue;
                if ((m->features & archs[a].feat) != archs[a].feat) {
                        free_mb_mgr(m);
                        continue;
                }
                archs[a].init(m);
                if (imb_get_errno(m) != 0) {
                        free_mb_mgr(m);
                        continue;
                }
                dtb_setup(m);
                if (imb_get_errno(m) != 0)
                        fprintf(stderr, "D-WARN %s: errno %d after set-up\n", archs[a].name,
                                imb_get_errno(m));

                for (i = 0; i < DTB_NUM_ROWS; i++) {
                        const int res = dtb_run_row(m, archs[a].name, &dtb_table[i]);

                        rows++;
                        if (res == 0)
                                ok++;
                        else
                                fail++;
                        if (res == 2)
                                crash++;
                }
#ifdef K12_EXTRA
                for (i = 0; i < DTX_NUM_ROWS; i++) {
                        const int res = dtb_run_row(m, archs[a].name, &dtx_table[i]);

                        rows++;
                        if (res == 0)
                                ok++;
                        else
                                fail++;
                        if (res == 2)
                                crash++;
                }
#endif
                free_mb_mgr(m);
        }
        printf("D-SUMMARY rows=%lu ok=%lu fail=%lu crash=%lu\n", rows, ok, fail, crash);
        fflush(stdout);
        return 0;
}


int
main(int argc, char **argv)
{
        if (argc < 2) {
                fprintf(stderr, "usage: k12_validate a|l|i <cases> | b <cases> [<selector>] | m | s | d\n");
                return 2;
        }
        setvbuf(stdout, NULL, _IOFBF, 1 << 16);
        map_arena();
        if ((argv[1][0] == 'a' || argv[1][0] == 'l') && argc >= 3)
                return run_a(argv[2], argv[1][0] == 'l');
        if (argv[1][0] == 'b' && argc >= 3) {
                /* neighbours are initialised per manager inside nbr_reference users */
                IMB_MGR *m0 = alloc_mb_mgr(0);
                init_mb_mgr_sse(m0);
                nbr_init(m0, &NA, 64, 1);
                nbr_init(m0, &NB, 128, 2);
                return run_b(argv[2], argc >= 4 ? argv[3] : NULL);
        }
        if (argv[1][0] == 'm')
                return run_m();
        if (argv[1][0] == 's')
                return run_s();
        if (argv[1][0] == 'i' && argc >= 3)
                return run_i(argv[2]);
        if (argv[1][0] == 'd') {
                setvbuf(stdout, NULL, _IOLBF, 0);
                return run_d();
        }
        fprintf(stderr, "unknown mode\n");
        return 2;
}
