/*
 * k20_selftest - correspondence harness for property C20 (power-up self-test gates
 * initialisation).
 *
 * usage: k20_selftest <case-file | ->
 *
 * One case per line:
 *     <init> <flags> <cbmode> <set>[;<set>...]
 *   init   : sse | avx2 | avx512 | auto      (init_mb_mgr_<init>)
 *   flags  : 0..3                             (IMB_FLAG_SHANI_OFF | IMB_FLAG_GFNI_OFF, alloc_mb_mgr)
 *   cbmode : cb    callback installed, returns 1 outside the CORRUPT phase
 *            cb0   callback installed, returns 0 outside the CORRUPT phase (must not matter)
 *            cbn   like cb, but registered with a NULL user argument
 *            cbi   like cb; inside every CORRUPT callback another manager is allocated and initialised (NEST line if that fails)
 *            nocb  no callback installed (the sets are ignored)
 *   set    : "-" or comma separated vector ids to corrupt; an id is a 0-based ordinal (count of
 *            START events seen before the vector's own) or <type>:<descr>
 *            (e.g. KAT_Cipher:AES128-CBC).  Several sets separated by ';' = that many
 *            consecutive initialisations of the SAME manager.
 *
 * Output per case (stdout, flushed line by line):
 *     CASE <n> init=.. flags=.. cb=.. phases=<k>
 *     PRE <phase> features=<hex> errno=<d>
 *     EV <phase> <type|-> <descr|-> ret=<r>        one per callback invocation
 *     RES <phase> st=<0|1> pass=<0|1> errno=<imb_get_errno> field=<mgr->imb_errno>
 *         features=<hex> arch=<used_arch> type=<used_arch_type> bad=<n>
 *     END <n>
 * "bad" counts callback invocations with a NULL data / phase pointer or an unknown phase.
 */
#include <stdio.h>
#include <stdlib.h>
#include <string.h>
#include <stdint.h>

#include <pthread.h>
#include <time.h>

#include <intel-ipsec-mb.h>

#define MAX_IDS 256

struct ctx {
        int others_ret;       /* return value outside CORRUPT */
        int n_ord;
        int ord[MAX_IDS];     /* ordinals to corrupt */
        int n_names;
        char names[MAX_IDS][96]; /* "type:descr" to corrupt */
        int starts;           /* START events seen */
        int cur_selected;     /* current vector selected by name */
        int bad;
        int phase;
};

static int
selected(const struct ctx *c)
{
        const int cur = c->starts - 1;

        for (int i = 0; i < c->n_ord; i++)
                if (c->ord[i] == cur)
                        return 1;
        return c->cur_selected;
}

static struct ctx *g_ctx;
static const char *g_nest_init; /* cbmode cbi: init function of the nested manager */
static uint64_t g_nest_flags;
static void do_init(IMB_MGR *m, const char *init); /* cbmode cbn: the callback is registered with a NULL user argument (as in the README) */

static int
callback(void *arg, const IMB_SELF_TEST_CALLBACK_DATA *data)
{
        struct ctx *c = arg != NULL ? (struct ctx *) arg : g_ctx;
        int ret = c->others_ret;

        if (data == NULL || data->phase == NULL) {
                c->bad++;
                printf("EV %d NULL - - ret=%d\n", c->phase, ret);
                fflush(stdout);
                return ret;
        }

        const char *ph = data->phase;
        const char *ty = data->type ? data->type : "-";
        const char *de = data->descr ? data->descr : "-";

        if (strcmp(ph, IMB_SELF_TEST_PHASE_START) == 0) {
                char nm[200];

                c->starts++;
                c->cur_selected = 0;
                snprintf(nm, sizeof(nm), "%s:%s", ty, de);
                for (int i = 0; i < c->n_names; i++)
                        if (strcmp(nm, c->names[i]) == 0)
                                c->cur_selected = 1;
        } else if (strcmp(ph, IMB_SELF_TEST_PHASE_CORRUPT) == 0) {
                ret = selected(c) ? 0 : 1;
                if (g_nest_init != NULL) {
                        /* cbmode cbi: while this manager is in the middle of a known-answer test the application
                         * initialises another, independent manager (nothing corrupted there): neither may notice */
                        IMB_MGR *other = alloc_mb_mgr(g_nest_flags);

                        if (other != NULL) {
                                do_init(other, g_nest_init);
                                if (other->imb_errno != 0 || !(other->features & IMB_FEATURE_SELF_TEST_PASS))
                                        printf("NEST %d %s %s errno=%d pass=%d\n", c->phase, ty, de, other->imb_errno,
                                               (other->features & IMB_FEATURE_SELF_TEST_PASS) ? 1 : 0);
                                free_mb_mgr(other);
                        }
                }
        } else if (strcmp(ph, IMB_SELF_TEST_PHASE_PASS) != 0 &&
                   strcmp(ph, IMB_SELF_TEST_PHASE_FAIL) != 0) {
                c->bad++;
        }
        printf("EV %d %s %s %s ret=%d\n", c->phase, ph, ty, de, ret);
        fflush(stdout);
        return ret;
}

static int
parse_set(const char *s, struct ctx *c)
{
        c->n_ord = c->n_names = 0;
        if (strcmp(s, "-") == 0 || *s == 0)
                return 0;

        char *dup = strdup(s), *save = NULL;

        for (char *t = strtok_r(dup, ",", &save); t != NULL; t = strtok_r(NULL, ",", &save)) {
                if (strchr(t, ':') != NULL) {
                        if (c->n_names >= MAX_IDS || strlen(t) >= sizeof(c->names[0])) {
                                free(dup);
                                return -1;
                        }
                        strcpy(c->names[c->n_names++], t);
                } else {
                        char *end;
                        const long v = strtol(t, &end, 10);

                        if (*end != 0 || v < 0 || c->n_ord >= MAX_IDS) {
                                free(dup);
                                return -1;
                        }
                        c->ord[c->n_ord++] = (int) v;
                }
        }
        free(dup);
        return 0;
}

static void
do_init(IMB_MGR *m, const char *init)
{
        if (strcmp(init, "sse") == 0)
                init_mb_mgr_sse(m);
        else if (strcmp(init, "avx2") == 0)
                init_mb_mgr_avx2(m);
        else if (strcmp(init, "avx512") == 0)
                init_mb_mgr_avx512(m);
        else {
                IMB_ARCH a;

                init_mb_mgr_auto(m, &a);
        }
}

/* Application traffic between two initialisations of the same manager: the self test of the
 * next init must not depend on what earlier jobs left in the descriptor ring (hash/cipher
 * offsets, AAD/IV lengths, chain order, ...).  More than IMB_MAX_JOBS jobs so the ring wraps. */
static void
traffic(IMB_MGR *m)
{
        static uint8_t buf[512], out[512], tag[64], key[32], iv[16], ipad[64], opad[64];
        static DECLARE_ALIGNED(uint32_t ek[15 * 4], 16);
        static DECLARE_ALIGNED(uint32_t dk[15 * 4], 16);
        static struct gcm_key_data gk;

        for (unsigned i = 0; i < sizeof(buf); i++)
                buf[i] = (uint8_t) (i * 7 + 1);
        for (unsigned i = 0; i < 32; i++)
                key[i] = (uint8_t) (i + 3);
        IMB_AES_KEYEXP_128(m, key, ek, dk);
        IMB_AES128_GCM_PRE(m, key, &gk);
        imb_hmac_ipad_opad(m, IMB_AUTH_HMAC_SHA_1, key, 20, ipad, opad);
        for (int n = 0; n < 2 * IMB_MAX_JOBS + 44; n++) {
                IMB_JOB *j = IMB_GET_NEXT_JOB(m);

                memset(j, 0, sizeof(*j));
                j->src = buf;
                j->dst = out + 44;
                j->iv = iv;
                j->auth_tag_output = tag;
                j->user_data = (void *) (uintptr_t) (n + 1);
                j->user_data2 = (void *) (uintptr_t) 0x5a5a5a5a;
                if (n % 3 != 2) {
                        j->cipher_mode = IMB_CIPHER_CBC;
                        j->cipher_direction = (n % 3) ? IMB_DIR_DECRYPT : IMB_DIR_ENCRYPT;
                        j->chain_order = (n % 3) ? IMB_ORDER_HASH_CIPHER : IMB_ORDER_CIPHER_HASH;
                        j->hash_alg = IMB_AUTH_HMAC_SHA_1;
                        j->enc_keys = ek;
                        j->dec_keys = dk;
                        j->key_len_in_bytes = 16;
                        j->iv_len_in_bytes = 16;
                        j->cipher_start_src_offset_in_bytes = 44;
                        j->msg_len_to_cipher_in_bytes = 64 + 16 * (n % 5);
                        j->hash_start_src_offset_in_bytes = 20;
                        j->msg_len_to_hash_in_bytes = 150;
                        j->auth_tag_output_len_in_bytes = 12;
                        j->u.HMAC._hashed_auth_key_xor_ipad = ipad;
                        j->u.HMAC._hashed_auth_key_xor_opad = opad;
                } else {
                        j->cipher_mode = IMB_CIPHER_GCM;
                        j->cipher_direction = IMB_DIR_ENCRYPT;
                        j->chain_order = IMB_ORDER_CIPHER_HASH;
                        j->hash_alg = IMB_AUTH_AES_GMAC;
                        j->enc_keys = &gk;
                        j->dec_keys = &gk;
                        j->key_len_in_bytes = 16;
                        j->iv_len_in_bytes = 12;
                        j->cipher_start_src_offset_in_bytes = 32;
                        j->msg_len_to_cipher_in_bytes = 100;
                        j->hash_start_src_offset_in_bytes = 32;
                        j->msg_len_to_hash_in_bytes = 100;
                        j->auth_tag_output_len_in_bytes = 16;
                        j->u.GCM.aad = buf + 3;
                        j->u.GCM.aad_len_in_bytes = 20;
                }
                (void) IMB_SUBMIT_JOB(m);
        }
        while (IMB_FLUSH_JOB(m) != NULL)
                ;
}

/* ---- "--conc <seconds>": every initialisation runs the known-answer tests, also while another thread (with its own
 * manager, as the documentation requires) keeps ending calls with an error.  The probe only counts what the property
 * names: the START callbacks of one initialisation (= the KATs that ran); whether they pass is not judged here. ---- */
static volatile int conc_stop;
static __thread int conc_starts;

static int
conc_cb(void *arg, const IMB_SELF_TEST_CALLBACK_DATA *data)
{
        (void) arg;
        if (data != NULL && data->phase != NULL && strcmp(data->phase, IMB_SELF_TEST_PHASE_START) == 0)
                conc_starts++;
        return 1;
}

static void *
conc_noise(void *arg)
{
        IMB_MGR *m = alloc_mb_mgr(0);

        (void) arg;
        if (m == NULL)
                return NULL;
        init_mb_mgr_sse(m);
        while (!conc_stop) {
                IMB_JOB *j = IMB_GET_NEXT_JOB(m);

                memset(j, 0, sizeof(*j));
                j->cipher_mode = IMB_CIPHER_CBC;
                j->hash_alg = IMB_AUTH_NULL;
                j->chain_order = IMB_ORDER_CIPHER_HASH;
                j->cipher_direction = IMB_DIR_ENCRYPT;
                j->msg_len_to_cipher_in_bytes = 16;     /* src == NULL: rejected with IMB_ERR_JOB_NULL_SRC */
                (void) IMB_SUBMIT_JOB(m);
                while (IMB_FLUSH_JOB(m) != NULL)
                        ;
        }
        free_mb_mgr(m);
        return NULL;
}

static int
conc_probe(const double secs)
{
        static const char *const inits[] = { "sse", "avx2", "avx512", "auto" };
        int expect[4][4];
        pthread_t th;
        struct timespec t0, t1;
        long n = 0, bad = 0;

        /* what one initialisation announces when nothing else runs */
        for (int a = 0; a < 4; a++)
                for (unsigned fl = 0; fl < 4; fl++) {
                        IMB_MGR *m = alloc_mb_mgr(fl);

                        imb_self_test_set_cb(m, conc_cb, NULL);
                        conc_starts = 0;
                        do_init(m, inits[a]);
                        expect[a][fl] = conc_starts;
                        free_mb_mgr(m);
                }
        pthread_create(&th, NULL, conc_noise, NULL);
        clock_gettime(CLOCK_MONOTONIC, &t0);
        for (;;) {
                const int a = (int) (n % 4);
                const unsigned fl = (unsigned) ((n / 4) % 4);
                IMB_MGR *m = alloc_mb_mgr(fl);

                imb_self_test_set_cb(m, conc_cb, NULL);
                conc_starts = 0;
                do_init(m, inits[a]);
                if (conc_starts != expect[a][fl]) {
                        if (bad < 5)
                                printf("CONC-BAD init=%s flags=%u starts=%d expected=%d features_selftest=%d errno=%d\n", inits[a], fl,
                                       conc_starts, expect[a][fl], (m->features & IMB_FEATURE_SELF_TEST) != 0, m->imb_errno);
                        bad++;
                }
                free_mb_mgr(m);
                n++;
                clock_gettime(CLOCK_MONOTONIC, &t1);
                if ((double) (t1.tv_sec - t0.tv_sec) + 1e-9 * (double) (t1.tv_nsec - t0.tv_nsec) > secs)
                        break;
        }
        conc_stop = 1;
        pthread_join(th, NULL);
        printf("CONC inits=%ld bad=%ld expected_sse=%d\n", n, bad, expect[0][0]);
        return 0;
}

int
main(int argc, char **argv)
{
        if (argc == 3 && strcmp(argv[1], "--conc") == 0)
                return conc_probe(atof(argv[2]));
        if (argc != 2) {
                fprintf(stderr, "usage: %s <case-file | ->\n", argv[0]);
                return 2;
        }

        FILE *f = strcmp(argv[1], "-") == 0 ? stdin : fopen(argv[1], "r");

        if (f == NULL) {
                perror(argv[1]);
                return 2;
        }

        char line[8192];
        int n = 0;

        while (fgets(line, sizeof(line), f) != NULL) {
                char init[16], cbm[16], sets[8000];
                unsigned flags;

                if (line[0] == '#' || line[0] == '\n')
                        continue;
                n++;
                if (sscanf(line, "%15s %u %15s %7999s", init, &flags, cbm, sets) != 4 ||
                    (strcmp(init, "sse") && strcmp(init, "avx2") && strcmp(init, "avx512") &&
                     strcmp(init, "auto")) ||
                    flags > 3 || (strcmp(cbm, "cb") && strcmp(cbm, "cb0") && strcmp(cbm, "nocb") && strcmp(cbm, "cbn") && strcmp(cbm, "cbi"))) {
                        printf("CASE %d BADLINE\nEND %d\n", n, n);
                        continue;
                }

                int phases = 1;

                for (const char *p = sets; *p; p++)
                        if (*p == ';')
                                phases++;
                printf("CASE %d init=%s flags=%u cb=%s phases=%d\n", n, init, flags, cbm, phases);
                fflush(stdout);

                IMB_MGR *m = alloc_mb_mgr((uint64_t) flags);

                if (m == NULL) {
                        printf("ALLOCFAIL\nEND %d\n", n);
                        continue;
                }

                struct ctx *c = calloc(1, sizeof(*c));
                char *save = NULL;
                int ph = 0;

                for (char *s = strtok_r(sets, ";", &save); s != NULL;
                     s = strtok_r(NULL, ";", &save), ph++) {
                        memset(c, 0, sizeof(*c));
                        c->phase = ph;
                        c->others_ret = strcmp(cbm, "cb0") == 0 ? 0 : 1;
                        /* optional prefix of a set: ^ = no application traffic before this initialisation (the manager
                         * is re-initialised exactly as the previous initialisation left it, e.g. with the self-test
                         * error still recorded); ! = a rejected job right before it (error code pending) */
                        int keep = 0, err_first = 0;

                        while (*s == '^' || *s == '!') {
                                if (*s == '^')
                                        keep = 1;
                                else
                                        err_first = 1;
                                s++;
                        }
                        if (ph > 0 && !keep && m->used_arch != IMB_ARCH_NONE &&
                            (imb_get_errno(m) == 0 || (m->features & IMB_FEATURE_SELF_TEST)))
                                traffic(m);
                        if (ph > 0 && err_first && m->used_arch != IMB_ARCH_NONE) {
                                IMB_JOB *j = IMB_GET_NEXT_JOB(m);

                                memset(j, 0, sizeof(*j));
                                (void) IMB_SUBMIT_JOB(m);
                                while (IMB_FLUSH_JOB(m) != NULL)
                                        ;
                                /* leave an error recorded in the manager */
                                j = IMB_GET_NEXT_JOB(m);
                                memset(j, 0, sizeof(*j));
                                (void) IMB_SUBMIT_JOB(m);
                        }
                        if (parse_set(s, c) != 0) {
                                printf("BADSET %d\n", ph);
                                break;
                        }
                        g_nest_init = strcmp(cbm, "cbi") == 0 ? init : NULL;
                        g_nest_flags = (uint64_t) flags;
                        if (strcmp(cbm, "nocb") == 0) {
                                if (imb_self_test_set_cb(m, NULL, NULL) != 0)
                                        printf("SETCBFAIL %d\n", ph);
                        } else if (strcmp(cbm, "cbn") == 0) {
                                g_ctx = c;
                                if (imb_self_test_set_cb(m, callback, NULL) != 0)
                                        printf("SETCBFAIL %d\n", ph);
                        } else if (imb_self_test_set_cb(m, callback, c) != 0) {
                                printf("SETCBFAIL %d\n", ph);
                        }
                        printf("PRE %d features=%llx errno=%d\n", ph, (unsigned long long) m->features,
                               m->imb_errno);
                        fflush(stdout);
                        do_init(m, init);
                        printf("RES %d st=%d pass=%d errno=%d field=%d features=%llx arch=%u type=%u "
                               "bad=%d\n",
                               ph, (m->features & IMB_FEATURE_SELF_TEST) ? 1 : 0,
                               (m->features & IMB_FEATURE_SELF_TEST_PASS) ? 1 : 0, imb_get_errno(m),
                               m->imb_errno, (unsigned long long) m->features, (unsigned) m->used_arch,
                               (unsigned) m->used_arch_type, c->bad);
                        fflush(stdout);
                }
                free(c);
                free_mb_mgr(m);
                printf("END %d\n", n);
                fflush(stdout);
        }
        return 0;
}
