/*
 * k7_trace - filter for `valgrind --tool=lackey --trace-mem=yes` output of
 * k7_leak (correspondence K7, property C19).
 *
 *   valgrind --tool=lackey --trace-mem=yes --log-fd=9 k7_leak ... 9>&1 1>out | \
 *       k7_trace <symfile> [--dump <segment index> <file>]...
 *
 * symfile (written by checks/c19.py from nm / readelf on the rebuilt .so):
 *   REF <hex>            link-time address of the reference symbol (imb_get_version)
 *   RODATA <hex> <hex>   link-time [lo, hi) of .rodata
 *   SYM <hex> <name>     one line per symbol inside .text/.rodata, sorted by address
 *   TABLE <id> <hex> <hex>  region id (Struct/Leak.v region_id) and link-time [lo, hi) of a
 *                        table the Coq model knows about
 *
 * In-band announcements by the harness (stores into the marker page at
 * 0x7e0000000000; lackey shows addresses only, so addresses carry the data):
 *   +0x00 segment start      +0x08 segment end
 *   +0x10+8k  "number k follows" (k = 0 runtime address of the reference symbol,
 *             1 ring base, 2 ring stride, 3 ring count), followed by 16 stores
 *             to +0x100 + 8*nibble, most significant nibble first.
 *
 * Per segment (the instructions and data accesses between a start and an end
 * marker) one line is printed:
 *   SEG <idx> ni=<instructions> nl=<loads> ns=<stores> nm=<modifies>
 *       ihash=<hash of the instruction address/size sequence>
 *       dhash=<hash of the (kind, address, size) data access sequence; addresses
 *              inside the IMB_JOB ring folded to slot offsets>
 *       ntab=<accesses inside the library's .rodata> thash=<hash of those>
 *   TAB <idx> <run-length encoded .rodata accesses: sym+off/size*count@stride ...>
 *   MTAB <idx> <run-length encoded loads inside the TABLE windows: id:off/size*count@stride ...>
 * With --dump the normalised event list of that segment is written to a file
 * (one event per line, instruction addresses relative to the library).
 */
#include <stdio.h>
#include <stdlib.h>
#include <string.h>
#include <stdint.h>

#define MARK 0x7e0000000000ULL

typedef struct {
        uint64_t addr;
        char name[64];
} sym_t;

static sym_t *syms;
static int nsyms;
static uint64_t ref_link, ro_lo, ro_hi;
static uint64_t num[8];
static int num_have[8];

static uint64_t
fnv(uint64_t h, uint64_t v)
{
        for (int i = 0; i < 8; i++) {
                h ^= (v >> (8 * i)) & 0xff;
                h *= 0x100000001b3ULL;
        }
        return h;
}

static int
find_sym(uint64_t link_addr)
{
        int lo = 0, hi = nsyms - 1, best = -1;

        while (lo <= hi) {
                const int mid = (lo + hi) / 2;

                if (syms[mid].addr <= link_addr) {
                        best = mid;
                        lo = mid + 1;
                } else {
                        hi = mid - 1;
                }
        }
        return best;
}

/* run-length encoder of table accesses */
typedef struct {
        int sym;
        uint64_t off;
        unsigned size;
        uint64_t count;
        int64_t stride;
} run_t;

typedef struct {
        run_t *v;
        size_t n, cap;
} runlist_t;

static runlist_t tab_runs, mtab_runs;

static void
run_add(runlist_t *L, int sym, uint64_t off, unsigned size)
{
        if (L->n > 0) {
                run_t *r = &L->v[L->n - 1];

                if (r->sym == sym && r->size == size) {
                        const int64_t d = (int64_t) off - (int64_t) (r->off + (r->count - 1) * r->stride);

                        if (r->count == 1) {
                                r->stride = d;
                                r->count = 2;
                                return;
                        }
                        if (d == r->stride) {
                                r->count++;
                                return;
                        }
                }
        }
        if (L->n == L->cap) {
                L->cap = L->cap ? L->cap * 2 : 1024;
                L->v = realloc(L->v, L->cap * sizeof(run_t));
                if (L->v == NULL)
                        exit(3);
        }
        L->v[L->n++] = (run_t){ sym, off, size, 1, 0 };
}

/* windows of the tables the Coq model knows about (link addresses).  Several windows may
 * carry the same region id (copies of a table) and windows may overlap (a scan that runs
 * past its table into the next one). */
#define MAXWIN 64
static uint64_t win_lo[MAXWIN], win_hi[MAXWIN];
static int win_id[MAXWIN];
static int nwin;

/* Same run-length encoding as Struct/Leak.v [run_push], on (region id, offset in window):
 * an access first tries to continue the current run inside one of its windows with the
 * run's region id; otherwise it starts a new run in the window where its offset is smallest
 * (a scan starts at offset 0 of its own table). */
static void
mtab_add(runlist_t *L, uint64_t la, unsigned size)
{
        int best = -1;
        uint64_t best_off = 0;

        for (int i = 0; i < nwin; i++) {
                if (la < win_lo[i] || la >= win_hi[i])
                        continue;
                const uint64_t off = la - win_lo[i];

                if (L->n > 0) {
                        run_t *r = &L->v[L->n - 1];

                        if (r->sym == win_id[i] && r->size == size) {
                                if (r->count == 1 && off >= r->off) {
                                        r->stride = (int64_t) (off - r->off);
                                        r->count = 2;
                                        return;
                                }
                                if (r->count > 1 &&
                                    (int64_t) off == (int64_t) r->off + (int64_t) r->count * r->stride) {
                                        r->count++;
                                        return;
                                }
                        }
                }
                if (best < 0 || off < best_off) {
                        best = i;
                        best_off = off;
                }
        }
        if (best < 0)
                return;
        if (L->n == L->cap) {
                L->cap = L->cap ? L->cap * 2 : 1024;
                L->v = realloc(L->v, L->cap * sizeof(run_t));
                if (L->v == NULL)
                        exit(3);
        }
        L->v[L->n++] = (run_t){ win_id[best], best_off, size, 1, 0 };
}

int
main(int argc, char **argv)
{
        if (argc < 2) {
                fprintf(stderr, "usage: k7_trace <symfile> [--dump idx file]...\n");
                return 2;
        }
        FILE *sf = fopen(argv[1], "r");
        char line[512];

        if (sf == NULL)
                return 2;
        size_t cap = 0;

        while (fgets(line, sizeof(line), sf) != NULL) {
                unsigned long long a, b;
                char nm[256];
                int tid;

                if (sscanf(line, "REF %llx", &a) == 1)
                        ref_link = a;
                else if (sscanf(line, "RODATA %llx %llx", &a, &b) == 2) {
                        ro_lo = a;
                        ro_hi = b;
                } else if (sscanf(line, "TABLE %d %llx %llx", &tid, &a, &b) == 3) {
                        if (nwin < MAXWIN) {
                                win_id[nwin] = tid;
                                win_lo[nwin] = a;
                                win_hi[nwin] = b;
                                nwin++;
                        }
                } else if (sscanf(line, "SYM %llx %255s", &a, nm) == 2) {
                        if ((size_t) nsyms == cap) {
                                cap = cap ? cap * 2 : 256;
                                syms = realloc(syms, cap * sizeof(sym_t));
                        }
                        syms[nsyms].addr = a;
                        snprintf(syms[nsyms].name, sizeof(syms[nsyms].name), "%.63s", nm);
                        nsyms++;
                }
        }
        fclose(sf);

        long dump_idx[16];
        FILE *dump_f[16];
        int ndump = 0;

        for (int i = 2; i + 2 < argc + 0 && ndump < 16; i += 3) {
                if (strcmp(argv[i], "--dump") != 0)
                        break;
                dump_idx[ndump] = atol(argv[i + 1]);
                dump_f[ndump] = fopen(argv[i + 2], "w");
                if (dump_f[ndump] == NULL)
                        return 2;
                ndump++;
        }

        int in_seg = 0, pending_num = -1, nib = 0;
        long seg = 0;
        uint64_t ni = 0, nl = 0, ns = 0, nm = 0, ntab = 0;
        uint64_t ih = 0, dh = 0, th = 0;
        FILE *df = NULL;
        int64_t slide = 0; /* runtime - link */
        uint64_t ring_lo = 0, ring_hi = 0, ring_stride = 1;

        while (fgets(line, sizeof(line), stdin) != NULL) {
                char kind;
                const char *p = line;
                unsigned long long addr;
                unsigned size;

                if (line[0] == '=' || line[0] == '\n')
                        continue;
                if (line[0] == 'I') {
                        kind = 'I';
                        p = line + 1;
                } else if (line[0] == ' ' && (line[1] == 'L' || line[1] == 'S' || line[1] == 'M')) {
                        kind = line[1];
                        p = line + 2;
                } else {
                        continue;
                }
                if (sscanf(p, " %llx,%u", &addr, &size) != 2)
                        continue;
                if (kind != 'I' && addr >= MARK && addr < MARK + 4096) {
                        const uint64_t o = addr - MARK;

                        if (o == 0x00) {
                                in_seg = 1;
                                ni = nl = ns = nm = ntab = 0;
                                ih = dh = th = 0xcbf29ce484222325ULL;
                                tab_runs.n = 0;
                                mtab_runs.n = 0;
                                df = NULL;
                                for (int i = 0; i < ndump; i++)
                                        if (dump_idx[i] == seg)
                                                df = dump_f[i];
                                if (num_have[0])
                                        slide = (int64_t) num[0] - (int64_t) ref_link;
                                if (num_have[1] && num_have[2] && num_have[3]) {
                                        ring_lo = num[1];
                                        ring_stride = num[2] ? num[2] : 1;
                                        ring_hi = num[1] + num[2] * num[3];
                                }
                        } else if (o == 0x08 && in_seg) {
                                in_seg = 0;
                                printf("SEG %ld ni=%llu nl=%llu ns=%llu nm=%llu ihash=%016llx "
                                       "dhash=%016llx ntab=%llu thash=%016llx\n",
                                       seg, (unsigned long long) ni, (unsigned long long) nl,
                                       (unsigned long long) ns, (unsigned long long) nm,
                                       (unsigned long long) ih, (unsigned long long) dh,
                                       (unsigned long long) ntab, (unsigned long long) th);
                                printf("TAB %ld", seg);
                                for (size_t i = 0; i < tab_runs.n; i++) {
                                        const run_t *r = &tab_runs.v[i];

                                        printf(" %s+%llu/%u*%llu@%lld",
                                               r->sym >= 0 ? syms[r->sym].name : "?",
                                               (unsigned long long) r->off, r->size,
                                               (unsigned long long) r->count, (long long) r->stride);
                                }
                                printf("\n");
                                printf("MTAB %ld", seg);
                                for (size_t i = 0; i < mtab_runs.n; i++) {
                                        const run_t *r = &mtab_runs.v[i];

                                        printf(" %d:%llu/%u*%llu@%lld", r->sym,
                                               (unsigned long long) r->off, r->size,
                                               (unsigned long long) r->count, (long long) r->stride);
                                }
                                printf("\n");
                                fflush(stdout);
                                seg++;
                        } else if (o >= 0x10 && o < 0x10 + 8 * 8) {
                                pending_num = (int) ((o - 0x10) / 8);
                                num[pending_num] = 0;
                                nib = 0;
                        } else if (o >= 0x100 && o < 0x100 + 8 * 16 && pending_num >= 0) {
                                num[pending_num] = (num[pending_num] << 4) | ((o - 0x100) / 8);
                                if (++nib == 16) {
                                        num_have[pending_num] = 1;
                                        pending_num = -1;
                                }
                        }
                        continue;
                }
                if (!in_seg)
                        continue;
                if (kind == 'I') {
                        ni++;
                        ih = fnv(fnv(ih, addr), size);
                        if (df != NULL)
                                fprintf(df, "I %llx %u\n", (unsigned long long) (addr - slide), size);
                        continue;
                }
                if (kind == 'L')
                        nl++;
                else if (kind == 'S')
                        ns++;
                else
                        nm++;
                uint64_t a = addr;
                char tagc = 'A';

                if (a >= ring_lo && a < ring_hi) {
                        a = (a - ring_lo) % ring_stride;
                        tagc = 'R';
                }
                dh = fnv(fnv(fnv(fnv(dh, (uint64_t) kind), (uint64_t) tagc), a), size);
                const uint64_t la = addr - slide;

                if (tagc == 'A' && la >= ro_lo && la < ro_hi) {
                        const int s = find_sym(la);
                        const uint64_t off = s >= 0 ? la - syms[s].addr : la;

                        ntab++;
                        th = fnv(fnv(fnv(th, (uint64_t) (s + 1)), off), size);
                        run_add(&tab_runs, s, off, size);
                        if (kind == 'L')
                                mtab_add(&mtab_runs, la, size);
                        if (df != NULL)
                                fprintf(df, "%c %s+%llu %u\n", kind, s >= 0 ? syms[s].name : "?",
                                        (unsigned long long) off, size);
                } else if (df != NULL) {
                        fprintf(df, "%c %c%llx %u\n", kind, tagc, (unsigned long long) a, size);
                }
        }
        for (int i = 0; i < ndump; i++)
                fclose(dump_f[i]);
        printf("END segments=%ld\n", seg);
        return 0;
}
