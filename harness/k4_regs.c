/* K4 -- dynamic cross-check of the C18 translator (T5) and of assumption A1.
 *
 * Two instruments, both driven by the same workload (all suites x lane states x variants):
 *
 *  1. API level (k4_tramp.S): every call into the library is made through a trampoline that
 *     loads sentinels into rbx, rbp, r12-r15 and records rsp / DF / MXCSR before and after.
 *       OK fn=<name> suite=<..> variant=<..>
 *       CLOBBER <reg> fn=<name> suite=<..> variant=<..> ...
 *
 *  2. Function level (--trace FILE): FILE lists "<hex offset in the .so> <hex mask of preserved
 *     registers> <mxcsr kept 0/1> <name>" for the hand-written functions (from T5's index + nm).
 *     An int3 is planted on every listed entry; the SIGTRAP handler records all sixteen GPRs,
 *     MXCSR and DF, redirects the return address to k4_ret_thunk (another int3) and, when the
 *     function returns, compares what its T5 summary promises (and rsp = entry rsp + 8, DF = 0).
 *     This validates the per-function summaries -- including the internal kernels that
 *     deliberately clobber callee-saved registers -- on real executions, whereas the API level
 *     alone could be masked by a C caller that happens to save the same register.
 *
 * Exit code 0 iff no clobber was seen.  (C18; see coq/X86/C18_NOTES.md)
 */
#define _GNU_SOURCE
#include <stdio.h>
#include <stdlib.h>
#include <stdint.h>
#include <string.h>
#include <signal.h>
#include <ucontext.h>
#include <unistd.h>
#include <link.h>
#include <sys/mman.h>
#include <intel-ipsec-mb.h>

/* ------------------------------------------------------------------------------------------ */
/* trampoline                                                                                  */
/* ------------------------------------------------------------------------------------------ */
struct k4_rec {
        uint64_t rbx, rbp, r12, r13, r14, r15;
        uint64_t rsp_before, rsp_after;
        uint64_t fl_before, fl_after;
        uint32_t mx_before, mx_after;
        uint64_t ret;
};
extern uint64_t k4_call(struct k4_rec *rec, void *fn, const uint64_t args[12]);
extern void k4_ret_thunk(void);

#define S_RBX 0x1111111111111b0bULL
#define S_RBP 0x2222222222222b0bULL
#define S_R12 0x3333333333333b0bULL
#define S_R13 0x4444444444444b0bULL
#define S_R14 0x5555555555555b0bULL
#define S_R15 0x6666666666666b0bULL

static int quiet;
static unsigned long n_calls, n_clobbers, n_trace_checks, n_trace_clobbers, n_bad_status, n_jobs_done;
static const char *cur_variant = "-", *cur_suite = "-", *cur_fn = "-";
static const char *only_suite;

static void
clobber(const char *what, const char *fn, uint64_t exp, uint64_t got)
{
        n_clobbers++;
        printf("CLOBBER %s fn=%s suite=%s variant=%s expected=%016llx got=%016llx\n", what, fn, cur_suite,
               cur_variant, (unsigned long long) exp, (unsigned long long) got);
}

static uint64_t
tcall(const char *fn, void *fp, uint64_t a0, uint64_t a1, uint64_t a2, uint64_t a3, uint64_t a4,
      uint64_t a5, uint64_t a6, uint64_t a7, uint64_t a8, uint64_t a9, uint64_t a10)
{
        struct k4_rec r;
        const uint64_t args[12] = { a0, a1, a2, a3, a4, a5, a6, a7, a8, a9, a10, 0 };
        const unsigned long before = n_clobbers;
        uint64_t ret;

        memset(&r, 0, sizeof(r));
        cur_fn = fn;
        ret = k4_call(&r, fp, args);
        n_calls++;
        if (r.rbx != S_RBX)
                clobber("rbx", fn, S_RBX, r.rbx);
        if (r.rbp != S_RBP)
                clobber("rbp", fn, S_RBP, r.rbp);
        if (r.r12 != S_R12)
                clobber("r12", fn, S_R12, r.r12);
        if (r.r13 != S_R13)
                clobber("r13", fn, S_R13, r.r13);
        if (r.r14 != S_R14)
                clobber("r14", fn, S_R14, r.r14);
        if (r.r15 != S_R15)
                clobber("r15", fn, S_R15, r.r15);
        if (r.rsp_after != r.rsp_before)
                clobber("rsp", fn, r.rsp_before, r.rsp_after);
        if (r.fl_after & 0x400)
                clobber("DF", fn, 0, 1);
        if (r.mx_after != r.mx_before)
                clobber((r.mx_after ^ r.mx_before) & 0xffc0 ? "MXCSR" : "MXCSR(status-bits)", fn, r.mx_before,
                        r.mx_after);
        if (!quiet && before == n_clobbers)
                printf("OK fn=%s suite=%s variant=%s\n", fn, cur_suite, cur_variant);
        return ret;
}
#define T1(n, f, a) tcall(n, (void *) (f), (uint64_t) (a), 0, 0, 0, 0, 0, 0, 0, 0, 0, 0)
#define T2(n, f, a, b) tcall(n, (void *) (f), (uint64_t) (a), (uint64_t) (b), 0, 0, 0, 0, 0, 0, 0, 0, 0)
#define T3(n, f, a, b, c) tcall(n, (void *) (f), (uint64_t) (a), (uint64_t) (b), (uint64_t) (c), 0, 0, 0, 0, 0, 0, 0, 0)
#define T4(n, f, a, b, c, d)                                                                       \
        tcall(n, (void *) (f), (uint64_t) (a), (uint64_t) (b), (uint64_t) (c), (uint64_t) (d), 0, 0, 0, 0, 0, 0, 0)
#define T5(n, f, a, b, c, d, e)                                                                    \
        tcall(n, (void *) (f), (uint64_t) (a), (uint64_t) (b), (uint64_t) (c), (uint64_t) (d), (uint64_t) (e), 0, 0, 0, \
              0, 0, 0)
#define T6(n, f, a, b, c, d, e, g)                                                                 \
        tcall(n, (void *) (f), (uint64_t) (a), (uint64_t) (b), (uint64_t) (c), (uint64_t) (d), (uint64_t) (e),        \
              (uint64_t) (g), 0, 0, 0, 0, 0)
#define T10(n, f, a, b, c, d, e, g, h, i, j, k)                                                    \
        tcall(n, (void *) (f), (uint64_t) (a), (uint64_t) (b), (uint64_t) (c), (uint64_t) (d), (uint64_t) (e),        \
              (uint64_t) (g), (uint64_t) (h), (uint64_t) (i), (uint64_t) (j), (uint64_t) (k), 0)

/* ------------------------------------------------------------------------------------------ */
/* breakpoint tracer                                                                           */
/* ------------------------------------------------------------------------------------------ */
struct bp {
        uint8_t *addr;
        uint8_t orig;
        uint32_t mask;
        int mxk;
        char name[96];
        unsigned long hits, bad;
};
static struct bp *bps;
static size_t n_bps;
static struct bp *rearm;
static unsigned long hit_cap = 2000;

struct shadow {
        struct bp *bp;
        uint64_t ret, rsp;
        uint64_t g[16];
        uint32_t mxcsr;
};
#define SHADOW_MAX 512
static struct shadow sh[SHADOW_MAX];
static int shp;

static const int greg_of[16] = { REG_RAX, REG_RCX, REG_RDX, REG_RBX, REG_RSP, REG_RBP, REG_RSI, REG_RDI,
                                 REG_R8,  REG_R9,  REG_R10, REG_R11, REG_R12, REG_R13, REG_R14, REG_R15 };
static const char *const gname[16] = { "rax", "rcx", "rdx", "rbx", "rsp", "rbp", "rsi", "rdi",
                                       "r8",  "r9",  "r10", "r11", "r12", "r13", "r14", "r15" };

static struct bp *
find_bp(const uint8_t *a)
{
        size_t lo = 0, hi = n_bps;

        while (lo < hi) {
                const size_t mid = (lo + hi) / 2;

                if (bps[mid].addr == a)
                        return &bps[mid];
                if (bps[mid].addr < a)
                        lo = mid + 1;
                else
                        hi = mid;
        }
        return NULL;
}

static void
trace_clobber(const struct bp *b, const char *what, uint64_t exp, uint64_t got)
{
        n_trace_clobbers++;
        n_clobbers++;
        printf("CLOBBER %s fn=%s suite=%s variant=%s via=%s expected=%016llx got=%016llx (function level)\n", what,
               b->name, cur_suite, cur_variant, cur_fn, (unsigned long long) exp, (unsigned long long) got);
}

static void
on_trap(int sig, siginfo_t *si, void *ucv)
{
        ucontext_t *uc = (ucontext_t *) ucv;
        greg_t *g = uc->uc_mcontext.gregs;
        uint8_t *rip = (uint8_t *) g[REG_RIP];

        (void) sig;
        if (si->si_code == TRAP_TRACE) {
                /* single step over the first instruction of a traced function: re-arm its breakpoint */
                if (rearm != NULL) {
                        /* a function that has been checked hit_cap times is left alone afterwards
                         * (the constant-time lookup helpers are called millions of times) */
                        if (rearm->hits < hit_cap)
                                *rearm->addr = 0xCC;
                        rearm = NULL;
                }
                g[REG_EFL] &= ~0x100LL;
                return;
        }
        if (rip - 1 == (uint8_t *) k4_ret_thunk) {
                struct shadow *s;
                int r;

                if (shp <= 0) {
                        fprintf(stderr, "k4: return thunk hit with an empty shadow stack\n");
                        _exit(3);
                }
                s = &sh[--shp];
                n_trace_checks++;
                if ((uint64_t) g[REG_RSP] != s->rsp + 8) {
                        trace_clobber(s->bp, "rsp", s->rsp + 8, (uint64_t) g[REG_RSP]);
                        s->bp->bad++;
                }
                for (r = 0; r < 16; r++) {
                        if (r == 4 || !(s->bp->mask >> r & 1))
                                continue;
                        if ((uint64_t) g[greg_of[r]] != s->g[r]) {
                                trace_clobber(s->bp, gname[r], s->g[r], (uint64_t) g[greg_of[r]]);
                                s->bp->bad++;
                        }
                }
                if (g[REG_EFL] & 0x400) {
                        trace_clobber(s->bp, "DF", 0, 1);
                        s->bp->bad++;
                }
                if (s->bp->mxk && uc->uc_mcontext.fpregs != NULL && uc->uc_mcontext.fpregs->mxcsr != s->mxcsr) {
                        trace_clobber(s->bp, "MXCSR", s->mxcsr, uc->uc_mcontext.fpregs->mxcsr);
                        s->bp->bad++;
                }
                g[REG_RIP] = (greg_t) s->ret;
                g[REG_RSP] = (greg_t) (s->rsp + 8); /* keep going even if the callee lost rsp */
                return;
        }
        {
                struct bp *b = find_bp(rip - 1);
                struct shadow *s;
                int r;

                if (b == NULL) {
                        fprintf(stderr, "k4: unexpected SIGTRAP at %p\n", (void *) rip);
                        _exit(3);
                }
                if (shp >= SHADOW_MAX) {
                        fprintf(stderr, "k4: shadow stack overflow\n");
                        _exit(3);
                }
                b->hits++;
                s = &sh[shp++];
                s->bp = b;
                s->rsp = (uint64_t) g[REG_RSP];
                s->ret = *(uint64_t *) s->rsp;
                for (r = 0; r < 16; r++)
                        s->g[r] = (uint64_t) g[greg_of[r]];
                s->mxcsr = uc->uc_mcontext.fpregs != NULL ? uc->uc_mcontext.fpregs->mxcsr : 0;
                if (g[REG_EFL] & 0x400)
                        trace_clobber(b, "DF-at-entry", 0, 1);
                *(uint64_t *) s->rsp = (uint64_t) k4_ret_thunk;
                *b->addr = b->orig;
                g[REG_RIP] = (greg_t) b->addr;
                g[REG_EFL] |= 0x100; /* TF: single step, then re-arm */
                rearm = b;
        }
}

/* a crash inside the library (e.g. after a callee left DF set or lost rsp) must not lose the lines
 * already produced */
static void
on_fatal(int sig)
{
        printf("CRASH signal=%d fn=%s suite=%s variant=%s\n", sig, cur_fn, cur_suite, cur_variant);
        printf("SUMMARY calls=%lu clobbers=%lu jobs=%lu bad_status=%lu\n", n_calls, n_clobbers, n_jobs_done,
               n_bad_status);
        fflush(stdout);
        _exit(4);
}

static uintptr_t lib_base;
static int
phdr_cb(struct dl_phdr_info *info, size_t size, void *data)
{
        (void) size;
        (void) data;
        if (info->dlpi_name != NULL && strstr(info->dlpi_name, "libIPSec_MB") != NULL)
                lib_base = (uintptr_t) info->dlpi_addr;
        return 0;
}

static int
cmp_bp(const void *a, const void *b)
{
        const struct bp *x = a, *y = b;

        return x->addr < y->addr ? -1 : x->addr > y->addr;
}

static int
trace_setup(const char *path, const char *only_fn)
{
        FILE *f = fopen(path, "r");
        char line[256];
        size_t cap = 0, i;
        struct sigaction sa;
        const long pg = sysconf(_SC_PAGESIZE);

        if (f == NULL) {
                perror(path);
                return -1;
        }
        dl_iterate_phdr(phdr_cb, NULL);
        if (lib_base == 0) {
                fprintf(stderr, "k4: libIPSec_MB not found among the loaded objects\n");
                return -1;
        }
        while (fgets(line, sizeof(line), f) != NULL) {
                unsigned long off, mask;
                int mxk;
                char name[96];

                if (sscanf(line, "%lx %lx %d %95s", &off, &mask, &mxk, name) != 4)
                        continue;
                if (only_fn != NULL && strcmp(only_fn, name) != 0)
                        continue;
                if (n_bps == cap) {
                        cap = cap ? cap * 2 : 256;
                        bps = realloc(bps, cap * sizeof(*bps));
                }
                memset(&bps[n_bps], 0, sizeof(bps[0]));
                bps[n_bps].addr = (uint8_t *) (lib_base + off);
                bps[n_bps].mask = (uint32_t) mask;
                bps[n_bps].mxk = mxk;
                strcpy(bps[n_bps].name, name);
                n_bps++;
        }
        fclose(f);
        qsort(bps, n_bps, sizeof(*bps), cmp_bp);
        /* drop aliases (same address): keep the first */
        {
                size_t w = 0;

                for (i = 0; i < n_bps; i++)
                        if (w == 0 || bps[w - 1].addr != bps[i].addr)
                                bps[w++] = bps[i];
                n_bps = w;
        }
        memset(&sa, 0, sizeof(sa));
        sa.sa_sigaction = on_trap;
        sa.sa_flags = SA_SIGINFO | SA_NODEFER;
        sigemptyset(&sa.sa_mask);
        if (sigaction(SIGTRAP, &sa, NULL) != 0) {
                perror("sigaction");
                return -1;
        }
        for (i = 0; i < n_bps; i++) {
                uint8_t *page = (uint8_t *) ((uintptr_t) bps[i].addr & ~(uintptr_t) (pg - 1));

                if (mprotect(page, (size_t) pg, PROT_READ | PROT_WRITE | PROT_EXEC) != 0) {
                        perror("mprotect");
                        return -1;
                }
                bps[i].orig = *bps[i].addr;
                *bps[i].addr = 0xCC;
        }
        fprintf(stderr, "k4: tracing %zu function entries (library base %#lx)\n", n_bps, (unsigned long) lib_base);
        return 0;
}

/* ------------------------------------------------------------------------------------------ */
/* test data                                                                                   */
/* ------------------------------------------------------------------------------------------ */
#define NSLOT 48
#define BUFSZ 1024
#define PAD 64

static struct slot {
        uint8_t buf[PAD + BUFSZ + PAD];
        uint8_t out[PAD + BUFSZ + PAD];
        uint8_t tag[64];
        uint8_t iv[32];
        uint8_t next_iv[16];
        uint8_t aad[64];
} slots[NSLOT] __attribute__((aligned(64)));

static struct keys {
        uint8_t raw[64];
        uint32_t enc[15 * 4 + 16] __attribute__((aligned(16)));
        uint32_t dec[15 * 4 + 16] __attribute__((aligned(16)));
        uint32_t k1[15 * 4 + 16] __attribute__((aligned(16)));
        uint8_t k2[32] __attribute__((aligned(16)));
        uint8_t k3[32] __attribute__((aligned(16)));
        uint8_t ipad[IMB_SHA_512_BLOCK_SIZE] __attribute__((aligned(16)));
        uint8_t opad[IMB_SHA_512_BLOCK_SIZE] __attribute__((aligned(16)));
        uint64_t des[16 * 2];
        const void *des3[3];
        struct gcm_key_data gkey;
        uint8_t sched[1024] __attribute__((aligned(16))); /* kasumi / snow3g key schedules */
        uint8_t sched2[1024] __attribute__((aligned(16)));
} K;

static uint64_t rng_s = 0x9E3779B97F4A7C15ULL;
static uint64_t
rnd(void)
{
        uint64_t z;

        rng_s += 0x9E3779B97F4A7C15ULL;
        z = rng_s;
        z = (z ^ (z >> 30)) * 0xBF58476D1CE4E5B9ULL;
        z = (z ^ (z >> 27)) * 0x94D049BB133111EBULL;
        return z ^ (z >> 31);
}
static void
fill_rnd(void *p, size_t n)
{
        uint8_t *b = p;
        size_t i;

        for (i = 0; i < n; i++)
                b[i] = (uint8_t) rnd();
}

/* ------------------------------------------------------------------------------------------ */
/* suites                                                                                      */
/* ------------------------------------------------------------------------------------------ */
struct suite {
        const char *name;
        IMB_CIPHER_MODE cipher;
        IMB_HASH_ALG hash;
        unsigned key_len;
        IMB_CIPHER_DIRECTION dir;
        unsigned gran; /* message length granularity in bytes */
        unsigned tag;  /* tag length */
        unsigned minlen;
};

#define ENC IMB_DIR_ENCRYPT
#define DEC IMB_DIR_DECRYPT
static const struct suite suites[] = {
        { "AES-CBC-128-ENC", IMB_CIPHER_CBC, IMB_AUTH_NULL, 16, ENC, 16, 0, 16 },
        { "AES-CBC-128-DEC", IMB_CIPHER_CBC, IMB_AUTH_NULL, 16, DEC, 16, 0, 16 },
        { "AES-CBC-192-ENC", IMB_CIPHER_CBC, IMB_AUTH_NULL, 24, ENC, 16, 0, 16 },
        { "AES-CBC-192-DEC", IMB_CIPHER_CBC, IMB_AUTH_NULL, 24, DEC, 16, 0, 16 },
        { "AES-CBC-256-ENC", IMB_CIPHER_CBC, IMB_AUTH_NULL, 32, ENC, 16, 0, 16 },
        { "AES-CBC-256-DEC", IMB_CIPHER_CBC, IMB_AUTH_NULL, 32, DEC, 16, 0, 16 },
        { "AES-CTR-128-ENC", IMB_CIPHER_CNTR, IMB_AUTH_NULL, 16, ENC, 1, 0, 1 },
        { "AES-CTR-128-DEC", IMB_CIPHER_CNTR, IMB_AUTH_NULL, 16, DEC, 1, 0, 1 },
        { "AES-CTR-192-ENC", IMB_CIPHER_CNTR, IMB_AUTH_NULL, 24, ENC, 1, 0, 1 },
        { "AES-CTR-192-DEC", IMB_CIPHER_CNTR, IMB_AUTH_NULL, 24, DEC, 1, 0, 1 },
        { "AES-CTR-256-ENC", IMB_CIPHER_CNTR, IMB_AUTH_NULL, 32, ENC, 1, 0, 1 },
        { "AES-CTR-256-DEC", IMB_CIPHER_CNTR, IMB_AUTH_NULL, 32, DEC, 1, 0, 1 },
        { "AES-CTR-BITLEN-128", IMB_CIPHER_CNTR_BITLEN, IMB_AUTH_NULL, 16, ENC, 1, 0, 2 },
        { "AES-ECB-128-ENC", IMB_CIPHER_ECB, IMB_AUTH_NULL, 16, ENC, 16, 0, 16 },
        { "AES-ECB-128-DEC", IMB_CIPHER_ECB, IMB_AUTH_NULL, 16, DEC, 16, 0, 16 },
        { "AES-ECB-192-ENC", IMB_CIPHER_ECB, IMB_AUTH_NULL, 24, ENC, 16, 0, 16 },
        { "AES-ECB-192-DEC", IMB_CIPHER_ECB, IMB_AUTH_NULL, 24, DEC, 16, 0, 16 },
        { "AES-ECB-256-ENC", IMB_CIPHER_ECB, IMB_AUTH_NULL, 32, ENC, 16, 0, 16 },
        { "AES-ECB-256-DEC", IMB_CIPHER_ECB, IMB_AUTH_NULL, 32, DEC, 16, 0, 16 },
        { "AES-CFB-128-ENC", IMB_CIPHER_CFB, IMB_AUTH_NULL, 16, ENC, 16, 0, 16 },
        { "AES-CFB-128-DEC", IMB_CIPHER_CFB, IMB_AUTH_NULL, 16, DEC, 16, 0, 16 },
        { "AES-CFB-256-ENC", IMB_CIPHER_CFB, IMB_AUTH_NULL, 32, ENC, 16, 0, 16 },
        { "AES-CFB-256-DEC", IMB_CIPHER_CFB, IMB_AUTH_NULL, 32, DEC, 16, 0, 16 },
        { "AES-CBCS-1-9-ENC", IMB_CIPHER_CBCS_1_9, IMB_AUTH_NULL, 16, ENC, 16, 0, 16 },
        { "AES-CBCS-1-9-DEC", IMB_CIPHER_CBCS_1_9, IMB_AUTH_NULL, 16, DEC, 16, 0, 16 },
        { "DOCSIS-SEC-128-ENC", IMB_CIPHER_DOCSIS_SEC_BPI, IMB_AUTH_NULL, 16, ENC, 1, 0, 1 },
        { "DOCSIS-SEC-128-DEC", IMB_CIPHER_DOCSIS_SEC_BPI, IMB_AUTH_NULL, 16, DEC, 1, 0, 1 },
        { "DOCSIS-SEC-256-ENC", IMB_CIPHER_DOCSIS_SEC_BPI, IMB_AUTH_NULL, 32, ENC, 1, 0, 1 },
        { "DOCSIS-SEC-256-DEC", IMB_CIPHER_DOCSIS_SEC_BPI, IMB_AUTH_NULL, 32, DEC, 1, 0, 1 },
        { "DOCSIS-SEC-128-CRC32-ENC", IMB_CIPHER_DOCSIS_SEC_BPI, IMB_AUTH_DOCSIS_CRC32, 16, ENC, 1, 4, 24 },
        { "DOCSIS-SEC-128-CRC32-DEC", IMB_CIPHER_DOCSIS_SEC_BPI, IMB_AUTH_DOCSIS_CRC32, 16, DEC, 1, 4, 24 },
        { "DOCSIS-SEC-256-CRC32-ENC", IMB_CIPHER_DOCSIS_SEC_BPI, IMB_AUTH_DOCSIS_CRC32, 32, ENC, 1, 4, 24 },
        { "DOCSIS-SEC-256-CRC32-DEC", IMB_CIPHER_DOCSIS_SEC_BPI, IMB_AUTH_DOCSIS_CRC32, 32, DEC, 1, 4, 24 },
        { "DES-CBC-ENC", IMB_CIPHER_DES, IMB_AUTH_NULL, 8, ENC, 8, 0, 8 },
        { "DES-CBC-DEC", IMB_CIPHER_DES, IMB_AUTH_NULL, 8, DEC, 8, 0, 8 },
        { "3DES-CBC-ENC", IMB_CIPHER_DES3, IMB_AUTH_NULL, 24, ENC, 8, 0, 8 },
        { "3DES-CBC-DEC", IMB_CIPHER_DES3, IMB_AUTH_NULL, 24, DEC, 8, 0, 8 },
        { "DOCSIS-DES-ENC", IMB_CIPHER_DOCSIS_DES, IMB_AUTH_NULL, 8, ENC, 1, 0, 1 },
        { "DOCSIS-DES-DEC", IMB_CIPHER_DOCSIS_DES, IMB_AUTH_NULL, 8, DEC, 1, 0, 1 },
        { "CHACHA20-ENC", IMB_CIPHER_CHACHA20, IMB_AUTH_NULL, 32, ENC, 1, 0, 1 },
        { "CHACHA20-DEC", IMB_CIPHER_CHACHA20, IMB_AUTH_NULL, 32, DEC, 1, 0, 1 },
        { "ZUC-EEA3", IMB_CIPHER_ZUC_EEA3, IMB_AUTH_NULL, 16, ENC, 1, 0, 1 },
        { "ZUC256-EEA3", IMB_CIPHER_ZUC_EEA3, IMB_AUTH_NULL, 32, ENC, 1, 0, 1 },
        { "SNOW3G-UEA2", IMB_CIPHER_SNOW3G_UEA2_BITLEN, IMB_AUTH_NULL, 16, ENC, 1, 0, 1 },
        { "KASUMI-UEA1", IMB_CIPHER_KASUMI_UEA1_BITLEN, IMB_AUTH_NULL, 16, ENC, 1, 0, 1 },
        { "SNOW-V", IMB_CIPHER_SNOW_V, IMB_AUTH_NULL, 32, ENC, 1, 0, 1 },
        { "SM4-ECB-ENC", IMB_CIPHER_SM4_ECB, IMB_AUTH_NULL, 16, ENC, 16, 0, 16 },
        { "SM4-ECB-DEC", IMB_CIPHER_SM4_ECB, IMB_AUTH_NULL, 16, DEC, 16, 0, 16 },
        { "SM4-CBC-ENC", IMB_CIPHER_SM4_CBC, IMB_AUTH_NULL, 16, ENC, 16, 0, 16 },
        { "SM4-CBC-DEC", IMB_CIPHER_SM4_CBC, IMB_AUTH_NULL, 16, DEC, 16, 0, 16 },
        { "SM4-CTR", IMB_CIPHER_SM4_CNTR, IMB_AUTH_NULL, 16, ENC, 1, 0, 1 },
        /* AEAD */
        { "AES-GCM-128-ENC", IMB_CIPHER_GCM, IMB_AUTH_AES_GMAC, 16, ENC, 1, 16, 1 },
        { "AES-GCM-128-DEC", IMB_CIPHER_GCM, IMB_AUTH_AES_GMAC, 16, DEC, 1, 16, 1 },
        { "AES-GCM-192-ENC", IMB_CIPHER_GCM, IMB_AUTH_AES_GMAC, 24, ENC, 1, 16, 1 },
        { "AES-GCM-192-DEC", IMB_CIPHER_GCM, IMB_AUTH_AES_GMAC, 24, DEC, 1, 16, 1 },
        { "AES-GCM-256-ENC", IMB_CIPHER_GCM, IMB_AUTH_AES_GMAC, 32, ENC, 1, 16, 1 },
        { "AES-GCM-256-DEC", IMB_CIPHER_GCM, IMB_AUTH_AES_GMAC, 32, DEC, 1, 16, 1 },
        { "AES-CCM-128-ENC", IMB_CIPHER_CCM, IMB_AUTH_AES_CCM, 16, ENC, 1, 16, 1 },
        { "AES-CCM-128-DEC", IMB_CIPHER_CCM, IMB_AUTH_AES_CCM, 16, DEC, 1, 16, 1 },
        { "AES-CCM-256-ENC", IMB_CIPHER_CCM, IMB_AUTH_AES_CCM, 32, ENC, 1, 16, 1 },
        { "AES-CCM-256-DEC", IMB_CIPHER_CCM, IMB_AUTH_AES_CCM, 32, DEC, 1, 16, 1 },
        { "CHACHA20-POLY1305-ENC", IMB_CIPHER_CHACHA20_POLY1305, IMB_AUTH_CHACHA20_POLY1305, 32, ENC, 1, 16, 1 },
        { "CHACHA20-POLY1305-DEC", IMB_CIPHER_CHACHA20_POLY1305, IMB_AUTH_CHACHA20_POLY1305, 32, DEC, 1, 16, 1 },
        { "SNOW-V-AEAD-ENC", IMB_CIPHER_SNOW_V_AEAD, IMB_AUTH_SNOW_V_AEAD, 32, ENC, 1, 16, 1 },
        { "SNOW-V-AEAD-DEC", IMB_CIPHER_SNOW_V_AEAD, IMB_AUTH_SNOW_V_AEAD, 32, DEC, 1, 16, 1 },
        { "SM4-GCM-ENC", IMB_CIPHER_SM4_GCM, IMB_AUTH_SM4_GCM, 16, ENC, 1, 16, 1 },
        { "SM4-GCM-DEC", IMB_CIPHER_SM4_GCM, IMB_AUTH_SM4_GCM, 16, DEC, 1, 16, 1 },
        /* hash only */
        { "HMAC-SHA1", IMB_CIPHER_NULL, IMB_AUTH_HMAC_SHA_1, 0, ENC, 1, 12, 1 },
        { "HMAC-SHA224", IMB_CIPHER_NULL, IMB_AUTH_HMAC_SHA_224, 0, ENC, 1, 14, 1 },
        { "HMAC-SHA256", IMB_CIPHER_NULL, IMB_AUTH_HMAC_SHA_256, 0, ENC, 1, 16, 1 },
        { "HMAC-SHA384", IMB_CIPHER_NULL, IMB_AUTH_HMAC_SHA_384, 0, ENC, 1, 24, 1 },
        { "HMAC-SHA512", IMB_CIPHER_NULL, IMB_AUTH_HMAC_SHA_512, 0, ENC, 1, 32, 1 },
        { "HMAC-MD5", IMB_CIPHER_NULL, IMB_AUTH_MD5, 0, ENC, 1, 12, 1 },
        { "HMAC-SM3", IMB_CIPHER_NULL, IMB_AUTH_HMAC_SM3, 0, ENC, 1, 32, 1 },
        { "SHA1", IMB_CIPHER_NULL, IMB_AUTH_SHA_1, 0, ENC, 1, 20, 1 },
        { "SHA224", IMB_CIPHER_NULL, IMB_AUTH_SHA_224, 0, ENC, 1, 28, 1 },
        { "SHA256", IMB_CIPHER_NULL, IMB_AUTH_SHA_256, 0, ENC, 1, 32, 1 },
        { "SHA384", IMB_CIPHER_NULL, IMB_AUTH_SHA_384, 0, ENC, 1, 48, 1 },
        { "SHA512", IMB_CIPHER_NULL, IMB_AUTH_SHA_512, 0, ENC, 1, 64, 1 },
        { "SM3", IMB_CIPHER_NULL, IMB_AUTH_SM3, 0, ENC, 1, 32, 1 },
        { "AES-XCBC", IMB_CIPHER_NULL, IMB_AUTH_AES_XCBC, 0, ENC, 1, 12, 1 },
        { "AES-CMAC", IMB_CIPHER_NULL, IMB_AUTH_AES_CMAC, 0, ENC, 1, 16, 1 },
        { "AES-CMAC-BITLEN", IMB_CIPHER_NULL, IMB_AUTH_AES_CMAC_BITLEN, 0, ENC, 1, 4, 2 },
        { "AES-CMAC-256", IMB_CIPHER_NULL, IMB_AUTH_AES_CMAC_256, 0, ENC, 1, 16, 1 },
        { "AES-GMAC-128", IMB_CIPHER_NULL, IMB_AUTH_AES_GMAC_128, 0, ENC, 1, 16, 1 },
        { "AES-GMAC-192", IMB_CIPHER_NULL, IMB_AUTH_AES_GMAC_192, 0, ENC, 1, 16, 1 },
        { "AES-GMAC-256", IMB_CIPHER_NULL, IMB_AUTH_AES_GMAC_256, 0, ENC, 1, 16, 1 },
        { "GHASH", IMB_CIPHER_NULL, IMB_AUTH_GHASH, 0, ENC, 1, 16, 1 },
        { "POLY1305", IMB_CIPHER_NULL, IMB_AUTH_POLY1305, 0, ENC, 1, 16, 1 },
        { "ZUC-EIA3", IMB_CIPHER_NULL, IMB_AUTH_ZUC_EIA3_BITLEN, 0, ENC, 1, 4, 1 },
        { "ZUC256-EIA3", IMB_CIPHER_NULL, IMB_AUTH_ZUC256_EIA3_BITLEN, 0, ENC, 1, 4, 1 },
        { "SNOW3G-UIA2", IMB_CIPHER_NULL, IMB_AUTH_SNOW3G_UIA2_BITLEN, 0, ENC, 1, 4, 1 },
        { "KASUMI-UIA1", IMB_CIPHER_NULL, IMB_AUTH_KASUMI_UIA1, 0, ENC, 1, 4, 9 },
        { "CRC32-ETHERNET-FCS", IMB_CIPHER_NULL, IMB_AUTH_CRC32_ETHERNET_FCS, 0, ENC, 1, 4, 1 },
        { "CRC32-SCTP", IMB_CIPHER_NULL, IMB_AUTH_CRC32_SCTP, 0, ENC, 1, 4, 1 },
        { "CRC32-WIMAX-OFDMA", IMB_CIPHER_NULL, IMB_AUTH_CRC32_WIMAX_OFDMA_DATA, 0, ENC, 1, 4, 1 },
        { "CRC24-LTE-A", IMB_CIPHER_NULL, IMB_AUTH_CRC24_LTE_A, 0, ENC, 1, 4, 1 },
        { "CRC24-LTE-B", IMB_CIPHER_NULL, IMB_AUTH_CRC24_LTE_B, 0, ENC, 1, 4, 1 },
        { "CRC16-X25", IMB_CIPHER_NULL, IMB_AUTH_CRC16_X25, 0, ENC, 1, 4, 1 },
        { "CRC16-FP-DATA", IMB_CIPHER_NULL, IMB_AUTH_CRC16_FP_DATA, 0, ENC, 1, 4, 1 },
        { "CRC11-FP-HEADER", IMB_CIPHER_NULL, IMB_AUTH_CRC11_FP_HEADER, 0, ENC, 1, 4, 1 },
        { "CRC10-IUUP-DATA", IMB_CIPHER_NULL, IMB_AUTH_CRC10_IUUP_DATA, 0, ENC, 1, 4, 1 },
        { "CRC8-WIMAX-HCS", IMB_CIPHER_NULL, IMB_AUTH_CRC8_WIMAX_OFDMA_HCS, 0, ENC, 1, 4, 1 },
        { "CRC7-FP-HEADER", IMB_CIPHER_NULL, IMB_AUTH_CRC7_FP_HEADER, 0, ENC, 1, 4, 1 },
        { "CRC6-IUUP-HEADER", IMB_CIPHER_NULL, IMB_AUTH_CRC6_IUUP_HEADER, 0, ENC, 1, 4, 1 },
        /* cipher + hash */
        { "AES-CBC-128-HMAC-SHA1-ENC", IMB_CIPHER_CBC, IMB_AUTH_HMAC_SHA_1, 16, ENC, 16, 12, 16 },
        { "AES-CBC-128-HMAC-SHA1-DEC", IMB_CIPHER_CBC, IMB_AUTH_HMAC_SHA_1, 16, DEC, 16, 12, 16 },
        { "AES-CTR-128-HMAC-SHA256-ENC", IMB_CIPHER_CNTR, IMB_AUTH_HMAC_SHA_256, 16, ENC, 1, 16, 1 },
        { "AES-CBC-256-HMAC-SHA512-DEC", IMB_CIPHER_CBC, IMB_AUTH_HMAC_SHA_512, 32, DEC, 16, 32, 16 },
        { "AES-CTR-128-CMAC-ENC", IMB_CIPHER_CNTR, IMB_AUTH_AES_CMAC, 16, ENC, 1, 16, 1 },
        { "ZUC-EEA3-EIA3", IMB_CIPHER_ZUC_EEA3, IMB_AUTH_ZUC_EIA3_BITLEN, 16, ENC, 1, 4, 1 },
        { "SNOW3G-UEA2-UIA2", IMB_CIPHER_SNOW3G_UEA2_BITLEN, IMB_AUTH_SNOW3G_UIA2_BITLEN, 16, ENC, 1, 4, 1 },
        { "3DES-CBC-HMAC-MD5-ENC", IMB_CIPHER_DES3, IMB_AUTH_MD5, 24, ENC, 8, 12, 8 },
};
#define NSUITES (sizeof(suites) / sizeof(suites[0]))

static int
prepare_keys(IMB_MGR *mgr, const struct suite *s)
{
        fill_rnd(K.raw, sizeof(K.raw));
        switch (s->hash) {
        case IMB_AUTH_AES_XCBC:
                IMB_AES_XCBC_KEYEXP(mgr, K.raw + 32, K.k1, K.k2, K.k3);
                break;
        case IMB_AUTH_AES_CMAC:
        case IMB_AUTH_AES_CMAC_BITLEN:
                IMB_AES_KEYEXP_128(mgr, K.raw + 32, K.k1, K.dec);
                IMB_AES_CMAC_SUBKEY_GEN_128(mgr, K.k1, K.k2, K.k3);
                break;
        case IMB_AUTH_AES_CMAC_256:
                IMB_AES_KEYEXP_256(mgr, K.raw + 32, K.k1, K.dec);
                IMB_AES_CMAC_SUBKEY_GEN_256(mgr, K.k1, K.k2, K.k3);
                break;
        case IMB_AUTH_HMAC_SHA_1:
        case IMB_AUTH_HMAC_SHA_224:
        case IMB_AUTH_HMAC_SHA_256:
        case IMB_AUTH_HMAC_SHA_384:
        case IMB_AUTH_HMAC_SHA_512:
        case IMB_AUTH_HMAC_SM3:
        case IMB_AUTH_MD5:
                imb_hmac_ipad_opad(mgr, s->hash, K.raw + 32, 24, K.ipad, K.opad);
                break;
        case IMB_AUTH_ZUC_EIA3_BITLEN:
        case IMB_AUTH_ZUC256_EIA3_BITLEN:
                memcpy(K.k3, K.raw + 32, 32);
                break;
        case IMB_AUTH_SNOW3G_UIA2_BITLEN:
                IMB_SNOW3G_INIT_KEY_SCHED(mgr, K.raw + 32, (snow3g_key_schedule_t *) K.sched2);
                break;
        case IMB_AUTH_KASUMI_UIA1:
                IMB_KASUMI_INIT_F9_KEY_SCHED(mgr, K.raw + 32, (kasumi_key_sched_t *) K.sched2);
                break;
        case IMB_AUTH_AES_GMAC_128:
                IMB_AES128_GCM_PRE(mgr, K.raw + 32, &K.gkey);
                break;
        case IMB_AUTH_AES_GMAC_192:
                IMB_AES192_GCM_PRE(mgr, K.raw + 32, &K.gkey);
                break;
        case IMB_AUTH_AES_GMAC_256:
                IMB_AES256_GCM_PRE(mgr, K.raw + 32, &K.gkey);
                break;
        case IMB_AUTH_GHASH:
                IMB_GHASH_PRE(mgr, K.raw + 32, &K.gkey);
                break;
        case IMB_AUTH_POLY1305:
                memcpy(K.k1, K.raw + 32, 32);
                break;
        default:
                break;
        }
        switch (s->cipher) {
        case IMB_CIPHER_GCM:
                if (s->key_len == 16)
                        IMB_AES128_GCM_PRE(mgr, K.raw, &K.gkey);
                else if (s->key_len == 24)
                        IMB_AES192_GCM_PRE(mgr, K.raw, &K.gkey);
                else
                        IMB_AES256_GCM_PRE(mgr, K.raw, &K.gkey);
                break;
        case IMB_CIPHER_CBC:
        case IMB_CIPHER_CCM:
        case IMB_CIPHER_CNTR:
        case IMB_CIPHER_CNTR_BITLEN:
        case IMB_CIPHER_DOCSIS_SEC_BPI:
        case IMB_CIPHER_ECB:
        case IMB_CIPHER_CBCS_1_9:
        case IMB_CIPHER_CFB:
                if (s->key_len == 16)
                        IMB_AES_KEYEXP_128(mgr, K.raw, K.enc, K.dec);
                else if (s->key_len == 24)
                        IMB_AES_KEYEXP_192(mgr, K.raw, K.enc, K.dec);
                else
                        IMB_AES_KEYEXP_256(mgr, K.raw, K.enc, K.dec);
                break;
        case IMB_CIPHER_SM4_ECB:
        case IMB_CIPHER_SM4_CBC:
        case IMB_CIPHER_SM4_CNTR:
                IMB_SM4_KEYEXP(mgr, K.raw, K.enc, K.dec);
                break;
        case IMB_CIPHER_SM4_GCM:
                imb_sm4_gcm_pre(mgr, K.raw, &K.gkey);
                break;
        case IMB_CIPHER_DES:
        case IMB_CIPHER_DES3:
        case IMB_CIPHER_DOCSIS_DES:
                IMB_DES_KEYSCHED(mgr, K.des, K.raw);
                K.des3[0] = K.des3[1] = K.des3[2] = K.des;
                break;
        case IMB_CIPHER_SNOW3G_UEA2_BITLEN:
                IMB_SNOW3G_INIT_KEY_SCHED(mgr, K.raw, (snow3g_key_schedule_t *) K.sched);
                break;
        case IMB_CIPHER_KASUMI_UEA1_BITLEN:
                IMB_KASUMI_INIT_F8_KEY_SCHED(mgr, K.raw, (kasumi_key_sched_t *) K.sched);
                break;
        case IMB_CIPHER_ZUC_EEA3:
        case IMB_CIPHER_CHACHA20:
        case IMB_CIPHER_CHACHA20_POLY1305:
        case IMB_CIPHER_SNOW_V:
        case IMB_CIPHER_SNOW_V_AEAD:
                memcpy(K.k2, K.raw, 32);
                break;
        default:
                break;
        }
        return 0;
}

static void
fill_job(IMB_JOB *job, const struct suite *s, struct slot *sl, unsigned len, unsigned idx)
{
        uint64_t coff = 0;

        fill_rnd(sl->buf + PAD, len);
        fill_rnd(sl->iv, sizeof(sl->iv));
        fill_rnd(sl->aad, sizeof(sl->aad));
        job->user_data = (void *) (uintptr_t) idx;
        job->src = sl->buf + PAD;
        job->dst = sl->out + PAD;
        job->iv = sl->iv;
        job->auth_tag_output = sl->tag;
        job->auth_tag_output_len_in_bytes = s->tag;
        job->hash_start_src_offset_in_bytes = 0;
        job->msg_len_to_hash_in_bytes = len;
        job->msg_len_to_cipher_in_bytes = len;
        job->hash_alg = s->hash;
        job->cipher_mode = s->cipher;
        job->cipher_direction = s->dir;
        job->key_len_in_bytes = s->key_len;

        if (s->cipher == IMB_CIPHER_CNTR_BITLEN)
                job->msg_len_to_cipher_in_bits = (uint64_t) len * 8 - 3;

        if (s->hash == IMB_AUTH_DOCSIS_CRC32) {
                /* in place, as in xvalid */
                job->dst = sl->buf + PAD;
                if (len >= IMB_DOCSIS_CRC32_MIN_ETH_PDU_SIZE + IMB_DOCSIS_CRC32_TAG_SIZE) {
                        coff = IMB_DOCSIS_CRC32_MIN_ETH_PDU_SIZE - 2;
                        job->msg_len_to_cipher_in_bytes -= coff;
                        job->msg_len_to_hash_in_bytes -= IMB_DOCSIS_CRC32_TAG_SIZE;
                        job->dst = sl->buf + PAD + coff;
                }
        }

        switch (s->hash) {
        case IMB_AUTH_AES_XCBC:
                job->u.XCBC._k1_expanded = K.k1;
                job->u.XCBC._k2 = K.k2;
                job->u.XCBC._k3 = K.k3;
                break;
        case IMB_AUTH_AES_CMAC:
        case IMB_AUTH_AES_CMAC_256:
                job->u.CMAC._key_expanded = K.k1;
                job->u.CMAC._skey1 = K.k2;
                job->u.CMAC._skey2 = K.k3;
                break;
        case IMB_AUTH_AES_CMAC_BITLEN:
                job->u.CMAC._key_expanded = K.k1;
                job->u.CMAC._skey1 = K.k2;
                job->u.CMAC._skey2 = K.k3;
                job->msg_len_to_hash_in_bits = (uint64_t) len * 8 - 4;
                break;
        case IMB_AUTH_HMAC_SHA_1:
        case IMB_AUTH_HMAC_SHA_224:
        case IMB_AUTH_HMAC_SHA_256:
        case IMB_AUTH_HMAC_SHA_384:
        case IMB_AUTH_HMAC_SHA_512:
        case IMB_AUTH_HMAC_SM3:
        case IMB_AUTH_MD5:
                job->u.HMAC._hashed_auth_key_xor_ipad = K.ipad;
                job->u.HMAC._hashed_auth_key_xor_opad = K.opad;
                break;
        case IMB_AUTH_ZUC256_EIA3_BITLEN:
                job->u.ZUC_EIA3._key = K.k3;
                job->u.ZUC_EIA3._iv = sl->aad;
                job->u.ZUC_EIA3._iv23 = NULL;
                job->msg_len_to_hash_in_bits = (uint64_t) len * 8;
                break;
        case IMB_AUTH_ZUC_EIA3_BITLEN:
                job->u.ZUC_EIA3._key = K.k3;
                job->u.ZUC_EIA3._iv = sl->aad;
                job->msg_len_to_hash_in_bits = (uint64_t) len * 8;
                break;
        case IMB_AUTH_SNOW3G_UIA2_BITLEN:
                job->u.SNOW3G_UIA2._key = K.sched2;
                job->u.SNOW3G_UIA2._iv = sl->aad;
                job->msg_len_to_hash_in_bits = (uint64_t) len * 8;
                break;
        case IMB_AUTH_KASUMI_UIA1:
                job->u.KASUMI_UIA1._key = K.sched2;
                break;
        case IMB_AUTH_AES_GMAC_128:
        case IMB_AUTH_AES_GMAC_192:
        case IMB_AUTH_AES_GMAC_256:
                job->u.GMAC._key = &K.gkey;
                job->u.GMAC._iv = sl->aad;
                job->u.GMAC.iv_len_in_bytes = 12;
                break;
        case IMB_AUTH_GHASH:
                job->u.GHASH._key = &K.gkey;
                job->u.GHASH._init_tag = sl->aad;
                break;
        case IMB_AUTH_POLY1305:
                job->u.POLY1305._key = K.k1;
                break;
        case IMB_AUTH_CHACHA20_POLY1305:
                job->u.CHACHA20_POLY1305.aad_len_in_bytes = 12 + (idx & 7);
                job->u.CHACHA20_POLY1305.aad = sl->aad;
                break;
        case IMB_AUTH_SNOW_V_AEAD:
                job->u.SNOW_V_AEAD.aad_len_in_bytes = 16;
                job->u.SNOW_V_AEAD.aad = sl->aad;
                break;
        default:
                break;
        }

        if (s->cipher == IMB_CIPHER_NULL)
                job->chain_order = IMB_ORDER_HASH_CIPHER;
        else if (s->cipher == IMB_CIPHER_CCM ||
                 (s->cipher == IMB_CIPHER_DOCSIS_SEC_BPI && s->hash == IMB_AUTH_DOCSIS_CRC32))
                job->chain_order = s->dir == ENC ? IMB_ORDER_HASH_CIPHER : IMB_ORDER_CIPHER_HASH;
        else
                job->chain_order = s->dir == ENC ? IMB_ORDER_CIPHER_HASH : IMB_ORDER_HASH_CIPHER;
        job->cipher_start_src_offset_in_bytes = coff;

        switch (s->cipher) {
        case IMB_CIPHER_CBCS_1_9:
                job->cipher_fields.CBCS.next_iv = sl->next_iv;
                /* fall through */
        case IMB_CIPHER_SM4_CBC:
        case IMB_CIPHER_CBC:
        case IMB_CIPHER_DOCSIS_SEC_BPI:
                job->enc_keys = K.enc;
                job->dec_keys = K.dec;
                job->iv_len_in_bytes = 16;
                break;
        case IMB_CIPHER_SM4_CNTR:
        case IMB_CIPHER_CNTR:
        case IMB_CIPHER_CNTR_BITLEN:
        case IMB_CIPHER_CFB:
                job->enc_keys = K.enc;
                job->dec_keys = K.enc;
                job->iv_len_in_bytes = 16;
                break;
        case IMB_CIPHER_GCM:
        case IMB_CIPHER_SM4_GCM:
                job->enc_keys = &K.gkey;
                job->dec_keys = &K.gkey;
                job->u.GCM.aad_len_in_bytes = 12 + (idx & 7);
                job->u.GCM.aad = sl->aad;
                job->iv_len_in_bytes = 12;
                break;
        case IMB_CIPHER_CCM:
                job->u.CCM.aad_len_in_bytes = 8 + (idx & 7);
                job->u.CCM.aad = sl->aad;
                job->enc_keys = K.enc;
                job->dec_keys = K.enc;
                job->iv_len_in_bytes = 13;
                break;
        case IMB_CIPHER_DES:
        case IMB_CIPHER_DOCSIS_DES:
                job->enc_keys = K.des;
                job->dec_keys = K.des;
                job->iv_len_in_bytes = 8;
                break;
        case IMB_CIPHER_DES3:
                job->enc_keys = K.des3;
                job->dec_keys = K.des3;
                job->iv_len_in_bytes = 8;
                break;
        case IMB_CIPHER_ECB:
        case IMB_CIPHER_SM4_ECB:
                job->enc_keys = K.enc;
                job->dec_keys = K.dec;
                job->iv_len_in_bytes = 0;
                break;
        case IMB_CIPHER_ZUC_EEA3:
                job->enc_keys = K.k2;
                job->dec_keys = K.k2;
                job->iv_len_in_bytes = s->key_len == 16 ? 16 : 25;
                break;
        case IMB_CIPHER_SNOW3G_UEA2_BITLEN:
                job->enc_keys = K.sched;
                job->dec_keys = K.sched;
                job->iv_len_in_bytes = 16;
                job->msg_len_to_cipher_in_bits = (uint64_t) len * 8;
                job->cipher_start_src_offset_in_bits = 0;
                break;
        case IMB_CIPHER_KASUMI_UEA1_BITLEN:
                job->enc_keys = K.sched;
                job->dec_keys = K.sched;
                job->iv_len_in_bytes = 8;
                job->msg_len_to_cipher_in_bits = (uint64_t) len * 8;
                job->cipher_start_src_offset_in_bits = 0;
                break;
        case IMB_CIPHER_CHACHA20:
        case IMB_CIPHER_CHACHA20_POLY1305:
                job->enc_keys = K.k2;
                job->dec_keys = K.k2;
                job->iv_len_in_bytes = 12;
                break;
        case IMB_CIPHER_SNOW_V:
        case IMB_CIPHER_SNOW_V_AEAD:
                job->enc_keys = K.k2;
                job->dec_keys = K.k2;
                job->iv_len_in_bytes = 16;
                break;
        default:
                break;
        }
}

static unsigned
pick_len(const struct suite *s, unsigned i)
{
        static const unsigned base[] = { 64, 16, 256, 48, 1, 333, 128, 17, 96, 512, 31, 80, 15, 640, 33, 192 };
        unsigned len = base[(i * 7 + (unsigned) (rnd() & 3)) % 16];

        if (len < s->minlen)
                len = s->minlen;
        if (s->gran > 1) {
                len = (len + s->gran - 1) / s->gran * s->gran;
                if (len == 0)
                        len = s->gran;
        }
        if (len > BUFSZ)
                len = BUFSZ;
        return len;
}

static void
account(IMB_JOB *job)
{
        if (job == NULL)
                return;
        n_jobs_done++;
        if (job->status != IMB_STATUS_COMPLETED) {
                static const char *last;

                n_bad_status++;
                if (last != cur_suite)
                        fprintf(stderr, "k4: WARN job status %d suite=%s variant=%s\n", (int) job->status, cur_suite,
                                cur_variant);
                last = cur_suite;
        }
}

/* submit n jobs of the suite (through the trampoline), draining completed jobs as they appear */
static void
submit_n(IMB_MGR *mgr, const struct suite *s, unsigned n, unsigned *slot_ctr)
{
        unsigned i;

        for (i = 0; i < n; i++) {
                IMB_JOB *job = (IMB_JOB *) T1("IMB_GET_NEXT_JOB", mgr->get_next_job, mgr);
                struct slot *sl = &slots[(*slot_ctr)++ % NSLOT];
                IMB_JOB *r;

                fill_job(job, s, sl, pick_len(s, i), i);
                r = (IMB_JOB *) T1("IMB_SUBMIT_JOB", mgr->submit_job, mgr);
                if (r == NULL && imb_get_errno(mgr) != 0) {
                        static const char *last;

                        n_bad_status++;
                        if (last != cur_suite)
                                fprintf(stderr, "k4: WARN submit error %d (%s) suite=%s variant=%s\n", imb_get_errno(mgr),
                                        imb_get_strerror(imb_get_errno(mgr)), cur_suite, cur_variant);
                        last = cur_suite;
                }
                account(r);
                (void) T1("IMB_QUEUE_SIZE", mgr->queue_size, mgr);
                while (r != NULL) {
                        r = (IMB_JOB *) T1("IMB_GET_COMPLETED_JOB", mgr->get_completed_job, mgr);
                        account(r);
                }
        }
}

static void
flush_all(IMB_MGR *mgr)
{
        IMB_JOB *r;

        do {
                r = (IMB_JOB *) T1("IMB_FLUSH_JOB", mgr->flush_job, mgr);
                account(r);
                (void) T1("IMB_QUEUE_SIZE", mgr->queue_size, mgr);
        } while (r != NULL);
}

static void
run_suite(IMB_MGR *mgr, const struct suite *s, int quick)
{
        unsigned slot_ctr = 0, occ;
        const unsigned max_occ = 16;

        cur_suite = s->name;
        prepare_keys(mgr, s);
        /* (a) submit that parks / (b) submits that fill every lane and trigger processing */
        submit_n(mgr, s, quick ? 20 : 36, &slot_ctr);
        /* get_completed on whatever is ready, then flush the rest */
        account((IMB_JOB *) T1("IMB_GET_COMPLETED_JOB", mgr->get_completed_job, mgr));
        flush_all(mgr);
        /* (c) flush at every occupancy */
        for (occ = 1; occ <= max_occ; occ += (quick && occ >= 4) ? 4 : 1) {
                slot_ctr = 0;
                submit_n(mgr, s, occ, &slot_ctr);
                flush_all(mgr);
        }
        /* also the no-check submit entry and flush on an empty manager */
        {
                IMB_JOB *job = (IMB_JOB *) T1("IMB_GET_NEXT_JOB", mgr->get_next_job, mgr);

                fill_job(job, s, &slots[0], pick_len(s, 3), 0);
                account((IMB_JOB *) T1("IMB_SUBMIT_JOB_NOCHECK", mgr->submit_job_nocheck, mgr));
                flush_all(mgr);
                account((IMB_JOB *) T1("IMB_FLUSH_JOB(empty)", mgr->flush_job, mgr));
        }
}

/* ------------------------------------------------------------------------------------------ */
/* direct API                                                                                  */
/* ------------------------------------------------------------------------------------------ */
static void
run_direct(IMB_MGR *mgr)
{
        static uint8_t in[512] __attribute__((aligned(64))), out[512] __attribute__((aligned(64)));
        static uint8_t key[64], iv[32], aad[32], tag[64];
        static uint32_t ek[64] __attribute__((aligned(16))), dk[64] __attribute__((aligned(16)));
        static uint8_t k1[256] __attribute__((aligned(16))), k2[32] __attribute__((aligned(16))),
                k3[32] __attribute__((aligned(16)));
        static struct gcm_key_data gk;
        static struct gcm_context_data gctx;
        static struct chacha20_poly1305_context_data cctx;
        static uint64_t ks[32];
        static uint8_t sched[1024] __attribute__((aligned(16)));
        static uint8_t ipad[128], opad[128];
        unsigned i;

        cur_suite = "direct";
        fill_rnd(in, sizeof(in));
        fill_rnd(key, sizeof(key));
        fill_rnd(iv, sizeof(iv));
        fill_rnd(aad, sizeof(aad));

        T3("keyexp_128", mgr->keyexp_128, key, ek, dk);
        T3("keyexp_192", mgr->keyexp_192, key, ek, dk);
        T3("keyexp_256", mgr->keyexp_256, key, ek, dk);
        T3("keyexp_128", mgr->keyexp_128, key, ek, dk);
        T3("cmac_subkey_gen_128", mgr->cmac_subkey_gen_128, ek, k2, k3);
        T3("keyexp_256", mgr->keyexp_256, key, ek, dk);
        T3("cmac_subkey_gen_256", mgr->cmac_subkey_gen_256, ek, k2, k3);
        T4("xcbc_keyexp", mgr->xcbc_keyexp, key, k1, k2, k3);
        T2("des_key_sched", mgr->des_key_sched, ks, key);
        T3("sm4_keyexp", mgr->sm4_keyexp, key, ek, dk);
        T2("sha1_one_block", mgr->sha1_one_block, in, out);
        T2("sha224_one_block", mgr->sha224_one_block, in, out);
        T2("sha256_one_block", mgr->sha256_one_block, in, out);
        T2("sha384_one_block", mgr->sha384_one_block, in, out);
        T2("sha512_one_block", mgr->sha512_one_block, in, out);
        T2("md5_one_block", mgr->md5_one_block, in, out);
        for (i = 0; i < 3; i++) {
                static const unsigned lens[3] = { 1, 64, 300 };

                T3("sha1", mgr->sha1, in, lens[i], out);
                T3("sha224", mgr->sha224, in, lens[i], out);
                T3("sha256", mgr->sha256, in, lens[i], out);
                T3("sha384", mgr->sha384, in, lens[i], out);
                T3("sha512", mgr->sha512, in, lens[i], out);
        }
        {
                static const IMB_HASH_ALG algs[] = { IMB_AUTH_HMAC_SHA_1,   IMB_AUTH_HMAC_SHA_224, IMB_AUTH_HMAC_SHA_256,
                                                     IMB_AUTH_HMAC_SHA_384, IMB_AUTH_HMAC_SHA_512, IMB_AUTH_MD5,
                                                     IMB_AUTH_HMAC_SM3 };

                for (i = 0; i < sizeof(algs) / sizeof(algs[0]); i++) {
                        T6("imb_hmac_ipad_opad", imb_hmac_ipad_opad, mgr, algs[i], key, 20, ipad, opad);
                        T6("imb_hmac_ipad_opad(long key)", imb_hmac_ipad_opad, mgr, algs[i], in, 200, ipad, opad);
                }
        }
        T5("aes128_cfb_one", mgr->aes128_cfb_one, out, in, iv, ek, 11);
        T5("aes256_cfb_one", mgr->aes256_cfb_one, out, in, iv, ek, 11);
        /* GCM */
        {
                const aes_gcm_pre_t pre[3] = { mgr->gcm128_pre, mgr->gcm192_pre, mgr->gcm256_pre };
                const aes_gcm_precomp_t precomp[3] = { mgr->gcm128_precomp, mgr->gcm192_precomp, mgr->gcm256_precomp };
                const aes_gcm_enc_dec_t enc[3] = { mgr->gcm128_enc, mgr->gcm192_enc, mgr->gcm256_enc };
                const aes_gcm_enc_dec_t dec[3] = { mgr->gcm128_dec, mgr->gcm192_dec, mgr->gcm256_dec };
                const aes_gcm_init_t init[3] = { mgr->gcm128_init, mgr->gcm192_init, mgr->gcm256_init };
                const aes_gcm_init_var_iv_t initv[3] = { mgr->gcm128_init_var_iv, mgr->gcm192_init_var_iv,
                                                         mgr->gcm256_init_var_iv };
                const aes_gcm_enc_dec_update_t eu[3] = { mgr->gcm128_enc_update, mgr->gcm192_enc_update,
                                                         mgr->gcm256_enc_update };
                const aes_gcm_enc_dec_update_t du[3] = { mgr->gcm128_dec_update, mgr->gcm192_dec_update,
                                                         mgr->gcm256_dec_update };
                const aes_gcm_enc_dec_finalize_t ef[3] = { mgr->gcm128_enc_finalize, mgr->gcm192_enc_finalize,
                                                           mgr->gcm256_enc_finalize };
                const aes_gcm_enc_dec_finalize_t df[3] = { mgr->gcm128_dec_finalize, mgr->gcm192_dec_finalize,
                                                           mgr->gcm256_dec_finalize };
                const aes_gmac_init_t gi[3] = { mgr->gmac128_init, mgr->gmac192_init, mgr->gmac256_init };
                const aes_gmac_update_t gu[3] = { mgr->gmac128_update, mgr->gmac192_update, mgr->gmac256_update };
                const aes_gmac_finalize_t gf[3] = { mgr->gmac128_finalize, mgr->gmac192_finalize, mgr->gmac256_finalize };
                static const char *const kn[3] = { "128", "192", "256" };
                char nm[64];
                unsigned k;

                for (k = 0; k < 3; k++) {
                        static const unsigned lens[4] = { 1, 16, 100, 400 };
                        unsigned l;

                        snprintf(nm, sizeof(nm), "gcm%s_pre", kn[k]);
                        T2(nm, pre[k], key, &gk);
                        snprintf(nm, sizeof(nm), "gcm%s_precomp", kn[k]);
                        T1(nm, precomp[k], &gk);
                        for (l = 0; l < 4; l++) {
                                snprintf(nm, sizeof(nm), "gcm%s_enc", kn[k]);
                                T10(nm, enc[k], &gk, &gctx, out, in, lens[l], iv, aad, 20, tag, 16);
                                snprintf(nm, sizeof(nm), "gcm%s_dec", kn[k]);
                                T10(nm, dec[k], &gk, &gctx, out, in, lens[l], iv, aad, 20, tag, 16);
                        }
                        snprintf(nm, sizeof(nm), "gcm%s_init", kn[k]);
                        T5(nm, init[k], &gk, &gctx, iv, aad, 20);
                        snprintf(nm, sizeof(nm), "gcm%s_enc_update", kn[k]);
                        T5(nm, eu[k], &gk, &gctx, out, in, 100);
                        T5(nm, eu[k], &gk, &gctx, out + 100, in + 100, 33);
                        snprintf(nm, sizeof(nm), "gcm%s_enc_finalize", kn[k]);
                        T4(nm, ef[k], &gk, &gctx, tag, 16);
                        snprintf(nm, sizeof(nm), "gcm%s_init_var_iv", kn[k]);
                        T6(nm, initv[k], &gk, &gctx, iv, 16, aad, 20);
                        snprintf(nm, sizeof(nm), "gcm%s_dec_update", kn[k]);
                        T5(nm, du[k], &gk, &gctx, out, in, 100);
                        T5(nm, du[k], &gk, &gctx, out + 100, in + 100, 33);
                        snprintf(nm, sizeof(nm), "gcm%s_dec_finalize", kn[k]);
                        T4(nm, df[k], &gk, &gctx, tag, 16);
                        snprintf(nm, sizeof(nm), "gmac%s_init", kn[k]);
                        T4(nm, gi[k], &gk, &gctx, iv, 12);
                        snprintf(nm, sizeof(nm), "gmac%s_update", kn[k]);
                        T4(nm, gu[k], &gk, &gctx, in, 77);
                        snprintf(nm, sizeof(nm), "gmac%s_finalize", kn[k]);
                        T4(nm, gf[k], &gk, &gctx, tag, 16);
                }
                T2("ghash_pre", mgr->ghash_pre, key, &gk);
                T5("ghash", mgr->ghash, &gk, in, 100, tag, 16);
        }
        /* ChaCha20-Poly1305 direct */
        T5("chacha20_poly1305_init", mgr->chacha20_poly1305_init, key, &cctx, iv, aad, 20);
        T5("chacha20_poly1305_enc_update", mgr->chacha20_poly1305_enc_update, key, &cctx, out, in, 100);
        T5("chacha20_poly1305_enc_update", mgr->chacha20_poly1305_enc_update, key, &cctx, out + 100, in + 100, 65);
        T3("chacha20_poly1305_finalize", mgr->chacha20_poly1305_finalize, &cctx, tag, 16);
        T5("chacha20_poly1305_init", mgr->chacha20_poly1305_init, key, &cctx, iv, aad, 20);
        T5("chacha20_poly1305_dec_update", mgr->chacha20_poly1305_dec_update, key, &cctx, out, in, 130);
        T3("chacha20_poly1305_finalize", mgr->chacha20_poly1305_finalize, &cctx, tag, 16);
        /* CRC */
        {
                const crc32_fn_t fns[12] = { mgr->crc32_ethernet_fcs,  mgr->crc16_x25,          mgr->crc32_sctp,
                                             mgr->crc24_lte_a,         mgr->crc24_lte_b,        mgr->crc16_fp_data,
                                             mgr->crc11_fp_header,     mgr->crc7_fp_header,     mgr->crc10_iuup_data,
                                             mgr->crc6_iuup_header,    mgr->crc32_wimax_ofdma_data,
                                             mgr->crc8_wimax_ofdma_hcs };
                static const char *const nms[12] = { "crc32_ethernet_fcs", "crc16_x25",        "crc32_sctp",
                                                     "crc24_lte_a",        "crc24_lte_b",      "crc16_fp_data",
                                                     "crc11_fp_header",    "crc7_fp_header",   "crc10_iuup_data",
                                                     "crc6_iuup_header",   "crc32_wimax_ofdma_data",
                                                     "crc8_wimax_ofdma_hcs" };
                static const unsigned lens[5] = { 1, 15, 16, 100, 500 };
                unsigned l;

                for (i = 0; i < 12; i++)
                        for (l = 0; l < 5; l++)
                                T2(nms[i], fns[i], in, lens[l]);
        }
        T1("hec_32", mgr->hec_32, in);
        T1("hec_64", mgr->hec_64, in);
        /* wireless direct */
        T5("eea3_1_buffer", mgr->eea3_1_buffer, key, iv, in, out, 100);
        T5("eia3_1_buffer", mgr->eia3_1_buffer, key, iv, in, 800, tag);
        T2("snow3g_init_key_sched", mgr->snow3g_init_key_sched, key, sched);
        T5("snow3g_f8_1_buffer", mgr->snow3g_f8_1_buffer, sched, iv, in, out, 100);
        T5("snow3g_f9_1_buffer", mgr->snow3g_f9_1_buffer, sched, iv, in, 800, tag);
        T2("kasumi_init_f8_key_sched", mgr->kasumi_init_f8_key_sched, key, sched);
        T5("kasumi_f8_1_buffer", mgr->f8_1_buffer, sched, 0x0123456789abcdefULL, in, out, 100);
        T2("kasumi_init_f9_key_sched", mgr->kasumi_init_f9_key_sched, key, sched);
        T4("kasumi_f9_1_buffer", mgr->f9_1_buffer, sched, in, 100, tag);
        /* QUIC helpers */
        {
                const void *srcs[4] = { in, in + 16, in + 32, in + 48 };
                void *dsts[4] = { out, out + 16, out + 32, out + 48 };

                T4("aes_ecb_128_quic", mgr->aes_ecb_128_quic, srcs, ek, dsts, 4);
                T4("aes_ecb_256_quic", mgr->aes_ecb_256_quic, srcs, ek, dsts, 4);
                T6("imb_quic_hp_aes_ecb", imb_quic_hp_aes_ecb, mgr, ek, dsts, srcs, 4, IMB_KEY_128_BYTES);
                T4("chacha20_hp_quic", mgr->chacha20_hp_quic, key, srcs, dsts, 4);
        }
        T2("imb_clear_mem", imb_clear_mem, out, sizeof(out));
        T2("imb_clear_mem(0)", imb_clear_mem, out, 0);
}

/* ------------------------------------------------------------------------------------------ */
struct variant {
        const char *name;
        void (*init)(IMB_MGR *);
        uint64_t flags;
        const char *cpu;
};

int
main(int argc, char **argv)
{
        static const struct variant variants[] = {
                { "sse", init_mb_mgr_sse, 0, "sse4.2" },
                { "sse-shani-off", init_mb_mgr_sse, IMB_FLAG_SHANI_OFF, "sse4.2" },
                { "sse-gfni-off", init_mb_mgr_sse, IMB_FLAG_GFNI_OFF, "sse4.2" },
                { "avx2", init_mb_mgr_avx2, 0, "avx2" },
                { "avx2-shani-off", init_mb_mgr_avx2, IMB_FLAG_SHANI_OFF, "avx2" },
                { "avx2-gfni-off", init_mb_mgr_avx2, IMB_FLAG_GFNI_OFF, "avx2" },
                { "avx512", init_mb_mgr_avx512, 0, "avx512f" },
                { "avx512-shani-off", init_mb_mgr_avx512, IMB_FLAG_SHANI_OFF, "avx512f" },
                { "avx512-gfni-off", init_mb_mgr_avx512, IMB_FLAG_GFNI_OFF, "avx512f" },
        };
        const char *trace = NULL, *only_fn = NULL, *only_variant = NULL;
        int quick = 0, i, no_direct = 0;
        size_t v, s;

        for (i = 1; i < argc; i++) {
                if (strcmp(argv[i], "--quiet") == 0)
                        quiet = 1;
                else if (strcmp(argv[i], "--quick") == 0)
                        quick = 1;
                else if (strcmp(argv[i], "--no-direct") == 0)
                        no_direct = 1;
                else if (strcmp(argv[i], "--trace") == 0 && i + 1 < argc)
                        trace = argv[++i];
                else if (strcmp(argv[i], "--only-fn") == 0 && i + 1 < argc)
                        only_fn = argv[++i];
                else if (strcmp(argv[i], "--suite") == 0 && i + 1 < argc)
                        only_suite = argv[++i];
                else if (strcmp(argv[i], "--variant") == 0 && i + 1 < argc)
                        only_variant = argv[++i];
                else if (strcmp(argv[i], "--hit-cap") == 0 && i + 1 < argc)
                        hit_cap = strtoul(argv[++i], NULL, 0);
                else if (strcmp(argv[i], "--seed") == 0 && i + 1 < argc)
                        rng_s ^= strtoull(argv[++i], NULL, 0) * 0x2545F4914F6CDD1DULL;
                else {
                        fprintf(stderr,
                                "usage: %s [--quiet] [--quick] [--trace FILE [--only-fn NAME]] [--suite SUBSTR] "
                                "[--variant NAME] [--no-direct] [--hit-cap N] [--seed N]\n",
                                argv[0]);
                        return 2;
                }
        }
        setvbuf(stdout, NULL, _IOFBF, 1 << 16);
        signal(SIGSEGV, on_fatal);
        signal(SIGBUS, on_fatal);
        signal(SIGILL, on_fatal);
        signal(SIGFPE, on_fatal);
        __builtin_cpu_init();
        if (trace != NULL && trace_setup(trace, only_fn) != 0)
                return 2;

        for (v = 0; v < sizeof(variants) / sizeof(variants[0]); v++) {
                IMB_MGR *mgr;
                int ok;

                if (only_variant != NULL && strcmp(only_variant, variants[v].name) != 0)
                        continue;
                if (strcmp(variants[v].cpu, "avx512f") == 0)
                        ok = __builtin_cpu_supports("avx512f") && __builtin_cpu_supports("avx512bw") &&
                             __builtin_cpu_supports("avx512vl") && __builtin_cpu_supports("avx512dq");
                else if (strcmp(variants[v].cpu, "avx2") == 0)
                        ok = __builtin_cpu_supports("avx2");
                else
                        ok = __builtin_cpu_supports("sse4.2");
                if (!ok) {
                        fprintf(stderr, "k4: variant %s skipped (CPU lacks %s)\n", variants[v].name, variants[v].cpu);
                        continue;
                }
                cur_variant = variants[v].name;
                cur_suite = "init";
                mgr = alloc_mb_mgr(variants[v].flags);
                if (mgr == NULL) {
                        fprintf(stderr, "k4: alloc_mb_mgr failed\n");
                        return 2;
                }
                T1("init_mb_mgr", variants[v].init, mgr);
                if (imb_get_errno(mgr) != 0) {
                        fprintf(stderr, "k4: variant %s: init error %s\n", variants[v].name,
                                imb_get_strerror(imb_get_errno(mgr)));
                        free_mb_mgr(mgr);
                        continue;
                }
                for (s = 0; s < NSUITES; s++) {
                        if (only_suite != NULL && strstr(suites[s].name, only_suite) == NULL)
                                continue;
                        run_suite(mgr, &suites[s], quick);
                }
                if (!no_direct && (only_suite == NULL || strstr("direct", only_suite) != NULL))
                        run_direct(mgr);
                free_mb_mgr(mgr);
        }

        if (trace != NULL) {
                size_t hit = 0, b;

                for (b = 0; b < n_bps; b++)
                        if (bps[b].hits)
                                hit++;
                printf("TRACE functions=%zu hit=%zu checks=%lu clobbers=%lu\n", n_bps, hit, n_trace_checks,
                       n_trace_clobbers);
                for (b = 0; b < n_bps; b++)
                        printf("TRACEFN %s hits=%lu bad=%lu\n", bps[b].name, bps[b].hits, bps[b].bad);
                if (shp != 0)
                        printf("TRACE-WARN shadow stack not empty at exit (%d)\n", shp);
        }
        printf("SUMMARY calls=%lu clobbers=%lu jobs=%lu bad_status=%lu\n", n_calls, n_clobbers, n_jobs_done,
               n_bad_status);
        fflush(stdout);
        return n_clobbers ? 1 : 0;
}
