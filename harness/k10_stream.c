/*
 * K10 (C10): streaming / scatter-gather correspondence harness.
 *
 * Reads cases from a file, runs each on every distinct implementation variant and
 * prints, AFTER EVERY LIBRARY CALL, a canonical dump of the public context
 * structure, then the concatenated output and the tag.  The extracted Coq model
 * (ocaml/stream_driver.ml) prints the same lines; checks/c10.py diffs them.
 *
 * Usage: k10_stream <casefile> [--variant <name>] [--list-variants]
 *
 * Case line (key=value tokens, any order, hex strings, "-" = empty):
 *   id=<n> alg=chacha|gcm|gmac form=<form> dir=1|2 key=<hex> iv=<hex> aad=<hex>
 *   msg=<hex> segs=<l1,l2,..|-> taglen=<n> inplace=0|1
 * forms:
 *   chacha: job    INIT(seg0) UPDATE(seg1..k-2) COMPLETE(seg k-1); k = 1: INIT(seg0) COMPLETE(empty)
 *           jobu   INIT(empty) UPDATE(every seg) COMPLETE(empty)
 *           all    one job, IMB_SGL_ALL with an IMB_SGL_IOV array
 *           direct IMB_CHACHA20_POLY1305_INIT / ENC|DEC_UPDATE per seg / ENC|DEC_FINALIZE
 *           oneshot  plain IMB_CIPHER_CHACHA20_POLY1305 job over the whole message (oracle)
 *   gcm:    job    INIT, UPDATE(every seg), COMPLETE   (GCM INIT/COMPLETE carry no data)
 *           all    IMB_SGL_ALL
 *           direct IMB_AESxxx_GCM_INIT (12-byte IV) or _INIT_VAR_IV (other lengths), updates, finalize
 *           directv  always _INIT_VAR_IV
 *           oneshot  plain IMB_CIPHER_GCM job
 *   gmac:   direct IMB_AESxxx_GMAC_INIT / _UPDATE per seg / _FINALIZE
 *           oneshot  IMB_AUTH_AES_GMAC_xxx job
 * segs must sum to the message length (not checked for "oneshot").
 *
 * Output (one line each):
 *   C id= var= call=<i> op=<name> len=<n> st=<job status|-> err=<errno> | <context dump>
 *   R id= var= out=<hex> tag=<hex>
 * ChaCha dump: hash=<130-bit value mod 2^130-5, 17 bytes LE hex> aad_len= hash_len= rks= rct= lbc=
 *              ks=<last remain_ks_bytes bytes of last_ks> scr=<first remain_ct_bytes of poly_scratch>
 *              pkey=<poly_key 32 bytes> iv=<12 bytes> [clean=<last_ks and poly_key all zero> on final ops]
 * GCM dump:    aad_hash=<16> aad_len= in_len= pbl= pbk=<partial_block_enc_key[pbl..16) if pbl>0 (GCM only) else ->
 *              ctr=<16> oiv=<16>
 */
#include <stdio.h>
#include <stdlib.h>
#include <string.h>
#include <sys/mman.h>
#include <signal.h>
#include <unistd.h>
#include <stdint.h>
#include <intel-ipsec-mb.h>
#include "imbh.h"

#define MAXSEG 64

typedef struct {
        long id;
        char alg[12], form[12];
        int dir, taglen, inplace;
        imbh_bytes key, iv, aad, msg;
        int nseg;
        uint64_t seg[MAXSEG];
} kcase;

static int
tok_get(const char *line, const char *name, const char **val, size_t *len)
{
        const size_t nl = strlen(name);
        const char *p = line;

        while (*p) {
                while (*p == ' ' || *p == '\t')
                        p++;
                const char *e = p;

                while (*e && *e != ' ' && *e != '\t' && *e != '\n' && *e != '\r')
                        e++;
                if ((size_t) (e - p) > nl && strncmp(p, name, nl) == 0 && p[nl] == '=') {
                        *val = p + nl + 1;
                        *len = (size_t) (e - p) - nl - 1;
                        return 1;
                }
                if (*e == 0 || *e == '\n' || *e == '\r')
                        break;
                p = e;
        }
        return 0;
}

static int
parse_case(const char *line, kcase *c)
{
        const char *v;
        size_t l;

        memset(c, 0, sizeof(*c));
        c->dir = 1;
        c->taglen = 16;
        if (!tok_get(line, "id", &v, &l))
                return -1;
        c->id = strtol(v, NULL, 0);
        if (!tok_get(line, "alg", &v, &l) || l >= sizeof(c->alg))
                return -1;
        memcpy(c->alg, v, l);
        if (!tok_get(line, "form", &v, &l) || l >= sizeof(c->form))
                return -1;
        memcpy(c->form, v, l);
        if (tok_get(line, "dir", &v, &l))
                c->dir = (int) strtol(v, NULL, 0);
        if (tok_get(line, "taglen", &v, &l))
                c->taglen = (int) strtol(v, NULL, 0);
        if (tok_get(line, "inplace", &v, &l))
                c->inplace = (int) strtol(v, NULL, 0);
        if (tok_get(line, "key", &v, &l) && imbh_hex_parse(v, l, &c->key))
                return -1;
        if (tok_get(line, "iv", &v, &l) && imbh_hex_parse(v, l, &c->iv))
                return -1;
        if (tok_get(line, "aad", &v, &l) && imbh_hex_parse(v, l, &c->aad))
                return -1;
        if (tok_get(line, "msg", &v, &l) && imbh_hex_parse(v, l, &c->msg))
                return -1;
        if (tok_get(line, "segs", &v, &l) && !(l == 1 && v[0] == '-')) {
                const char *p = v, *e = v + l;

                while (p < e && c->nseg < MAXSEG) {
                        char *q;

                        c->seg[c->nseg++] = strtoull(p, &q, 10);
                        if (q == p)
                                return -1;
                        p = q;
                        if (p < e && *p == ',')
                                p++;
                }
                if (p < e)
                        return -1;
        }
        if (c->taglen < 1 || c->taglen > 16)
                return -1;
        return 0;
}

static void
free_case(kcase *c)
{
        free(c->key.p);
        free(c->iv.p);
        free(c->aad.p);
        free(c->msg.p);
}

/* ------------------------------------------------------------------------- */

static void
hex(FILE *f, const uint8_t *p, size_t n)
{
        imbh_hex_print(f, p, n);
}

/* value of the three 64-bit limbs (radix 2^64, partially reduced) modulo 2^130-5 */
static void
poly_canon(const uint64_t h[3], uint8_t out[17])
{
        uint64_t a0 = h[0], a1 = h[1], a2 = h[2];
        unsigned __int128 t;

        for (int k = 0; k < 2; k++) {
                const uint64_t hi = a2 >> 2;

                a2 &= 3;
                t = (unsigned __int128) a0 + (unsigned __int128) hi * 5;
                a0 = (uint64_t) t;
                t >>= 64;
                t += a1;
                a1 = (uint64_t) t;
                t >>= 64;
                a2 += (uint64_t) t;
        }
        /* now value < 2^130 + small; subtract p once if value >= p */
        uint64_t g0, g1, g2;

        t = (unsigned __int128) a0 + 5;
        g0 = (uint64_t) t;
        t >>= 64;
        t += a1;
        g1 = (uint64_t) t;
        t >>= 64;
        g2 = a2 + (uint64_t) t;
        if (g2 >> 2) {
                a0 = g0;
                a1 = g1;
                a2 = g2 & 3;
        }
        memcpy(out, &a0, 8);
        memcpy(out + 8, &a1, 8);
        out[16] = (uint8_t) a2;
}

static int
all_zero(const uint8_t *p, size_t n)
{
        for (size_t i = 0; i < n; i++)
                if (p[i])
                        return 0;
        return 1;
}

static void
dump_chacha(FILE *f, const struct chacha20_poly1305_context_data *c, int final)
{
        uint8_t hc[17];
        uint64_t rks = c->remain_ks_bytes, rct = c->remain_ct_bytes;

        poly_canon(c->hash, hc);
        fprintf(f, "hash=");
        hex(f, hc, 17);
        fprintf(f, " aad_len=%llu hash_len=%llu rks=%llu rct=%llu lbc=%llu ks=",
                (unsigned long long) c->aad_len, (unsigned long long) c->hash_len,
                (unsigned long long) rks, (unsigned long long) rct,
                (unsigned long long) c->last_block_count);
        if (rks > 64)
                rks = 64; /* never expected; keeps the dump in bounds */
        hex(f, c->last_ks + (64 - rks), rks);
        fprintf(f, " scr=");
        if (rct > 16)
                rct = 16;
        hex(f, c->poly_scratch, rct);
        fprintf(f, " pkey=");
        hex(f, c->poly_key, 32);
        fprintf(f, " iv=");
        hex(f, c->IV, 12);
        if (final)
                fprintf(f, " clean=%d", all_zero(c->last_ks, 64) && all_zero(c->poly_key, 32));
}

static void
dump_gcm(FILE *f, const struct gcm_context_data *c, int with_pbk)
{
        fprintf(f, "aad_hash=");
        hex(f, c->aad_hash, 16);
        fprintf(f, " aad_len=%llu in_len=%llu pbl=%llu pbk=", (unsigned long long) c->aad_length,
                (unsigned long long) c->in_length, (unsigned long long) c->partial_block_length);
        /* only the not yet consumed key stream bytes [pbl,16) are defined across variants: the
         * VAES code overwrites the consumed prefix with output text; GMAC never writes the field */
        if (with_pbk && c->partial_block_length > 0 && c->partial_block_length < 16)
                hex(f, c->partial_block_enc_key + c->partial_block_length,
                    16 - (size_t) c->partial_block_length);
        else
                fprintf(f, "-");
        fprintf(f, " ctr=");
        hex(f, c->current_counter, 16);
        fprintf(f, " oiv=");
        hex(f, c->orig_IV, 16);
}

/* ------------------------------------------------------------------------- */

typedef struct {
        const kcase *c;
        const char *var;
        IMB_MGR *mgr;
        int call;
        /* buffers: every segment has its own src/dst pair */
        uint8_t *src[MAXSEG + 1], *dst[MAXSEG + 1];
        uint8_t *whole_src, *whole_dst; /* oneshot */
        uint8_t tag[64];
        uint8_t *iv, *aad;
        DECLARE_ALIGNED(struct gcm_key_data gkey, 64);
        DECLARE_ALIGNED(struct chacha20_poly1305_context_data cctx, 64);
        DECLARE_ALIGNED(struct gcm_context_data gctx, 64);
} krun;

static void
emit(krun *r, const char *op, uint64_t len, int status, int is_chacha, int final)
{
        printf("C id=%ld var=%s call=%d op=%s len=%llu st=", r->c->id, r->var, r->call++, op,
               (unsigned long long) len);
        if (status < 0)
                printf("-");
        else
                printf("%d", status);
        printf(" err=%d | ", imb_get_errno(r->mgr));
        if (is_chacha)
                dump_chacha(stdout, &r->cctx, final);
        else
                dump_gcm(stdout, &r->gctx, strcmp(r->c->alg, "gmac") != 0);
        printf("\n");
}

/* Every caller buffer (whole message, each segment's source and destination, IV, AAD) ends flush against an
 * inaccessible page: a read or write past the end of a segment faults inside the library (reported as
 * "CRASH id=.. var=.. call=.." by the signal handler) instead of going unnoticed. */
#define GB_MAX 512
static struct {
        uint8_t *p;
        void *base;
        size_t len;
} gb_tab[GB_MAX];

static uint8_t *
dupbuf(const uint8_t *p, size_t n)
{
        const size_t pg = 4096;
        const size_t body = ((n + pg - 1) / pg) * pg;
        uint8_t *base = mmap(NULL, body + pg, PROT_READ | PROT_WRITE, MAP_PRIVATE | MAP_ANONYMOUS, -1, 0);

        if (base == MAP_FAILED)
                abort();
        memset(base, 0xEE, body);
        if (mprotect(base + body, pg, PROT_NONE) != 0)
                abort();
        uint8_t *q = base + body - n; /* n = 0: points at the guard page, never dereferenced */

        if (n && p)
                memcpy(q, p, n);
        for (int i = 0; i < GB_MAX; i++)
                if (gb_tab[i].p == NULL && gb_tab[i].base == NULL) {
                        gb_tab[i].p = q;
                        gb_tab[i].base = base;
                        gb_tab[i].len = body + pg;
                        return q;
                }
        abort();
}

static void
gbfree(void *q)
{
        if (q == NULL)
                return;
        for (int i = 0; i < GB_MAX; i++)
                if (gb_tab[i].base != NULL && gb_tab[i].p == (uint8_t *) q) {
                        munmap(gb_tab[i].base, gb_tab[i].len);
                        gb_tab[i].p = NULL;
                        gb_tab[i].base = NULL;
                        return;
                }
        abort();
}

static IMB_JOB *
run_job(krun *r, IMB_JOB *job)
{
        (void) job;
        IMB_JOB *j = IMB_SUBMIT_JOB(r->mgr);

        if (j == NULL)
                j = IMB_FLUSH_JOB(r->mgr);
        return j;
}

static void
fill_chacha_job(krun *r, IMB_JOB *job, int sgl)
{
        const kcase *c = r->c;

        memset(job, 0, sizeof(*job));
        job->cipher_direction = c->dir == 1 ? IMB_DIR_ENCRYPT : IMB_DIR_DECRYPT;
        job->chain_order = c->dir == 1 ? IMB_ORDER_CIPHER_HASH : IMB_ORDER_HASH_CIPHER;
        job->cipher_mode = sgl ? IMB_CIPHER_CHACHA20_POLY1305_SGL : IMB_CIPHER_CHACHA20_POLY1305;
        job->hash_alg = sgl ? IMB_AUTH_CHACHA20_POLY1305_SGL : IMB_AUTH_CHACHA20_POLY1305;
        job->enc_keys = c->key.p;
        job->dec_keys = c->key.p;
        job->key_len_in_bytes = c->key.n;
        job->u.CHACHA20_POLY1305.aad = r->aad;
        job->u.CHACHA20_POLY1305.aad_len_in_bytes = c->aad.n;
        job->u.CHACHA20_POLY1305.ctx = sgl ? &r->cctx : NULL;
        job->iv = r->iv;
        job->iv_len_in_bytes = c->iv.n;
        job->auth_tag_output = r->tag;
        job->auth_tag_output_len_in_bytes = 16;
}

static void
fill_gcm_job(krun *r, IMB_JOB *job, int sgl)
{
        const kcase *c = r->c;

        memset(job, 0, sizeof(*job));
        job->cipher_direction = c->dir == 1 ? IMB_DIR_ENCRYPT : IMB_DIR_DECRYPT;
        job->chain_order = c->dir == 1 ? IMB_ORDER_CIPHER_HASH : IMB_ORDER_HASH_CIPHER;
        job->cipher_mode = sgl ? IMB_CIPHER_GCM_SGL : IMB_CIPHER_GCM;
        job->hash_alg = sgl ? IMB_AUTH_GCM_SGL : IMB_AUTH_AES_GMAC;
        job->enc_keys = &r->gkey;
        job->dec_keys = &r->gkey;
        job->key_len_in_bytes = c->key.n;
        job->u.GCM.aad = r->aad;
        job->u.GCM.aad_len_in_bytes = c->aad.n;
        job->u.GCM.ctx = sgl ? &r->gctx : NULL;
        job->iv = r->iv;
        job->iv_len_in_bytes = c->iv.n;
        job->auth_tag_output = r->tag;
        job->auth_tag_output_len_in_bytes = (uint64_t) c->taglen;
}

static void
set_seg(krun *r, IMB_JOB *job, int i)
{
        const uint64_t l = r->c->seg[i];

        job->src = l ? r->src[i] : NULL;
        job->dst = l ? r->dst[i] : NULL;
        job->msg_len_to_cipher_in_bytes = l;
        job->msg_len_to_hash_in_bytes = l;
        job->cipher_start_src_offset_in_bytes = 0;
        job->hash_start_src_offset_in_bytes = 0;
}

static int
gcm_pre(krun *r)
{
        const kcase *c = r->c;

        switch (c->key.n) {
        case 16:
                IMB_AES128_GCM_PRE(r->mgr, c->key.p, &r->gkey);
                return 0;
        case 24:
                IMB_AES192_GCM_PRE(r->mgr, c->key.p, &r->gkey);
                return 0;
        case 32:
                IMB_AES256_GCM_PRE(r->mgr, c->key.p, &r->gkey);
                return 0;
        default:
                return -1;
        }
}

#define KSEL(r, n128, n192, n256, ...)                                                              \
        do {                                                                                       \
                if ((r)->c->key.n == 16)                                                           \
                        n128(__VA_ARGS__);                                                         \
                else if ((r)->c->key.n == 24)                                                      \
                        n192(__VA_ARGS__);                                                         \
                else                                                                               \
                        n256(__VA_ARGS__);                                                         \
        } while (0)

static void
print_result(krun *r, int oneshot, int taglen, int no_out)
{
        const kcase *c = r->c;

        printf("R id=%ld var=%s out=", c->id, r->var);
        if (no_out || c->msg.n == 0)
                printf("-");
        else if (oneshot) {
                const uint8_t *o = c->inplace ? r->whole_src : r->whole_dst;

                for (size_t i = 0; i < c->msg.n; i++)
                        printf("%02x", o[i]);
        } else {
                for (int i = 0; i < c->nseg; i++) {
                        const uint8_t *o = c->inplace ? r->src[i] : r->dst[i];

                        for (uint64_t k = 0; k < c->seg[i]; k++)
                                printf("%02x", o[k]);
                }
        }
        printf(" tag=");
        hex(stdout, r->tag, (size_t) taglen);
        printf("\n");
}

static int
run_chacha(krun *r)
{
        const kcase *c = r->c;
        const int enc = c->dir == 1;
        IMB_JOB *job;

        if (c->key.n != 32 || c->iv.n != 12)
                return -1;
        memset(&r->cctx, 0xA5, sizeof(r->cctx));
        if (!strcmp(c->form, "oneshot")) {
                job = IMB_GET_NEXT_JOB(r->mgr);
                fill_chacha_job(r, job, 0);
                job->src = r->whole_src;
                job->dst = c->inplace ? r->whole_src : r->whole_dst;
                job->msg_len_to_cipher_in_bytes = c->msg.n;
                job->msg_len_to_hash_in_bytes = c->msg.n;
                job = run_job(r, job);
                printf("C id=%ld var=%s call=0 op=oneshot len=%zu st=%d err=%d | -\n", c->id, r->var,
                       c->msg.n, job ? (int) job->status : -1, imb_get_errno(r->mgr));
                print_result(r, 1, 16, 0);
                return 0;
        }
        if (!strcmp(c->form, "direct")) {
                IMB_CHACHA20_POLY1305_INIT(r->mgr, c->key.p, &r->cctx, r->iv, r->aad, c->aad.n);
                emit(r, "init", 0, -1, 1, 0);
                for (int i = 0; i < c->nseg; i++) {
                        uint8_t *d = c->inplace ? r->src[i] : r->dst[i];

                        if (enc)
                                IMB_CHACHA20_POLY1305_ENC_UPDATE(r->mgr, c->key.p, &r->cctx, d,
                                                                 r->src[i], c->seg[i]);
                        else
                                IMB_CHACHA20_POLY1305_DEC_UPDATE(r->mgr, c->key.p, &r->cctx, d,
                                                                 r->src[i], c->seg[i]);
                        emit(r, "update", c->seg[i], -1, 1, 0);
                }
                if (enc)
                        IMB_CHACHA20_POLY1305_ENC_FINALIZE(r->mgr, &r->cctx, r->tag,
                                                           (uint64_t) c->taglen);
                else
                        IMB_CHACHA20_POLY1305_DEC_FINALIZE(r->mgr, &r->cctx, r->tag,
                                                           (uint64_t) c->taglen);
                emit(r, "final", 0, -1, 1, 1);
                print_result(r, 0, c->taglen, 0);
                return 0;
        }
        if (!strcmp(c->form, "all")) {
                struct IMB_SGL_IOV iov[MAXSEG + 1];

                for (int i = 0; i < c->nseg; i++) {
                        iov[i].in = c->seg[i] ? r->src[i] : NULL;
                        iov[i].out = c->seg[i] ? (c->inplace ? r->src[i] : r->dst[i]) : NULL;
                        iov[i].len = c->seg[i];
                }
                job = IMB_GET_NEXT_JOB(r->mgr);
                fill_chacha_job(r, job, 1);
                job->sgl_state = IMB_SGL_ALL;
                job->sgl_io_segs = iov;
                job->num_sgl_io_segs = (uint64_t) c->nseg;
                job = run_job(r, job);
                emit(r, "all", c->msg.n, job ? (int) job->status : 99, 1, 1);
                print_result(r, 0, 16, 0);
                return 0;
        }
        if (!strcmp(c->form, "job") || !strcmp(c->form, "jobu")) {
                const int upd_only = !strcmp(c->form, "jobu");
                int first_upd, last_upd; /* segments [first_upd, last_upd) go through UPDATE */

                job = IMB_GET_NEXT_JOB(r->mgr);
                fill_chacha_job(r, job, 1);
                job->sgl_state = IMB_SGL_INIT;
                if (upd_only || c->nseg == 0) {
                        first_upd = 0;
                        last_upd = c->nseg;
                } else {
                        set_seg(r, job, 0);
                        if (c->inplace)
                                job->dst = job->src;
                        first_upd = 1;
                        last_upd = c->nseg >= 2 ? c->nseg - 1 : 1;
                }
                job = run_job(r, job);
                emit(r, "job-init", (upd_only || c->nseg == 0) ? 0 : c->seg[0],
                     job ? (int) job->status : 99, 1, 0);
                for (int i = first_upd; i < last_upd; i++) {
                        job = IMB_GET_NEXT_JOB(r->mgr);
                        fill_chacha_job(r, job, 1);
                        job->sgl_state = IMB_SGL_UPDATE;
                        set_seg(r, job, i);
                        if (c->inplace)
                                job->dst = job->src;
                        job = run_job(r, job);
                        emit(r, "job-update", c->seg[i], job ? (int) job->status : 99, 1, 0);
                }
                job = IMB_GET_NEXT_JOB(r->mgr);
                fill_chacha_job(r, job, 1);
                job->sgl_state = IMB_SGL_COMPLETE;
                uint64_t cl = 0;

                if (!upd_only && c->nseg >= 2) {
                        set_seg(r, job, c->nseg - 1);
                        if (c->inplace)
                                job->dst = job->src;
                        cl = c->seg[c->nseg - 1];
                }
                job = run_job(r, job);
                emit(r, "job-complete", cl, job ? (int) job->status : 99, 1, 1);
                print_result(r, 0, 16, 0);
                return 0;
        }
        return -1;
}

static int
run_gcm(krun *r)
{
        const kcase *c = r->c;
        const int enc = c->dir == 1;
        IMB_JOB *job;

        if (gcm_pre(r) || c->iv.n == 0)
                return -1;
        memset(&r->gctx, 0xA5, sizeof(r->gctx));
        if (!strcmp(c->form, "oneshot")) {
                job = IMB_GET_NEXT_JOB(r->mgr);
                fill_gcm_job(r, job, 0);
                job->src = r->whole_src;
                job->dst = c->inplace ? r->whole_src : r->whole_dst;
                job->msg_len_to_cipher_in_bytes = c->msg.n;
                job->msg_len_to_hash_in_bytes = c->msg.n;
                job = run_job(r, job);
                printf("C id=%ld var=%s call=0 op=oneshot len=%zu st=%d err=%d | -\n", c->id, r->var,
                       c->msg.n, job ? (int) job->status : -1, imb_get_errno(r->mgr));
                print_result(r, 1, c->taglen, 0);
                return 0;
        }
        if (!strcmp(c->form, "direct") || !strcmp(c->form, "directv")) {
                if (!strcmp(c->form, "direct") && c->iv.n == 12) {
                        KSEL(r, IMB_AES128_GCM_INIT, IMB_AES192_GCM_INIT, IMB_AES256_GCM_INIT, r->mgr,
                             &r->gkey, &r->gctx, r->iv, r->aad, c->aad.n);
                        emit(r, "init", 0, -1, 0, 0);
                } else {
                        KSEL(r, IMB_AES128_GCM_INIT_VAR_IV, IMB_AES192_GCM_INIT_VAR_IV,
                             IMB_AES256_GCM_INIT_VAR_IV, r->mgr, &r->gkey, &r->gctx, r->iv, c->iv.n,
                             r->aad, c->aad.n);
                        emit(r, "init-var", 0, -1, 0, 0);
                }
                for (int i = 0; i < c->nseg; i++) {
                        uint8_t *d = c->inplace ? r->src[i] : r->dst[i];

                        if (enc)
                                KSEL(r, IMB_AES128_GCM_ENC_UPDATE, IMB_AES192_GCM_ENC_UPDATE,
                                     IMB_AES256_GCM_ENC_UPDATE, r->mgr, &r->gkey, &r->gctx, d,
                                     r->src[i], c->seg[i]);
                        else
                                KSEL(r, IMB_AES128_GCM_DEC_UPDATE, IMB_AES192_GCM_DEC_UPDATE,
                                     IMB_AES256_GCM_DEC_UPDATE, r->mgr, &r->gkey, &r->gctx, d,
                                     r->src[i], c->seg[i]);
                        emit(r, "update", c->seg[i], -1, 0, 0);
                }
                if (enc)
                        KSEL(r, IMB_AES128_GCM_ENC_FINALIZE, IMB_AES192_GCM_ENC_FINALIZE,
                             IMB_AES256_GCM_ENC_FINALIZE, r->mgr, &r->gkey, &r->gctx, r->tag,
                             (uint64_t) c->taglen);
                else
                        KSEL(r, IMB_AES128_GCM_DEC_FINALIZE, IMB_AES192_GCM_DEC_FINALIZE,
                             IMB_AES256_GCM_DEC_FINALIZE, r->mgr, &r->gkey, &r->gctx, r->tag,
                             (uint64_t) c->taglen);
                emit(r, "final", 0, -1, 0, 1);
                print_result(r, 0, c->taglen, 0);
                return 0;
        }
        if (!strcmp(c->form, "all")) {
                struct IMB_SGL_IOV iov[MAXSEG + 1];

                for (int i = 0; i < c->nseg; i++) {
                        iov[i].in = c->seg[i] ? r->src[i] : NULL;
                        iov[i].out = c->seg[i] ? (c->inplace ? r->src[i] : r->dst[i]) : NULL;
                        iov[i].len = c->seg[i];
                }
                job = IMB_GET_NEXT_JOB(r->mgr);
                fill_gcm_job(r, job, 1);
                job->sgl_state = IMB_SGL_ALL;
                job->sgl_io_segs = iov;
                job->num_sgl_io_segs = (uint64_t) c->nseg;
                job = run_job(r, job);
                emit(r, "all", c->msg.n, job ? (int) job->status : 99, 0, 1);
                print_result(r, 0, c->taglen, 0);
                return 0;
        }
        if (!strcmp(c->form, "job")) {
                job = IMB_GET_NEXT_JOB(r->mgr);
                fill_gcm_job(r, job, 1);
                job->sgl_state = IMB_SGL_INIT;
                job = run_job(r, job);
                emit(r, "job-init", 0, job ? (int) job->status : 99, 0, 0);
                for (int i = 0; i < c->nseg; i++) {
                        job = IMB_GET_NEXT_JOB(r->mgr);
                        fill_gcm_job(r, job, 1);
                        job->sgl_state = IMB_SGL_UPDATE;
                        set_seg(r, job, i);
                        if (c->inplace)
                                job->dst = job->src;
                        job = run_job(r, job);
                        emit(r, "job-update", c->seg[i], job ? (int) job->status : 99, 0, 0);
                }
                job = IMB_GET_NEXT_JOB(r->mgr);
                fill_gcm_job(r, job, 1);
                job->sgl_state = IMB_SGL_COMPLETE;
                job = run_job(r, job);
                emit(r, "job-complete", 0, job ? (int) job->status : 99, 0, 1);
                print_result(r, 0, c->taglen, 0);
                return 0;
        }
        return -1;
}

static int
run_gmac(krun *r)
{
        const kcase *c = r->c;
        IMB_JOB *job;

        if (gcm_pre(r) || c->iv.n == 0)
                return -1;
        memset(&r->gctx, 0xA5, sizeof(r->gctx));
        if (!strcmp(c->form, "oneshot")) {
                job = IMB_GET_NEXT_JOB(r->mgr);
                memset(job, 0, sizeof(*job));
                job->cipher_mode = IMB_CIPHER_NULL;
                job->cipher_direction = IMB_DIR_ENCRYPT;
                job->chain_order = IMB_ORDER_HASH_CIPHER;
                job->hash_alg = c->key.n == 16   ? IMB_AUTH_AES_GMAC_128
                                : c->key.n == 24 ? IMB_AUTH_AES_GMAC_192
                                                 : IMB_AUTH_AES_GMAC_256;
                job->u.GMAC._key = &r->gkey;
                job->u.GMAC._iv = r->iv;
                job->u.GMAC.iv_len_in_bytes = c->iv.n;
                job->src = r->whole_src;
                job->msg_len_to_hash_in_bytes = c->msg.n;
                job->auth_tag_output = r->tag;
                job->auth_tag_output_len_in_bytes = (uint64_t) c->taglen;
                job = run_job(r, job);
                printf("C id=%ld var=%s call=0 op=oneshot len=%zu st=%d err=%d | -\n", c->id, r->var,
                       c->msg.n, job ? (int) job->status : -1, imb_get_errno(r->mgr));
                print_result(r, 1, c->taglen, 1);
                return 0;
        }
        if (!strcmp(c->form, "direct")) {
                KSEL(r, IMB_AES128_GMAC_INIT, IMB_AES192_GMAC_INIT, IMB_AES256_GMAC_INIT, r->mgr,
                     &r->gkey, &r->gctx, r->iv, c->iv.n);
                emit(r, "gmac-init", 0, -1, 0, 0);
                for (int i = 0; i < c->nseg; i++) {
                        KSEL(r, IMB_AES128_GMAC_UPDATE, IMB_AES192_GMAC_UPDATE, IMB_AES256_GMAC_UPDATE,
                             r->mgr, &r->gkey, &r->gctx, r->src[i], c->seg[i]);
                        emit(r, "gmac-update", c->seg[i], -1, 0, 0);
                }
                KSEL(r, IMB_AES128_GMAC_FINALIZE, IMB_AES192_GMAC_FINALIZE, IMB_AES256_GMAC_FINALIZE,
                     r->mgr, &r->gkey, &r->gctx, r->tag, (uint64_t) c->taglen);
                emit(r, "gmac-final", 0, -1, 0, 1);
                print_result(r, 0, c->taglen, 1);
                return 0;
        }
        return -1;
}

static krun *volatile g_cur;

static void
on_fault(int sig, siginfo_t *si, void *uc)
{
        char b[256];
        krun *r = g_cur;

        (void) uc;
        const int n = snprintf(b, sizeof(b), "\nCRASH id=%ld var=%s call=%d sig=%d addr=%p\n", r ? r->c->id : -1L,
                               r ? r->var : "?", r ? r->call : -1, sig, si ? si->si_addr : NULL);

        fflush(stdout);
        if (n > 0 && write(1, b, (size_t) n) < 0)
                _exit(4);
        _exit(3);
}

static void
run_case(const kcase *c, const imbh_variant *v)
{
        krun *r = NULL;

        if (posix_memalign((void **) &r, 64, sizeof(*r)))
                abort();
        memset(r, 0, sizeof(*r));
        r->c = c;
        r->var = v->name;
        r->mgr = v->mgr;
        g_cur = r;
        memset(r->tag, 0xCC, sizeof(r->tag));
        r->iv = c->iv.n ? dupbuf(c->iv.p, c->iv.n) : NULL;
        r->aad = c->aad.n ? dupbuf(c->aad.p, c->aad.n) : NULL;
        r->whole_src = dupbuf(c->msg.p, c->msg.n);
        r->whole_dst = dupbuf(NULL, c->msg.n);
        uint64_t off = 0;
        int ok = 1;

        for (int i = 0; i < c->nseg; i++) {
                if (off + c->seg[i] > c->msg.n) {
                        ok = 0;
                        break;
                }
                r->src[i] = dupbuf(c->msg.p ? c->msg.p + off : NULL, (size_t) c->seg[i]);
                r->dst[i] = dupbuf(NULL, (size_t) c->seg[i]);
                off += c->seg[i];
        }
        if (ok && strcmp(c->form, "oneshot") && off != c->msg.n)
                ok = 0;
        int rc = -1;

        /* drain anything a previous (failed) case may have left in the manager */
        while (IMB_FLUSH_JOB(v->mgr) != NULL)
                ;
        if (ok) {
                if (!strcmp(c->alg, "chacha"))
                        rc = run_chacha(r);
                else if (!strcmp(c->alg, "gcm"))
                        rc = run_gcm(r);
                else if (!strcmp(c->alg, "gmac"))
                        rc = run_gmac(r);
        }
        if (rc)
                printf("E id=%ld var=%s unusable case\n", c->id, v->name);
        fflush(stdout);
        for (int i = 0; i < c->nseg; i++) {
                gbfree(r->src[i]);
                gbfree(r->dst[i]);
        }
        gbfree(r->whole_src);
        gbfree(r->whole_dst);
        gbfree(r->iv);
        gbfree(r->aad);
        g_cur = NULL;
        free(r);
}

int
main(int argc, char **argv)
{
        static imbh_variant vars[IMBH_MAX_VARIANTS];
        const char *only = NULL, *path = NULL;
        int list = 0;
        struct sigaction sa;

        memset(&sa, 0, sizeof(sa));
        sa.sa_sigaction = on_fault;
        sa.sa_flags = SA_SIGINFO;
        sigaction(SIGSEGV, &sa, NULL);
        sigaction(SIGBUS, &sa, NULL);

        for (int i = 1; i < argc; i++) {
                if (!strcmp(argv[i], "--variant") && i + 1 < argc)
                        only = argv[++i];
                else if (!strcmp(argv[i], "--list-variants"))
                        list = 1;
                else
                        path = argv[i];
        }
        const int nv = imbh_enum_variants(vars);

        if (list) {
                imbh_print_variants(stdout, vars, nv);
                return 0;
        }
        if (!path) {
                fprintf(stderr, "usage: k10_stream <casefile> [--variant name] [--list-variants]\n");
                return 2;
        }
        FILE *f = fopen(path, "r");

        if (!f) {
                perror(path);
                return 2;
        }
        size_t cap = 1 << 16, ncase = 0, ccap = 0;
        char *line = malloc(cap);
        kcase *cases = NULL;
        ssize_t n;

        while ((n = getline(&line, &cap, f)) >= 0) {
                if (n == 0 || line[0] == '#' || line[0] == '\n')
                        continue;
                if (ncase == ccap) {
                        ccap = ccap ? ccap * 2 : 256;
                        cases = realloc(cases, ccap * sizeof(*cases));
                }
                if (parse_case(line, &cases[ncase])) {
                        fprintf(stderr, "k10_stream: malformed case line: %.60s\n", line);
                        return 2;
                }
                ncase++;
        }
        fclose(f);
        int ran = 0;

        for (int vi = 0; vi < nv; vi++) {
                if (only && strcmp(only, vars[vi].name))
                        continue;
                ran++;
                printf("V var=%s used_arch=%u type=t%u features=0x%llx aliases=%s\n", vars[vi].name,
                       vars[vi].used_arch, vars[vi].arch_type, (unsigned long long) vars[vi].features,
                       vars[vi].aliases[0] ? vars[vi].aliases : "-");
                for (size_t i = 0; i < ncase; i++)
                        run_case(&cases[i], &vars[vi]);
        }
        for (size_t i = 0; i < ncase; i++)
                free_case(&cases[i]);
        free(cases);
        free(line);
        if (!ran) {
                fprintf(stderr, "k10_stream: no such variant\n");
                return 2;
        }
        return 0;
}
