/*
 * k7_leak - correspondence K7 (property C19): secret-independence of branches
 * and addresses of DES / 3DES / DOCSIS-DES / KASUMI / SNOW3G jobs, observed on
 * the compiled library under valgrind (memcheck or lackey).
 *
 *   k7_leak <sse|avx2> <script> [--no-taint] [--batch N]
 *
 * script: one case per line
 *   <id> <algo> <dir> <len> <off> <keyhex> <ivhex> <msgseed>
 *   algo : des | des3 | docsis | kasumi_f8 | kasumi_f9 | snow3g_uea2 | snow3g_uia2
 *   dir  : 1 encrypt / 2 decrypt (ciphers), ignored for the MACs
 *   len  : bytes for des/des3/docsis/kasumi_f9, bits for kasumi_f8/snow3g_*
 *   off  : cipher start offset (bits for kasumi_f8/snow3g_uea2, else bytes)
 *   key  : 8 / 24 / 8 / 16 / 16 / 16 / 16 bytes
 *   iv   : 8 / 8 / 8 / 8 / - / 16 / 16 bytes
 *
 * Direct (non-job) entry points of KASUMI and SNOW3G ("api=direct:<name>" dimension; --batch 1 only):
 *   <id> direct:<name> <n> <len0,len1,..> <off> <key0[,key1,..]> <ivhex> <msgseed>
 *   name : kasumi_f8_1_buffer | kasumi_f8_1_buffer_bit | kasumi_f8_2_buffer | kasumi_f8_3_buffer |
 *          kasumi_f8_4_buffer | kasumi_f8_n_buffer | kasumi_f9_1_buffer | kasumi_f9_1_buffer_user |
 *          snow3g_f8_1_buffer | snow3g_f8_1_buffer_bit | snow3g_f8_2_buffer | snow3g_f8_4_buffer |
 *          snow3g_f8_8_buffer | snow3g_f8_8_buffer_multikey | snow3g_f8_n_buffer |
 *          snow3g_f8_n_buffer_multikey | snow3g_f9_1_buffer          (= IMB_<NAME>(mgr, ...))
 *   n    : number of buffers of the call (1..16; fixed by the entry point except for *_n_buffer*)
 *   len  : n lengths in the unit the entry point takes (bytes; bits for *_bit, kasumi_f9_1_buffer_user
 *          and snow3g_f9_1_buffer); kasumi_f8_3/4_buffer take the first one (common length)
 *   off  : bit offset (*_bit), direction bit (kasumi_f9_1_buffer_user), else 0
 *   key  : one 16-byte key, or n keys for the *_multikey entry points
 *   iv   : base IV (KASUMI 8 bytes, SNOW3G 16 bytes, "-" for kasumi_f9_1_buffer); buffer i uses the
 *          base IV with its last byte xor i
 * The key schedule(s) are built by IMB_KASUMI_INIT_F8/F9_KEY_SCHED / IMB_SNOW3G_INIT_KEY_SCHED
 * before the markers (outside the property, as for jobs); the marked / traced region is the one
 * processing call; the expanded key schedules are the secret.  status=3 iff the call left
 * imb_get_errno() == 0; out= is the concatenation of the n output buffers (or the 4-byte tag).
 *
 * For every group of N (--batch, default 1) consecutive cases the jobs are
 * prepared exactly as an application would (key schedule built by the library's
 * helper from the raw key), then
 *   - every byte that is secret or derived from the secret (the key schedules)
 *     is marked UNDEFINED for memcheck (client request; no-op outside memcheck),
 *   - a marker store to K7_MARK+0 is executed,
 *   - the N jobs are submitted with IMB_SUBMIT_JOB, then IMB_FLUSH_JOB runs
 *     until all of them have come back,
 *   - a marker store to K7_MARK+8 is executed,
 *   - outputs, key schedules and the whole manager are made DEFINED again.
 * Under memcheck any "Conditional jump or move depends on uninitialised
 * value(s)" / "Use of uninitialised value of size N" raised in between is a
 * secret-dependent branch / address.  The number of memcheck errors raised by
 * each group is printed (VALGRIND_COUNT_ERRORS), so that errors can be
 * attributed to inputs; taint=1 confirms that memcheck saw the secret reach the
 * output (the tainting is effective).  Under lackey (--trace-mem=yes) the part
 * of the trace between the two marker stores is the jobs' instruction / data
 * address sequence (filter: k7_trace.c).
 *
 * All buffers are allocated once per slot and reused by every group of a script,
 * so the address sequences of two groups differing only in the keys must be
 * literally identical.  The only rotating object, the IMB_JOB ring slot, is
 * announced in band (see k7_trace.c) so that the filter can fold it.
 *
 * Output (stdout):
 *   VARIANT arch=<used_arch> type=<used_arch_type> features=<hex>
 *   CASE id=<id> status=<st> errno=<e> errs=<memcheck errors raised by the group>
 *        taint=<0|1> out=<hex>
 */
#define _GNU_SOURCE
#include <stdio.h>
#include <stdlib.h>
#include <string.h>
#include <stdint.h>
#include <sys/mman.h>

#include <intel-ipsec-mb.h>
#include <valgrind/valgrind.h>
#include <valgrind/memcheck.h>

#define K7_MARK   0x7e0000000000ULL
#define MAXLEN    4096
#define MAXBATCH  16

static volatile uint64_t *const k7_page = (volatile uint64_t *) K7_MARK;

static void
announce(const int k, const uint64_t v)
{
        k7_page[(0x10 + 8 * k) / 8] = 1;
        for (int i = 15; i >= 0; i--)
                k7_page[(0x100 + 8 * ((v >> (4 * i)) & 15)) / 8] = 1;
}

static uint64_t
splitmix64(uint64_t *s)
{
        uint64_t z = (*s += 0x9E3779B97F4A7C15ULL);

        z = (z ^ (z >> 30)) * 0xBF58476D1CE4E5B9ULL;
        z = (z ^ (z >> 27)) * 0x94D049BB133111EBULL;
        return z ^ (z >> 31);
}

static int
hex2bin(const char *s, uint8_t *out, size_t max)
{
        size_t n = 0;

        if (strcmp(s, "-") == 0)
                return 0;
        while (s[0] && s[1]) {
                unsigned v;

                if (n >= max || sscanf(s, "%2x", &v) != 1)
                        return -1;
                out[n++] = (uint8_t) v;
                s += 2;
        }
        return (int) n;
}

static void *
xalloc(size_t n)
{
        void *p = NULL;

        if (posix_memalign(&p, 64, n + 64) != 0)
                exit(3);
        memset(p, 0, n + 64);
        return p;
}

/* one slot = the buffers of one job of a group; allocated once, reused */
typedef struct {
        uint8_t *src, *dst, *tag, *iv;
        uint64_t (*des_ks)[IMB_DES_KEY_SCHED_SIZE / 8]; /* [3][16] */
        const void *des3_ptrs[3];
        kasumi_key_sched_t *kas;
        snow3g_key_schedule_t *s3g;
        /* per case */
        char id[64];
        int ok;
        void *sec_ptr;
        size_t sec_len;
        const uint8_t *out_ptr;
        size_t out_len;
        int status, done;
        void *user;
        int direct; /* 0: job; else 1 + index into direct_names[] */
} slot_t;

static slot_t slots[MAXBATCH];
static size_t s3g_size;


/* ---------------------------------------------------------------------------------------------
 * direct (non-job) entry points
 * ------------------------------------------------------------------------------------------- */
#define DMAX     16
#define DSTRIDE  (MAXLEN + 128)
#define DKSTRIDE 64

enum {
        D_KAS_F8_1 = 0, D_KAS_F8_1_BIT, D_KAS_F8_2, D_KAS_F8_3, D_KAS_F8_4, D_KAS_F8_N, D_KAS_F9_1,
        D_KAS_F9_1_USER, D_S3G_F8_1, D_S3G_F8_1_BIT, D_S3G_F8_2, D_S3G_F8_4, D_S3G_F8_8,
        D_S3G_F8_8_MULTI, D_S3G_F8_N, D_S3G_F8_N_MULTI, D_S3G_F9_1, D_COUNT
};

static const char *const direct_names[D_COUNT] = {
        "kasumi_f8_1_buffer", "kasumi_f8_1_buffer_bit", "kasumi_f8_2_buffer", "kasumi_f8_3_buffer",
        "kasumi_f8_4_buffer", "kasumi_f8_n_buffer", "kasumi_f9_1_buffer", "kasumi_f9_1_buffer_user",
        "snow3g_f8_1_buffer", "snow3g_f8_1_buffer_bit", "snow3g_f8_2_buffer", "snow3g_f8_4_buffer",
        "snow3g_f8_8_buffer", "snow3g_f8_8_buffer_multikey", "snow3g_f8_n_buffer",
        "snow3g_f8_n_buffer_multikey", "snow3g_f9_1_buffer"
};
/* fixed number of buffers (0: any 1..DMAX) */
static const unsigned direct_fixed_n[D_COUNT] = { 1, 1, 2, 3, 4, 0, 1, 1, 1, 1, 2, 4, 8, 8, 0, 0, 1 };

/* the argument block of the one direct call of a group: everything in it is public */
typedef struct {
        unsigned n;
        uint32_t off;
        uint32_t lens[DMAX];
        uint64_t iv64[DMAX];
        const void *src[DMAX];
        void *dst[DMAX];
        const void *ivp[DMAX];
        const snow3g_key_schedule_t *s3gp[DMAX];
        size_t outbytes[DMAX];
        const void *fn; /* the function the manager dispatches to (reported, never compared) */
} dcall_t;

static dcall_t dcall;
static uint8_t *dsrc, *ddst, *div_, *ds3g, *dout; /* arenas: allocated once, reused by every case */

static void
direct_alloc(void)
{
        dsrc = xalloc((size_t) DMAX * DSTRIDE);
        ddst = xalloc((size_t) DMAX * DSTRIDE);
        div_ = xalloc((size_t) DMAX * 64);
        ds3g = xalloc((size_t) DMAX * DKSTRIDE);
        dout = xalloc((size_t) DMAX * MAXLEN);
}

static int
prepare_direct(IMB_MGR *mgr, slot_t *s, const char *line)
{
        static char name[64], lens[256], keys[1024], ivhex[128];
        unsigned n;
        unsigned long off;
        unsigned long long seed;
        uint8_t key[DMAX][16], ivb[32];
        int api = -1;

        if (s != &slots[0] || dsrc == NULL)
                return -1; /* the direct arenas exist once: --batch 1 */
        if (sscanf(line, "%63s direct:%63s %u %255s %lu %1023s %127s %llu", s->id, name, &n, lens, &off,
                   keys, ivhex, &seed) != 8)
                return -1;
        for (int i = 0; i < D_COUNT; i++)
                if (strcmp(name, direct_names[i]) == 0)
                        api = i;
        if (api < 0 || n < 1 || n > DMAX || (direct_fixed_n[api] != 0 && n != direct_fixed_n[api]))
                return -1;
        const int is_kasumi = api <= D_KAS_F9_1_USER;
        const int multikey = api == D_S3G_F8_8_MULTI || api == D_S3G_F8_N_MULTI;
        const int bits = api == D_KAS_F8_1_BIT || api == D_KAS_F9_1_USER || api == D_S3G_F8_1_BIT ||
                         api == D_S3G_F9_1;
        const int is_mac = api == D_KAS_F9_1 || api == D_KAS_F9_1_USER || api == D_S3G_F9_1;
        const int has_off = api == D_KAS_F8_1_BIT || api == D_S3G_F8_1_BIT;
        const unsigned nkeys = multikey ? n : 1;

        memset(&dcall, 0, sizeof(dcall));
        dcall.n = n;
        dcall.off = (uint32_t) off;
        /* lengths */
        {
                const char *p = lens;

                for (unsigned i = 0; i < n; i++) {
                        char *e;
                        const unsigned long v = strtoul(p, &e, 10);

                        if (e == p || (i + 1 < n && *e != ',') || (i + 1 == n && *e != 0))
                                return -1;
                        const unsigned long nb = bits ? ((has_off ? off : 0) + v + 7) / 8 : v;

                        if (v == 0 || nb > MAXLEN)
                                return -1;
                        dcall.lens[i] = (uint32_t) v;
                        dcall.outbytes[i] = is_mac ? 0 : nb;
                        p = e + 1;
                }
        }
        /* keys */
        {
                const char *p = keys;

                for (unsigned i = 0; i < nkeys; i++) {
                        char one[40];

                        if (strlen(p) < 32 || (p[32] != ',' && p[32] != 0))
                                return -1;
                        memcpy(one, p, 32);
                        one[32] = 0;
                        if (hex2bin(one, key[i], 16) != 16)
                                return -1;
                        p += p[32] ? 33 : 32;
                }
                if (*p != 0)
                        return -1;
        }
        const int ivlen = hex2bin(ivhex, ivb, sizeof(ivb));
        const int want_iv = api == D_KAS_F9_1 ? 0 : (is_kasumi ? 8 : 16);

        if (ivlen != want_iv)
                return -1;
        /* public data */
        memset(s->tag, 0x3c, 64);
        for (unsigned i = 0; i < n; i++) {
                uint64_t st = seed + 0x1000003ULL * i;
                uint8_t *src = dsrc + (size_t) i * DSTRIDE, *ivp = div_ + (size_t) i * 64;

                for (size_t k = 0; k < MAXLEN; k += 8) {
                        const uint64_t v = splitmix64(&st);

                        memcpy(src + k, &v, 8);
                }
                memset(ddst + (size_t) i * DSTRIDE, 0x5a, MAXLEN);
                memset(ivp, 0, 64);
                memcpy(ivp, ivb, (size_t) ivlen);
                if (ivlen > 0)
                        ivp[ivlen - 1] ^= (uint8_t) i;
                memcpy(&dcall.iv64[i], ivp, 8);
                dcall.src[i] = src;
                dcall.dst[i] = ddst + (size_t) i * DSTRIDE;
                dcall.ivp[i] = ivp;
        }
        /* secrets: the expanded key schedules (built outside the marked region) */
        if (is_kasumi) {
                if (is_mac)
                        IMB_KASUMI_INIT_F9_KEY_SCHED(mgr, key[0], s->kas);
                else
                        IMB_KASUMI_INIT_F8_KEY_SCHED(mgr, key[0], s->kas);
                s->sec_ptr = s->kas;
                s->sec_len = sizeof(*s->kas);
        } else if (!multikey) {
                IMB_SNOW3G_INIT_KEY_SCHED(mgr, key[0], s->s3g);
                s->sec_ptr = s->s3g;
                s->sec_len = s3g_size;
        } else {
                if (s3g_size > DKSTRIDE)
                        return -1;
                for (unsigned i = 0; i < n; i++) {
                        snow3g_key_schedule_t *ks = (snow3g_key_schedule_t *) (ds3g + (size_t) i * DKSTRIDE);

                        IMB_SNOW3G_INIT_KEY_SCHED(mgr, key[i], ks);
                        dcall.s3gp[i] = ks;
                }
                s->sec_ptr = ds3g;
                s->sec_len = (size_t) n * DKSTRIDE;
        }
        if (imb_get_errno(mgr) != 0)
                return -1;
        if (is_mac) {
                s->out_ptr = s->tag;
                s->out_len = 4;
        } else {
                size_t tot = 0;

                for (unsigned i = 0; i < n; i++)
                        tot += dcall.outbytes[i];
                s->out_ptr = dout;
                s->out_len = tot;
        }
        s->direct = 1 + api;
        s->ok = 1;
        return 0;
}

/* the one processing call (inside the marked / traced region) */
static void
run_direct(IMB_MGR *mgr, slot_t *s)
{
        dcall_t *d = &dcall;
        const uint32_t *L = d->lens;

        switch (s->direct - 1) {
        case D_KAS_F8_1:
                IMB_KASUMI_F8_1_BUFFER(mgr, s->kas, d->iv64[0], d->src[0], d->dst[0], L[0]);
                break;
        case D_KAS_F8_1_BIT:
                IMB_KASUMI_F8_1_BUFFER_BIT(mgr, s->kas, d->iv64[0], d->src[0], d->dst[0], L[0], d->off);
                break;
        case D_KAS_F8_2:
                IMB_KASUMI_F8_2_BUFFER(mgr, s->kas, d->iv64[0], d->iv64[1], d->src[0], d->dst[0], L[0],
                                       d->src[1], d->dst[1], L[1]);
                break;
        case D_KAS_F8_3:
                IMB_KASUMI_F8_3_BUFFER(mgr, s->kas, d->iv64[0], d->iv64[1], d->iv64[2], d->src[0],
                                       d->dst[0], d->src[1], d->dst[1], d->src[2], d->dst[2], L[0]);
                break;
        case D_KAS_F8_4:
                IMB_KASUMI_F8_4_BUFFER(mgr, s->kas, d->iv64[0], d->iv64[1], d->iv64[2], d->iv64[3],
                                       d->src[0], d->dst[0], d->src[1], d->dst[1], d->src[2], d->dst[2],
                                       d->src[3], d->dst[3], L[0]);
                break;
        case D_KAS_F8_N:
                IMB_KASUMI_F8_N_BUFFER(mgr, s->kas, d->iv64, d->src, d->dst, L, d->n);
                break;
        case D_KAS_F9_1:
                IMB_KASUMI_F9_1_BUFFER(mgr, s->kas, d->src[0], L[0], s->tag);
                break;
        case D_KAS_F9_1_USER:
                IMB_KASUMI_F9_1_BUFFER_USER(mgr, s->kas, d->iv64[0], d->src[0], L[0], s->tag, d->off & 1);
                break;
        case D_S3G_F8_1:
                IMB_SNOW3G_F8_1_BUFFER(mgr, s->s3g, d->ivp[0], d->src[0], d->dst[0], L[0]);
                break;
        case D_S3G_F8_1_BIT:
                IMB_SNOW3G_F8_1_BUFFER_BIT(mgr, s->s3g, d->ivp[0], d->src[0], d->dst[0], L[0], d->off);
                break;
        case D_S3G_F8_2:
                IMB_SNOW3G_F8_2_BUFFER(mgr, s->s3g, d->ivp[0], d->ivp[1], d->src[0], d->dst[0], L[0],
                                       d->src[1], d->dst[1], L[1]);
                break;
        case D_S3G_F8_4:
                IMB_SNOW3G_F8_4_BUFFER(mgr, s->s3g, d->ivp[0], d->ivp[1], d->ivp[2], d->ivp[3], d->src[0],
                                       d->dst[0], L[0], d->src[1], d->dst[1], L[1], d->src[2], d->dst[2],
                                       L[2], d->src[3], d->dst[3], L[3]);
                break;
        case D_S3G_F8_8:
                IMB_SNOW3G_F8_8_BUFFER(mgr, s->s3g, d->ivp[0], d->ivp[1], d->ivp[2], d->ivp[3], d->ivp[4],
                                       d->ivp[5], d->ivp[6], d->ivp[7], d->src[0], d->dst[0], L[0],
                                       d->src[1], d->dst[1], L[1], d->src[2], d->dst[2], L[2], d->src[3],
                                       d->dst[3], L[3], d->src[4], d->dst[4], L[4], d->src[5], d->dst[5],
                                       L[5], d->src[6], d->dst[6], L[6], d->src[7], d->dst[7], L[7]);
                break;
        case D_S3G_F8_8_MULTI:
                IMB_SNOW3G_F8_8_BUFFER_MULTIKEY(mgr, d->s3gp, d->ivp, d->src, d->dst, L);
                break;
        case D_S3G_F8_N:
                IMB_SNOW3G_F8_N_BUFFER(mgr, s->s3g, d->ivp, d->src, d->dst, L, d->n);
                break;
        case D_S3G_F8_N_MULTI:
                IMB_SNOW3G_F8_N_BUFFER_MULTIKEY(mgr, d->s3gp, d->ivp, d->src, d->dst, L, d->n);
                break;
        case D_S3G_F9_1:
                IMB_SNOW3G_F9_1_BUFFER(mgr, s->s3g, d->ivp[0], d->src[0], L[0], s->tag);
                break;
        default:
                break;
        }
        const int e = imb_get_errno(mgr);

        s->done = 1;
        s->status = e == 0 ? (int) IMB_STATUS_COMPLETED : 1000 + e;
}

/* after the end marker: gather the outputs (copies keep memcheck's definedness bits) */
static void
finish_direct(IMB_MGR *mgr, slot_t *s)
{
        if (!s->ok || !s->direct)
                return;
        const void *fns[D_COUNT] = {
                (const void *) mgr->f8_1_buffer, (const void *) mgr->f8_1_buffer_bit,
                (const void *) mgr->f8_2_buffer, (const void *) mgr->f8_3_buffer,
                (const void *) mgr->f8_4_buffer, (const void *) mgr->f8_n_buffer,
                (const void *) mgr->f9_1_buffer, (const void *) mgr->f9_1_buffer_user,
                (const void *) mgr->snow3g_f8_1_buffer, (const void *) mgr->snow3g_f8_1_buffer_bit,
                (const void *) mgr->snow3g_f8_2_buffer, (const void *) mgr->snow3g_f8_4_buffer,
                (const void *) mgr->snow3g_f8_8_buffer, (const void *) mgr->snow3g_f8_8_buffer_multikey,
                (const void *) mgr->snow3g_f8_n_buffer, (const void *) mgr->snow3g_f8_n_buffer_multikey,
                (const void *) mgr->snow3g_f9_1_buffer
        };

        dcall.fn = fns[s->direct - 1];
        if (s->out_ptr == dout) {
                size_t o = 0;

                for (unsigned i = 0; i < dcall.n; i++) {
                        if (dcall.dst[i] == NULL) { /* *_n_buffer signals "too many buffers" this way */
                                s->status = 2000;
                                continue;
                        }
                        memcpy(dout + o, dcall.dst[i], dcall.outbytes[i]);
                        o += dcall.outbytes[i];
                }
        }
}

/* offset of the dispatched function from imb_get_version (identifies the kernel across variants) */
static long long
direct_fn_off(const slot_t *s)
{
        return s->direct ? (long long) ((intptr_t) dcall.fn - (intptr_t) &imb_get_version) : 0;
}

/* did memcheck see undefined bits in [p, p+len)?  (0 outside memcheck) */
static int
taint_reached(const uint8_t *p, size_t len)
{
        static uint8_t vb[MAXLEN + 64];
        int r = 0;

        while (len > 0) {
                const size_t k = len > MAXLEN ? MAXLEN : len;

                if (VALGRIND_GET_VBITS(p, vb, k) == 1)
                        for (size_t i = 0; i < k; i++)
                                r |= vb[i] != 0;
                p += k;
                len -= k;
        }
        return r;
}

static int
prepare(IMB_MGR *mgr, slot_t *s, const char *line, IMB_JOB *tmpl)
{
        char algo[32], keyhex[128], ivhex[128];
        int dir;
        unsigned long len, off;
        unsigned long long seed;
        uint8_t key[32], ivb[32];

        s->ok = 0;
        s->done = 0;
        s->status = -1;
        s->direct = 0;
        snprintf(s->id, sizeof(s->id), "?");
        {
                char id2[64], a2[16];

                if (sscanf(line, "%63s %7[a-z:]", id2, a2) == 2 && strcmp(a2, "direct:") == 0)
                        return prepare_direct(mgr, s, line);
        }
        if (sscanf(line, "%63s %31s %d %lu %lu %127s %127s %llu", s->id, algo, &dir, &len, &off,
                   keyhex, ivhex, &seed) != 8)
                return -1;
        const int klen = hex2bin(keyhex, key, sizeof(key));
        const int ivlen = hex2bin(ivhex, ivb, sizeof(ivb));

        if (klen < 0 || ivlen < 0)
                return -1;
        /* public data: message, IV, previous dst content */
        uint64_t st = seed;

        for (size_t i = 0; i < MAXLEN; i += 8) {
                const uint64_t v = splitmix64(&st);

                memcpy(s->src + i, &v, 8);
        }
        memset(s->dst, 0x5a, MAXLEN);
        memset(s->tag, 0x3c, 64);
        memset(s->iv, 0, 64);
        memcpy(s->iv, ivb, (size_t) ivlen);

        size_t nbytes = 0;
        IMB_JOB *job = tmpl;

        memset(job, 0, sizeof(*job));
        job->src = s->src;
        job->dst = s->dst;
        job->iv = s->iv;
        job->cipher_direction = (dir == 2) ? IMB_DIR_DECRYPT : IMB_DIR_ENCRYPT;
        job->chain_order = IMB_ORDER_CIPHER_HASH;
        job->cipher_mode = IMB_CIPHER_NULL;
        job->hash_alg = IMB_AUTH_NULL;
        job->user_data = s;
        s->out_ptr = s->dst;

        if (strcmp(algo, "des") == 0 || strcmp(algo, "docsis") == 0) {
                if (klen != 8)
                        return -1;
                IMB_DES_KEYSCHED(mgr, s->des_ks[0], key);
                job->cipher_mode = algo[1] == 'e' ? IMB_CIPHER_DES : IMB_CIPHER_DOCSIS_DES;
                job->enc_keys = job->dec_keys = s->des_ks[0];
                job->key_len_in_bytes = 8;
                job->iv_len_in_bytes = 8;
                job->cipher_start_src_offset_in_bytes = off;
                job->msg_len_to_cipher_in_bytes = len;
                nbytes = off + len;
                s->out_len = len;
                s->sec_ptr = s->des_ks[0];
                s->sec_len = IMB_DES_KEY_SCHED_SIZE;
        } else if (strcmp(algo, "des3") == 0) {
                if (klen != 24)
                        return -1;
                for (int i = 0; i < 3; i++)
                        IMB_DES_KEYSCHED(mgr, s->des_ks[i], key + 8 * i);
                job->cipher_mode = IMB_CIPHER_DES3;
                job->enc_keys = job->dec_keys = s->des3_ptrs;
                job->key_len_in_bytes = 24;
                job->iv_len_in_bytes = 8;
                job->cipher_start_src_offset_in_bytes = off;
                job->msg_len_to_cipher_in_bytes = len;
                nbytes = off + len;
                s->out_len = len;
                s->sec_ptr = s->des_ks;
                s->sec_len = 3 * IMB_DES_KEY_SCHED_SIZE;
        } else if (strcmp(algo, "kasumi_f8") == 0) {
                if (klen != 16)
                        return -1;
                IMB_KASUMI_INIT_F8_KEY_SCHED(mgr, key, s->kas);
                job->cipher_mode = IMB_CIPHER_KASUMI_UEA1_BITLEN;
                job->enc_keys = job->dec_keys = s->kas;
                job->key_len_in_bytes = 16;
                job->iv_len_in_bytes = 8;
                job->cipher_start_src_offset_in_bits = off;
                job->msg_len_to_cipher_in_bits = len;
                nbytes = (off + len + 7) / 8;
                s->out_len = nbytes;
                s->sec_ptr = s->kas;
                s->sec_len = sizeof(*s->kas);
        } else if (strcmp(algo, "kasumi_f9") == 0) {
                if (klen != 16)
                        return -1;
                IMB_KASUMI_INIT_F9_KEY_SCHED(mgr, key, s->kas);
                job->hash_alg = IMB_AUTH_KASUMI_UIA1;
                job->chain_order = IMB_ORDER_HASH_CIPHER;
                job->u.KASUMI_UIA1._key = s->kas;
                job->hash_start_src_offset_in_bytes = off;
                job->msg_len_to_hash_in_bytes = len;
                job->auth_tag_output = s->tag;
                job->auth_tag_output_len_in_bytes = 4;
                nbytes = off + len;
                s->out_ptr = s->tag;
                s->out_len = 4;
                s->sec_ptr = s->kas;
                s->sec_len = sizeof(*s->kas);
        } else if (strcmp(algo, "snow3g_uea2") == 0) {
                if (klen != 16)
                        return -1;
                IMB_SNOW3G_INIT_KEY_SCHED(mgr, key, s->s3g);
                job->cipher_mode = IMB_CIPHER_SNOW3G_UEA2_BITLEN;
                job->enc_keys = job->dec_keys = s->s3g;
                job->key_len_in_bytes = 16;
                job->iv_len_in_bytes = 16;
                job->cipher_start_src_offset_in_bits = off;
                job->msg_len_to_cipher_in_bits = len;
                nbytes = (off + len + 7) / 8;
                s->out_len = nbytes;
                s->sec_ptr = s->s3g;
                s->sec_len = s3g_size;
        } else if (strcmp(algo, "snow3g_uia2") == 0) {
                if (klen != 16)
                        return -1;
                IMB_SNOW3G_INIT_KEY_SCHED(mgr, key, s->s3g);
                job->hash_alg = IMB_AUTH_SNOW3G_UIA2_BITLEN;
                job->chain_order = IMB_ORDER_HASH_CIPHER;
                job->u.SNOW3G_UIA2._key = s->s3g;
                job->u.SNOW3G_UIA2._iv = s->iv;
                job->hash_start_src_offset_in_bytes = off;
                job->msg_len_to_hash_in_bits = len;
                job->auth_tag_output = s->tag;
                job->auth_tag_output_len_in_bytes = 4;
                nbytes = off + (len + 7) / 8;
                s->out_ptr = s->tag;
                s->out_len = 4;
                s->sec_ptr = s->s3g;
                s->sec_len = s3g_size;
        } else {
                return -1;
        }
        if (nbytes > MAXLEN)
                return -1;
        s->ok = 1;
        return 0;
}

static void
collect(IMB_JOB *ret)
{
        if (ret == NULL)
                return;
        (void) VALGRIND_MAKE_MEM_DEFINED(ret, sizeof(*ret));
        slot_t *s = ret->user_data;

        if (s != NULL) {
                s->done = 1;
                s->status = (int) ret->status;
        }
}

#ifndef K7_NO_MAIN /* harness/k7_step.c includes this file for prepare()/collect() */
int
main(int argc, char **argv)
{
        if (argc < 3) {
                fprintf(stderr, "usage: k7_leak <sse|avx2> <script> [--no-taint] [--batch N]\n");
                return 2;
        }
        int taint = 1, batch = 1;

        for (int i = 3; i < argc; i++) {
                if (strcmp(argv[i], "--no-taint") == 0)
                        taint = 0;
                else if (strcmp(argv[i], "--batch") == 0 && i + 1 < argc)
                        batch = atoi(argv[++i]);
        }
        if (batch < 1 || batch > MAXBATCH)
                return 2;
        void *m = mmap((void *) K7_MARK, 4096, PROT_READ | PROT_WRITE,
                       MAP_PRIVATE | MAP_ANONYMOUS | MAP_FIXED, -1, 0);
        if (m != (void *) K7_MARK) {
                fprintf(stderr, "cannot map marker page\n");
                return 3;
        }

        IMB_MGR *mgr = alloc_mb_mgr(IMB_FLAG_SHANI_OFF | IMB_FLAG_GFNI_OFF);

        if (mgr == NULL)
                return 3;
        if (strcmp(argv[1], "sse") == 0)
                init_mb_mgr_sse(mgr);
        else if (strcmp(argv[1], "avx2") == 0)
                init_mb_mgr_avx2(mgr);
        else
                return 2;
        if (imb_get_errno(mgr) != 0) {
                fprintf(stderr, "init failed: %s\n", imb_get_strerror(imb_get_errno(mgr)));
                return 3;
        }
        const size_t mgr_size = imb_get_mb_mgr_size();

        s3g_size = IMB_SNOW3G_KEY_SCHED_SIZE(mgr);
        if (s3g_size < sizeof(snow3g_key_schedule_t))
                s3g_size = sizeof(snow3g_key_schedule_t);
        for (int b = 0; b < batch; b++) {
                slot_t *s = &slots[b];

                s->src = xalloc(MAXLEN + 64);
                s->dst = xalloc(MAXLEN + 64);
                s->tag = xalloc(64);
                s->iv = xalloc(64);
                s->des_ks = xalloc(3 * IMB_DES_KEY_SCHED_SIZE);
                s->kas = xalloc(sizeof(*s->kas));
                s->s3g = xalloc(s3g_size);
                for (int i = 0; i < 3; i++)
                        s->des3_ptrs[i] = s->des_ks[i];
        }
        direct_alloc();

        printf("VARIANT arch=%u type=%u features=%llx\n", (unsigned) mgr->used_arch,
               (unsigned) mgr->used_arch_type, (unsigned long long) mgr->features);
        announce(0, (uint64_t) (uintptr_t) &imb_get_version);
        announce(1, (uint64_t) (uintptr_t) mgr->jobs);
        announce(2, (uint64_t) sizeof(IMB_JOB));
        announce(3, (uint64_t) IMB_MAX_JOBS);

        FILE *f = fopen(argv[2], "r");

        if (f == NULL)
                return 2;
        static char lines[MAXBATCH][2048];
        static IMB_JOB tmpl[MAXBATCH];

        for (;;) {
                int n = 0;

                while (n < batch && fgets(lines[n], sizeof(lines[n]), f) != NULL) {
                        if (lines[n][0] == '#' || lines[n][0] == '\n')
                                continue;
                        n++;
                }
                if (n == 0)
                        break;
                while (IMB_FLUSH_JOB(mgr) != NULL)
                        ;
                for (int b = 0; b < n; b++)
                        prepare(mgr, &slots[b], lines[b], &tmpl[b]);

                const unsigned errs0 = VALGRIND_COUNT_ERRORS;
                int err_job = 0;

                if (taint)
                        for (int b = 0; b < n; b++)
                                if (slots[b].ok)
                                        (void) VALGRIND_MAKE_MEM_UNDEFINED(slots[b].sec_ptr,
                                                                           slots[b].sec_len);
                k7_page[0] = 1; /* ---- segment start ---- */
                for (int b = 0; b < n; b++) {
                        if (!slots[b].ok)
                                continue;
                        if (slots[b].direct) { /* api=direct:<name>: the one processing call */
                                run_direct(mgr, &slots[b]);
                                if (slots[b].status != (int) IMB_STATUS_COMPLETED && err_job == 0)
                                        err_job = slots[b].status - 1000;
                                continue;
                        }
                        IMB_JOB *job = IMB_GET_NEXT_JOB(mgr);

                        *job = tmpl[b];
                        IMB_JOB *ret = IMB_SUBMIT_JOB(mgr);
                        const int e = imb_get_errno(mgr);

                        if (e != 0 && err_job == 0)
                                err_job = e;
                        collect(ret);
                }
                for (;;) {
                        IMB_JOB *ret = IMB_FLUSH_JOB(mgr);

                        if (ret == NULL)
                                break;
                        collect(ret);
                }
                k7_page[1] = 1; /* ---- segment end ---- */

                /* did the secrets' taint reach the outputs? (memcheck only; 0 elsewhere) */
                int reached[MAXBATCH];

                for (int b = 0; b < n; b++) {
                        finish_direct(mgr, &slots[b]);
                        reached[b] = slots[b].ok ? taint_reached(slots[b].out_ptr,
                                                                 slots[b].out_len ? slots[b].out_len : 1)
                                                 : 0;
                }
                /* everything back to defined: schedules, manager state, buffers */
                (void) VALGRIND_MAKE_MEM_DEFINED(mgr, mgr_size);
                (void) VALGRIND_MAKE_MEM_DEFINED(slots, sizeof(slots));
                (void) VALGRIND_MAKE_MEM_DEFINED(&dcall, sizeof(dcall));
                (void) VALGRIND_MAKE_MEM_DEFINED(ddst, (size_t) DMAX * DSTRIDE);
                (void) VALGRIND_MAKE_MEM_DEFINED(dout, (size_t) DMAX * MAXLEN);
                (void) VALGRIND_MAKE_MEM_DEFINED(ds3g, (size_t) DMAX * DKSTRIDE);
                for (int b = 0; b < n; b++) {
                        slot_t *s = &slots[b];

                        if (s->ok)
                                (void) VALGRIND_MAKE_MEM_DEFINED(s->sec_ptr, s->sec_len);
                        (void) VALGRIND_MAKE_MEM_DEFINED(s->dst, MAXLEN);
                        (void) VALGRIND_MAKE_MEM_DEFINED(s->src, MAXLEN);
                        (void) VALGRIND_MAKE_MEM_DEFINED(s->tag, 64);
                }
                const unsigned errs1 = VALGRIND_COUNT_ERRORS;

                for (int b = 0; b < n; b++) {
                        const slot_t *s = &slots[b];

                        if (!s->ok) {
                                printf("CASE id=%s status=-1 errno=-3 errs=0 taint=0 out=-\n", s->id);
                                continue;
                        }
                        printf("CASE id=%s status=%d errno=%d errs=%u taint=%d", s->id,
                               s->done ? s->status : -2, err_job, errs1 - errs0, reached[b]);
                        if (s->direct)
                                printf(" api=direct:%s fn=%llx", direct_names[s->direct - 1],
                                       direct_fn_off(s));
                        printf(" out=");
                        if (s->out_len == 0)
                                printf("-");
                        for (size_t i = 0; i < s->out_len; i++)
                                printf("%02x", s->out_ptr[i]);
                        printf("\n");
                }
                fflush(stdout);
        }
        fclose(f);
        free_mb_mgr(mgr);
        return 0;
}
#endif /* K7_NO_MAIN */
