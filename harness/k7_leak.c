/*
 * k7_leak - correspondence K7 (property C19): secret-independence of branches
 * and addresses of DES / 3DES / DOCSIS-DES / KASUMI / SNOW3G jobs, observed on
 * the compiled library under valgrind (memcheck or lackey).
 *
 *   k7_leak <sse|avx2> <script> [--no-taint] [--batch N]
 *
 * script: one case per line
 *   <id> <algo> <dir> <len> <off> <keyhex> <ivhex> <msgseed>
 *   algo : des | des3 | docsis | kasumi_f8 | kasumi_f9 | snow3g_uea2 | snow3g_uia2
 *   dir  : 1 encrypt / 2 decrypt (ciphers), ignored for the MACs
 *   len  : bytes for des/des3/docsis/kasumi_f9, bits for kasumi_f8/snow3g_*
 *   off  : cipher start offset (bits for kasumi_f8/snow3g_uea2, else bytes)
 *   key  : 8 / 24 / 8 / 16 / 16 / 16 / 16 bytes
 *   iv   : 8 / 8 / 8 / 8 / - / 16 / 16 bytes
 *
 * For every group of N (--batch, default 1) consecutive cases the jobs are
 * prepared exactly as an application would (key schedule built by the library's
 * helper from the raw key), then
 *   - every byte that is secret or derived from the secret (the key schedules)
 *     is marked UNDEFINED for memcheck (client request; no-op outside memcheck),
 *   - a marker store to K7_MARK+0 is executed,
 *   - the N jobs are submitted with IMB_SUBMIT_JOB, then IMB_FLUSH_JOB runs
 *     until all of them have come back,
 *   - a marker store to K7_MARK+8 is executed,
 *   - outputs, key schedules and the whole manager are made DEFINED again.
 * Under memcheck any "Conditional jump or move depends on uninitialised
 * value(s)" / "Use of uninitialised value of size N" raised in between is a
 * secret-dependent branch / address.  The number of memcheck errors raised by
 * each group is printed (VALGRIND_COUNT_ERRORS), so that errors can be
 * attributed to inputs; taint=1 confirms that memcheck saw the secret reach the
 * output (the tainting is effective).  Under lackey (--trace-mem=yes) the part
 * of the trace between the two marker stores is the jobs' instruction / data
 * address sequence (filter: k7_trace.c).
 *
 * All buffers are allocated once per slot and reused by every group of a script,
 * so the address sequences of two groups differing only in the keys must be
 * literally identical.  The only rotating object, the IMB_JOB ring slot, is
 * announced in band (see k7_trace.c) so that the filter can fold it.
 *
 * Output (stdout):
 *   VARIANT arch=<used_arch> type=<used_arch_type> features=<hex>
 *   CASE id=<id> status=<st> errno=<e> errs=<memcheck errors raised by the group>
 *        taint=<0|1> out=<hex>
 */
#define _GNU_SOURCE
#include <stdio.h>
#include <stdlib.h>
#include <string.h>
#include <stdint.h>
#include <sys/mman.h>

#include <intel-ipsec-mb.h>
#include <valgrind/valgrind.h>
#include <valgrind/memcheck.h>

#define K7_MARK   0x7e0000000000ULL
#define MAXLEN    4096
#define MAXBATCH  16

static volatile uint64_t *const k7_page = (volatile uint64_t *) K7_MARK;

static void
announce(const int k, const uint64_t v)
{
        k7_page[(0x10 + 8 * k) / 8] = 1;
        for (int i = 15; i >= 0; i--)
                k7_page[(0x100 + 8 * ((v >> (4 * i)) & 15)) / 8] = 1;
}

static uint64_t
splitmix64(uint64_t *s)
{
        uint64_t z = (*s += 0x9E3779B97F4A7C15ULL);

        z = (z ^ (z >> 30)) * 0xBF58476D1CE4E5B9ULL;
        z = (z ^ (z >> 27)) * 0x94D049BB133111EBULL;
        return z ^ (z >> 31);
}

static int
hex2bin(const char *s, uint8_t *out, size_t max)
{
        size_t n = 0;

        if (strcmp(s, "-") == 0)
                return 0;
        while (s[0] && s[1]) {
                unsigned v;

                if (n >= max || sscanf(s, "%2x", &v) != 1)
                        return -1;
                out[n++] = (uint8_t) v;
                s += 2;
        }
        return (int) n;
}

static void *
xalloc(size_t n)
{
        void *p = NULL;

        if (posix_memalign(&p, 64, n + 64) != 0)
                exit(3);
        memset(p, 0, n + 64);
        return p;
}

/* one slot = the buffers of one job of a group; allocated once, reused */
typedef struct {
        uint8_t *src, *dst, *tag, *iv;
        uint64_t (*des_ks)[IMB_DES_KEY_SCHED_SIZE / 8]; /* [3][16] */
        const void *des3_ptrs[3];
        kasumi_key_sched_t *kas;
        snow3g_key_schedule_t *s3g;
        /* per case */
        char id[64];
        int ok;
        void *sec_ptr;
        size_t sec_len;
        const uint8_t *out_ptr;
        size_t out_len;
        int status, done;
        void *user;
} slot_t;

static slot_t slots[MAXBATCH];
static size_t s3g_size;

static int
prepare(IMB_MGR *mgr, slot_t *s, const char *line, IMB_JOB *tmpl)
{
        char algo[32], keyhex[128], ivhex[128];
        int dir;
        unsigned long len, off;
        unsigned long long seed;
        uint8_t key[32], ivb[32];

        s->ok = 0;
        s->done = 0;
        s->status = -1;
        snprintf(s->id, sizeof(s->id), "?");
        if (sscanf(line, "%63s %31s %d %lu %lu %127s %127s %llu", s->id, algo, &dir, &len, &off,
                   keyhex, ivhex, &seed) != 8)
                return -1;
        const int klen = hex2bin(keyhex, key, sizeof(key));
        const int ivlen = hex2bin(ivhex, ivb, sizeof(ivb));

        if (klen < 0 || ivlen < 0)
                return -1;
        /* public data: message, IV, previous dst content */
        uint64_t st = seed;

        for (size_t i = 0; i < MAXLEN; i += 8) {
                const uint64_t v = splitmix64(&st);

                memcpy(s->src + i, &v, 8);
        }
        memset(s->dst, 0x5a, MAXLEN);
        memset(s->tag, 0x3c, 64);
        memset(s->iv, 0, 64);
        memcpy(s->iv, ivb, (size_t) ivlen);

        size_t nbytes = 0;
        IMB_JOB *job = tmpl;

        memset(job, 0, sizeof(*job));
        job->src = s->src;
        job->dst = s->dst;
        job->iv = s->iv;
        job->cipher_direction = (dir == 2) ? IMB_DIR_DECRYPT : IMB_DIR_ENCRYPT;
        job->chain_order = IMB_ORDER_CIPHER_HASH;
        job->cipher_mode = IMB_CIPHER_NULL;
        job->hash_alg = IMB_AUTH_NULL;
        job->user_data = s;
        s->out_ptr = s->dst;

        if (strcmp(algo, "des") == 0 || strcmp(algo, "docsis") == 0) {
                if (klen != 8)
                        return -1;
                IMB_DES_KEYSCHED(mgr, s->des_ks[0], key);
                job->cipher_mode = algo[1] == 'e' ? IMB_CIPHER_DES : IMB_CIPHER_DOCSIS_DES;
                job->enc_keys = job->dec_keys = s->des_ks[0];
                job->key_len_in_bytes = 8;
                job->iv_len_in_bytes = 8;
                job->cipher_start_src_offset_in_bytes = off;
                job->msg_len_to_cipher_in_bytes = len;
                nbytes = off + len;
                s->out_len = len;
                s->sec_ptr = s->des_ks[0];
                s->sec_len = IMB_DES_KEY_SCHED_SIZE;
        } else if (strcmp(algo, "des3") == 0) {
                if (klen != 24)
                        return -1;
                for (int i = 0; i < 3; i++)
                        IMB_DES_KEYSCHED(mgr, s->des_ks[i], key + 8 * i);
                job->cipher_mode = IMB_CIPHER_DES3;
                job->enc_keys = job->dec_keys = s->des3_ptrs;
                job->key_len_in_bytes = 24;
                job->iv_len_in_bytes = 8;
                job->cipher_start_src_offset_in_bytes = off;
                job->msg_len_to_cipher_in_bytes = len;
                nbytes = off + len;
                s->out_len = len;
                s->sec_ptr = s->des_ks;
                s->sec_len = 3 * IMB_DES_KEY_SCHED_SIZE;
        } else if (strcmp(algo, "kasumi_f8") == 0) {
                if (klen != 16)
                        return -1;
                IMB_KASUMI_INIT_F8_KEY_SCHED(mgr, key, s->kas);
                job->cipher_mode = IMB_CIPHER_KASUMI_UEA1_BITLEN;
                job->enc_keys = job->dec_keys = s->kas;
                job->key_len_in_bytes = 16;
                job->iv_len_in_bytes = 8;
                job->cipher_start_src_offset_in_bits = off;
                job->msg_len_to_cipher_in_bits = len;
                nbytes = (off + len + 7) / 8;
                s->out_len = nbytes;
                s->sec_ptr = s->kas;
                s->sec_len = sizeof(*s->kas);
        } else if (strcmp(algo, "kasumi_f9") == 0) {
                if (klen != 16)
                        return -1;
                IMB_KASUMI_INIT_F9_KEY_SCHED(mgr, key, s->kas);
                job->hash_alg = IMB_AUTH_KASUMI_UIA1;
                job->chain_order = IMB_ORDER_HASH_CIPHER;
                job->u.KASUMI_UIA1._key = s->kas;
                job->hash_start_src_offset_in_bytes = off;
                job->msg_len_to_hash_in_bytes = len;
                job->auth_tag_output = s->tag;
                job->auth_tag_output_len_in_bytes = 4;
                nbytes = off + len;
                s->out_ptr = s->tag;
                s->out_len = 4;
                s->sec_ptr = s->kas;
                s->sec_len = sizeof(*s->kas);
        } else if (strcmp(algo, "snow3g_uea2") == 0) {
                if (klen != 16)
                        return -1;
                IMB_SNOW3G_INIT_KEY_SCHED(mgr, key, s->s3g);
                job->cipher_mode = IMB_CIPHER_SNOW3G_UEA2_BITLEN;
                job->enc_keys = job->dec_keys = s->s3g;
                job->key_len_in_bytes = 16;
                job->iv_len_in_bytes = 16;
                job->cipher_start_src_offset_in_bits = off;
                job->msg_len_to_cipher_in_bits = len;
                nbytes = (off + len + 7) / 8;
                s->out_len = nbytes;
                s->sec_ptr = s->s3g;
                s->sec_len = s3g_size;
        } else if (strcmp(algo, "snow3g_uia2") == 0) {
                if (klen != 16)
                        return -1;
                IMB_SNOW3G_INIT_KEY_SCHED(mgr, key, s->s3g);
                job->hash_alg = IMB_AUTH_SNOW3G_UIA2_BITLEN;
                job->chain_order = IMB_ORDER_HASH_CIPHER;
                job->u.SNOW3G_UIA2._key = s->s3g;
                job->u.SNOW3G_UIA2._iv = s->iv;
                job->hash_start_src_offset_in_bytes = off;
                job->msg_len_to_hash_in_bits = len;
                job->auth_tag_output = s->tag;
                job->auth_tag_output_len_in_bytes = 4;
                nbytes = off + (len + 7) / 8;
                s->out_ptr = s->tag;
                s->out_len = 4;
                s->sec_ptr = s->s3g;
                s->sec_len = s3g_size;
        } else {
                return -1;
        }
        if (nbytes > MAXLEN)
                return -1;
        s->ok = 1;
        return 0;
}

static void
collect(IMB_JOB *ret)
{
        if (ret == NULL)
                return;
        (void) VALGRIND_MAKE_MEM_DEFINED(ret, sizeof(*ret));
        slot_t *s = ret->user_data;

        if (s != NULL) {
                s->done = 1;
                s->status = (int) ret->status;
        }
}

#ifndef K7_NO_MAIN /* harness/k7_step.c includes this file for prepare()/collect() */
int
main(int argc, char **argv)
{
        if (argc < 3) {
                fprintf(stderr, "usage: k7_leak <sse|avx2> <script> [--no-taint] [--batch N]\n");
                return 2;
        }
        int taint = 1, batch = 1;

        for (int i = 3; i < argc; i++) {
                if (strcmp(argv[i], "--no-taint") == 0)
                        taint = 0;
                else if (strcmp(argv[i], "--batch") == 0 && i + 1 < argc)
                        batch = atoi(argv[++i]);
        }
        if (batch < 1 || batch > MAXBATCH)
                return 2;
        void *m = mmap((void *) K7_MARK, 4096, PROT_READ | PROT_WRITE,
                       MAP_PRIVATE | MAP_ANONYMOUS | MAP_FIXED, -1, 0);
        if (m != (void *) K7_MARK) {
                fprintf(stderr, "cannot map marker page\n");
                return 3;
        }

        IMB_MGR *mgr = alloc_mb_mgr(IMB_FLAG_SHANI_OFF | IMB_FLAG_GFNI_OFF);

        if (mgr == NULL)
                return 3;
        if (strcmp(argv[1], "sse") == 0)
                init_mb_mgr_sse(mgr);
        else if (strcmp(argv[1], "avx2") == 0)
                init_mb_mgr_avx2(mgr);
        else
                return 2;
        if (imb_get_errno(mgr) != 0) {
                fprintf(stderr, "init failed: %s\n", imb_get_strerror(imb_get_errno(mgr)));
                return 3;
        }
        const size_t mgr_size = imb_get_mb_mgr_size();

        s3g_size = IMB_SNOW3G_KEY_SCHED_SIZE(mgr);
        if (s3g_size < sizeof(snow3g_key_schedule_t))
                s3g_size = sizeof(snow3g_key_schedule_t);
        for (int b = 0; b < batch; b++) {
                slot_t *s = &slots[b];

                s->src = xalloc(MAXLEN + 64);
                s->dst = xalloc(MAXLEN + 64);
                s->tag = xalloc(64);
                s->iv = xalloc(64);
                s->des_ks = xalloc(3 * IMB_DES_KEY_SCHED_SIZE);
                s->kas = xalloc(sizeof(*s->kas));
                s->s3g = xalloc(s3g_size);
                for (int i = 0; i < 3; i++)
                        s->des3_ptrs[i] = s->des_ks[i];
        }

        printf("VARIANT arch=%u type=%u features=%llx\n", (unsigned) mgr->used_arch,
               (unsigned) mgr->used_arch_type, (unsigned long long) mgr->features);
        announce(0, (uint64_t) (uintptr_t) &imb_get_version);
        announce(1, (uint64_t) (uintptr_t) mgr->jobs);
        announce(2, (uint64_t) sizeof(IMB_JOB));
        announce(3, (uint64_t) IMB_MAX_JOBS);

        FILE *f = fopen(argv[2], "r");

        if (f == NULL)
                return 2;
        static char lines[MAXBATCH][2048];
        static IMB_JOB tmpl[MAXBATCH];

        for (;;) {
                int n = 0;

                while (n < batch && fgets(lines[n], sizeof(lines[n]), f) != NULL) {
                        if (lines[n][0] == '#' || lines[n][0] == '\n')
                                continue;
                        n++;
                }
                if (n == 0)
                        break;
                while (IMB_FLUSH_JOB(mgr) != NULL)
                        ;
                for (int b = 0; b < n; b++)
                        prepare(mgr, &slots[b], lines[b], &tmpl[b]);

                const unsigned errs0 = VALGRIND_COUNT_ERRORS;
                int err_job = 0;

                if (taint)
                        for (int b = 0; b < n; b++)
                                if (slots[b].ok)
                                        (void) VALGRIND_MAKE_MEM_UNDEFINED(slots[b].sec_ptr,
                                                                           slots[b].sec_len);
                k7_page[0] = 1; /* ---- segment start ---- */
                for (int b = 0; b < n; b++) {
                        if (!slots[b].ok)
                                continue;
                        IMB_JOB *job = IMB_GET_NEXT_JOB(mgr);

                        *job = tmpl[b];
                        IMB_JOB *ret = IMB_SUBMIT_JOB(mgr);
                        const int e = imb_get_errno(mgr);

                        if (e != 0 && err_job == 0)
                                err_job = e;
                        collect(ret);
                }
                for (;;) {
                        IMB_JOB *ret = IMB_FLUSH_JOB(mgr);

                        if (ret == NULL)
                                break;
                        collect(ret);
                }
                k7_page[1] = 1; /* ---- segment end ---- */

                /* did the secrets' taint reach the outputs? (memcheck only; 0 elsewhere) */
                int reached[MAXBATCH];

                for (int b = 0; b < n; b++) {
                        static uint8_t vb[MAXLEN + 64];
                        const size_t len = slots[b].out_len ? slots[b].out_len : 1;

                        reached[b] = 0;
                        if (slots[b].ok && VALGRIND_GET_VBITS(slots[b].out_ptr, vb, len) == 1)
                                for (size_t i = 0; i < len; i++)
                                        reached[b] |= vb[i] != 0;
                }
                /* everything back to defined: schedules, manager state, buffers */
                (void) VALGRIND_MAKE_MEM_DEFINED(mgr, mgr_size);
                (void) VALGRIND_MAKE_MEM_DEFINED(slots, sizeof(slots));
                for (int b = 0; b < n; b++) {
                        slot_t *s = &slots[b];

                        if (s->ok)
                                (void) VALGRIND_MAKE_MEM_DEFINED(s->sec_ptr, s->sec_len);
                        (void) VALGRIND_MAKE_MEM_DEFINED(s->dst, MAXLEN);
                        (void) VALGRIND_MAKE_MEM_DEFINED(s->src, MAXLEN);
                        (void) VALGRIND_MAKE_MEM_DEFINED(s->tag, 64);
                }
                const unsigned errs1 = VALGRIND_COUNT_ERRORS;

                for (int b = 0; b < n; b++) {
                        const slot_t *s = &slots[b];

                        if (!s->ok) {
                                printf("CASE id=%s status=-1 errno=-3 errs=0 taint=0 out=-\n", s->id);
                                continue;
                        }
                        printf("CASE id=%s status=%d errno=%d errs=%u taint=%d out=", s->id,
                               s->done ? s->status : -2, err_job, errs1 - errs0, reached[b]);
                        if (s->out_len == 0)
                                printf("-");
                        for (size_t i = 0; i < s->out_len; i++)
                                printf("%02x", s->out_ptr[i]);
                        printf("\n");
                }
                fflush(stdout);
        }
        fclose(f);
        free_mb_mgr(mgr);
        return 0;
}
#endif /* K7_NO_MAIN */
