/*
 * k7_leak - correspondence K7 (property C19): secret-independence of branches
 * and addresses of DES / 3DES / DOCSIS-DES / KASUMI / SNOW3G jobs, observed on
 * the compiled library under valgrind (memcheck or lackey).
 *
 *   k7_leak <sse|avx2> <script> [--no-taint]
 *
 * script: one case per line
 *   <id> <algo> <dir> <len> <off> <keyhex> <ivhex> <msgseed>
 *   algo : des | des3 | docsis | kasumi_f8 | kasumi_f9 | snow3g_uea2 | snow3g_uia2
 *   dir  : 1 encrypt / 2 decrypt (ciphers), ignored for the MACs
 *   len  : bytes for des/des3/docsis/kasumi_f9, bits for kasumi_f8/snow3g_*
 *   off  : cipher start offset (bits for kasumi_f8/snow3g_uea2, else bytes)
 *   key  : 8 / 24 / 8 / 16 / 16 / 16 / 16 bytes
 *   iv   : 8 / 8 / 8 / 8 / - / 16 / 16 bytes
 *
 * For every case the job is prepared exactly as an application would (key
 * schedule built by the library's helper), then
 *   - every byte that is secret or derived from the secret (key schedule) is
 *     marked UNDEFINED for memcheck (client request; a no-op outside memcheck),
 *   - a marker store to the fixed address K7_MARK is executed (value = 1),
 *   - IMB_SUBMIT_JOB / IMB_FLUSH_JOB run until the job comes back,
 *   - a marker store (value = 2) is executed,
 *   - outputs, the key schedule and the whole manager are made DEFINED again.
 * Under memcheck any "Conditional jump or move depends on uninitialised
 * value(s)" / "Use of uninitialised value of size N" raised in between is a
 * secret-dependent branch / address.  The number of memcheck errors raised by
 * each case is printed (VALGRIND_COUNT_ERRORS), so that errors can be
 * attributed to inputs.  Under lackey (--trace-mem=yes) the part of the trace
 * between the two marker stores is the job's instruction/data address sequence.
 *
 * All buffers are allocated once and reused by every case of a script, so that
 * the address sequence of two cases differing only in the key must be literally
 * identical (the only rotating object, the IMB_JOB ring slot, is announced on
 * the RING line so that the trace filter can fold it).
 *
 * Output (stdout):
 *   RING base=<hex> stride=<dec> count=<dec>
 *   MARK addr=<hex>
 *   CASE id=<id> status=<st> errno=<e> errs=<memcheck errors raised by this case>
 *        taint=<1 iff memcheck saw undefined bits in the output, i.e. the secret reached it> out=<hex>
 */
#define _GNU_SOURCE
#include <stdio.h>
#include <stdlib.h>
#include <string.h>
#include <stdint.h>
#include <sys/mman.h>

#include <intel-ipsec-mb.h>
#include <valgrind/valgrind.h>
#include <valgrind/memcheck.h>

#define K7_MARK  ((volatile uint64_t *) 0x7e0000000000ULL)
#define MAXLEN   4096

static uint64_t
splitmix64(uint64_t *s)
{
        uint64_t z = (*s += 0x9E3779B97F4A7C15ULL);

        z = (z ^ (z >> 30)) * 0xBF58476D1CE4E5B9ULL;
        z = (z ^ (z >> 27)) * 0x94D049BB133111EBULL;
        return z ^ (z >> 31);
}

static int
hex2bin(const char *s, uint8_t *out, size_t max)
{
        size_t n = 0;

        if (strcmp(s, "-") == 0)
                return 0;
        while (s[0] && s[1]) {
                unsigned v;

                if (n >= max || sscanf(s, "%2x", &v) != 1)
                        return -1;
                out[n++] = (uint8_t) v;
                s += 2;
        }
        return (int) n;
}

/* all state that is reused between cases */
static uint8_t *src, *dst, *tag, *iv;
static uint64_t (*des_ks)[IMB_DES_KEY_SCHED_SIZE / 8]; /* [3][16] */
static const void *des3_ptrs[3];
static kasumi_key_sched_t *kas;
static snow3g_key_schedule_t *s3g;
static size_t s3g_size;

static void *
xalloc(size_t n)
{
        void *p = NULL;

        if (posix_memalign(&p, 64, n + 64) != 0)
                exit(3);
        memset(p, 0, n + 64);
        return p;
}

int
main(int argc, char **argv)
{
        if (argc < 3) {
                fprintf(stderr, "usage: k7_leak <sse|avx2> <script> [--no-taint]\n");
                return 2;
        }
        const int taint = !(argc > 3 && strcmp(argv[3], "--no-taint") == 0);
        void *m = mmap((void *) K7_MARK, 4096, PROT_READ | PROT_WRITE,
                       MAP_PRIVATE | MAP_ANONYMOUS | MAP_FIXED, -1, 0);
        if (m != (void *) K7_MARK) {
                fprintf(stderr, "cannot map marker page\n");
                return 3;
        }

        IMB_MGR *mgr = alloc_mb_mgr(IMB_FLAG_SHANI_OFF | IMB_FLAG_GFNI_OFF);

        if (mgr == NULL)
                return 3;
        if (strcmp(argv[1], "sse") == 0)
                init_mb_mgr_sse(mgr);
        else if (strcmp(argv[1], "avx2") == 0)
                init_mb_mgr_avx2(mgr);
        else
                return 2;
        if (imb_get_errno(mgr) != 0) {
                fprintf(stderr, "init failed: %s\n", imb_get_strerror(imb_get_errno(mgr)));
                return 3;
        }
        const size_t mgr_size = imb_get_mb_mgr_size();

        src = xalloc(MAXLEN + 64);
        dst = xalloc(MAXLEN + 64);
        tag = xalloc(64);
        iv = xalloc(64);
        des_ks = xalloc(3 * IMB_DES_KEY_SCHED_SIZE);
        kas = xalloc(sizeof(*kas));
        s3g_size = IMB_SNOW3G_KEY_SCHED_SIZE(mgr);
        if (s3g_size < sizeof(snow3g_key_schedule_t))
                s3g_size = sizeof(snow3g_key_schedule_t);
        s3g = xalloc(s3g_size);
        for (int i = 0; i < 3; i++)
                des3_ptrs[i] = des_ks[i];

        printf("RING base=%llx stride=%u count=%u\n", (unsigned long long) (uintptr_t) mgr->jobs,
               (unsigned) sizeof(IMB_JOB), (unsigned) IMB_MAX_JOBS);
        printf("MARK addr=%llx\n", (unsigned long long) (uintptr_t) K7_MARK);
        printf("VARIANT arch=%u type=%u features=%llx\n", (unsigned) mgr->used_arch,
               (unsigned) mgr->used_arch_type, (unsigned long long) mgr->features);

        FILE *f = fopen(argv[2], "r");

        if (f == NULL)
                return 2;
        char line[2048];

        while (fgets(line, sizeof(line), f) != NULL) {
                char id[64], algo[32], keyhex[128], ivhex[128];
                int dir;
                unsigned long len, off;
                unsigned long long seed;
                uint8_t key[32], ivb[32];

                if (line[0] == '#' || line[0] == '\n')
                        continue;
                if (sscanf(line, "%63s %31s %d %lu %lu %127s %127s %llu", id, algo, &dir, &len, &off,
                           keyhex, ivhex, &seed) != 8) {
                        printf("CASE id=? status=-1 errno=-3 errs=0 out=-\n");
                        continue;
                }
                const int klen = hex2bin(keyhex, key, sizeof(key));
                const int ivlen = hex2bin(ivhex, ivb, sizeof(ivb));

                if (klen < 0 || ivlen < 0) {
                        printf("CASE id=%s status=-1 errno=-3 errs=0 out=-\n", id);
                        continue;
                }
                /* public data: message, IV, previous dst content */
                uint64_t st = seed;

                for (size_t i = 0; i < MAXLEN; i += 8) {
                        const uint64_t v = splitmix64(&st);

                        memcpy(src + i, &v, 8);
                }
                memset(dst, 0x5a, MAXLEN);
                memset(tag, 0x3c, 64);
                memset(iv, 0, 64);
                memcpy(iv, ivb, (size_t) ivlen);

                size_t nbytes = 0; /* bytes of src that must exist */
                size_t out_len = 0;
                const uint8_t *out_ptr = dst;
                void *sec_ptr = NULL; /* secret memory */
                size_t sec_len = 0;

                while (IMB_FLUSH_JOB(mgr) != NULL)
                        ;
                IMB_JOB *job = IMB_GET_NEXT_JOB(mgr);

                memset(job, 0, sizeof(*job));
                job->src = src;
                job->dst = dst;
                job->iv = iv;
                job->cipher_direction = (dir == 2) ? IMB_DIR_DECRYPT : IMB_DIR_ENCRYPT;
                job->chain_order = IMB_ORDER_CIPHER_HASH;
                job->cipher_mode = IMB_CIPHER_NULL;
                job->hash_alg = IMB_AUTH_NULL;

                if (strcmp(algo, "des") == 0 || strcmp(algo, "docsis") == 0) {
                        if (klen != 8)
                                goto bad;
                        IMB_DES_KEYSCHED(mgr, des_ks[0], key);
                        job->cipher_mode =
                                algo[1] == 'e' ? IMB_CIPHER_DES : IMB_CIPHER_DOCSIS_DES;
                        job->enc_keys = job->dec_keys = des_ks[0];
                        job->key_len_in_bytes = 8;
                        job->iv_len_in_bytes = 8;
                        job->cipher_start_src_offset_in_bytes = off;
                        job->msg_len_to_cipher_in_bytes = len;
                        nbytes = off + len;
                        out_len = len;
                        sec_ptr = des_ks[0];
                        sec_len = IMB_DES_KEY_SCHED_SIZE;
                } else if (strcmp(algo, "des3") == 0) {
                        if (klen != 24)
                                goto bad;
                        for (int i = 0; i < 3; i++)
                                IMB_DES_KEYSCHED(mgr, des_ks[i], key + 8 * i);
                        job->cipher_mode = IMB_CIPHER_DES3;
                        job->enc_keys = job->dec_keys = des3_ptrs;
                        job->key_len_in_bytes = 24;
                        job->iv_len_in_bytes = 8;
                        job->cipher_start_src_offset_in_bytes = off;
                        job->msg_len_to_cipher_in_bytes = len;
                        nbytes = off + len;
                        out_len = len;
                        sec_ptr = des_ks;
                        sec_len = 3 * IMB_DES_KEY_SCHED_SIZE;
                } else if (strcmp(algo, "kasumi_f8") == 0) {
                        if (klen != 16)
                                goto bad;
                        IMB_KASUMI_INIT_F8_KEY_SCHED(mgr, key, kas);
                        job->cipher_mode = IMB_CIPHER_KASUMI_UEA1_BITLEN;
                        job->enc_keys = job->dec_keys = kas;
                        job->key_len_in_bytes = 16;
                        job->iv_len_in_bytes = 8;
                        job->cipher_start_src_offset_in_bits = off;
                        job->msg_len_to_cipher_in_bits = len;
                        nbytes = (off + len + 7) / 8;
                        out_len = nbytes;
                        sec_ptr = kas;
                        sec_len = sizeof(*kas);
                } else if (strcmp(algo, "kasumi_f9") == 0) {
                        if (klen != 16)
                                goto bad;
                        IMB_KASUMI_INIT_F9_KEY_SCHED(mgr, key, kas);
                        job->hash_alg = IMB_AUTH_KASUMI_UIA1;
                        job->chain_order = IMB_ORDER_HASH_CIPHER;
                        job->u.KASUMI_UIA1._key = kas;
                        job->hash_start_src_offset_in_bytes = off;
                        job->msg_len_to_hash_in_bytes = len;
                        job->auth_tag_output = tag;
                        job->auth_tag_output_len_in_bytes = 4;
                        nbytes = off + len;
                        out_ptr = tag;
                        out_len = 4;
                        sec_ptr = kas;
                        sec_len = sizeof(*kas);
                } else if (strcmp(algo, "snow3g_uea2") == 0) {
                        if (klen != 16)
                                goto bad;
                        IMB_SNOW3G_INIT_KEY_SCHED(mgr, key, s3g);
                        job->cipher_mode = IMB_CIPHER_SNOW3G_UEA2_BITLEN;
                        job->enc_keys = job->dec_keys = s3g;
                        job->key_len_in_bytes = 16;
                        job->iv_len_in_bytes = 16;
                        job->cipher_start_src_offset_in_bits = off;
                        job->msg_len_to_cipher_in_bits = len;
                        nbytes = (off + len + 7) / 8;
                        out_len = nbytes;
                        sec_ptr = s3g;
                        sec_len = s3g_size;
                } else if (strcmp(algo, "snow3g_uia2") == 0) {
                        if (klen != 16)
                                goto bad;
                        IMB_SNOW3G_INIT_KEY_SCHED(mgr, key, s3g);
                        job->hash_alg = IMB_AUTH_SNOW3G_UIA2_BITLEN;
                        job->chain_order = IMB_ORDER_HASH_CIPHER;
                        job->u.SNOW3G_UIA2._key = s3g;
                        job->u.SNOW3G_UIA2._iv = iv;
                        job->hash_start_src_offset_in_bytes = off;
                        job->msg_len_to_hash_in_bits = len;
                        job->auth_tag_output = tag;
                        job->auth_tag_output_len_in_bytes = 4;
                        nbytes = off + (len + 7) / 8;
                        out_ptr = tag;
                        out_len = 4;
                        sec_ptr = s3g;
                        sec_len = s3g_size;
                } else {
                        goto bad;
                }
                if (nbytes > MAXLEN)
                        goto bad;

                unsigned errs0 = VALGRIND_COUNT_ERRORS;
                IMB_JOB *ret;
                int st_job = -1, err_job = 0;

                if (taint)
                        (void) VALGRIND_MAKE_MEM_UNDEFINED(sec_ptr, sec_len);
                *K7_MARK = 1;
                ret = IMB_SUBMIT_JOB(mgr);
                err_job = imb_get_errno(mgr);
                if (ret == NULL && err_job == 0)
                        ret = IMB_FLUSH_JOB(mgr);
                *K7_MARK = 2;
                /* did the secret's taint reach the output? (memcheck only; 0 elsewhere) */
                int reached = 0;
                {
                        static uint8_t vb[MAXLEN + 64];
                        const size_t n = out_len ? out_len : 1;

                        if (VALGRIND_GET_VBITS(out_ptr, vb, n) == 1)
                                for (size_t i = 0; i < n; i++)
                                        reached |= vb[i] != 0;
                }
                /* everything back to defined: outputs, schedule, manager state, locals */
                (void) VALGRIND_MAKE_MEM_DEFINED(sec_ptr, sec_len);
                (void) VALGRIND_MAKE_MEM_DEFINED(mgr, mgr_size);
                (void) VALGRIND_MAKE_MEM_DEFINED(dst, MAXLEN);
                (void) VALGRIND_MAKE_MEM_DEFINED(src, MAXLEN);
                (void) VALGRIND_MAKE_MEM_DEFINED(tag, 64);
                (void) VALGRIND_MAKE_MEM_DEFINED(&ret, sizeof(ret));
                if (ret != NULL) {
                        (void) VALGRIND_MAKE_MEM_DEFINED(ret, sizeof(*ret));
                        st_job = (int) ret->status;
                }
                unsigned errs1 = VALGRIND_COUNT_ERRORS;

                printf("CASE id=%s status=%d errno=%d errs=%u taint=%d out=", id, st_job, err_job,
                       errs1 - errs0, reached);
                if (out_len == 0)
                        printf("-");
                for (size_t i = 0; i < out_len; i++)
                        printf("%02x", out_ptr[i]);
                printf("\n");
                fflush(stdout);
                continue;
        bad:
                /* give the slot back: submit nothing; the job ring only advances on submit */
                printf("CASE id=%s status=-1 errno=-3 errs=0 out=-\n", id);
        }
        fclose(f);
        while (IMB_FLUSH_JOB(mgr) != NULL)
                ;
        free_mb_mgr(mgr);
        return 0;
}
