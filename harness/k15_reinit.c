/*
 * k15_reinit - correspondence harness for property C15 (re-initialising a manager restores the
 * pristine state).
 *
 *   k15_reinit resetimg
 *       For every (reset function, lane count) pair used by a compiled variant (gen_reset.h) run
 *       the function of the CURRENT lib/x86_64/ooo_mgr_reset.c (compiled into this program) on the
 *       struct pre-filled with two different patterns and print which bytes it writes, with what:
 *           IMG <fn> <lanes> <sizeof struct> <count>:<value|256 = untouched> ...
 *       (written to coq/Gen/GenResetImages.v by checks/c15.py; compared with the model in Coq)
 *
 *   k15_reinit run <oldarch> <oldflags> <newarch> <newflags> <how> <script> <kprefix> [via <arch> <flags>]
 *       A = alloc(oldflags), init old; run the first <kprefix> ops of the script on A (jobs stay
 *       in flight); re-initialise A as (newarch, newflags) [optionally through an intermediate
 *       variant first]; then
 *        (a) QUEUE_SIZE(A) == 0, FLUSH_JOB(A) == NULL, GET_COMPLETED_JOB(A) == NULL;
 *        (b) B = alloc(newflags), init new: the whole block of A (imb_get_mb_mgr_size() bytes)
 *            equals B's, field by field, pointers into the own block normalised to offsets,
 *            jobs[] excluded; differences are reported by field name and classified by whether
 *            the new variant uses that manager;
 *        (c) the remaining ops run on A and on B give identical traces and results; every result
 *            also equals the one of the same job run alone on a third fresh manager;
 *        (d) buffers of the jobs that were in flight at re-init are never written afterwards.
 *       how = 0: flags changed with imb_set_pointers_mb_mgr(A, newflags, 0) before init;
 *       how = 1: A->flags written directly (public field).
 */
#define _GNU_SOURCE
#include <stdio.h>
#include <stdlib.h>
#include <string.h>
#include <stdint.h>
#include <sys/mman.h>
#include <unistd.h>
#include <intel-ipsec-mb.h>
#include "include/ipsec_ooo_mgr.h"
#include "include/ooo_mgr_reset.h"
#include "k15_ops.h"

/* ------------------------------------------------------------------------- */
/* resetimg */

typedef void (*reset_fn_t)(void *, const unsigned);
#define X(name) { #name, name },
static const struct {
        const char *name;
        reset_fn_t fn;
} reset_fns[] = { GR_RESET_FN_LIST(X) };
#undef X

static int
mode_resetimg(void)
{
        for (int p = 0; p < GR_NPAIRS; p++) {
                const struct gl_struct *st = gl_find(gr_pairs[p].stype);
                reset_fn_t fn = NULL;

                for (size_t i = 0; i < sizeof(reset_fns) / sizeof(reset_fns[0]); i++)
                        if (!strcmp(reset_fns[i].name, gr_pairs[p].fn))
                                fn = reset_fns[i].fn;
                if (!st || !fn) {
                        fprintf(stderr, "resetimg: %s / %s not found\n", gr_pairs[p].fn,
                                gr_pairs[p].stype);
                        return 2;
                }
                const size_t sz = st->size;
                uint8_t *a = aligned_alloc(64, (sz + 63 + 256) & ~(size_t) 63);
                uint8_t *b = aligned_alloc(64, (sz + 63 + 256) & ~(size_t) 63);

                memset(a, 0xA5, sz + 128);
                memset(b, 0x5A, sz + 128);
                fn(a, gr_pairs[p].lanes);
                fn(b, gr_pairs[p].lanes);
                for (size_t i = sz; i < sz + 128; i++)
                        if (a[i] != 0xA5 || b[i] != 0x5A) {
                                fprintf(stderr, "resetimg: %s writes beyond the struct\n",
                                        gr_pairs[p].fn);
                                return 2;
                        }
                printf("IMG %s %u %zu", gr_pairs[p].fn, gr_pairs[p].lanes, sz);
                size_t i = 0;
                while (i < sz) {
                        const int v = (a[i] == b[i]) ? a[i] : 256;
                        size_t j = i;

                        while (j < sz && ((a[j] == b[j]) ? a[j] : 256) == v)
                                j++;
                        printf(" %zu:%d", j - i, v);
                        i = j;
                }
                printf("\n");
                free(a);
                free(b);
        }
        return 0;
}

/* ------------------------------------------------------------------------- */
/* image comparison */

struct cmp {
        const uint8_t *a, *b;    /* block bases */
        const karena *ara, *arb; /* buffer arenas of the two managers */
        size_t size;             /* block size */
        const uint8_t *ra, *rb;  /* region bases */
        const char *region;      /* "IMB_MGR" or the OOO field */
        int used;                /* region belongs to the scheduling state of the new variant */
        uint8_t *covered;        /* per byte of the block */
        const char *stype;       /* struct type of the region */
        int lenient;             /* comparison after a follow-up history: scratch areas may differ */
        long diff_used, diff_unused, diff_scratch;
        int printed;
        FILE *out;
};

/* pointers into the own manager block or into the own buffer arena become tagged offsets */
static uint64_t
norm_ptr(uint64_t v, const uint8_t *base, size_t size, const karena *ar)
{
        const uint64_t b = (uint64_t) (uintptr_t) base;

        if (v >= b && v < b + size)
                return (v - b) | (1ULL << 63);
        if (ar != NULL) {
                const uint64_t ab = (uint64_t) (uintptr_t) ar->base;
                if (v >= ab && v < ab + ar->size)
                        return (v - ab) | (1ULL << 62);
        }
        return v;
}

/*
 * Data-plane areas of the out-of-order managers: kernel arguments (args.*), key stream / state /
 * block scratch.  Kernels store whole vector registers there, including lanes and registers they
 * never loaded — observed content: fragments of the CALLER's registers (addresses, even ASCII text
 * left by printf in the harness).  Such bytes are written before they are read and are not a
 * function of the job history, so after a follow-up history only the scheduler bookkeeping (lens,
 * unused_lanes, job_in_lane, counters, per-lane block bookkeeping) and IMB_MGR are compared
 * strictly; data-plane differences are counted and reported.  Right after init everything is
 * compared strictly.
 */
static int
is_scratch(const char *stype, const char *leaf)
{
        static const char *const data_plane[] = { "args.", "ks[", "state[", "scratch[", "init_blocks[", "crc_init[",
                                                  "bits_fixup[", NULL };
        if (stype == NULL || !strcmp(stype, "IMB_MGR"))
                return 0;
        for (int i = 0; data_plane[i]; i++)
                if (!strncmp(leaf, data_plane[i], strlen(data_plane[i])))
                        return 1;
        if (!strncmp(leaf, "ldata[", 6)) {
                const char *dot = strchr(leaf, '.');
                if (dot && (!strncmp(dot, ".extra_block[", 13) || !strncmp(dot, ".outer_block[", 13) ||
                            !strncmp(dot, ".final_block[", 13)))
                        return 1;
        }
        return 0;
}

static void
cmp_report(struct cmp *c, const char *name, uint32_t off, uint64_t va, uint64_t vb, unsigned nbytes)
{
        if (c->used && c->lenient && is_scratch(c->stype, name)) {
                c->diff_scratch += nbytes;
                if (c->printed < 40) {
                        fprintf(c->out, "IMGDIFF region=%s leaf=%s off=%u a=%llx b=%llx scratch=1\n", c->region, name,
                                off, (unsigned long long) va, (unsigned long long) vb);
                        c->printed++;
                }
                return;
        }
        if (c->used)
                c->diff_used += nbytes;
        else
                c->diff_unused += nbytes;
        if (c->printed < 40) {
                fprintf(c->out, "IMGDIFF region=%s leaf=%s off=%u a=%llx b=%llx used=%d\n", c->region,
                        name, off, (unsigned long long) va, (unsigned long long) vb, c->used);
                c->printed++;
        }
}

static void
cmp_elem(const struct gl_leaf *lf, uint32_t off, const uint32_t *index, void *arg)
{
        struct cmp *c = arg;
        const uint8_t *pa = c->ra + off, *pb = c->rb + off;
        char name[160];

        memset(c->covered + (size_t) (pa - c->a), 1, lf->esz);
        if (lf->kind == GL_BLOB)
                return;
        if (lf->kind == GL_PTR && lf->esz == 8) {
                const uint64_t va = norm_ptr(*(const uint64_t *) pa, c->a, c->size, c->ara);
                const uint64_t vb = norm_ptr(*(const uint64_t *) pb, c->b, c->size, c->arb);

                if (va != vb) {
                        gl_elem_name(lf, index, name, sizeof(name));
                        cmp_report(c, name, off, va, vb, 8);
                }
                return;
        }
        if (memcmp(pa, pb, lf->esz) != 0) {
                uint64_t va = 0, vb = 0;

                memcpy(&va, pa, lf->esz > 8 ? 8 : lf->esz);
                memcpy(&vb, pb, lf->esz > 8 ? 8 : lf->esz);
                gl_elem_name(lf, index, name, sizeof(name));
                cmp_report(c, name, off, va, vb, lf->esz);
        }
}

static void
cmp_struct(struct cmp *c, const struct gl_struct *st)
{
        for (uint32_t i = 0; i < st->nleaves; i++)
                gl_for_each_elem(&st->leaves[i], cmp_elem, c);
}

/* returns differing bytes in state the new variant uses; *unused gets the rest */
static long
img_compare(IMB_MGR *ma, IMB_MGR *mb, FILE *out, long *unused, const char *label, const karena *ara,
            const karena *arb)
{
        struct cmp c;
        const struct gr_variant *v = k_variant_of(mb);

        memset(&c, 0, sizeof(c));
        c.a = (const uint8_t *) ma;
        c.b = (const uint8_t *) mb;
        c.size = imb_get_mb_mgr_size();
        c.covered = calloc(1, c.size);
        c.out = out;
        c.ara = ara;
        c.arb = arb;
        c.ra = c.a;
        c.rb = c.b;
        c.region = "IMB_MGR";
        c.stype = "IMB_MGR";
        c.lenient = (ara != NULL);
        c.used = 1;
        cmp_struct(&c, gl_find("IMB_MGR"));
        for (int i = 0; i < GR_NTABLE; i++) {
                const uint8_t *pa = k_ooo_ptr(ma, &gr_table[i]), *pb = k_ooo_ptr(mb, &gr_table[i]);

                if (pa < c.a || pa + gr_table[i].asize > c.a + c.size || pb < c.b ||
                    pb + gr_table[i].asize > c.b + c.size || (pa - c.a) != (pb - c.b))
                        continue; /* already reported through the IMB_MGR pointer leaf */
                c.ra = pa;
                c.rb = pb;
                c.region = gr_table[i].field;
                c.stype = gr_table[i].stype;
                c.used = k_variant_uses(v, gr_table[i].field);
                cmp_struct(&c, gl_find(gr_table[i].stype));
        }
        /* everything not covered by a leaf: padding inside structs, alignment gaps, slack */
        c.region = "padding";
        c.stype = NULL;
        c.used = 1;
        for (size_t i = 0; i < c.size; i++)
                if (!c.covered[i] && c.a[i] != c.b[i]) {
                        char name[32];

                        snprintf(name, sizeof(name), "block+%zu", i);
                        c.ra = c.a;
                        cmp_report(&c, name, (uint32_t) i, c.a[i], c.b[i], 1);
                }
        fprintf(out, "IMGCMP %s bytes=%zu diff_used=%ld diff_unused=%ld diff_scratch=%ld variant=%s\n", label, c.size,
                c.diff_used, c.diff_unused, c.diff_scratch, v ? v->name : "?");
        free(c.covered);
        *unused = c.diff_unused;
        return c.diff_used;
}

/* ------------------------------------------------------------------------- */

static void
reinit(IMB_MGR *m, const char *arch, uint64_t flags, int how)
{
        if (m->flags != flags) {
                if (how == 0)
                        imb_set_pointers_mb_mgr(m, flags, 0);
                else
                        m->flags = flags;
        }
        k_init_arch(m, arch);
}

static char *
result_string(imbh_run *r)
{
        imbh_str s = { 0 };

        imbh_format_result(&s, r, "-", 0);
        return s.s;
}

static int
mode_run(int argc, char **argv)
{
        if (argc < 9) {
                fprintf(stderr, "usage: run oldarch oldflags newarch newflags how script kprefix [via arch flags]\n");
                return 2;
        }
        const char *oldarch = argv[2], *newarch = argv[4];
        const uint64_t oldflags = strtoull(argv[3], NULL, 0), newflags = strtoull(argv[5], NULL, 0);
        const int how = atoi(argv[6]);
        kscript *s = kscript_load(argv[7]);
        int kprefix = atoi(argv[8]);
        const char *viaarch = NULL;
        uint64_t viaflags = 0;
        long fails = 0;

        if (argc >= 12 && !strcmp(argv[9], "via")) {
                viaarch = argv[10];
                viaflags = strtoull(argv[11], NULL, 0);
        }
        if (kprefix > s->nops)
                kprefix = s->nops;

        IMB_MGR *A = alloc_mb_mgr(oldflags);
        k_init_arch(A, oldarch);
        if (imb_get_errno(A) != 0) {
                printf("SKIP init %s:%llu failed errno=%d\n", oldarch, (unsigned long long) oldflags,
                       imb_get_errno(A));
                return 3;
        }
        printf("OLD arch=%u type=%u features=%llx\n", A->used_arch, (unsigned) A->used_arch_type,
               (unsigned long long) A->features);

        /* ---- prefix on A */
        kctx *ca = kctx_new(A, s, "P", stdout);
        for (int i = 0; i < kprefix; i++)
                k_run_op(ca, i);
        k_print_occupancy(A, "P", stdout);
        printf("PREFIX ops=%d pending=%d returned=%d order_violations=%d bad_status=%d\n", kprefix,
               ca->npending, ca->nreturned, ca->order_violations, ca->bad_status);
        fails += ca->order_violations + ca->bad_status;

        /* snapshot of the buffers of the jobs in flight */
        const int nfl = ca->npending;
        int *fl = malloc(sizeof(int) * (size_t) (nfl + 1));
        char **fl_snap = malloc(sizeof(char *) * (size_t) (nfl + 1));

        memcpy(fl, ca->pending, sizeof(int) * (size_t) nfl);

        /* ---- re-initialise */
        if (viaarch != NULL) {
                reinit(A, viaarch, viaflags, how);
                printf("VIA arch=%u type=%u errno=%d\n", A->used_arch, (unsigned) A->used_arch_type,
                       imb_get_errno(A));
        }
        reinit(A, newarch, newflags, how);
        if (imb_get_errno(A) != 0) {
                printf("REINIT errno=%d\n", imb_get_errno(A));
                fails++;
        }
        for (int i = 0; i < nfl; i++)
                fl_snap[i] = result_string(ca->runs[fl[i]]);
        printf("NEW arch=%u type=%u features=%llx\n", A->used_arch, (unsigned) A->used_arch_type,
               (unsigned long long) A->features);

        /* ---- (a) */
        const uint32_t q = IMB_QUEUE_SIZE(A);
        IMB_JOB *fj = IMB_FLUSH_JOB(A);
        IMB_JOB *cj = IMB_GET_COMPLETED_JOB(A);
        const uint32_t q2 = IMB_QUEUE_SIZE(A);

        printf("EMPTY q=%u flush=%s completed=%s q2=%u earliest=%d\n", q, fj ? "JOB" : "NULL",
               cj ? "JOB" : "NULL", q2, A->earliest_job);
        if (q != 0 || fj != NULL || cj != NULL || q2 != 0)
                fails++, printf("FAIL a: manager not empty after init\n");
        /* drain whatever a broken init left behind so that the rest can run */
        for (int g = 0; g < 600 && IMB_FLUSH_JOB(A) != NULL; g++)
                ;

        /* ---- (b) */
        IMB_MGR *B = alloc_mb_mgr(newflags);
        k_init_arch(B, newarch);
        if (A->used_arch != B->used_arch || A->used_arch_type != B->used_arch_type)
                fails++, printf("FAIL b: re-initialised manager is variant %u/%u, fresh one %u/%u\n",
                                A->used_arch, (unsigned) A->used_arch_type, B->used_arch,
                                (unsigned) B->used_arch_type);
        long unused1 = 0, unused2 = 0;
        const long d1 = img_compare(A, B, stdout, &unused1, "after-init", NULL, NULL);

        if (d1)
                fails++, printf("FAIL b: image differs from a fresh manager in %ld bytes of state\n", d1);

        /* ---- (c) follow-up on both */
        char *bufa = NULL, *bufb = NULL;
        size_t lena = 0, lenb = 0;
        FILE *fa = open_memstream(&bufa, &lena), *fb = open_memstream(&bufb, &lenb);
        kctx *a2 = kctx_new(A, s, "X", fa), *b2 = kctx_new(B, s, "X", fb);
        const size_t arsz = 64u << 20;
        karena *arA = karena_register(mmap(NULL, arsz, PROT_READ | PROT_WRITE, MAP_PRIVATE | MAP_ANONYMOUS, -1, 0), arsz, 1);
        karena *arB = karena_register(mmap(NULL, arsz, PROT_READ | PROT_WRITE, MAP_PRIVATE | MAP_ANONYMOUS, -1, 0), arsz, 1);

        a2->arena = arA;
        b2->arena = arB;

        for (int i = kprefix; i < s->nops; i++) {
                /* items already used in the prefix cannot be submitted again */
                const kop *o = &s->ops[i];
                int clash = 0;
                for (int k = 0; k < o->n && o->idx; k++)
                        if (ca->runs[o->idx[k]] != NULL)
                                clash = 1;
                if (clash)
                        continue;
                k_run_op(a2, i);
                k_run_op(b2, i);
        }
        k_print_occupancy(A, "X", fa);
        k_print_occupancy(B, "X", fb);
        k_flush_all(a2);
        k_flush_all(b2);
        fclose(fa);
        fclose(fb);
        fputs(bufa, stdout);
        if (lena != lenb || memcmp(bufa, bufb, lena) != 0) {
                fails++;
                /* first differing line */
                const char *pa = bufa, *pb = bufb;
                int ln = 1;
                while (*pa && *pb) {
                        const char *ea = strchr(pa, '\n'), *eb = strchr(pb, '\n');
                        const size_t la = ea ? (size_t) (ea - pa) : strlen(pa), lb = eb ? (size_t) (eb - pb) : strlen(pb);
                        if (la != lb || memcmp(pa, pb, la) != 0) {
                                printf("FAIL c: traces differ at line %d\n  reinit: %.300s\n  fresh : %.300s\n", ln,
                                       pa, pb);
                                break;
                        }
                        pa += la + (ea != NULL);
                        pb += lb + (eb != NULL);
                        ln++;
                }
                if (!(*pa && *pb))
                        printf("FAIL c: traces differ in length\n");
        }
        fails += a2->order_violations + a2->bad_status + b2->order_violations + b2->bad_status;
        if (a2->npending || b2->npending)
                fails++, printf("FAIL c: %d/%d jobs never came back\n", a2->npending, b2->npending);
        const long d2 = img_compare(A, B, stdout, &unused2, "after-followup", arA, arB);
        if (d2)
                fails++, printf("FAIL b2: image differs after identical follow-up histories in %ld bytes\n", d2);

        /* results equal those of the same job run alone on a fresh manager */
        IMB_MGR *R = alloc_mb_mgr(newflags);
        int nalone = 0, alone_diff = 0;

        k_init_arch(R, newarch);
        for (int i = 0; i < s->nitems; i++) {
                if (a2->runs[i] == NULL || !a2->runs[i]->done)
                        continue;
                imbh_run *r = imbh_run_new(R, &s->items[i]);
                IMB_JOB *job = IMB_GET_NEXT_JOB(R);

                imbh_fill_job(job, r);
                job = IMB_SUBMIT_JOB(R);
                r->err = imb_get_errno(R);
                if (job == NULL)
                        job = IMB_FLUSH_JOB(R);
                if (job == NULL || job->user_data != r) {
                        alone_diff++;
                        printf("FAIL alone: item %d did not come back from a fresh manager\n", i);
                        continue;
                }
                r->status = (int) job->status;
                r->done = 1;
                char *x = result_string(r), *y = result_string(a2->runs[i]);

                nalone++;
                if (strcmp(x, y) != 0) {
                        alone_diff++;
                        if (alone_diff <= 3)
                                printf("FAIL alone: item %d\n  reinit: %.400s\n  alone : %.400s\n", i, y, x);
                }
                free(x);
                free(y);
                imbh_run_free(r);
        }
        fails += alone_diff;

        /* ---- (d) buffers of the jobs dropped by the re-initialisation */
        int residue = 0;
        for (int i = 0; i < nfl; i++) {
                char *now = result_string(ca->runs[fl[i]]);

                if (strcmp(now, fl_snap[i]) != 0) {
                        residue++;
                        if (residue <= 3)
                                printf("FAIL d: buffers of dropped job %d written after re-init\n  then: %.300s\n  now : %.300s\n",
                                       fl[i], fl_snap[i], now);
                }
                free(now);
        }
        fails += residue;
        printf("SUMMARY fails=%ld inflight_at_reinit=%d followup_jobs=%d alone_checked=%d img_used=%ld img_unused=%ld "
               "img2_used=%ld img2_unused=%ld residue_writes=%d\n",
               fails, nfl, a2->nreturned, nalone, d1, unused1, d2, unused2, residue);
        return fails ? 1 : 0;
}


/* ------------------------------------------------------------------------- */
/* probe: which OOO manager does each item park in (submitted alone on an empty manager)? */

static int
mode_probe(int argc, char **argv)
{
        if (argc < 5)
                return 2;
        IMB_MGR *m = alloc_mb_mgr(strtoull(argv[3], NULL, 0));
        kscript *s = kscript_load(argv[4]);

        k_init_arch(m, argv[2]);
        if (imb_get_errno(m) != 0) {
                printf("SKIP init failed errno=%d\n", imb_get_errno(m));
                return 3;
        }
        printf("VARIANT arch=%u type=%u\n", m->used_arch, (unsigned) m->used_arch_type);
        for (int i = 0; i < s->nitems; i++) {
                imbh_run *r = imbh_run_new(m, &s->items[i]);

                if (r->prep_err) {
                        printf("PROBE %d prep_err=%d\n", i, r->prep_err);
                        continue;
                }
                IMB_JOB *job = IMB_GET_NEXT_JOB(m);

                imbh_fill_job(job, r);
                job = IMB_SUBMIT_JOB(m);
                const int err = imb_get_errno(m);

                printf("PROBE %d", i);
                if (job != NULL)
                        printf(" immediate status=%d err=%d", (int) job->status, err);
                else
                        for (int k = 0; k < GR_NTABLE; k++)
                                if (k_lanes_in_use(m, &gr_table[k]))
                                        printf(" %s", gr_table[k].field);
                if (job == NULL) {
                        job = IMB_FLUSH_JOB(m);
                        printf(" flushed=%d", job ? (int) job->status : -1);
                }
                printf("\n");
                while (IMB_FLUSH_JOB(m) != NULL)
                        ;
                imbh_run_free(r);
        }
        return 0;
}

int
main(int argc, char **argv)
{
        setvbuf(stdout, NULL, _IOFBF, 1 << 20);
        alarm(60); /* a hang inside the library ends the run (SIGALRM) instead of leaving a spinning process behind */
        if (argc >= 2 && !strcmp(argv[1], "resetimg"))
                return mode_resetimg();
        if (argc >= 2 && !strcmp(argv[1], "run"))
                return mode_run(argc, argv);
        if (argc >= 2 && !strcmp(argv[1], "probe"))
                return mode_probe(argc, argv);
        fprintf(stderr, "usage: %s resetimg | run ...\n", argv[0]);
        return 2;
}
