/* K2 (scheduler part): drive the AES-CBC encryption out-of-order managers (aes128/192/256) of a
 * real IMB_MGR with a script of submits/flushes and dump, after every API call, the scheduling
 * state of each manager: unused_lanes, total lanes, lens[] and job_in_lane[] (as job ids), plus
 * the jobs completed by the call.  The extracted Coq scheduler (Mgr/Ooo.v via Mgr/OooSched.v)
 * replays the same operations (ocaml/ooo_driver.ml).
 * usage: k2_ooo <sse|avx2|avx512> <flags> <script>
 * script lines:  S <keybytes 16|24|32> <nblocks> <id>   |   F
 */
#include <stdio.h>
#include <stdlib.h>
#include <string.h>
#include <stdint.h>
#include <intel-ipsec-mb.h>
#include "include/ipsec_ooo_mgr.h"

#define MAXB 64
static IMB_MGR *mgr;
static uint8_t key[32];
static DECLARE_ALIGNED(uint32_t ek[3][15 * 4], 16);
static DECLARE_ALIGNED(uint32_t dk[3][15 * 4], 16);
struct buf {
        uint8_t src[MAXB * 16], dst[MAXB * 16], iv[16];
};
static struct buf bufs[IMB_MAX_JOBS];

static void
dump_mgr(const char *name, const MB_MGR_AES_OOO *o)
{
        printf(" %s:L=%u:u=%llx:inuse=%llu:lens=", name, o->total_num_lanes, (unsigned long long) o->unused_lanes,
               (unsigned long long) o->num_lanes_inuse);
        for (unsigned i = 0; i < o->total_num_lanes; i++)
                printf("%s%u", i ? "," : "", o->lens[i]);
        printf(":jobs=");
        for (unsigned i = 0; i < o->total_num_lanes; i++)
                printf("%s%llu", i ? "," : "",
                       o->job_in_lane[i] ? (unsigned long long) (uintptr_t) o->job_in_lane[i]->user_data : 0ULL);
}

static uint32_t st_before[IMB_MAX_JOBS];

static void
report(const char *op)
{
        printf("%s done=", op);
        int n = 0;
        for (int i = 0; i < IMB_MAX_JOBS; i++)
                if (mgr->jobs[i].status == IMB_STATUS_COMPLETED && st_before[i] != IMB_STATUS_COMPLETED &&
                    mgr->jobs[i].user_data != NULL) {
                        printf("%s%llu/%llu", n ? "," : "", (unsigned long long) (uintptr_t) mgr->jobs[i].user_data,
                               (unsigned long long) mgr->jobs[i].key_len_in_bytes);
                        n++;
                }
        if (!n)
                printf("-");
        dump_mgr("k16", (const MB_MGR_AES_OOO *) mgr->aes128_ooo);
        dump_mgr("k24", (const MB_MGR_AES_OOO *) mgr->aes192_ooo);
        dump_mgr("k32", (const MB_MGR_AES_OOO *) mgr->aes256_ooo);
        printf("\n");
}

int
main(int argc, char **argv)
{
        if (argc < 4)
                return 2;
        mgr = alloc_mb_mgr(strtoull(argv[2], NULL, 0));
        if (!strcmp(argv[1], "sse"))
                init_mb_mgr_sse(mgr);
        else if (!strcmp(argv[1], "avx2"))
                init_mb_mgr_avx2(mgr);
        else
                init_mb_mgr_avx512(mgr);
        if (imb_get_errno(mgr))
                return 2;
        for (int i = 0; i < 32; i++)
                key[i] = (uint8_t) (i * 11 + 3);
        IMB_AES_KEYEXP_128(mgr, key, ek[0], dk[0]);
        IMB_AES_KEYEXP_192(mgr, key, ek[1], dk[1]);
        IMB_AES_KEYEXP_256(mgr, key, ek[2], dk[2]);
        /* forget the self test's jobs */
        for (int i = 0; i < IMB_MAX_JOBS; i++)
                mgr->jobs[i].user_data = NULL;
        FILE *f = fopen(argv[3], "r");
        if (!f)
                return 2;
        char line[256];
        report("I");
        while (fgets(line, sizeof(line), f)) {
                for (int i = 0; i < IMB_MAX_JOBS; i++)
                        st_before[i] = mgr->jobs[i].status;
                if (line[0] == 'S') {
                        unsigned kb, nb;
                        unsigned long long id;
                        if (sscanf(line, "S %u %u %llu", &kb, &nb, &id) != 3)
                                return 2;
                        if (nb < 1)
                                nb = 1;
                        if (nb > MAXB)
                                nb = MAXB;
                        IMB_JOB *j = IMB_GET_NEXT_JOB(mgr);
                        const int slot = (int) (j - mgr->jobs);
                        struct buf *b = &bufs[slot];
                        memset(j, 0, sizeof(*j));
                        for (unsigned i = 0; i < nb * 16; i++)
                                b->src[i] = (uint8_t) (id + i);
                        j->cipher_mode = IMB_CIPHER_CBC;
                        j->cipher_direction = IMB_DIR_ENCRYPT;
                        j->chain_order = IMB_ORDER_CIPHER_HASH;
                        j->hash_alg = IMB_AUTH_NULL;
                        j->src = b->src;
                        j->dst = b->dst;
                        j->iv = b->iv;
                        j->iv_len_in_bytes = 16;
                        j->key_len_in_bytes = kb;
                        j->enc_keys = ek[kb / 8 - 2];
                        j->dec_keys = dk[kb / 8 - 2];
                        j->msg_len_to_cipher_in_bytes = nb * 16;
                        j->user_data = (void *) (uintptr_t) id;
                        st_before[slot] = 0;
                        (void) IMB_SUBMIT_JOB(mgr);
                        char op[64];
                        snprintf(op, sizeof(op), "S %u %u %llu", kb, nb, id);
                        report(op);
                } else if (line[0] == 'F') {
                        /* which manager will be flushed: the one of the earliest pending job */
                        unsigned kb = 0;
                        if (mgr->earliest_job >= 0)
                                kb = (unsigned) ((IMB_JOB *) ((char *) mgr->jobs + mgr->earliest_job))->key_len_in_bytes;
                        (void) IMB_FLUSH_JOB(mgr);
                        char op[64];
                        snprintf(op, sizeof(op), "F %u", kb);
                        report(op);
                }
        }
        fclose(f);
        free_mb_mgr(mgr);
        return 0;
}
