/*
 * k1_algo - C side of the K1 differential correspondence check.
 *
 * Runs every work item of a case file through the real intel-ipsec-mb library
 * on every distinct implementation variant and every API entry point that
 * supports it, and prints one canonical line per (item, variant, entry point).
 * Formats and numeric codes: K1_FORMAT.md.
 */
#define _GNU_SOURCE
#include <stdlib.h>
#include <string.h>
#include <signal.h>
#include <unistd.h>
#include <sys/mman.h>
#include <sys/personality.h>
#include <sys/wait.h>

#include "imbh.h"

#define CRASH_EXIT 42
#define BATCH_SECS 60 /* watchdog per batch */

/* ------------------------------------------------------------------------- */
/* options and global state */

struct opts {
        const char *casefile;
        const char *selftest_file;
        int selftest, list_variants, no_fork, force_invalid;
        int batch;
        int eps[IMBH_NUM_EPS], neps;
        char variants[256]; /* "all" or comma list */
};

/* position of the batch in flight, shared between parent and child */
struct progress {
        volatile int epi;        /* index into opts.eps */
        volatile size_t item;    /* first item of the batch */
        volatile int bn;         /* items in the batch */
        volatile int printed;    /* items of the batch already reported */
        volatile int in_library; /* batch is being executed */
};

static struct opts g_opt;
static imbh_item *g_items;
static size_t g_nitems;
static struct progress *g_prog;
static const imbh_variant *g_cur_var;

typedef void (*emit_fn)(const imbh_run *r, const imbh_variant *v, int ep, size_t idx);

/* ------------------------------------------------------------------------- */
/* case file */

static void
add_item(const char *line)
{
        const char *p = line;

        while (*p == ' ' || *p == '\t')
                p++;
        if (*p == 0 || *p == '#' || *p == '\n' || *p == '\r')
                return;
        g_items = realloc(g_items, (g_nitems + 1) * sizeof(g_items[0]));
        if (g_items == NULL)
                exit(2);
        if (imbh_item_parse(p, &g_items[g_nitems]) != 0)
                fprintf(stderr, "k1_algo: item %zu (id=%ld): %s\n", g_nitems, g_items[g_nitems].id,
                        g_items[g_nitems].err);
        g_nitems++;
}

static int
load_cases(const char *path)
{
        FILE *f = strcmp(path, "-") == 0 ? stdin : fopen(path, "r");
        char *line = NULL;
        size_t cap = 0;

        if (f == NULL) {
                perror(path);
                return -1;
        }
        while (getline(&line, &cap, f) > 0)
                add_item(line);
        free(line);
        if (f != stdin)
                fclose(f);
        return 0;
}

/* ------------------------------------------------------------------------- */
/* crash reporting */

static void
report_crash(const struct progress *pg, const char *var, const int sig)
{
        char buf[160];

        for (int i = pg->printed; i < pg->bn && pg->item + (size_t) i < g_nitems; i++) {
                const int n = snprintf(buf, sizeof(buf), "id=%ld var=%s ep=%d CRASH sig=%d\n",
                                       g_items[pg->item + (size_t) i].id, var,
                                       g_opt.eps[pg->epi], sig);

                if (n > 0 && write(STDOUT_FILENO, buf, (size_t) n) < 0)
                        break;
        }
}

static void
on_fatal_signal(const int sig)
{
        /* stdout was flushed before entering the library: plain write() keeps order */
        report_crash(g_prog, g_cur_var ? g_cur_var->name : "?", sig);
        _exit(CRASH_EXIT);
}

static void
install_handlers(void)
{
        static uint8_t altstack[64 * 1024];
        const int sigs[] = { SIGSEGV, SIGBUS, SIGILL, SIGFPE, SIGABRT, SIGALRM };
        stack_t ss = { .ss_sp = altstack, .ss_size = sizeof(altstack), .ss_flags = 0 };
        struct sigaction sa;

        sigaltstack(&ss, NULL);
        memset(&sa, 0, sizeof(sa));
        sa.sa_handler = on_fatal_signal;
        sa.sa_flags = SA_ONSTACK | SA_RESETHAND;
        sigemptyset(&sa.sa_mask);
        for (size_t i = 0; i < IMB_DIM(sigs); i++)
                sigaction(sigs[i], &sa, NULL);
}

/* ------------------------------------------------------------------------- */
/* running one variant */

/* Does the checked job API accept the item?  Unchecked entry points only get those. */
static int
preflight_valid(IMB_MGR *mgr, const imbh_item *it)
{
        imbh_run *r = imbh_run_new(mgr, it);

        imbh_run_batch(mgr, IMBH_EP_JOB, &r, 1);
        const int ok = r->prep_err == 0 && r->skip == NULL && r->status == IMB_STATUS_COMPLETED;

        imbh_run_free(r);
        return ok;
}

static void
run_variant(const imbh_variant *v, const int start_epi, const size_t start_item, emit_fn emit)
{
        signed char *valid = malloc(g_nitems ? g_nitems : 1);
        imbh_run *runs[IMB_MAX_BURST_SIZE], *act[IMB_MAX_BURST_SIZE];

        memset(valid, -1, g_nitems ? g_nitems : 1);
        g_cur_var = v;
        for (int epi = start_epi; epi < g_opt.neps; epi++) {
                const int ep = g_opt.eps[epi];
                const int guard = imbh_ep_unchecked(ep) && !g_opt.force_invalid;

                for (size_t at = (epi == start_epi ? start_item : 0); at < g_nitems;
                     at += (size_t) g_opt.batch) {
                        const int bn = (int) ((g_nitems - at) < (size_t) g_opt.batch
                                                      ? (g_nitems - at)
                                                      : (size_t) g_opt.batch);
                        int na = 0;

                        g_prog->epi = epi;
                        g_prog->item = at;
                        g_prog->bn = bn;
                        g_prog->printed = 0;
                        g_prog->in_library = 1;
                        alarm(BATCH_SECS);
                        for (int i = 0; i < bn; i++) {
                                const imbh_item *it = &g_items[at + (size_t) i];

                                if (guard && !it->bad && valid[at + (size_t) i] < 0)
                                        valid[at + (size_t) i] =
                                                (signed char) preflight_valid(v->mgr, it);
                                runs[i] = imbh_run_new(v->mgr, it); /* fresh buffers */
                                if (guard && !it->bad && runs[i]->prep_err == 0 &&
                                    !valid[at + (size_t) i])
                                        runs[i]->skip = "invalid";
                                else
                                        act[na++] = runs[i];
                        }
                        imbh_run_batch(v->mgr, ep, act, na);
                        alarm(0);
                        g_prog->in_library = 0;
                        for (int i = 0; i < bn; i++) {
                                emit(runs[i], v, ep, at + (size_t) i);
                                g_prog->printed = i + 1;
                                imbh_run_free(runs[i]);
                        }
                        fflush(stdout);
                }
        }
        free(valid);
}

static void
emit_print(const imbh_run *r, const imbh_variant *v, const int ep, const size_t idx)
{
        imbh_str s = { 0 };

        (void) idx;
        imbh_format_result(&s, r, v->name, ep);
        fputs(s.s, stdout);
        fputc('\n', stdout);
        free(s.s);
}

/* child per variant; a crash costs one batch, the rest continues in a new child */
static void
run_variant_forked(const imbh_variant *v)
{
        int epi = 0;
        size_t item = 0;

        while (epi < g_opt.neps) {
                fflush(stdout);
                fflush(stderr);
                memset(g_prog, 0, sizeof(*g_prog));
                const pid_t pid = fork();

                if (pid < 0) {
                        perror("fork");
                        exit(2);
                }
                if (pid == 0) {
                        install_handlers();
                        run_variant(v, epi, item, emit_print);
                        fflush(stdout);
                        _exit(0);
                }
                int st = 0;

                if (waitpid(pid, &st, 0) < 0) {
                        perror("waitpid");
                        exit(2);
                }
                if (WIFEXITED(st) && WEXITSTATUS(st) == 0)
                        return;
                if (!(WIFEXITED(st) && WEXITSTATUS(st) == CRASH_EXIT)) /* handler did not run */
                        report_crash(g_prog, v->name, WIFSIGNALED(st) ? WTERMSIG(st) : 0);
                fprintf(stderr, "k1_algo: %s ep=%d crashed in batch at item %zu, resuming\n",
                        v->name, g_opt.eps[g_prog->epi], (size_t) g_prog->item);
                epi = g_prog->epi;
                item = g_prog->item + (size_t) (g_prog->bn > 0 ? g_prog->bn : 1);
                if (item >= g_nitems) {
                        epi++;
                        item = 0;
                }
        }
}

/* ------------------------------------------------------------------------- */
/* self test */

/*
 * Built-in vectors copied from the KAT files in /repo/test/kat-app (see the
 * name= label for the origin).  Same syntax as a case file plus the
 * expectations xout/xtag/... described in K1_FORMAT.md.
 */
static const char *const builtin_cases[] = {
        "id=1 name=cbc_hmac_sha1#1 cipher=1 dir=1 hash=1 order=1 "
        "key=2b7e151628aed2a6abf7158809cf4f3c akey=2b7e151628aed2a6abf7158809cf4f3c "
        "iv=000102030405060708090a0b0c0d0e0f aiv=- aad=- "
        "msg=6bc1bee22e409f96e93d7e117393172aae2d8a571e03ac9c9eb76fac45af8e5130c81c46a35ce411"
        "e5fbc1191a0a52eff69f2445df4f9b17ad2b417be66c3710707172 coff=0 clen=64 hoff=0 hlen=64 "
        "tag=20 inplace=1 salign=1 dalign=16 xoff=0 "
        "xout=7649abac8119b246cee98e9b12e9197d5086cb9b507219ee95db113a917678b273bed6b8e3c1743"
        "b7116e69e222295163ff1caa1681fac09120eca307586e1a7 "
        "xtag=df1e5adbe75aabae0b983430e8408bb4db223a89",
        "id=2 name=gcm#13 cipher=5 dir=1 hash=9 order=1 "
        "key=feffe9928665731c6d6a8f9467308308feffe9928665731c6d6a8f9467308308 akey=- "
        "iv=cafebabefacedbaddecaf888 aiv=- aad=feedfacedeadbeeffeedfacedeadbeefabaddad2 "
        "msg=d9313225f88406e5a55909c5aff5269a86a7a9531534f7da2e4c303d8a318a721c3c0c9595680953"
        "2fcf0e2449a6b525b16aedf5aa0de657ba637b39 coff=0 clen=60 hoff=0 hlen=60 tag=4 inplace=1 "
        "salign=63 dalign=7 xoff=0 "
        "xout=522dc1f099567d07f47f37a32a84427d643a8cdcbfe5c0c97598a2bd2555d1aa8cb08e48590dbb3"
        "da7b08b1056828838c5f61e6393ba7a0abcc9f662 xtag=76fc6ece",
        "id=3 name=chacha20_poly1305#1 cipher=19 dir=1 hash=29 order=1 "
        "key=808182838485868788898a8b8c8d8e8f909192939495969798999a9b9c9d9e9f akey=- "
        "iv=070000004041424344454647 aiv=- aad=50515253c0c1c2c3c4c5c6c7 "
        "msg=4c616469657320616e642047656e746c656d656e206f662074686520636c617373206f6620273939"
        "3a204966204920636f756c64206f6666657220796f75206f6e6c79206f6e652074697020666f72207468"
        "65206675747572652c2073756e73637265656e20776f756c642062652069742e coff=0 clen=114 hoff=0 "
        "hlen=114 tag=16 inplace=1 salign=16 dalign=1 xoff=0 "
        "xout=d31a8d34648e60db7b86afbc53ef7ec2a4aded51296e08fea9e2b5a736ee62d63dbea45e8ca9671"
        "282fafb69da92728b1a71de0a9e060b2905d6a5b67ecd3b3692ddbd7f2d778b8c9803aee328091b58fab"
        "324e4fad675945585808b4831d7bc3ff4def08e4b7a9de576d26586cec64b6116 "
        "xtag=1ae10b594f09e26a7e902ecbd0600691",
        "id=4 name=zuc_eea3_128#7 cipher=14 dir=1 hash=8 order=1 "
        "key=ffffffffffffffffffffffffffffffff akey=- iv=ffffffffffffffffffffffffffffffff aiv=- "
        "aad=- msg=000000000000000070717273747576 coff=0 clen=8 hoff=0 hlen=0 tag=0 inplace=1 "
        "salign=16 dalign=1 xoff=0 xout=0657cfa07096398b",
        "id=5 name=des3#1 cipher=10 dir=1 hash=8 order=1 "
        "key=000102030405060708090a0b0c0d0e0f0001020304050607 akey=- iv=0001020304050607 aiv=- "
        "aad=- msg=0000000000000000 coff=0 clen=8 hoff=0 hlen=0 tag=0 inplace=0 salign=33 "
        "dalign=7 xoff=0 xout=df0b6c9c31cd0ce4",
        "id=6 name=sha512#5 cipher=3 dir=1 hash=17 order=1 key=- akey=- iv=- aiv=- aad=- "
        "msg=616263 coff=0 clen=0 hoff=0 hlen=3 tag=64 inplace=0 salign=7 dalign=1 "
        "xtag=ddaf35a193617abacc417349ae20413112e6fa4e89a97ea20a9eeee64b55d39a2192992a274fc1a"
        "836ba3c23a3feebbd454d4423643ce80e2a9ac94fa54ca49f",
        "id=7 name=crc32_ethernet_fcs#15 cipher=3 dir=1 hash=34 order=1 key=- akey=- iv=- aiv=- "
        "aad=- msg=43e2d5538fcb64d030fdfb29d37a557071 coff=0 clen=0 hoff=0 hlen=15 tag=4 "
        "inplace=1 salign=1 dalign=16 xtag=b49cc4dc",
        "id=8 name=cmac_128#9 cipher=3 dir=1 hash=12 order=1 key=- "
        "akey=2b7e151628aed2a6abf7158809cf4f3c iv=- aiv=- aad=- "
        "msg=e0e1e2e3e4e5e6e7e8e9eaebecedeeeff0f1f2f3f4f5f6f7f8f9fafbfcfdfeff coff=0 clen=0 "
        "hoff=32 hlen=0 tag=12 inplace=1 salign=16 dalign=33 xtag=bb1d6929e95937287fa37d12",
        "id=9 name=ccm_128#29 cipher=9 dir=1 hash=11 order=2 key=404142434445464748494a4b4c4d4e4f "
        "akey=- iv=10111213141516 aiv=- aad=0001020304050607 "
        "msg=e0e1e2e3e4e5e6e7e8e9eaebecedeeeff0f1f2f3f4f5f6f7f8f9fafbfcfdfeff20212223 coff=32 "
        "clen=4 hoff=32 hlen=4 tag=6 inplace=1 salign=16 dalign=1 xoff=32 xout=7162015b "
        "xtag=b0c95e58036e",
        "id=10 name=docsis_crc#4 cipher=4 dir=1 hash=21 order=2 "
        "key=00000000aabbccddeeff001122334455 akey=- iv=11111111111111111111111111111111 aiv=- "
        "aad=- msg=0000000000000102030405060605040302010800aaaaaaaaaaaaaaaaaaaaaaffffffff coff=18 "
        "clen=17 hoff=6 hlen=25 tag=4 inplace=1 salign=0 dalign=0 xoff=0 "
        "xout=000000000000010203040506060504030201926ac2dcee3b31ec03de95335efe473e22 "
        "xtag=3f15e1e8",
        "id=11 name=pon#2 cipher=11 dir=1 hash=19 order=2 key=112233445566778899aabbccddeeff00 "
        "akey=- iv=00000000000000040000000000000004 aiv=- aad=- "
        "msg=00402711000029c3010203040506010101010101ffeb56fb coff=8 clen=16 hoff=0 hlen=24 tag=8 "
        "inplace=1 salign=7 dalign=33 xoff=0 "
        "xout=004027110000293cc76282caf66ff5edb7901e02ea38a178 xtag=6ce5c670",
        "id=12 name=snow3g_f8_bitoff#3 cipher=15 dir=1 hash=8 order=1 "
        "key=5acb1d644c0d51204ea5f1451010d852 akey=- iv=fa556b261c000000fa556b261c000000 aiv=- "
        "aad=- msg=015b38883f12167188af493a84280fd07071 coff=7 clen=120 hoff=0 hlen=0 tag=0 "
        "inplace=0 salign=7 dalign=1 xoff=0 xout=01741e626006698ad6a54e92f975808c xbitoff=7 "
        "xbits=120",
        "id=13 name=kasumi_f9#1 cipher=3 dir=1 hash=23 order=1 key=- "
        "akey=2bd6459f82c5b300952c49104881ff48 iv=- aiv=- aad=- "
        "msg=38a6f05605d2ec496b227737296f393c8079353edc87e2e805d2ec49a4f2d8e2 coff=0 clen=0 "
        "hoff=0 hlen=32 tag=4 inplace=1 salign=16 dalign=33 xtag=f63bd72c",
};

struct st_state {
        char ***line; /* [item][variant*IMBH_NUM_EPS + ep] result text after "ep=N " */
        int nvar;
        int pass;     /* 0: record and check vectors, 1: compare with recorded */
        int *fails;   /* per item */
        int *bfails;  /* per item: batched run differs from the single run */
        int *ran;     /* per item: number of results that were not skipped */
        int vidx;
};

static struct st_state g_st;

static void
st_fail(const size_t idx, const imbh_variant *v, const int ep, const char *what)
{
        printf("  FAIL id=%ld %s var=%s ep=%d: %s\n", g_items[idx].id, g_items[idx].name, v->name,
               ep, what);
        g_st.fails[idx]++;
}

static int
bits_equal(const uint8_t *a, const uint8_t *b, const size_t bitoff, const size_t nbits)
{
        for (size_t i = bitoff; i < bitoff + nbits; i++) {
                const unsigned m = 0x80u >> (i & 7);

                if ((a[i >> 3] ^ b[i >> 3]) & m)
                        return 0;
        }
        return 1;
}

static void
emit_selftest(const imbh_run *r, const imbh_variant *v, const int ep, const size_t idx)
{
        const imbh_item *it = r->it;
        imbh_str s = { 0 };
        char **slot = &g_st.line[idx][g_st.vidx * IMBH_NUM_EPS + ep];

        if (r->skip != NULL) {
                /* job and burst API take everything; invalid items skip the unchecked ones */
                if (ep <= IMBH_EP_BURST_NOCHECK &&
                    !(imbh_ep_unchecked(ep) && it->xstatus != IMB_STATUS_COMPLETED))
                        st_fail(idx, v, ep, r->skip);
                return;
        }
        imbh_format_result(&s, r, "*", ep);
        /* keep everything behind "ep=N " so that lines compare across variants and eps */
        const char *body = strstr(s.s, " status=");

        body = body ? body + 1 : s.s;
        if (it->xloose) { /* keep only the defined part of the tag */
                char *t = strstr(s.s, " tag=");

                if (t != NULL && strlen(t + 5) > 2 * it->xtag.n) {
                        char *rest = strchr(t + 5, ' ');

                        memmove(t + 5 + 2 * it->xtag.n, rest, strlen(rest) + 1);
                }
        }
        if (g_st.pass == 1) {
                if (*slot == NULL || strcmp(*slot, body) != 0) {
                        printf("  DIFF id=%ld %s var=%s ep=%d: batched run differs from single run\n",
                               it->id, it->name, v->name, ep);
                        g_st.bfails[idx]++;
                }
                free(s.s);
                return;
        }
        *slot = strdup(body);
        free(s.s);
        body = *slot;
        g_st.ran[idx]++;

        if (r->status != it->xstatus)
                st_fail(idx, v, ep, "unexpected status");
        if (strstr(body, "canary=ok") == NULL)
                st_fail(idx, v, ep, "canary damaged");
        if (it->xstatus != IMB_STATUS_COMPLETED)
                return;
        if (it->xout.n != 0) {
                size_t n;
                const uint8_t *area = imbh_out_area(r, &n);
                const size_t off = it->xoff >= 0 ? (size_t) it->xoff : 0;
                const size_t nbits =
                        it->xbits >= 0 ? (size_t) it->xbits : 8 * it->xout.n - (size_t) it->xbitoff;

                if (off + it->xout.n > n || (size_t) it->xbitoff + nbits > 8 * it->xout.n)
                        st_fail(idx, v, ep, "bad expectation range");
                else if (!bits_equal(area + off, it->xout.p, (size_t) it->xbitoff, nbits))
                        st_fail(idx, v, ep, "output differs from KAT");
        }
        if (it->xtag.n != 0 &&
            (it->xtag.n > r->tag_room || memcmp(r->tag, it->xtag.p, it->xtag.n) != 0))
                st_fail(idx, v, ep, "tag differs from KAT");
}

static int
selftest(const imbh_variant *vars, const int nvar)
{
        int bad = 0, total = 0, bbad = 0;

        for (size_t i = 0; i < IMB_DIM(builtin_cases); i++)
                add_item(builtin_cases[i]);
        if (g_opt.selftest_file != NULL && load_cases(g_opt.selftest_file) != 0)
                return 1;

        g_st.nvar = nvar;
        g_st.line = calloc(g_nitems, sizeof(g_st.line[0]));
        g_st.fails = calloc(g_nitems, sizeof(int));
        g_st.ran = calloc(g_nitems, sizeof(int));
        g_st.bfails = calloc(g_nitems, sizeof(int));
        for (size_t i = 0; i < g_nitems; i++)
                g_st.line[i] = calloc((size_t) nvar * IMBH_NUM_EPS, sizeof(char *));
        g_opt.neps = IMBH_NUM_EPS;
        for (int i = 0; i < IMBH_NUM_EPS; i++)
                g_opt.eps[i] = i;
        install_handlers();

        for (g_st.pass = 0; g_st.pass < 2; g_st.pass++) {
                g_opt.batch = g_st.pass == 0 ? 1 : 16; /* pass 1: shared multi-buffer lanes */
                for (g_st.vidx = 0; g_st.vidx < nvar; g_st.vidx++)
                        run_variant(&vars[g_st.vidx], 0, 0, emit_selftest);
        }

        for (size_t i = 0; i < g_nitems; i++) {
                const char *ref = NULL;

                if (g_items[i].bad) {
                        printf("  FAIL id=%ld: %s\n", g_items[i].id, g_items[i].err);
                        g_st.fails[i]++;
                }
                /* all variants and entry points must agree byte for byte */
                for (int k = 0; k < nvar * IMBH_NUM_EPS; k++) {
                        const char *l = g_st.line[i][k];

                        if (l == NULL)
                                continue;
                        if (ref == NULL)
                                ref = l;
                        else if (strcmp(ref, l) != 0) {
                                printf("  FAIL id=%ld %s: var=%s ep=%d disagrees with var=%s ep=0\n",
                                       g_items[i].id, g_items[i].name,
                                       vars[k / IMBH_NUM_EPS].name, k % IMBH_NUM_EPS,
                                       vars[0].name);
                                g_st.fails[i]++;
                        }
                }
                printf("%s id=%ld %s (%d results)\n", g_st.fails[i] ? "FAIL" : "PASS",
                       g_items[i].id, g_items[i].name, g_st.ran[i]);
                bad += g_st.fails[i] != 0;
                bbad += g_st.bfails[i] != 0;
                total += g_st.ran[i];
        }
        printf("SELFTEST %s: %zu cases, %d variants, %d results, %d failing cases\n",
               bad ? "FAIL" : "PASS", g_nitems, nvar, total, bad);
        /* same items again, 16 per batch, so that jobs really share multi-buffer lanes */
        printf("LANE-SHARING %s: %d cases change their result when batched with other jobs\n",
               bbad ? "FAIL" : "PASS", bbad);
        return (bad != 0) | ((bbad != 0) << 1);
}

/* ------------------------------------------------------------------------- */
/* command line */

static void
usage(void)
{
        fprintf(stderr,
                "usage: k1_algo <casefile|-> [--variants a,b,..|all] [--eps 0,1,..|all]\n"
                "               [--batch N] [--no-fork] [--force-invalid]\n"
                "       k1_algo --list-variants\n"
                "       k1_algo --selftest [casefile-with-expectations]\n");
}

static int
parse_eps(const char *s)
{
        g_opt.neps = 0;
        if (strcmp(s, "all") == 0) {
                for (int i = 0; i < IMBH_NUM_EPS; i++)
                        g_opt.eps[g_opt.neps++] = i;
                return 0;
        }
        while (*s) {
                char *end;
                const long e = strtol(s, &end, 10);

                if (end == s || e < 0 || e >= IMBH_NUM_EPS || g_opt.neps >= IMBH_NUM_EPS)
                        return -1;
                g_opt.eps[g_opt.neps++] = (int) e;
                s = *end == ',' ? end + 1 : end;
                if (*end != ',' && *end != 0)
                        return -1;
        }
        return g_opt.neps ? 0 : -1;
}

static int
name_in_list(const char *list, const char *name)
{
        const size_t n = strlen(name);

        for (const char *p = list; *p;) {
                const char *e = strchr(p, ',');
                const size_t l = e ? (size_t) (e - p) : strlen(p);

                if (l == n && memcmp(p, name, n) == 0)
                        return 1;
                p += l + (e ? 1 : 0);
        }
        return 0;
}

static int
variant_selected(const imbh_variant *v)
{
        if (strcmp(g_opt.variants, "all") == 0 || name_in_list(g_opt.variants, v->name))
                return 1;
        /* an alias selects the variant it is identical to */
        for (const char *p = v->aliases; *p;) {
                const char *e = strchr(p, ',');
                char tmp[32];

                snprintf(tmp, sizeof(tmp), "%.*s", (int) (e ? e - p : (long) strlen(p)), p);
                if (name_in_list(g_opt.variants, tmp))
                        return 1;
                p += strlen(tmp) + (e ? 1 : 0);
        }
        return 0;
}

/*
 * Some library outputs are left-over register contents (see K1_FORMAT.md,
 * "undefined output bytes"); without address space randomisation they at
 * least repeat from run to run.
 */
static void
disable_aslr(char **argv)
{
        const int cur = personality(0xffffffff);

        if (cur == -1 || (cur & ADDR_NO_RANDOMIZE) || getenv("K1_ALGO_NO_REEXEC") != NULL)
                return;
        if (personality((unsigned long) cur | ADDR_NO_RANDOMIZE) == -1)
                return;
        setenv("K1_ALGO_NO_REEXEC", "1", 1);
        execv("/proc/self/exe", argv);
        /* exec failed: carry on with randomisation */
}

int
main(int argc, char **argv)
{
        imbh_variant vars[IMBH_MAX_VARIANTS];

        disable_aslr(argv);

        g_opt.batch = 1;
        strcpy(g_opt.variants, "all");
        parse_eps("all");
        for (int i = 1; i < argc; i++) {
                const char *a = argv[i];

                if (!strcmp(a, "--variants") && i + 1 < argc)
                        snprintf(g_opt.variants, sizeof(g_opt.variants), "%s", argv[++i]);
                else if (!strcmp(a, "--eps") && i + 1 < argc) {
                        if (parse_eps(argv[++i]) != 0) {
                                usage();
                                return 2;
                        }
                } else if (!strcmp(a, "--batch") && i + 1 < argc) {
                        g_opt.batch = atoi(argv[++i]);
                        if (g_opt.batch < 1 || g_opt.batch > IMB_MAX_BURST_SIZE) {
                                fprintf(stderr, "--batch must be 1..%d\n", IMB_MAX_BURST_SIZE);
                                return 2;
                        }
                } else if (!strcmp(a, "--no-fork"))
                        g_opt.no_fork = 1;
                else if (!strcmp(a, "--force-invalid"))
                        g_opt.force_invalid = 1;
                else if (!strcmp(a, "--list-variants"))
                        g_opt.list_variants = 1;
                else if (!strcmp(a, "--selftest")) {
                        g_opt.selftest = 1;
                        if (i + 1 < argc && argv[i + 1][0] != '-')
                                g_opt.selftest_file = argv[++i];
                } else if (a[0] != '-' || !strcmp(a, "-")) {
                        g_opt.casefile = a;
                } else {
                        usage();
                        return 2;
                }
        }

        const int nvar = imbh_enum_variants(vars);

        if (g_opt.list_variants) {
                imbh_print_variants(stdout, vars, nvar);
                return 0;
        }
        imbh_print_variants(stderr, vars, nvar);
        if (nvar == 0) {
                fprintf(stderr, "k1_algo: no usable implementation variant\n");
                return 2;
        }
        g_prog = mmap(NULL, sizeof(*g_prog), PROT_READ | PROT_WRITE, MAP_SHARED | MAP_ANONYMOUS,
                      -1, 0);
        if (g_prog == MAP_FAILED) {
                perror("mmap");
                return 2;
        }
        if (g_opt.selftest)
                return selftest(vars, nvar);
        if (g_opt.casefile == NULL) {
                usage();
                return 2;
        }
        if (load_cases(g_opt.casefile) != 0)
                return 2;

        int any = 0;

        for (int i = 0; i < nvar; i++) {
                if (!variant_selected(&vars[i]))
                        continue;
                any = 1;
                if (g_opt.no_fork) {
                        install_handlers();
                        run_variant(&vars[i], 0, 0, emit_print);
                } else {
                        run_variant_forked(&vars[i]);
                }
        }
        if (!any) {
                fprintf(stderr, "k1_algo: --variants %s selects nothing\n", g_opt.variants);
                return 2;
        }
        return 0;
}
